import Lean.Data.Json
/-!
JSON-lines glue shared by the per-property drivers: one case per input line, one verdict per output
line. This file is glue (parsing/printing); nothing in it is reasoned about.
-/
open Lean

namespace Drv

abbrev R := Except String

def fld (j : Json) (k : String) : R Json := j.getObjVal? k
def fldD (j : Json) (k : String) (d : Json) : Json := (j.getObjVal? k).toOption.getD d
def asNat (j : Json) : R Nat := j.getNat?
def asInt (j : Json) : R Int := j.getInt?
def asStr (j : Json) : R String := j.getStr?
def asBool (j : Json) : R Bool := j.getBool?
def asArr (j : Json) : R (Array Json) := j.getArr?
def natF (j : Json) (k : String) : R Nat := do asNat (← fld j k)
def intF (j : Json) (k : String) : R Int := do asInt (← fld j k)
def strF (j : Json) (k : String) : R String := do asStr (← fld j k)
def boolF (j : Json) (k : String) : R Bool := do asBool (← fld j k)
def arrF (j : Json) (k : String) : R (List Json) := do return (← asArr (← fld j k)).toList
def listOf (f : Json → R α) (j : Json) : R (List α) := do (← asArr j).toList.mapM f
def listF (f : Json → R α) (j : Json) (k : String) : R (List α) := do listOf f (← fld j k)
def optOf (f : Json → R α) (j : Json) : R (Option α) := if j.isNull then pure none else some <$> f j
def optF (f : Json → R α) (j : Json) (k : String) : R (Option α) :=
  match j.getObjVal? k with
  | .ok v => optOf f v
  | .error _ => pure none
def asU64 (j : Json) : R UInt64 := do
  let n ← asNat j
  if n < 2^64 then pure (UInt64.ofNat n) else throw s!"u64 out of range: {n}"

def jInt (i : Int) : Json := Json.num (JsonNumber.fromInt i)
def jNat (n : Nat) : Json := Json.num (JsonNumber.fromNat n)
def jList (f : α → Json) (l : List α) : Json := Json.arr (l.map f).toArray
def jOpt (f : α → Json) : Option α → Json
  | none => Json.null
  | some a => f a
def jOrd : Ordering → Json
  | .lt => jInt (-1)
  | .eq => jInt 0
  | .gt => jInt 1
def ordOf (j : Json) : R Ordering := do
  let i ← asInt j
  if i < 0 then pure .lt else if i = 0 then pure .eq else pure .gt

/-- reads cases from stdin until EOF; `f` returns the fields to report (model / oracle) -/
partial def loop (inp out : IO.FS.Stream) (f : Json → R (List (String × Json))) : IO Unit := do
  let line ← inp.getLine
  if line.isEmpty then return ()
  let t := line.trimAscii.toString
  if t.isEmpty then
    loop inp out f
  else
    let res : Json :=
      match Json.parse t with
      | .error e => Json.mkObj [("id", Json.null), ("error", Json.str s!"parse: {e}")]
      | .ok j =>
        let id := fldD j "id" Json.null
        match f j with
        | .ok kvs => Json.mkObj (("id", id) :: kvs)
        | .error e => Json.mkObj [("id", id), ("error", Json.str e)]
    out.putStrLn res.compress
    loop inp out f

def run (f : Json → R (List (String × Json))) : IO Unit := do
  let inp ← IO.getStdin
  let out ← IO.getStdout
  loop inp out f
  out.flush

end Drv
