import Drv.Common
import VrpModel.C06
/-! JSON glue shared by the evaluator-level drivers (C06, C20, C05, C15): case parsing, result printing. -/
open Lean Drv Route C06

namespace Drv.EvalCase

def parseDem (dims : Nat) (j : Json) : R (Option Dem) := do
  if j.isNull then return none
  let parts ← listOf (listOf asInt) j
  let z := List.replicate dims (0 : Int)
  return some ⟨parts.getD 0 z, parts.getD 1 z, parts.getD 2 z, parts.getD 3 z⟩

def parsePair (j : Json) : R (Int × Int) := do
  let a ← listOf asInt j
  return (a.getD 0 0, a.getD 1 0)

def parsePlace (j : Json) : R JPlace := do
  return { loc := ← natF j "loc", dur := ← intF j "dur", tws := ← listF parsePair j "tws" }

def parseJob (dims : Nat) (j : Json) : R JobS := do
  return { places := ← listF parsePlace j "places", dem := ← parseDem dims (fldD j "dem" Json.null) }

def parseCtx (j : Json) : R Ctx := do
  let n ← natF j "n"
  let cap ← listF asInt j "cap"
  let dims := cap.length
  let vj ← fld j "veh"
  let endJ := fldD vj "end" Json.null
  let endAt ← if endJ.isNull then pure none else do
    let a ← asArr endJ
    let loc ← asNat (a.getD 0 Json.null)
    let t ← asInt (a.getD 1 Json.null)
    pure (some (loc, t))
  let veh : Veh := { startLoc := ← natF vj "start", earliest := ← intF vj "earliest", dep := ← intF vj "dep", endAt := endAt }
  let costs ← listF asInt j "costs"
  let obj ← strF j "obj"
  let tour ← listF (fun a => do
    let act : Act := { loc := ← natF a "loc", s := ← intF a "s", e := ← intF a "e", dur := ← intF a "dur" }
    let dem ← parseDem dims (fldD a "dem" Json.null)
    pure ({ act := act, dem := dem } : TAct)) j "tour"
  return { m := { n := n, dur := ← listF asInt j "dur", dist := ← listF asInt j "dist" }, veh := veh, cap := cap,
           costs := ⟨costs.getD 0 0, costs.getD 1 0, costs.getD 2 0⟩,
           obj := if obj == "cost" then .cost else .distance, tour := tour }

def jFound (j : JobS) : Option Found → Json
  | none => Json.null
  | some f =>
    let p := j.places.getD f.place ⟨0, 0, []⟩
    Json.mkObj [("acts", Json.arr #[Json.mkObj [("dur", jInt p.dur), ("idx", jNat f.index), ("loc", jNat p.loc),
                  ("place", jNat f.place), ("tw", Json.arr #[jInt f.tw.1, jInt f.tw.2])]]),
                ("cost", jList jInt f.cost)]

structure ImplAct where
  idx : Nat
  place : Nat
  loc : Nat
  dur : Int
  tw : Int × Int

def parseImplRes (j : Json) : R (Option (List ImplAct × List Int)) := do
  if j.isNull then return none
  let acts ← listF (fun a => do
    pure ({ idx := ← natF a "idx", place := ← natF a "place", loc := ← natF a "loc", dur := ← intF a "dur",
            tw := ← parsePair (← fld a "tw") } : ImplAct)) j "acts"
  let cost ← listF asInt j "cost"
  return some (acts, cost)

/-- apply the implementation's activities one after another (indices refer to the shadow tour) and
    check the result with the SPEC -/
def appliedFeasible (c : Ctx) (dems : List (Option Dem)) (acts : List ImplAct) : Bool :=
  let step (st : List Act × List Dem) (p : ImplAct × Option Dem) : List Act × List Dem :=
    (insertAt st.1 p.1.idx { loc := p.1.loc, s := p.1.tw.1, e := p.1.tw.2, dur := p.1.dur },
     insertAt st.2 p.1.idx (demOr c.zero p.2))
  let fin := (acts.zip dems).foldl step (c.acts, c.dems)
  tourFeas c.m.t c.veh fin.1 && capOk c.cap fin.2 && decide (acts.length = dems.length)

/-- the reported place/window really belongs to the job -/
def placeMatches (j : JobS) (a : ImplAct) : Bool :=
  match j.places[a.place]? with
  | none => false
  | some p => p.loc == a.loc && p.dur == a.dur && p.tws.any (fun w => w.1 == a.tw.1 && w.2 == a.tw.2)

end Drv.EvalCase
