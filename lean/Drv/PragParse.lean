import Drv.Common
import VrpModel.Spec
/-! JSON glue: `SProblem` (serde form of `harness/src/pragen.rs`) and the simplified solution document. -/
open Lean Drv Prag

namespace Drv.PragParse

def pairOf (j : Json) : R (Int × Int) := do
  let a ← listOf asInt j
  pure (a.getD 0 0, a.getD 1 0)

def optStr (j : Json) (k : String) : R (Option String) := optF asStr j k
def strList (j : Json) (k : String) : R (List String) :=
  match j.getObjVal? k with
  | .ok v => if v.isNull then pure [] else listOf asStr v
  | .error _ => pure []

def parsePlace (j : Json) : R Place := do
  pure { loc := ← natF j "loc", dur := ← intF j "dur", tws := ← listF pairOf j "tws", tag := ← optStr j "tag",
         resource := ← optStr j "resource" }

def parseTask (j : Json) : R Task := do
  pure { kind := ← strF j "kind", places := ← listF parsePlace j "places", demand := ← listF asInt j "demand",
         order := ← optF asInt j "order" }

def parseJob (j : Json) : R Job := do
  pure { id := ← strF j "id", tasks := ← listF parseTask j "tasks", skillsAll := ← strList j "skills_all",
         skillsOne := ← strList j "skills_one", skillsNone := ← strList j "skills_none",
         group := ← optStr j "group", compat := ← optStr j "compat", value := ← optF asInt j "value" }

def parseBreak (j : Json) : R Break := do
  let places ← listF (fun p => do
    pure ({ dur := ← intF p "dur", loc := ← optF asNat p "loc", tag := ← optStr p "tag" } : BreakPlace)) j "places"
  pure { offset := ← boolF j "offset", time := ← pairOf (← fld j "time"), places := places, policy := ← optStr j "policy" }

def parseShift (j : Json) : R Shift := do
  let endAt ← optF (fun e => do
    pure ({ earliest := ← optF asInt e "earliest", latest := ← intF e "latest", loc := ← natF e "loc" } : ShiftEnd)) j "end"
  pure { startEarliest := ← intF j "start_earliest", startLatest := ← optF asInt j "start_latest",
         startLoc := ← natF j "start_loc", endAt := endAt, breaks := ← listF parseBreak j "breaks",
         reloads := ← listF parsePlace j "reloads" }

def parseVehicleType (j : Json) : R VehicleType := do
  pure { typeId := ← strF j "type_id", ids := ← strList j "ids", profile := ← natF j "profile",
         scale := ← optF pairOf j "scale", fixed := ← intF j "fixed", cd := ← intF j "cd", ct := ← intF j "ct",
         shifts := ← listF parseShift j "shifts", capacity := ← listF asInt j "capacity", skills := ← strList j "skills",
         maxDistance := ← optF asInt j "max_distance", maxDuration := ← optF asInt j "max_duration",
         tourSize := ← optF asNat j "tour_size" }

partial def objectiveNames (j : Json) : List String :=
  match j with
  | .arr xs => xs.toList.flatMap objectiveNames
  | .obj _ =>
    let here := match j.getObjVal? "type" with
      | .ok (.str s) => [s]
      | _ => []
    let nested := match j.getObjVal? "objectives" with
      | .ok v => objectiveNames v
      | _ => []
    here ++ nested
  | _ => []

def parseProblem (j : Json) : R Problem := do
  let profiles ← listF (fun p => do
    -- `errorCodes` of the routing matrix: the reader (fleet_reader.rs) stores -1 as duration and distance of a pair whose code is > 0
    let errors ← (match p.getObjVal? "errors" with
      | .ok (.arr a) => a.toList.mapM asInt
      | _ => pure [])
    let mask (l : List Int) : List Int :=
      if errors.isEmpty then l else (l.zip errors).map (fun (v, e) => if e > 0 then -1 else v)
    pure ({ name := ← strF p "name", dur := mask (← listF asInt p "dur"), dist := mask (← listF asInt p "dist") } : Profile)) j "profiles"
  let relations ← listF (fun r => do
    pure ({ kind := ← strF r "kind", jobs := ← strList r "jobs", vehicleId := ← strF r "vehicle_id",
            shiftIndex := ← optF asNat r "shift_index" } : Relation)) j "relations"
  pure { n := ← natF j "n", profiles := profiles, jobs := ← listF parseJob j "jobs",
         vehicles := ← listF parseVehicleType j "vehicles", relations := relations,
         objectives := objectiveNames (fldD j "objectives" Json.null),
         resources := ← (match j.getObjVal? "resources" with
           | .ok (.arr a) => a.toList.mapM (fun r => do
               let pr ← asArr r
               pure ((← asStr pr[0]!), (← listOf asInt pr[1]!)))
           | _ => pure []) }

/-- numbers of the solution document are integers; anything else (`{"f": x}`, `{"bad_time": …}`) is an error that
    the caller reports as "inexact" -/
def parseStat (j : Json) : R Stat := do
  pure ⟨← intF j "cost", ← intF j "distance", ← intF j "duration", ← intF j "driving", ← intF j "serving",
        ← intF j "waiting", ← intF j "break", ← intF j "commuting", ← intF j "parking"⟩

def parseActivity (j : Json) : R Activity := do
  let time ← match j.getObjVal? "start", j.getObjVal? "end" with
    | .ok s, .ok e => do pure (some (← asInt s, ← asInt e))
    | _, _ => pure none
  let leg (c : Json) (k : String) : R (Option CommuteLeg) :=
    match c.getObjVal? k with
    | .ok l => if l.isNull then pure none else do
        pure (some { loc := ← natF l "loc", dist := ← intF l "dist", start := ← intF l "start", stop := ← intF l "end" })
    | .error _ => pure none
  let (fwd, bwd) ← match j.getObjVal? "commute" with
    | .ok c => do pure (← leg c "fwd", ← leg c "bwd")
    | .error _ => pure (none, none)
  pure { jobId := ← strF j "jobId", type := ← strF j "type", tag := ← optStr j "tag", loc := ← optF asNat j "loc", time := time,
         fwd := fwd, bwd := bwd }

def parseStop (j : Json) : R Stop := do
  pure { loc := ← optF asNat j "loc", arrival := ← intF j "arrival", departure := ← intF j "departure",
         distance := ← intF j "distance", load := ← listF asInt j "load", activities := ← listF parseActivity j "activities" }

def parseSolution (j : Json) : R Solution := do
  let tours ← listF (fun t => do
    pure ({ vehicleId := ← strF t "vehicleId", typeId := ← strF t "typeId", shiftIndex := ← natF t "shiftIndex",
            stops := ← listF parseStop t "stops", stat := ← parseStat (← fld t "statistic") } : Tour)) j "tours"
  let unassigned ← listF (fun u => do
    pure ({ jobId := ← strF u "jobId", reasons := ← strList u "reasons" } : Unassigned)) j "unassigned"
  pure { stat := ← parseStat (← fld j "statistic"), tours := tours, unassigned := unassigned }

end Drv.PragParse
