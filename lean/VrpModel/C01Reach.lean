/-!
# Reachability of the legs of a tour (C01)

`ReachableConstraint::evaluate` (vrp-core, `construction/features/reachable.rs`): an activity `target` may be inserted between
`prev` and `next` only if neither the leg `prev → target` nor the leg `target → next` is marked unreachable (a negative entry of the
routing data; the pragmatic reader stores −1 for every pair whose `errorCodes` entry is positive). The routing data are one-way:
`d a b` and `d b a` are unrelated.
-/

namespace VrpModel.C01Reach

/-- no driven leg of the tour (a list of locations, in the order visited) is unreachable -/
def legsOk (d : Nat → Nat → Int) : List Nat → Bool
  | a :: b :: rest => decide (0 ≤ d a b) && legsOk d (b :: rest)
  | _ => true

/-- the constraint: both new legs are reachable, each in the direction driven -/
def accept (d : Nat → Nat → Int) (prev target : Nat) (next : Option Nat) : Bool :=
  decide (0 ≤ d prev target) &&
    match next with
    | none => true
    | some n => decide (0 ≤ d target n)

/-- the constraint with the outgoing leg asked in the wrong direction (seeded change C01-r6) -/
def acceptSwapped (d : Nat → Nat → Int) (prev target : Nat) (next : Option Nat) : Bool :=
  decide (0 ≤ d prev target) &&
    match next with
    | none => true
    | some n => decide (0 ≤ d n target)

end VrpModel.C01Reach
