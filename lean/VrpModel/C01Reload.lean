/-!
# Clean-up of trivial reloads under shared reload resources (C01 / C04, finding S62)

`RouteIntervals::remove_trivial_markers` (vrp-core, `construction/enablers/route_intervals.rs`) drops the reload between two
neighbouring intervals of a tour when `is_obsolete_interval_fn` (`construction/features/reloads.rs`) says that the reload is not
needed. Dropping it moves the static deliveries of the RIGHT interval onto whatever the LEFT interval is loaded from: the depot, a
plain reload, or a reload of a SHARED resource, whose capacity is a rule over all tours together.

The model keeps what this decision looks at: every interval of every tour as (resource of its opener, static delivery loaded at
its opener), one dimension (the implementation asks `can_fit`, i.e. the same comparison in every dimension). `mergeOk` is the
shared-resource clause of the repaired `is_obsolete_interval_fn`; `mergeOkBroken` is what the code before the repair computed
(its state lookup never found a value, so the clause always held).
-/

namespace VrpModel.C01Reload

/-- an interval of a tour: the shared resource its opener draws on (`none`: depot or plain reload) and what is loaded there -/
structure Iv where
  res : Option Nat
  deliv : Int
deriving Repr, DecidableEq

/-- what a list of intervals (all tours of the solution, in any order) draws from resource `r` -/
def drawn (r : Nat) : List Iv → Int
  | [] => 0
  | iv :: rest => (if iv.res = some r then iv.deliv else 0) + drawn r rest

/-- the solution-level rule: no resource is overdrawn -/
def Within (cap : Nat → Int) (ivs : List Iv) : Prop := ∀ r, drawn r ivs ≤ cap r

/-- the intervals after the reload between `a` and `b` is dropped -/
def mergeIv (a b : Iv) : Iv := { res := a.res, deliv := a.deliv + b.deliv }

/-- the repaired clause: what is left of the left opener's resource (capacity minus everything drawn by all tours) takes the
deliveries that move -/
def mergeOk (cap : Nat → Int) (all : List Iv) (a b : Iv) : Bool :=
  match a.res with
  | none => true
  | some r => decide (b.deliv ≤ cap r - drawn r all)

/-- the clause as it behaved before the repair -/
def mergeOkBroken (_cap : Nat → Int) (_all : List Iv) (_a _b : Iv) : Bool := true

/-- the clause as the repaired code evaluates it: `stale` is the tour's flag, `avail` the amount stored for the left opener by the
last solution-level pass (`none`: nothing stored). While the tour is stale nothing may move onto a shared resource; otherwise
the stored amount decides, and a missing amount does not object (`is_none_or`) -/
def clause (stale : Bool) (avail : Option Int) (a b : Iv) : Bool :=
  match a.res with
  | none => true
  | some _ => if stale then decide (b.deliv ≤ 0) else
      match avail with
      | none => true
      | some v => decide (b.deliv ≤ v)

end VrpModel.C01Reload
