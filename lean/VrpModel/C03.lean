import VrpModel.Route
/-!
# C03 — model of the statistic fold of the solution writer

Mirrors the `Leg` fold of `vrp-pragmatic/src/format/solution/solution_writer.rs::create_tour` on the fragment
without commute/parking (vicinity clustering) and reserved times: per activity the writer adds driving,
waiting, serving (or break) time, the leg distance, `departure - previous departure` to the duration and
`transport cost + activity cost + waiting cost` to the cost; the vehicle's fixed cost is added at the end.
Time cost coefficients are equal (`ct`), as the pragmatic format maps them.
-/
namespace C03
open Route

structure WAct where
  act : Act
  isBreak : Bool
deriving Repr

structure WStat where
  cost : Int
  distance : Int
  duration : Int
  driving : Int
  serving : Int
  waiting : Int
  breakT : Int
deriving Repr, BEq

def WStat.zero : WStat := ⟨0, 0, 0, 0, 0, 0, 0⟩

/-- the writer's fold over the activities after the start (job activities, breaks, arrival) -/
def foldLeg (t d : Nat → Nat → Int) (cd ct : Int) : Nat → Int → WStat → List WAct → WStat
  | _, _, st, [] => st
  | l, dep, st, a :: rest =>
    let driving := t l a.act.loc
    let arr := dep + driving
    let start := max arr a.act.s
    let waiting := start - arr
    let serving := a.act.dur
    let dep' := start + serving
    let total := serving * ct + (d l a.act.loc * cd + driving * ct) + waiting * ct
    foldLeg t d cd ct a.act.loc dep'
      { cost := st.cost + total, distance := st.distance + d l a.act.loc, duration := st.duration + (dep' - dep),
        driving := st.driving + driving, serving := st.serving + (if a.isBreak then 0 else serving),
        waiting := st.waiting + waiting, breakT := st.breakT + (if a.isBreak then serving else 0) } rest

/-- statistic of a whole tour: fold from the start, then the fixed cost -/
def tourStat (t d : Nat → Nat → Int) (fixed cd ct : Int) (startLoc : Nat) (dep : Int) (acts : List WAct) : WStat :=
  let st := foldLeg t d cd ct startLoc dep WStat.zero acts
  { st with cost := st.cost + fixed }

def addStat (a b : WStat) : WStat :=
  ⟨a.cost + b.cost, a.distance + b.distance, a.duration + b.duration, a.driving + b.driving, a.serving + b.serving,
   a.waiting + b.waiting, a.breakT + b.breakT⟩

end C03
