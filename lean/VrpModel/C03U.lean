import VrpModel.Generated.C03Reasons
/-!
# C03 / C02 — model of `create_unassigned` and `create_violations` (solution_writer.rs)

What the writer lists for the jobs the solver left out: plan jobs (jobs without a vehicle id) with their reasons - one simple
reason, or the detailed codes grouped per code with the vehicle shifts sorted -, and a break violation for every unassigned break.
The code -> reason table is GENERATED from the source (translator T7, `Generated/C03Reasons.lean`). The grouping of detailed
codes goes through a hash map in the code: the order of the reasons of one job is not defined, both sides are compared sorted.
-/
namespace C03U
open C03.Reasons

def reasonOf (code : Nat) : String × String :=
  match codeReason.find? (fun x => x.1 == code) with
  | some x => x.2
  | none => defaultReason

/-- `map_reason_code`; `none` = `ViolationCode::unknown()` -/
def codeOf (reason : String) : Option Nat := (reasonCode.find? (fun x => x.1 == reason)).map (·.2)

inductive UInfo where
  | unknown
  | simple (code : Nat)
  | detailed (l : List (String × Nat × Nat))     -- vehicle id, shift index, code
deriving Repr

structure UJob where
  jobId : String
  vehicleId : Option String
  shiftIndex : Option Nat
  type : Option String
  info : UInfo
deriving Repr

structure UReason where
  code : String
  description : String
  details : Option (List (String × Nat))
deriving Repr, BEq, DecidableEq

structure UEntry where
  jobId : String
  reasons : List UReason
deriving Repr, BEq

def simpleReason (code : Nat) : UReason := { code := (reasonOf code).1, description := (reasonOf code).2, details := none }

def pairLe (a b : String × Nat) : Bool := a.1 < b.1 || (a.1 == b.1 && a.2 ≤ b.2)

def insertSorted {α : Type} (le : α → α → Bool) (x : α) : List α → List α
  | [] => [x]
  | y :: r => if le x y then x :: y :: r else y :: insertSorted le x r

def sortBy {α : Type} (le : α → α → Bool) (l : List α) : List α := l.foldr (insertSorted le) []

/-- distinct codes of the details, in order of first appearance -/
def codesOf (l : List (String × Nat × Nat)) : List Nat := (l.map (·.2.2)).eraseDups

def detailedReasons (l : List (String × Nat × Nat)) : List UReason :=
  let rs := (codesOf l).map (fun c =>
    ({ code := (reasonOf c).1, description := (reasonOf c).2,
       details := some (sortBy pairLe ((l.filter (fun x => x.2.2 == c)).map (fun x => (x.1, x.2.1)))) } : UReason))
  sortBy (fun a b => a.code ≤ b.code) rs

def reasonsOf : UInfo → List UReason
  | .simple c => [simpleReason c]
  | .detailed l => if l.isEmpty then [simpleReason 0] else detailedReasons l
  | .unknown => [simpleReason 0]

/-- `create_unassigned`: plan jobs only (vehicle-bound jobs - breaks, reloads - are not listed here) -/
def createUnassigned (us : List UJob) : List UEntry :=
  (us.filter (fun u => u.vehicleId.isNone)).map (fun u => { jobId := u.jobId, reasons := reasonsOf u.info })

/-- `create_violations`: one break violation per unassigned break -/
def createViolations (us : List UJob) : List (String × Nat) :=
  (us.filter (fun u => u.type == some "break")).map (fun u => (u.vehicleId.getD "", u.shiftIndex.getD 0))

end C03U
