/-!
# C03 — model of the pragmatic solution writer `create_tour`

Mirrors `vrp-pragmatic/src/format/solution/solution_writer.rs::create_tour` (the fold over the route intervals and,
inside it, over the activities: stops, activities, times, loads, cumulative distance, statistic; the trailing pass that
removes redundant activity details) on routes without commute (vicinity clustering) and without reserved times
(required breaks). Input = a dump of the core route through the public API (`harness/src/bin/c03w.rs`): per activity its
location, schedule, place window start / duration / index, job type, ids, place tags, demand, and the leg (duration,
distance) the transport cost provider reports from the previous activity. Output = the tour in the integer form of
`pragen::simplify_solution`.

* `get_route_intervals(route, is_reload)` cuts the activity list in front of every reload marker (the marker OPENS the
  next interval; the `is_marker && is_last` special case yields the same cut): `cutBefore`.
* `MultiDimLoad`: a list of the `size` used dimensions; `+`/`-` work on the longer of the two sizes; `as_vec` of an empty
  load is `[0]`.
-/
namespace C03W

/-! ## loads -/

abbrev Load := List Int

def ladd : Load → Load → Load
  | [], b => b
  | a, [] => a
  | x :: a, y :: b => (x + y) :: ladd a b

def lneg (a : Load) : Load := a.map (fun x => -x)
def lsub (a b : Load) : Load := ladd a (lneg b)
def asVec (l : Load) : List Int := if l.isEmpty then [0] else l

/-! ## input: the dumped route -/

structure Dem where
  d0 : Load          -- delivery.0 (static)
  d1 : Load          -- delivery.1 (dynamic)
  p0 : Load          -- pickup.0 (static)
  p1 : Load          -- pickup.1 (dynamic)
deriving Repr

def Dem.zero : Dem := ⟨[], [], [], []⟩

/-- `get_capacity`: a one-dimensional demand (`SingleDimLoad`) becomes an empty load when zero, a one-element load otherwise -/
def capOfSingle (v : Int) : Load := if v == 0 then [] else [v]
def Dem.ofSingle (d0 d1 p0 p1 : Int) : Dem := ⟨capOfSingle d0, capOfSingle d1, capOfSingle p0, capOfSingle p1⟩

structure RAct where
  loc : Nat
  arr : Int
  dep : Int
  tws : Int
  dur : Int
  placeIdx : Nat
  type : Option String        -- job type dimension; none for the terminals
  jobId : Option String       -- the single's own id
  rootId : Option String      -- id of the multi job it belongs to
  tags : List (Nat × String)
  dem : Option Dem
  legDur : Int
  legDist : Int
deriving Repr

structure Veh where
  fixed : Int
  cd : Int
  ct : Int
  cw : Int
  cs : Int
deriving Repr

/-! ## output: the written tour -/

structure WActivity where
  jobId : String
  type : String
  loc : Option Nat
  time : Option (Int × Int)
  tag : Option String
deriving Repr, BEq

structure WStop where
  loc : Nat
  arrival : Int
  departure : Int
  distance : Int
  load : List Int
  activities : List WActivity
deriving Repr, BEq

structure WStat where
  cost : Int
  distance : Int
  duration : Int
  driving : Int
  serving : Int
  waiting : Int
  breakT : Int
deriving Repr, BEq

def WStat.zero : WStat := ⟨0, 0, 0, 0, 0, 0, 0⟩

structure WTour where
  stops : List WStop
  stat : WStat
deriving Repr, BEq

/-! ## route intervals -/

def isReload (a : RAct) : Bool := a.type == some "reload"

/-- cut in front of every element satisfying `p` (an element that would open an empty first segment stays) -/
def cutGo {α : Type} (p : α → Bool) : List α → List α → List (List α)
  | [], cur => [cur.reverse]
  | a :: rest, cur => if p a && !cur.isEmpty then cur.reverse :: cutGo p rest [a] else cutGo p rest (a :: cur)

def cutBefore {α : Type} (p : α → Bool) (l : List α) : List (List α) := cutGo p l []

/-! ## the fold -/

/-- the `Leg` accumulator together with the stops pushed so far: `done` are the closed stops, `cur` is the last stop
    (the one the writer keeps mutating through `tour.stops.get_mut(last)`) -/
structure St where
  done : List WStop
  cur : WStop
  lastLoc : Nat
  lastDep : Int
  load : Load
  stat : WStat
deriving Repr

def St.stops (s : St) : List WStop := s.done ++ [s.cur]

def demOf (a : RAct) : Dem := a.dem.getD Dem.zero

def isJobType (t : String) : Bool := t == "pickup" || t == "delivery" || t == "replacement" || t == "service"

def actType (a : RAct) : String := a.type.getD "arrival"

def actJobId (a : RAct) : String :=
  let t := actType a
  if isJobType t then (match a.jobId with | some i => i | none => a.rootId.getD "") else t

def actTag (a : RAct) : Option String := (a.tags.find? (fun x => x.1 == a.placeIdx)).map (·.2)

/-- `calculate_load` -/
def calcLoad (cur : Load) (a : RAct) : Load :=
  let d := demOf a
  ladd (ladd (lsub (lsub cur d.d0) d.d1) d.p0) d.p1

/-- one activity of the inner fold -/
def stepAct (v : Veh) (s : St) (a : RAct) : St :=
  let prevLoad : Load := if a.type.isSome then s.load else List.replicate s.load.length 0
  let isBreak := actType a == "break"
  let serviceStart := max a.arr a.tws
  let waiting := serviceStart - a.arr
  let serving := a.dur
  let serviceEnd := serviceStart + serving
  let totalCost := serving * v.cs + (a.legDist * v.cd + a.legDur * v.ct) + waiting * v.cw
  let distance := s.stat.distance + a.legDist
  let isNewStop := s.lastLoc != a.loc
  let (done, cur) : List WStop × WStop :=
    if isNewStop then
      (s.done ++ [s.cur], { loc := a.loc, arrival := a.arr, departure := a.dep, distance := distance, load := asVec prevLoad, activities := [] })
    else (s.done, s.cur)
  let load := calcLoad prevLoad a
  let cur' : WStop :=
    { cur with departure := a.dep, load := asVec load,
               activities := cur.activities ++ [{ jobId := actJobId a, type := actType a, loc := some a.loc,
                                                   time := some (serviceStart, serviceEnd), tag := actTag a }] }
  { done := done, cur := cur', lastLoc := a.loc, lastDep := a.dep, load := load,
    stat := { cost := s.stat.cost + totalCost, distance := distance, duration := s.stat.duration + (a.dep - s.lastDep),
              driving := s.stat.driving + a.legDur, serving := s.stat.serving + (if isBreak then 0 else serving),
              waiting := s.stat.waiting + waiting, breakT := s.stat.breakT + (if isBreak then serving else 0) } }

def sumD0 (seg : List RAct) (init : Load) : Load := seg.foldl (fun acc a => ladd acc (demOf a).d0) init
def sumP0 (seg : List RAct) : Load := seg.foldl (fun acc a => ladd acc (demOf a).p0) []

/-- one later interval (it begins with its reload marker): deliveries of the interval are on board from its start, its
    static pickups leave the vehicle at its end -/
def stepSeg (v : Veh) (s : St) (seg : List RAct) : St :=
  let s1 := seg.foldl (stepAct v) { s with load := sumD0 seg s.load }
  { s1 with load := lsub s1.load (sumP0 seg) }

/-- the departure stop and the state the fold starts from; `seg` is the first interval WITHOUT the start activity -/
def initSt (start : RAct) (next : Option RAct) (seg : List RAct) : St :=
  let startDelivery := sumD0 (start :: seg) []
  let same := match next with | some n => start.loc == n.loc | none => false
  { done := [],
    cur := { loc := start.loc, arrival := start.arr, departure := start.dep, distance := 0, load := asVec startDelivery,
             activities := [{ jobId := "departure", type := "departure", loc := none,
                              time := if same then some (start.arr, start.dep) else none, tag := none }] },
    lastLoc := start.loc, lastDep := start.dep, load := startDelivery, stat := WStat.zero }

/-- "remove redundant info from single activity on the stop" -/
def tidyStop (s : WStop) : WStop :=
  match s.activities with
  | [a] =>
    let sameSchedule := match a.time with | none => true | some t => s.arrival == t.1
    let sameLoc := match a.loc with | none => true | some l => l == s.loc
    { s with activities := [{ a with time := if sameSchedule then none else a.time, loc := if sameLoc then none else a.loc }] }
  | _ => s

/-- state after the whole fold (before the fixed cost and the tidy pass) -/
def foldRoute (v : Veh) (acts : List RAct) : Option St :=
  match acts with
  | [] => none
  | start :: rest =>
    match cutBefore isReload (start :: rest) with
    | [] => none
    | first :: later =>
      let seg0 := first.drop 1
      let s0 := initSt start rest.head? seg0
      let s1 := seg0.foldl (stepAct v) s0
      let s1 := { s1 with load := lsub s1.load (sumP0 first) }
      some (later.foldl (stepSeg v) s1)

def writeTour (v : Veh) (acts : List RAct) : Option WTour :=
  (foldRoute v acts).map fun s =>
    { stops := s.stops.map tidyStop, stat := { s.stat with cost := s.stat.cost + v.fixed } }

/-! ## decidable side conditions the theorems use (evaluated by the driver on every dumped route) -/

/-- the route's schedule is the one the legs and places imply: arrival = previous departure + leg duration,
    departure = max(arrival, window start) + duration (what `update_route_schedule` establishes without reserved times and
    without a departure shift of later activities) -/
def schedOkFrom : Int → List RAct → Bool
  | _, [] => true
  | dep, a :: rest => a.arr == dep + a.legDur && a.dep == max a.arr a.tws + a.dur && schedOkFrom a.dep rest

def schedOk : List RAct → Bool
  | [] => true
  | start :: rest => schedOkFrom start.dep rest

/-- a leg between two activities at one location has no length (zero diagonal of the distance matrix) -/
def selfLegsZeroFrom : Nat → List RAct → Bool
  | _, [] => true
  | l, a :: rest => (l != a.loc || a.legDist == 0) && selfLegsZeroFrom a.loc rest

def selfLegsZero : List RAct → Bool
  | [] => true
  | start :: rest => selfLegsZeroFrom start.loc rest

/-- the pragmatic format maps all time costs of a vehicle to one coefficient -/
def uniformTimeCost (v : Veh) : Bool := v.cw == v.ct && v.cs == v.ct

/-! ## independent specification of a written tour (evaluated by the driver on the IMPLEMENTATION's tour) -/

def sumLegDist (acts : List RAct) : Int := (acts.drop 1).foldl (fun acc a => acc + a.legDist) 0
def sumLegDur (acts : List RAct) : Int := (acts.drop 1).foldl (fun acc a => acc + a.legDur) 0
def sumServing (acts : List RAct) : Int := (acts.drop 1).foldl (fun acc a => acc + (if actType a == "break" then 0 else a.dur)) 0
def sumBreak (acts : List RAct) : Int := (acts.drop 1).foldl (fun acc a => acc + (if actType a == "break" then a.dur else 0)) 0
def sumWaiting (acts : List RAct) : Int := (acts.drop 1).foldl (fun acc a => acc + (max a.arr a.tws - a.arr)) 0

/-- expected (job id, type) of the written activities, in visiting order -/
def expectedActs (acts : List RAct) : List (String × String) :=
  match acts with
  | [] => []
  | _ :: rest => ("departure", "departure") :: rest.map (fun a => (actJobId a, actType a))

def spanOf (acts : List RAct) : Int :=
  match acts.head?, acts.getLast? with
  | some a, some b => b.dep - a.dep
  | _, _ => 0

/-- what a reader of the document can rely on (violated clauses are returned by name) -/
def specTour (v : Veh) (acts : List RAct) (t : WTour) : List String :=
  let flat := t.stops.flatMap (fun s => s.activities.map (fun a => (a.jobId, a.type)))
  let c1 := if flat == expectedActs acts then [] else ["activities are not the route's activities in visiting order"]
  let c2 := if t.stat.duration == spanOf acts then [] else ["duration is not last departure - first departure"]
  let c3 := if t.stat.distance == sumLegDist acts then [] else ["distance is not the sum of the legs"]
  let c4 := if !selfLegsZero acts || (t.stops.getLast?.map (·.distance)) == some t.stat.distance then [] else ["last stop distance is not the tour distance"]
  let c5 := if t.stat.driving == sumLegDur acts && t.stat.serving == sumServing acts && t.stat.breakT == sumBreak acts
               && t.stat.waiting == sumWaiting acts then [] else ["timing entries are not the sums over the activities"]
  let c6 := if !schedOk acts || t.stat.driving + t.stat.serving + t.stat.waiting + t.stat.breakT == t.stat.duration then []
            else ["driving+serving+waiting+break does not add up to duration"]
  let c7 := if !(schedOk acts && uniformTimeCost v) || t.stat.cost == v.fixed + t.stat.distance * v.cd + t.stat.duration * v.ct then []
            else ["cost is not fixed + distance*cd + duration*ct"]
  let c8 := if (t.stops.zip (t.stops.drop 1)).all (fun (a, b) => a.loc != b.loc) then [] else ["two consecutive stops at one location"]
  let c9 := if t.stops.all (fun s => !s.activities.isEmpty) then [] else ["a stop without activities"]
  c1 ++ c2 ++ c3 ++ c4 ++ c5 ++ c6 ++ c7 ++ c8 ++ c9

/-! ## reserved times written as breaks: model of `break_writer.rs::insert_reserved_times_as_breaks` / `insert_break`

Runs between the fold and the tidy pass. Stops may now be transit stops (no location, no distance). Time windows are pairs. -/

structure XStop where
  loc : Option Nat
  arrival : Int
  departure : Int
  distance : Option Int
  load : List Int
  activities : List WActivity
deriving Repr, BEq

structure XTour where
  stops : List XStop
  stat : WStat
deriving Repr, BEq

/-- a reserved time span of the vehicle: an exact window or an offset from the tour's departure, and the break's duration -/
structure Reserved where
  offset : Bool
  start : Int
  stop : Int
  dur : Int
deriving Repr

abbrev TW := Int × Int

def twIntersects (a b : TW) : Bool := decide (a.1 ≤ b.2) && decide (b.1 ≤ a.2)
def twIntersectsX (a b : TW) : Bool := decide (a.1 < b.2) && decide (b.1 < a.2)
def twOverlap (a b : TW) : Option TW := if twIntersects a b then some (max a.1 b.1, min a.2 b.2) else none

def WStop.toX (s : WStop) : XStop :=
  { loc := some s.loc, arrival := s.arrival, departure := s.departure, distance := some s.distance, load := s.load, activities := s.activities }

/-- stable insertion by the writer's comparator: activities without a time first, then by start time -/
def timeLt (a b : WActivity) : Bool :=
  match a.time, b.time with
  | some x, some y => decide (x.1 < y.1)
  | some _, none => false
  | none, some _ => true
  | none, none => false

/-- `x` stood in front of the (sorted) rest: it stays in front of everything that is not strictly smaller -/
def insertByTime (x : WActivity) : List WActivity → List WActivity
  | [] => [x]
  | y :: r => if timeLt y x then y :: insertByTime x r else x :: y :: r

/-- `sort_by` (stable): insertion from the right keeps equal elements in order -/
def sortByTime (l : List WActivity) : List WActivity := l.foldr insertByTime []

def insertAt {α : Type} (l : List α) (i : Nat) (x : α) : List α := l.take i ++ x :: l.drop i

def breakActivity (tw : TW) : WActivity := { jobId := "break", type := "break", loc := none, time := some tw, tag := none }

/-- an activity that overlaps the reserved time ends later: by what is left of the break after the overlap plus the overlap -/
def stretch (rtw : TW) (a : WActivity) : WActivity :=
  match a.time with
  | some t =>
    (match twOverlap t rtw with
     | some o => { a with time := some (t.1, t.2 + (rtw.2 - o.2 + (o.2 - o.1))) }
     | none => a)
  | none => a

/-- `insert_break` for one stop; `moved` = the `TransitBreakMoved` information (leg index, shifted break window) -/
def insertBreak (v : Veh) (moved : Option (Nat × TW)) (rtw : TW) (ov : Int) (breakTime : Int) (idx : Nat)
    (stop : XStop) (stat : WStat) : XStop × WStat :=
  let stopTw : TW := (stop.arrival, stop.departure)
  let breakIdx := match stop.activities.zipIdx.find? (fun x => twIntersects (x.1.time.getD stopTw) rtw) with
    | some (_, k) => k + 1
    | none => stop.activities.length
  let movedHere : Option TW := match moved with
    | some (leg, tw) => if leg == idx then some tw else none
    | none => none
  let breakCost := breakTime * v.cs
  let stat1 : WStat := match stop.loc with
    | some _ =>
      if movedHere.isSome || breakTime == 0 then { stat with cost := stat.cost + breakCost }
      else { stat with cost := stat.cost + (breakCost - ov * v.cs), waiting := stat.waiting - ov }
    | none => { stat with driving := stat.driving - breakTime }
  let (activityTime, stat2) : TW × WStat := match movedHere with
    | some tw => (tw, { stat1 with cost := stat1.cost - breakCost, driving := stat1.driving - breakTime })
    | none => (rtw, stat1)
  let acts1 := insertAt stop.activities breakIdx (breakActivity activityTime)
  let acts2 := acts1.zipIdx.map (fun x => if x.2 == breakIdx then x.1 else stretch rtw x.1)
  ({ stop with activities := sortByTime acts2 }, stat2)

/-- how much of the reserved time falls into the waiting window of an activity -/
def ovOf (rtw : TW) (a : RAct) : Int :=
  match twOverlap (a.arr, a.tws) rtw with
  | some o => o.2 - o.1
  | none => 0

def waitingOverlap (acts : List RAct) (rtw : TW) (dur : Int) : Int :=
  min ((acts.filter (fun a => decide (a.arr < a.tws))).foldl (fun acc a => acc + ovOf rtw a) 0) dur

/-- what the scan over the legs finds: `inl` = break moved to the end of the previous stop, `inr` = transit stop needed -/
def findLeg (stops : List XStop) (rstart : Int) (rtw : TW) : Option (Sum (Nat × TW) (Nat × List Int)) :=
  ((stops.zip (stops.drop 1)).zipIdx).findSome? (fun x =>
    let travel : TW := (x.1.1.departure, x.1.2.arrival)
    if twIntersectsX travel rtw then
      some (if rstart < travel.1 then Sum.inl (x.2, (travel.1 - (rtw.2 - rtw.1), travel.1)) else Sum.inr (x.2, x.1.1.load))
    else none)

/-- the stops after the scan over the legs: a transit stop is inserted when the break is taken on the way -/
def reservedStops (stops : List XStop) (rs : Int) (rtw : TW) : List XStop :=
  match findLeg stops rs rtw with
  | some (Sum.inr (i, load)) =>
    insertAt stops (i + 1) { loc := none, arrival := rtw.1, departure := rtw.2, distance := none, load := load, activities := [] }
  | _ => stops

/-- the break is moved in front of a leg (to the end of the previous stop) -/
def reservedMoved (stops : List XStop) (rs : Int) (rtw : TW) : Option (Nat × TW) :=
  match findLeg stops rs rtw with
  | some (Sum.inl m) => some m
  | _ => none

/-- one reserved time, already resolved to its window `rtw` (latest start .. latest start + duration) and earliest start `rs` -/
def insertReservedAt (v : Veh) (acts : List RAct) (shift : TW) (t : XTour) (rs : Int) (rtw : TW) (dur : Int) : XTour :=
  if !twIntersectsX shift rtw then t else
  let stops1 := reservedStops t.stops rs rtw
  let moved := reservedMoved t.stops rs rtw
  let ov := waitingOverlap acts rtw dur
  let res := stops1.zipIdx.foldl (fun (acc : List XStop × WStat) x =>
    if twIntersectsX (x.1.arrival, x.1.departure) rtw then
      let (s', st') := insertBreak v moved rtw ov dur x.2 x.1 acc.2
      (acc.1 ++ [s'], st')
    else (acc.1 ++ [x.1], acc.2)) ([], t.stat)
  { stops := res.1, stat := { res.2 with breakT := res.2.breakT + dur } }

def insertOneReserved (v : Veh) (acts : List RAct) (shift : TW) (t : XTour) (r : Reserved) : XTour :=
  let rs := if r.offset then shift.1 + r.start else r.start
  let re := if r.offset then shift.1 + r.stop else r.stop
  insertReservedAt v acts shift t rs (re, re + r.dur) r.dur

def insertBreaks (v : Veh) (acts : List RAct) (openEnd : Bool) (rs : List Reserved) (t : XTour) : XTour :=
  match acts.head?, acts.getLast? with
  | some st, some en =>
    let shift : TW := (st.dep, if openEnd then en.dep else en.arr)
    rs.foldl (insertOneReserved v acts shift) t
  | _, _ => t

def tidyX (s : XStop) : XStop :=
  match s.activities with
  | [a] =>
    let sameSchedule := match a.time with | none => true | some t => s.arrival == t.1
    let sameLoc := match a.loc, s.loc with | some l, some sl => l == sl | _, _ => true
    { s with activities := [{ a with time := if sameSchedule then none else a.time, loc := if sameLoc then none else a.loc }] }
  | _ => s

/-- `create_tour` with reserved times: fold, fixed cost, breaks, tidy -/
def writeTourX (v : Veh) (acts : List RAct) (openEnd : Bool) (rs : List Reserved) : Option XTour :=
  (foldRoute v acts).map fun s =>
    let t0 : XTour := { stops := s.stops.map WStop.toX, stat := { s.stat with cost := s.stat.cost + v.fixed } }
    let t1 := insertBreaks v acts openEnd rs t0
    { t1 with stops := t1.stops.map tidyX }

/-! ## vicinity clustering: `create_tour` with commute and parking (model only, tied by correspondence)

The activities of an expanded cluster carry a commute (how the vehicle's crew walked from / back to the parking place). The
fold is the same, with the commute branches of the writer: no driving to an activity reached by commuting, parking time at the
first activity of a cluster, commuting time in the statistic, stops that stay open while the crew walks. -/

structure CInfo where
  loc : Nat
  dist : Int
  dur : Int
deriving Repr

structure CAct where
  a : RAct
  commute : Option (CInfo × CInfo)      -- forward, backward
  /-- the leg (duration, distance) the transport provider reports to this activity from every location visited before -/
  legsFrom : List (Nat × Int × Int) := []
deriving Repr

structure CActivity where
  act : WActivity
  hasCommute : Bool := false
  fwd : Option (Nat × Int × Int × Int)  -- other end, distance, start, end
  bwd : Option (Nat × Int × Int × Int)
deriving Repr, BEq

structure CStop where
  loc : Nat
  arrival : Int
  departure : Int
  distance : Int
  load : List Int
  parking : Option (Int × Int)
  activities : List CActivity
deriving Repr, BEq

structure CStat where
  s : WStat
  commuting : Int
  parking : Int
deriving Repr, BEq

structure CSt where
  done : List CStop
  cur : CStop
  lastLoc : Nat
  lastDep : Int
  load : Load
  stat : CStat
deriving Repr

def CSt.stops (s : CSt) : List CStop := s.done ++ [s.cur]

def cinfoZero (c : CInfo) : Bool := c.dist == 0

def stepActC (v : Veh) (parkingCfg : Int) (s : CSt) (c : CAct) : CSt :=
  let a := c.a
  let prevLoad : Load := if a.type.isSome then s.load else List.replicate s.load.length 0
  let isBreak := actType a == "break"
  let fwd : CInfo := (c.commute.map (·.1)).getD ⟨0, 0, 0⟩
  let bwd : CInfo := (c.commute.map (·.2)).getD ⟨0, 0, 0⟩
  let zeroDist := cinfoZero fwd && cinfoZero bwd
  let commuting := fwd.dur + bwd.dur
  -- the leg from where the VEHICLE is (`lastLoc`: the parking place while the crew walks)
  let (legDur, legDist) : Int × Int := match c.legsFrom.find? (fun x => x.1 == s.lastLoc) with
    | some x => (x.2.1, x.2.2)
    | none => (a.legDur, a.legDist)
  let driving := if zeroDist then legDur else 0
  let transportCost := if zeroDist then legDist * v.cd + legDur * v.ct else commuting * v.cs
  let parking := if s.lastLoc != a.loc && c.commute.isSome && zeroDist then parkingCfg else 0
  let activityArrival := parking + a.arr + fwd.dur
  let serviceStart := max activityArrival a.tws
  let waiting := serviceStart - activityArrival
  let serving := a.dur - parking
  let serviceEnd := serviceStart + serving
  let totalCost := a.dur * v.cs + transportCost + waiting * v.cw
  let distance := s.stat.s.distance + legDist - fwd.dist
  let isNewStop := match c.commute with
    | some _ => s.lastLoc != a.loc && zeroDist
    | none => s.lastLoc != a.loc
  let (done, cur) : List CStop × CStop :=
    if isNewStop then
      (s.done ++ [s.cur], { loc := a.loc, arrival := a.arr, departure := a.dep, distance := distance, load := asVec prevLoad,
                            parking := if parking > 0 then some (a.arr, a.arr + parking) else none, activities := [] })
    else (s.done, s.cur)
  let load := calcLoad prevLoad a
  let leg (i : CInfo) (t : Int) : Option (Nat × Int × Int × Int) := if cinfoZero i then none else some (i.loc, i.dist, t, t + i.dur)
  let wact : WActivity := { jobId := actJobId a, type := actType a, loc := some a.loc, time := some (serviceStart, serviceEnd), tag := actTag a }
  let cact : CActivity :=
    { act := wact, hasCommute := c.commute.isSome, fwd := c.commute.bind (fun _ => leg fwd a.arr), bwd := c.commute.bind (fun _ => leg bwd serviceEnd) }
  let cur' : CStop := { cur with departure := a.dep, load := asVec load, activities := cur.activities ++ [cact] }
  let endLoc := if cinfoZero bwd then a.loc else cur'.loc
  { done := done, cur := cur', lastLoc := endLoc, lastDep := a.dep, load := load,
    stat := { s := { cost := s.stat.s.cost + totalCost, distance := distance, duration := s.stat.s.duration + (a.dep - s.lastDep),
                     driving := s.stat.s.driving + driving, serving := s.stat.s.serving + (if isBreak then 0 else serving),
                     waiting := s.stat.s.waiting + waiting, breakT := s.stat.s.breakT + (if isBreak then serving else 0) },
              commuting := s.stat.commuting + commuting, parking := s.stat.parking + parking } }

def stepSegC (v : Veh) (pk : Int) (s : CSt) (seg : List CAct) : CSt :=
  let s1 := seg.foldl (stepActC v pk) { s with load := sumD0 (seg.map (·.a)) s.load }
  { s1 with load := lsub s1.load (sumP0 (seg.map (·.a))) }

def initStC (start : RAct) (next : Option RAct) (seg : List RAct) : CSt :=
  let s0 := initSt start next seg
  { done := [], cur := { loc := s0.cur.loc, arrival := s0.cur.arrival, departure := s0.cur.departure, distance := 0, load := s0.cur.load,
                         parking := none, activities := s0.cur.activities.map (fun a => { act := a, hasCommute := false, fwd := none, bwd := none }) },
    lastLoc := s0.lastLoc, lastDep := s0.lastDep, load := s0.load, stat := ⟨WStat.zero, 0, 0⟩ }

def tidyC (s : CStop) : CStop :=
  match s.activities with
  | [c] =>
    let a := c.act
    let sameSchedule := match a.time with | none => true | some t => s.arrival == t.1
    let sameLoc := match a.loc with | none => true | some l => l == s.loc
    { s with activities := [{ c with act := { a with time := if sameSchedule then none else a.time, loc := if sameLoc then none else a.loc } }] }
  | _ => s

def writeTourC (v : Veh) (pk : Int) (acts : List CAct) : Option (List CStop × CStat) :=
  match acts with
  | [] => none
  | start :: rest =>
    match cutBefore (fun c => isReload c.a) (start :: rest) with
    | [] => none
    | first :: later =>
      let seg0 := first.drop 1
      let s0 := initStC start.a (rest.head?.map (·.a)) (seg0.map (·.a))
      let s1 := seg0.foldl (stepActC v pk) s0
      let s1 := { s1 with load := lsub s1.load (sumP0 (first.map (·.a))) }
      let s := later.foldl (stepSegC v pk) s1
      some (s.stops.map tidyC, { s.stat with s := { s.stat.s with cost := s.stat.s.cost + v.fixed } })

/-- clustered tours: the timing entries (with commuting and parking) add up to the duration; returns the gap -/
def clusterSplitGap (st : CStat) : Int :=
  st.s.duration - (st.s.driving + st.s.serving + st.s.waiting + st.s.breakT + st.commuting + st.parking)

/-! ## tours with required breaks (reserved times): clauses on the written tour only

`insert_reserved_times_as_breaks` (break_writer.rs) is not modelled; a tour of a vehicle with a required break is judged by what
a reader can check on the document: the timing entries add up, the duration is the span of the stops, the cost replays, the break
entry is the sum of the reported break activities, and every break lies inside the tour's time span. -/

structure BAct where
  type : String
  time : Option (Int × Int)
deriving Repr

structure BStop where
  arrival : Int
  departure : Int
  acts : List BAct
deriving Repr

structure BTour where
  stops : List BStop
  stat : WStat
deriving Repr

def BTour.breaks (t : BTour) : List (Int × Int) :=
  t.stops.flatMap (fun s => (s.acts.filter (fun a => a.type == "break")).map (fun a => a.time.getD (s.arrival, s.departure)))

def specBreakTour (v : Veh) (t : BTour) : List String :=
  match t.stops.head?, t.stops.getLast? with
  | some a, some b =>
    let c1 := if t.stat.driving + t.stat.serving + t.stat.waiting + t.stat.breakT == t.stat.duration then []
              else ["driving+serving+waiting+break does not add up to duration"]
    -- the tour lasts from the end of the departure activity (a job or a break at the depot keeps the first stop open)
    let dep0 := match a.acts.head? with
      | some x => if x.type == "departure" then (x.time.map (·.2)).getD a.departure else a.departure
      | none => a.departure
    let c2 := if t.stat.duration == b.departure - dep0 then [] else ["duration is not last departure - first departure"]
    let c3 := if !uniformTimeCost v || t.stat.cost == v.fixed + t.stat.distance * v.cd + t.stat.duration * v.ct then []
              else ["cost is not fixed + distance*cd + duration*ct"]
    let c4 := if t.stat.breakT == (t.breaks.map (fun x => x.2 - x.1)).foldl (· + ·) 0 then []
              else ["break time is not the sum of the reported break activities"]
    let c5 := if t.breaks.all (fun x => decide (dep0 ≤ x.1 ∧ x.1 ≤ x.2 ∧ x.2 ≤ b.departure)) then []
              else ["a break lies outside the time span of the tour"]
    c1 ++ c2 ++ c3 ++ c4 ++ c5
  | _, _ => ["empty tour"]

end C03W
