import VrpModel.Machine
/-!
# C04 — executable consistency invariant of a search context (evaluated on snapshots of the real code)

`Inv` of the abstract machine in Boolean form: the four places partition the jobs (job identity = index
`0..n-1` in `problem.jobs.all()`), the registry matches the routes, each tour's job set is the set of jobs of
its activities, multi-part jobs are whole and in their permitted order.
-/
namespace C04
open Machine

/-- every job index `0..n-1` occurs exactly once in `required ++ ignored ++ unassigned ++ assigned`, and nothing else occurs -/
def partB (n : Nat) (c : Ctx) : Bool :=
  (List.range n).all (fun x => c.allJobs.count x == 1) && c.allJobs.all (fun x => decide (x < n))

/-- available and used actors together are exactly the fleet, each once -/
def regB (fleet : List Actor) (c : Ctx) : Bool :=
  fleet.all (fun a => c.available.count a + (c.routes.map (·.actor)).count a == fleet.count a) &&
  (c.available ++ c.routes.map (·.actor)).all fleet.contains

/-- activities of one tour as (job, index of the part inside its multi job or none) -/
structure TourObs where
  acts : List (Nat × Option Nat)
  jobSet : List Nat
  jobCount : Nat

def insertNat (x : Nat) : List Nat → List Nat
  | [] => [x]
  | y :: ys => if x ≤ y then x :: y :: ys else y :: insertNat x ys
/-- insertion sort (reduces in the kernel, unlike `mergeSort`) -/
def isort (l : List Nat) : List Nat := l.foldr insertNat []
def dedupSorted (l : List Nat) : List Nat := (isort l).eraseDups

/-- the tour's job set equals the jobs of its activities; every multi job is whole (parts `0..k-1`, each once)
    and in a permitted order (the pragmatic permutation rule: all pickups before all deliveries) -/
def tourB (sizes pickups : List Nat) (t : TourObs) : Bool :=
  let jobs := dedupSorted (t.acts.map (·.1))
  jobs == isort t.jobSet && t.jobCount == jobs.length &&
  jobs.all (fun j =>
    let parts := (t.acts.filter (fun a => a.1 == j)).map (·.2)
    let k := sizes.getD j 1
    let p := pickups.getD j 0
    if parts.all (·.isNone) then parts.length == 1 && k == 1
    else
      -- whole: every part exactly once; permitted order: every pickup part (index < p) before every delivery part
      let idx := parts.filterMap id
      isort idx == List.range k && idx.length == parts.length &&
      (idx.zipIdx.all (fun (a, i) => idx.zipIdx.all (fun (b, k2) => !(a < p && p ≤ b) || decide (i < k2)))))

/-! ## pinned jobs (locks of the problem)

A lock detail pins `jobs` (one entry per activity, in order) to the actors its condition admits. `any`: the jobs
are never served by another actor. `sequence`: additionally the tour of the admitted actor visits them in the listed
order (all of them, or - when the lock could not be applied at all - none). `strict`: additionally nothing is served
in between. -/
structure Pin where
  actors : List Nat
  order : String              -- any | sequence | strict
  jobs : List Nat

/-- is `xs` a contiguous block of `l` ? -/
def isInfix (xs : List Nat) : List Nat → Bool
  | [] => xs.isEmpty
  | y :: ys => xs.isPrefixOf (y :: ys) || isInfix xs ys

/-- one tour (actor, jobs of its activities in tour order) against one pin -/
def pinTourB (pin : Pin) (actor : Nat) (acts : List Nat) : Bool :=
  let occ := acts.filter pin.jobs.contains
  if !pin.actors.contains actor then occ.isEmpty
  else if pin.order == "any" then true
  else if pin.order == "sequence" then occ.isEmpty || occ == pin.jobs
  else occ.isEmpty || (occ == pin.jobs && isInfix pin.jobs acts)

def pinB (pin : Pin) (tours : List (Nat × List Nat)) : Bool :=
  tours.all (fun t => pinTourB pin t.1 t.2)

/-! ## the strict-lock insertion rule (`Rule::can_insert`, locked_jobs.rs)

`js` are the jobs of a strict lock in their order, `prev` / `next` the jobs of the activities around the insertion
point (`none` = the tour's start / end), `job` the job being inserted. -/
inductive LockPos where
  | any | departure | arrival | fixed
deriving DecidableEq, Repr

def inRule (js : List Nat) : Option Nat → Bool
  | some j => js.contains j
  | none => false

/-- `can_insert_after`: the previous activity is outside the rule or is its last job, and the next one is outside -/
def canAfter (js : List Nat) (prev next : Option Nat) : Bool :=
  (match prev with | some p => !js.contains p || some p == js.getLast? | none => false) &&
  (match next with | some n => !js.contains n | none => true)

/-- `can_insert_before`: the next activity is outside the rule or is its first job, and the previous one is outside -/
def canBefore (js : List Nat) (prev next : Option Nat) : Bool :=
  (match next with | some n => !js.contains n || some n == js.head? | none => false) &&
  (match prev with | some p => !js.contains p | none => true)

def canInsert (pos : LockPos) (js : List Nat) (job prev next : Option Nat) : Bool :=
  inRule js job ||
  (match pos with
   | .any => canAfter js prev next || canBefore js prev next
   | .departure => canAfter js prev next
   | .arrival => canBefore js prev next
   | .fixed => false)

/-- the jobs of the activities around insertion index `i` of a tour given by the jobs of its job activities -/
def prevAt (acts : List Nat) (i : Nat) : Option Nat := if i = 0 then none else acts[i - 1]?
def nextAt (acts : List Nat) (i : Nat) : Option Nat := acts[i]?

/-- insertion of job `x` before index `i` -/
def insertJob (acts : List Nat) (i : Nat) (x : Nat) : List Nat := acts.take i ++ x :: acts.drop i

/-! ## the removal tracker and one round of the insertion heuristic, as machine steps

`JobRemovalTracker` (removal.rs) with its two budgets, and the bookkeeping of `InsertionHeuristic::process`
(prepare; per round one evaluation result applied; finalize; empty routes dropped). The random choices of the real code
(shuffle, hit, which job and route the evaluator prefers) are inputs: the functions say what the bookkeeping does with them. -/
structure Tracker where
  acts : Nat
  routes : Nat
deriving Repr

def jobSize (sizes : List Nat) (j : Job) : Nat := sizes.getD j 1
def Tracker.isLimit (t : Tracker) : Bool := t.acts == 0 || t.routes == 0

def routeIdx (c : Ctx) (a : Actor) : Option Nat := c.routes.findIdx? (fun r => r.actor == a)

/-- `try_remove_job`: refused without budget, for a locked job and for a job the route does not serve -/
def tryRemoveJob (sizes : List Nat) (t : Tracker) (c : Ctx) (r : Nat) (j : Job) : Tracker × Ctx × Bool :=
  if t.acts = 0 then (t, c, false)
  else match step c (.remove j r) with
    | some c' => ({ t with acts := t.acts - jobSize sizes j }, c', true)
    | none => (t, c, false)

def removeAll (c : Ctx) (r : Nat) : List Job → Option Ctx
  | [] => some c
  | j :: js => (step c (.remove j r)).bind (fun c' => removeAll c' r js)

/-- `try_remove_route`. `whole` (the route disappeared) and `removed` (the jobs that left it) are what the shuffle
    and the random hit of the real code produced; `none` = this observation is no behaviour of the model:
    * without budget nothing happens;
    * the whole route goes only if it serves something and nothing locked, and it must go when the budget covers it;
    * otherwise at most `acts` unlocked jobs leave it one by one, and the route budget is charged either way -/
def tryRemoveRoute (sizes : List Nat) (t : Tracker) (c : Ctx) (r : Nat) (whole : Bool) (removed : List Job) :
    Option (Tracker × Ctx × Bool) :=
  if t.routes = 0 ∨ t.acts = 0 then
    if !whole && removed.isEmpty then some (t, c, false) else none
  else match c.routes[r]? with
    | none => none
    | some rt =>
      let total := (rt.jobs.map (jobSize sizes)).sum
      let canWhole := total != 0 && rt.jobs.all (fun j => !c.locked.contains j)
      if whole then
        if canWhole then
          (step c (.dropRoute r)).map (fun c' => ({ acts := t.acts - total, routes := t.routes - 1 }, c', true))
        else none
      else if canWhole && decide (total ≤ t.acts) then none
      else if decide (removed.length ≤ t.acts) then
        (removeAll c r removed).map (fun c' =>
          ({ acts := t.acts - (removed.map (jobSize sizes)).sum, routes := t.routes - 1 }, c', !removed.isEmpty))
      else none

/-- what the evaluator of one round returned -/
inductive EvalResult where
  | success (j : Job) (a : Actor)
  | failure
deriving Repr

/-- `apply_insertion_result` with all jobs and all routes selected: a success goes into the route of its actor (a
    fresh one from the registry when the actor drives none), a failure leaves everything pending unassigned -/
def applyResult (c : Ctx) : EvalResult → Option Ctx
  | .success j a =>
    match routeIdx c a with
    | some r => step c (.insert j r)
    | none => step c (.insertNew j a)
  | .failure => step c .finalize

def applyResults (c : Ctx) : List EvalResult → Option Ctx
  | [] => some c
  | e :: es => (applyResult c e).bind (fun c' => applyResults c' es)

/-- `InsertionHeuristic::process` for a given sequence of evaluation results -/
def processWith (c : Ctx) (results : List EvalResult) : Option Ctx :=
  ((step c .prepare).bind (fun c1 => applyResults c1 results)).bind (fun c2 => (step c2 .finalize).map dropEmpty)

end C04
