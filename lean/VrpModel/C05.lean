import VrpModel.C06
/-!
# C05 — cached tour state vs recomputation from the bare tour

`recompute` gathers what `accept_route_state` caches for the transport and capacity features
(`schedule_update.rs::update_route_schedule`, `capacity.rs::recalculate_states`), as a function of the
bare tour only. The abstract stale-flag protocol of `context.rs` / `feature_combinator.rs` is `Proto`.
-/
namespace C05
open Route C06

structure Cache where
  sched : List (Int × Int)            -- arrival/departure of every activity incl. start and end
  latest : List Int                   -- start (0), job activities; the arrival activity's entry is popped
  waiting : List Int
  totalDist : Int
  totalDur : Int
  cur : List (List Int)               -- every activity incl. start and end
  past : List (List Int)
  fut : List (List Int)
deriving Repr, BEq

/-- everything the transport and capacity features cache for a route, from the bare tour -/
def recompute (c : Ctx) : Cache :=
  let t := c.m.t
  let full := c.veh.full c.acts
  let sc := sched t full c.veh.startLoc c.veh.dep
  let la := latestArrs t full
  let fw := futureWaiting full sc
  let n := c.acts.length
  let (cur, past, fut) := loadCaches c.zero c.allDems
  { sched := (c.veh.earliest, c.veh.dep) :: sc,
    latest := 0 :: la.take n,
    waiting := 0 :: fw.take n,
    totalDist := totalDist c.m.d full c.veh.startLoc,
    totalDur := (after t full c.veh.startLoc c.veh.dep).2 - c.veh.dep,
    cur := cur, past := past, fut := fut }

/-! ## the stale-flag protocol, abstractly (any tour type, any cache type, any `recompute`) -/

structure RouteSt (τ κ : Type) where
  tour : τ
  cache : κ
  stale : Bool

inductive Op (τ : Type) where
  | mutate (i : Nat) (f : τ → τ)     -- `route_mut()` + a tour change: marks stale
  | acceptInsertion (i : Nat)        -- every feature refreshes the touched route; flag unchanged
  | acceptRoute (i : Nat)            -- `accept_route_state`: recompute iff stale, clear the flag
  | acceptSolution                   -- recompute stale routes, clear every flag

def step {τ κ : Type} (rc : τ → κ) (s : List (RouteSt τ κ)) : Op τ → List (RouteSt τ κ)
  | .mutate i f => s.modify i (fun r => { r with tour := f r.tour, stale := true })
  | .acceptInsertion i => s.modify i (fun r => { r with cache := rc r.tour })
  | .acceptRoute i => s.modify i (fun r => if r.stale then { r with cache := rc r.tour, stale := false } else r)
  | .acceptSolution => s.map (fun r => if r.stale then { r with cache := rc r.tour, stale := false } else r)

end C05
