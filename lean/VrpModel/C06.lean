import VrpModel.Route
/-!
# C06 / C20 — model of the insertion evaluator for single-task jobs

Mirrors
* `vrp-core/src/construction/features/transport.rs`: `TransportConstraint::{evaluate_job, evaluate_activity}`,
  `estimate_leg`, `CostObjective::{estimate_route, estimate_activity}`,
* `vrp-core/src/construction/features/capacity.rs`: `has_demand_violation`, `evaluate_job`/`evaluate_activity`
  (tours without reload markers),
* `vrp-core/src/construction/heuristics/evaluators.rs`: `eval_job_insertion_in_route`, `eval_single`,
  `analyze_insertion_in_route(_leg)` with `LegSelection::Exhaustive` and `BestResultSelector`,
* objectives `minimize_unassigned.rs`, `fleet_usage.rs` (minimize tours) as cost layers.

Constraint order is the harness's feature order: transport (time) first, then capacity.
-/
namespace C06
open Route

inductive Verdict where
  | ok
  | skip   -- violation, `stopped = false`: try the next window/place/leg
  | fail   -- violation, `stopped = true`: stop processing this leg and the next ones
deriving Repr, DecidableEq, BEq

/-- a job place with its alternative time windows -/
structure JPlace where
  loc : Nat
  dur : Int
  tws : List (Int × Int)
deriving Repr

structure JobS where
  places : List JPlace
  dem : Option Dem
deriving Repr

/-- a tour activity: schedule data + demand -/
structure TAct where
  act : Act
  dem : Option Dem
deriving Repr

structure Costs where
  fixed : Int
  perDist : Int
  perTime : Int     -- driving = waiting = service coefficient (as the pragmatic format maps it)
deriving Repr

inductive Objective where
  | distance
  | cost
deriving Repr, DecidableEq, BEq

structure Ctx where
  m : Mat
  veh : Veh
  cap : List Int
  costs : Costs
  obj : Objective
  tour : List TAct

def Ctx.acts (c : Ctx) : List Act := c.tour.map (·.act)
def Ctx.zero (c : Ctx) : List Int := c.cap.map (fun _ => 0)
def demOr (z : List Int) (d : Option Dem) : Dem := d.getD ⟨z, z, z, z⟩
def Ctx.dems (c : Ctx) : List Dem := c.tour.map (fun a => demOr c.zero a.dem)
/-- demands of all activities after the start: jobs, then the arrival activity (no demand) if any -/
def Ctx.allDems (c : Ctx) : List Dem :=
  c.dems ++ (if c.veh.endAt.isSome then [demOr c.zero none] else [])

/-! ## time -/

/-- `actor.detail.time.end < s` (never for an open tour: the shift end is unbounded) -/
def tooLate (v : Veh) (s : Int) : Bool :=
  match v.endAt with
  | some (_, T) => decide (T < s)
  | none => false

/-- the part of `evaluate_activity` after the shift-end pre-checks; `p` = (location, departure) of
    `prev`, `rest` = the activities after the insertion point (incl. the arrival activity) -/
def evalTimeCore (t : Nat → Nat → Int) (p : Nat × Int) (rest : List Act) (x : Act) : Verdict :=
  match rest with
  | [] =>
    -- open end: only the target's own window binds (window specific: `skip`, not `fail`)
    if p.2 + t p.1 x.loc > x.e then .skip
    else if x.s > x.e then .skip
    else .ok
  | nx :: _ =>
    let L := latestArr t rest
    if p.2 + t p.1 nx.loc > L then .fail
    else if x.s > L then .skip
    else if p.2 + t p.1 x.loc > min x.e (L - t x.loc nx.loc - x.dur) then .skip
    else if depOf x (p.2 + t p.1 x.loc) + t x.loc nx.loc > L then .skip
    else .ok

/-- window start of `prev` (the start activity's window starts at the earliest departure) -/
def prevStart (v : Veh) (pre : List Act) : Int :=
  match pre.getLast? with
  | some a => a.s
  | none => v.earliest

def nextLate (v : Veh) (rest : List Act) : Bool :=
  match rest with
  | nx :: _ => tooLate v nx.s
  | [] => false

/-- MODEL of `TransportConstraint::evaluate_activity` for leg `i` (between activity `i` and `i+1` of
    `start :: jobs ++ end`) and target `x` -/
def evalTime (t : Nat → Nat → Int) (v : Veh) (jobs : List Act) (i : Nat) (x : Act) : Verdict :=
  let pre := jobs.take i
  let rest := (v.full jobs).drop i
  if tooLate v (prevStart v pre) || nextLate v rest then .fail
  else if tooLate v x.s then .skip     -- specific to the target's window: other windows/places may fit
  else evalTimeCore t (after t pre v.startLoc v.dep) rest x

/-! ## capacity -/

/-- MODEL of `has_demand_violation`: `none` = no violation, `some stopped` = violation -/
def hasDemandViolation (cap past future cur : List Int) (x : Dem) (stopped : Bool) : Option Bool :=
  if vNotEmpty x.sd && !vfits cap (vadd past x.sd) then some stopped
  else if vNotEmpty x.sp && !vfits cap (vadd future x.sp) then some false
  else
    let ch := vadd x.change x.sd      -- the static delivery does not lower later loads
    if vNotEmpty ch && (!vfits cap (vadd future ch) || !vfits cap (vadd cur ch)) then some false
    else none

/-- cached load summaries of a tour (index 0 = departure, k = after the k-th job activity; the arrival
    activity repeats the last value and does not change the maxima) -/
def loadCaches (zero : List Int) (ds : List Dem) : List (List Int) × List (List Int) × List (List Int) :=
  let cur := loadProfile zero ds
  (cur, runMax zero cur, maxFuture cur)

def capViolationAt (c : Ctx) (i : Nat) (x : Option Dem) (stopped : Bool) : Option Bool :=
  match x with
  | none => none
  | some d =>
    let (cur, past, fut) := loadCaches c.zero c.allDems
    hasDemandViolation c.cap (past.getD i c.zero) (fut.getD i c.zero) (cur.getD i c.zero) d stopped

/-! ## both constraints, in feature order -/

def evalActivity (c : Ctx) (i : Nat) (x : Act) (dem : Option Dem) : Verdict :=
  match evalTime c.m.t c.veh c.acts i x with
  | .fail => .fail
  | .skip => .skip
  | .ok =>
    match capViolationAt c i dem true with      -- no reload markers: `stopped = true` for static delivery
    | some true => .fail
    | some false => .skip
    | none => .ok

/-- route level: `TransportConstraint::evaluate_job` and capacity `evaluate_job` -/
def evalRoute (c : Ctx) (j : JobS) : Bool :=
  let shiftEndOk (s : Int) : Bool := match c.veh.endAt with
    | some (_, T) => decide (s ≤ T)
    | none => true
  let timeOk := j.places.any (fun p => p.tws.any (fun w => shiftEndOk w.1 && decide (c.veh.earliest ≤ w.2)))
  let last := c.tour.length + (if c.veh.endAt.isSome then 1 else 0)
  -- a static delivery is the least restrictive at the start and anything else at the end: a demand that has both is
  -- checked by parts (a necessary condition: such a job may fit only in between)
  let capOkB := match j.dem with
    | some d =>
      if vNotEmpty d.sd && (vNotEmpty d.sp || vNotEmpty d.dp || vNotEmpty d.dd) then
        (capViolationAt c 0 (some { sp := c.zero, dp := c.zero, sd := d.sd, dd := c.zero }) true).isNone &&
        (capViolationAt c last (some { sp := d.sp, dp := d.dp, sd := c.zero, dd := d.dd }) true).isNone
      else (capViolationAt c 0 j.dem true).isNone || (capViolationAt c last j.dem true).isNone
    | none => (capViolationAt c 0 j.dem true).isNone || (capViolationAt c last j.dem true).isNone
  timeOk && capOkB

/-! ## cost estimates (C20) -/

/-- `estimate_leg` with the given metric (`dist` or `dur`) -/
def estimateLeg (c : Ctx) (metric : Nat → Nat → Int) (i : Nat) (x : Act) : Int :=
  let pre := c.acts.take i
  let p := after c.m.t pre c.veh.startLoc c.veh.dep
  let rest := (c.veh.full c.acts).drop i
  let prevTarget := metric p.1 x.loc
  match rest with
  | [] => prevTarget
  | nx :: _ =>
    let ptn := prevTarget + metric x.loc nx.loc
    if c.tour.isEmpty then ptn else ptn - metric p.1 nx.loc

/-- `CostObjective::estimate_activity` -/
def estimateCostActivity (c : Ctx) (i : Nat) (x : Act) : Int :=
  let t := c.m.t
  let pre := c.acts.take i
  let p := after t pre c.veh.startLoc c.veh.dep
  let rest := (c.veh.full c.acts).drop i
  let tpCost (a b : Nat) : Int := c.m.d a b * c.costs.perDist + t a b * c.costs.perTime
  -- activity cost: waiting + service, both at `perTime`
  let actCost (a : Act) (arr : Int) : Int := (max (a.s - arr) 0 + a.dur) * c.costs.perTime
  let arrX := p.2 + t p.1 x.loc
  let left := tpCost p.1 x.loc + actCost x arrX
  let depX := depOf x arrX
  match rest with
  | [] => left
  | nx :: _ =>
    let arrN := depX + t x.loc nx.loc
    let new := left + tpCost x.loc nx.loc + actCost nx arrN
    if c.tour.isEmpty then new
    else
      let depRight := depOf nx arrN
      let arrOld := p.2 + t p.1 nx.loc
      let depOld := depOf nx arrOld
      let sc := sched t (c.veh.full c.acts) c.veh.startLoc c.veh.dep
      let fw := futureWaiting (c.veh.full c.acts) sc
      -- waiting state of the next activity (missing for the arrival activity: 0)
      let waiting : Int := if i < c.tour.length then fw.getD i 0 else 0
      let waitingCost := min waiting (max 0 (depRight - depOld)) * c.costs.perTime
      new - (tpCost p.1 nx.loc + actCost nx arrOld + waitingCost)

/-- cost vector layers: [unassigned, tours, distance-or-cost]; activity level + route level -/
def costVector (c : Ctx) (i : Nat) (x : Act) : List Int :=
  let routeTours : Int := if c.tour.isEmpty then 1 else 0
  match c.obj with
  | .distance => [-1, routeTours, estimateLeg c c.m.d i x]
  | .cost => [-1, routeTours, estimateCostActivity c i x + (if c.tour.isEmpty then c.costs.fixed else 0)]

/-- lexicographic `<` on cost vectors of equal length -/
def costLt : List Int → List Int → Bool
  | a :: as, b :: bs => if a < b then true else if a > b then false else costLt as bs
  | _, _ => false

/-! ## leg / place / window scan (`analyze_insertion_in_route_leg`) -/

structure Found where
  index : Nat
  place : Nat
  tw : Int × Int
  cost : List Int
deriving Repr

structure Scan where
  violated : Option Bool := none     -- last violation seen (stopped flag)
  best : Option Found := none
deriving Repr

/-- windows of one place; returns `(scan, stopped)` -/
def scanWindows (c : Ctx) (j : JobS) (i pi : Nat) (p : JPlace) : List (Int × Int) → Scan → Scan × Bool
  | [], sc => (sc, false)
  | w :: ws, sc =>
    let x : Act := { loc := p.loc, s := w.1, e := w.2, dur := p.dur }
    match evalActivity c i x j.dem with
    | .fail => ({ sc with violated := some true }, true)
    | .skip => scanWindows c j i pi p ws { sc with violated := some false }
    | .ok =>
      let cost := costVector c i x
      let better := match sc.best with
        | none => true
        | some b => costLt cost b.cost
      if better then scanWindows c j i pi p ws { violated := none, best := some ⟨i, pi, w, cost⟩ }
      else scanWindows c j i pi p ws sc

def scanPlaces (c : Ctx) (j : JobS) (i : Nat) : List JPlace → Nat → Scan → Scan × Bool
  | [], _, sc => (sc, false)
  | p :: ps, pi, sc =>
    match scanWindows c j i pi p p.tws sc with
    | (sc', true) => (sc', true)
    | (sc', false) => scanPlaces c j i ps (pi + 1) sc'

/-- fold over the legs `is` (stops at the first `stopped` violation) -/
def scanLegs (c : Ctx) (j : JobS) : List Nat → Scan → Scan
  | [], sc => sc
  | i :: is, sc =>
    match scanPlaces c j i j.places 0 sc with
    | (sc', true) => sc'
    | (sc', false) => scanLegs c j is sc'

/-- number of legs of the tour: consecutive pairs of `start :: jobs ++ end`, plus the open-end leg -/
def legCount (c : Ctx) : Nat :=
  if c.veh.endAt.isSome then c.tour.length + 1
  else c.tour.length + 1   -- open: pairs (len) + the single-activity leg; an empty open tour has one leg

inductive Position where
  | any
  | concrete (i : Nat)

/-- MODEL of `eval_job_insertion_in_route` with a failure as the alternative -/
def evalJob (c : Ctx) (j : JobS) (pos : Position) : Option Found :=
  if !evalRoute c j then none
  else
    let legs := match pos with
      | .any => List.range (legCount c)
      | .concrete i => if i < legCount c then [i] else []
    (scanLegs c j legs {}).best

/-! ## SPEC: brute-force simulation -/

def insertedFeasible (c : Ctx) (j : JobS) (i pi : Nat) (w : Int × Int) : Bool :=
  match j.places[pi]? with
  | none => false
  | some p =>
    let x : Act := { loc := p.loc, s := w.1, e := w.2, dur := p.dur }
    tourFeas c.m.t c.veh (insertAt c.acts i x) &&
      capOk c.cap (insertAt c.dems i (demOr c.zero j.dem))

/-- SPEC: some position / place / window gives a feasible tour -/
def existsFeasible (c : Ctx) (j : JobS) : Bool :=
  (List.range (legCount c)).any (fun i =>
    (List.range j.places.length).any (fun pi =>
      match j.places[pi]? with
      | none => false
      | some p => p.tws.any (fun w => insertedFeasible c j i pi w)))

def baseFeasible (c : Ctx) : Bool := tourFeas c.m.t c.veh c.acts && capOk c.cap c.dems

/-! ## decidable form of the input hypotheses of the completeness theorem

`C06Complete.evalJob_any_complete_hyps`: `completeHyps c j = true → existsFeasible c j = true → (evalJob c j .any).isSome`.
The driver evaluates it on every generated case, so the evidence says how many cases the theorem speaks about. -/

def demWF (n : Nat) (d : Dem) : Bool :=
  d.sp.length == n && d.dp.length == n && d.sd.length == n && d.dd.length == n

/-- in every dimension: no static pickup next to a larger dynamic delivery -/
def demShape (n : Nat) (d : Dem) : Bool :=
  (List.range n).all (fun k => d.sp.getD k 0 == 0 || decide (d.dd.getD k 0 ≤ d.dp.getD k 0))

def completeHyps (c : Ctx) (j : JobS) : Bool :=
  c.dems.all (demWF c.cap.length) &&
  (match j.dem with
   | none => true
   | some d => demWF c.cap.length d && demShape c.cap.length d) &&
  c.m.dur.all (fun x => decide (0 ≤ x)) &&
  c.acts.all (fun a => decide (0 ≤ a.dur)) &&
  decide (0 ≤ c.veh.dep) && decide (c.veh.earliest ≤ c.veh.dep) &&
  baseFeasible c &&
  (loadProfile c.zero c.dems).all (fun l => l.all (fun v => decide (0 ≤ v))) &&
  j.places.all (fun p => decide (0 ≤ p.dur) && p.tws.all (fun w => decide (w.1 ≤ w.2)))

end C06
