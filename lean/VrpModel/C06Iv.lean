import VrpModel.C06
/-!
# C06 on tours with reload markers (route intervals / multi-trip)

Mirrors, for a tour that holds marker activities (`RouteIntervals::Multiple`, built by `ReloadFeatureFactory::build_simple`),
* `vrp-core/src/construction/enablers/route_intervals.rs`: `get_route_intervals` (a marker activity OPENS the next interval),
* `vrp-core/src/construction/features/capacity.rs`: `CapacitatedMultiTrip::recalculate_states` (per interval: load at its
  first activity = carried load + static deliveries of the interval; `current / max_past / max_future` per interval;
  carried load = final load − static pickups of the interval), `evaluate_activity` for a single-task job
  (`has_demand_violation` on the caches of the pivot, `stopped = !has_markers`), `evaluate_job` /
  `can_handle_demand_on_intervals(.., None)` (ANY interval passes the border test, mixed demand checked by parts),
* `evaluators.rs` (leg / place / window scan) as in `VrpModel.C06` with the evaluation functions above.

Time (`C06.evalTime`) and cost vectors (`C06.costVector`) are unchanged: for them a marker is an ordinary activity.

Activity indices: `0` = departure, `k` = the `k`-th job activity of the tour (markers included), then the arrival
activity of a closed tour. The SPEC (`capOkIv`) is a step-by-step simulation with explicit reload events that keeps
what is on board in three parts (static deliveries still to be delivered, static pickups collected in this trip,
dynamic load) and knows nothing about the caches.
-/
namespace C06Iv
open Route C06

structure CtxIv where
  base : Ctx
  /-- marker flags, aligned with `base.tour` -/
  markers : List Bool

def CtxIv.zero (c : CtxIv) : List Int := c.base.zero
def CtxIv.zeroDem (c : CtxIv) : Dem := demOr c.base.zero none

/-- (is marker, demand) of every job activity of the tour -/
def CtxIv.tagged (c : CtxIv) : List (Bool × Dem) :=
  List.zipWith (fun (a : TAct) (m : Bool) => (m, demOr c.base.zero a.dem)) c.base.tour c.markers

/-- all activities: departure, jobs, arrival (if any) -/
def CtxIv.allTagged (c : CtxIv) : List (Bool × Dem) :=
  (false, c.zeroDem) :: (c.tagged ++ (if c.base.veh.endAt.isSome then [(false, c.zeroDem)] else []))

/-! ## intervals -/

/-- MODEL of `get_route_intervals`: the demands of the activities, cut in front of every marker -/
def splitSegs {α : Type} : List (Bool × α) → List (List α)
  | [] => [[]]
  | (m, d) :: rest =>
    match splitSegs rest with
    | [] => [[d]]
    | seg :: segs => if m then [] :: (d :: seg) :: segs else (d :: seg) :: segs

/-- `(start_idx, end_idx)` of consecutive segments, the first one starting at `off` -/
def intervalsFrom {α : Type} : List (List α) → Nat → List (Nat × Nat)
  | [], _ => []
  | seg :: rest, off => (off, off + seg.length - 1) :: intervalsFrom rest (off + seg.length)

def CtxIv.segs (c : CtxIv) : List (List Dem) := splitSegs c.allTagged
def CtxIv.intervals (c : CtxIv) : List (Nat × Nat) := intervalsFrom c.segs 0
/-- `has_markers`: more than one interval -/
def CtxIv.hasMarkers (c : CtxIv) : Bool := decide (1 < c.segs.length)

/-! ## load caches (`recalculate_states`) -/

def sumSp (zero : List Int) (seg : List Dem) : List Int := seg.foldl (fun acc x => vadd acc x.sp) zero

structure Caches where
  cur : List (List Int) := []
  past : List (List Int) := []
  fut : List (List Int) := []

/-- one interval: start load = carried + static deliveries; returns its caches and the load carried on -/
def segCaches (zero carry : List Int) (seg : List Dem) : Caches × List Int :=
  let st := startLoad carry seg
  let cur := loadsAfter st seg
  ({ cur := cur, past := runMax zero cur, fut := maxFuture cur }, vsub (cur.getLast?.getD st) (sumSp zero seg))

def loadCachesIv (zero : List Int) : List (List Dem) → List Int → Caches
  | [], _ => {}
  | seg :: rest, carry =>
    let (a, carry') := segCaches zero carry seg
    let b := loadCachesIv zero rest carry'
    { cur := a.cur ++ b.cur, past := a.past ++ b.past, fut := a.fut ++ b.fut }

def CtxIv.caches (c : CtxIv) : Caches := loadCachesIv c.zero c.segs c.zero

/-- MODEL of `has_demand_violation` with the caches of activity `i` as the pivot -/
def capViolationAtIv (c : CtxIv) (i : Nat) (x : Option Dem) (stopped : Bool) : Option Bool :=
  match x with
  | none => none
  | some d =>
    let k := c.caches
    hasDemandViolation c.base.cap (k.past.getD i c.zero) (k.fut.getD i c.zero) (k.cur.getD i c.zero) d stopped

/-! ## both constraints, in feature order -/

def evalActivityIv (c : CtxIv) (i : Nat) (x : Act) (dem : Option Dem) : Verdict :=
  match evalTime c.base.m.t c.base.veh c.base.acts i x with
  | .fail => .fail
  | .skip => .skip
  | .ok =>
    match capViolationAtIv c i dem (!c.hasMarkers) with
    | some true => .fail
    | some false => .skip
    | none => .ok

/-- `has_demand_violation_on_borders` of one interval -/
def bordersOk (c : CtxIv) (dem : Option Dem) (iv : Nat × Nat) : Bool :=
  match dem with
  | some d =>
    if vNotEmpty d.sd && (vNotEmpty d.sp || vNotEmpty d.dp || vNotEmpty d.dd) then
      (capViolationAtIv c iv.1 (some { sp := c.zero, dp := c.zero, sd := d.sd, dd := c.zero }) true).isNone &&
      (capViolationAtIv c iv.2 (some { sp := d.sp, dp := d.dp, sd := c.zero, dd := d.dd }) true).isNone
    else (capViolationAtIv c iv.1 dem true).isNone || (capViolationAtIv c iv.2 dem true).isNone
  | none => true

/-- route level: `TransportConstraint::evaluate_job` and `can_handle_demand_on_intervals(.., None)` -/
def evalRouteIv (c : CtxIv) (j : JobS) : Bool :=
  let shiftEndOk (s : Int) : Bool := match c.base.veh.endAt with
    | some (_, T) => decide (s ≤ T)
    | none => true
  let timeOk := j.places.any (fun p => p.tws.any (fun w => shiftEndOk w.1 && decide (c.base.veh.earliest ≤ w.2)))
  timeOk && c.intervals.any (bordersOk c j.dem)

/-! ## leg / place / window scan (as `C06.scanWindows` … `C06.evalJob`) -/

def scanWindowsIv (c : CtxIv) (j : JobS) (i pi : Nat) (p : JPlace) : List (Int × Int) → Scan → Scan × Bool
  | [], sc => (sc, false)
  | w :: ws, sc =>
    let x : Act := { loc := p.loc, s := w.1, e := w.2, dur := p.dur }
    match evalActivityIv c i x j.dem with
    | .fail => ({ sc with violated := some true }, true)
    | .skip => scanWindowsIv c j i pi p ws { sc with violated := some false }
    | .ok =>
      let cost := costVector c.base i x
      let better := match sc.best with
        | none => true
        | some b => costLt cost b.cost
      if better then scanWindowsIv c j i pi p ws { violated := none, best := some ⟨i, pi, w, cost⟩ }
      else scanWindowsIv c j i pi p ws sc

def scanPlacesIv (c : CtxIv) (j : JobS) (i : Nat) : List JPlace → Nat → Scan → Scan × Bool
  | [], _, sc => (sc, false)
  | p :: ps, pi, sc =>
    match scanWindowsIv c j i pi p p.tws sc with
    | (sc', true) => (sc', true)
    | (sc', false) => scanPlacesIv c j i ps (pi + 1) sc'

def scanLegsIv (c : CtxIv) (j : JobS) : List Nat → Scan → Scan
  | [], sc => sc
  | i :: is, sc =>
    match scanPlacesIv c j i j.places 0 sc with
    | (sc', true) => sc'
    | (sc', false) => scanLegsIv c j is sc'

/-- MODEL of `eval_job_insertion_in_route` on a tour with markers -/
def evalJobIv (c : CtxIv) (j : JobS) (pos : Position) : Option Found :=
  if !evalRouteIv c j then none
  else
    let legs := match pos with
      | .any => List.range (legCount c.base)
      | .concrete i => if i < legCount c.base then [i] else []
    (scanLegsIv c j legs {}).best

/-! ## SPEC: step-by-step simulation with explicit reload events -/

/-- what is on board -/
structure Board where
  /-- static deliveries loaded at the start of this trip and not yet delivered -/
  toDeliver : List Int
  /-- static pickups collected in this trip (unloaded at the next reload / at the end) -/
  picked : List Int
  /-- shipments picked up and not yet delivered (they stay on board across a reload) -/
  dyn : List Int

def Board.total (b : Board) : List Int := vadd (vadd b.toDeliver b.picked) b.dyn

/-- static deliveries of the trip that starts here: up to the next marker -/
def upcomingSd (zero : List Int) : List (Bool × Dem) → List Int
  | [] => zero
  | (true, _) :: _ => zero
  | (false, d) :: rest => vadd d.sd (upcomingSd zero rest)

def simIv (cap zero : List Int) : List (Bool × Dem) → Board → Bool
  | [], _ => true
  | (true, _) :: rest, b =>
    -- reload: the collected static pickups are unloaded, the deliveries of the next trip are loaded
    let b' : Board := { toDeliver := upcomingSd zero rest, picked := zero, dyn := b.dyn }
    vfits cap b'.total && simIv cap zero rest b'
  | (false, d) :: rest, b =>
    let b' : Board := { toDeliver := vsub b.toDeliver d.sd, picked := vadd b.picked d.sp, dyn := vsub (vadd b.dyn d.dp) d.dd }
    vfits cap b'.total && simIv cap zero rest b'

/-- SPEC: the load stays within capacity at the departure, after every activity and after every reload -/
def capOkIv (cap : List Int) (tagged : List (Bool × Dem)) : Bool :=
  let zero := cap.map (fun _ => (0 : Int))
  let b0 : Board := { toDeliver := upcomingSd zero tagged, picked := zero, dyn := zero }
  vfits cap b0.total && simIv cap zero tagged b0

def insertedFeasibleIv (c : CtxIv) (j : JobS) (i pi : Nat) (w : Int × Int) : Bool :=
  match j.places[pi]? with
  | none => false
  | some p =>
    let x : Act := { loc := p.loc, s := w.1, e := w.2, dur := p.dur }
    tourFeas c.base.m.t c.base.veh (insertAt c.base.acts i x) &&
      capOkIv c.base.cap (insertAt c.tagged i (false, demOr c.base.zero j.dem))

def existsFeasibleIv (c : CtxIv) (j : JobS) : Bool :=
  (List.range (legCount c.base)).any (fun i =>
    (List.range j.places.length).any (fun pi =>
      match j.places[pi]? with
      | none => false
      | some p => p.tws.any (fun w => insertedFeasibleIv c j i pi w)))

def baseFeasibleIv (c : CtxIv) : Bool :=
  tourFeas c.base.m.t c.base.veh c.base.acts && capOkIv c.base.cap c.tagged

/-! ## decidable form of the input hypotheses of the soundness theorems (`C06Iv.capIv_sound`, `C06Iv.evalJobIv_sound`)

The marker flags are aligned with the tour, every demand vector has one entry per capacity dimension, a marker
activity has no demand, the candidate's demand is static (no dynamic part) and the base tour passes the SPEC. The
driver evaluates it on every case. -/

def staticDem (d : Dem) : Bool := !vNotEmpty d.dp && !vNotEmpty d.dd

def wfIv (c : CtxIv) : Bool :=
  c.markers.length == c.base.tour.length &&
  c.base.tour.all (fun a => match a.dem with
    | some d => demWF c.base.cap.length d
    | none => true) &&
  (List.zipWith (fun (a : TAct) (m : Bool) => !m || a.dem.isNone) c.base.tour c.markers).all id

def soundHyps (c : CtxIv) (j : JobS) : Bool :=
  wfIv c && baseFeasibleIv c &&
  (match j.dem with
   | some d => demWF c.base.cap.length d && staticDem d
   | none => true)

end C06Iv
