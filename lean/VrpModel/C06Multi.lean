import VrpModel.C06
/-!
# C06 — a SEQUENCE of insertions, each evaluated on the tour that already holds the previous ones

Mirrors `vrp-core/src/construction/heuristics/evaluators.rs`: `eval_multi` places the sub-jobs of a multi-task job
(pickup and delivery) one after another: the accepted activity of a sub-job is inserted into a shadow copy of the tour
(`ShadowContext::insert`), the cached state of the copy is refreshed (`accept_route_state`), and the next sub-job is
evaluated on it, starting from the leg after the previous one (`next_index = index + 1`).

The model of "refresh the cached state" is that `C06.evalActivity` recomputes every cached value (`latestArr`,
`loadCaches`) from the tour of the context it is given: a running context is just a context with a longer tour.
-/
namespace C06
open Route

/-- one accepted sub-job: leg index in the tour AS IT IS AT THIS STEP, the activity, its demand -/
structure Step where
  i : Nat
  x : Act
  dem : Option Dem
deriving Repr

/-- `ShadowContext::insert` + `accept_route_state` -/
def insertCtx (c : Ctx) (s : Step) : Ctx :=
  { c with tour := insertAt c.tour s.i { act := s.x, dem := s.dem } }

def applySeq (c : Ctx) : List Step → Ctx
  | [] => c
  | s :: r => applySeq (insertCtx c s) r

/-- every step is accepted by the evaluator on the context that already holds the previous steps (and names a leg of
    that tour: `analyze_insertion_in_route` only offers the legs `0 ..= tour.length`) -/
def acceptedSeq (c : Ctx) : List Step → Bool
  | [] => true
  | s :: r =>
    (match evalActivity c s.i s.x s.dem with
     | .ok => true
     | _ => false) && decide (s.i ≤ c.tour.length) && acceptedSeq (insertCtx c s) r

/-! ## decidable form of the well-formedness hypotheses of `C06Multi.acceptedSeq_sound` -/

def stepWF (n : Nat) (s : Step) : Bool :=
  match s.dem with
  | none => true
  | some d => demWF n d

/-- all load vectors (tour and steps) have one entry per capacity dimension -/
def seqWF (c : Ctx) (steps : List Step) : Bool :=
  c.dems.all (demWF c.cap.length) && steps.all (stepWF c.cap.length)

/-! ## the shape of a pickup-and-delivery job -/

/-- pickup of `q` (dynamic) at leg `i`, then delivery of `q` (dynamic) at leg `j` of the tour that holds the pickup -/
def pdSteps (c : Ctx) (q : List Int) (i j : Nat) (xp xd : Act) : List Step :=
  [{ i := i, x := xp, dem := some { sp := c.zero, dp := q, sd := c.zero, dd := c.zero } },
   { i := j, x := xd, dem := some { sp := c.zero, dp := c.zero, sd := c.zero, dd := q } }]

end C06
