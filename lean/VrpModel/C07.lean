import VrpModel.Machine
/-!
# C07 — control skeleton of the solver under a cancellation quota

Mirrors the loops that poll `Environment.quota`:
* `InsertionHeuristic::process` (`vrp-core/src/construction/heuristics/insertions.rs`): `prepare`; `while required ≠ [] ∧
  ¬quota { one evaluate/apply step }`; `finalize` (+ `remove_empty_routes`) on EVERY exit path,
* `Iterative::run` (`rosomaxa/src/evolution/strategies/iterative.rs`): `loop { if terminated ∨ quota { break }; one
  generation; on_generation }`, with `MaxGeneration` as the termination criterion.
The quota is an oracle that turns true at its `k`-th poll and stays true. What one step of an operator does
is abstract: any sequence of machine operations (it may poll any finite number of times itself).
-/
namespace C07
open Machine

/-- the quota: true from poll `k` on -/
def quota (k poll : Nat) : Bool := decide (k ≤ poll)

/-- run a list of machine operations, ignoring the ones whose guard fails (a step that cannot be applied
    changes nothing) -/
def applyAll (c : Ctx) : List Op → Ctx
  | [] => c
  | op :: ops => applyAll ((step c op).getD c) ops

/-- `InsertionHeuristic::process` with `fuel` bounding the number of iterations: returns the context after
    finalisation and the number of polls made -/
def processLoop (k : Nat) (body : Ctx → List Op) : Nat → Ctx → Nat → Ctx × Nat
  | 0, c, p => (c, p)
  | fuel + 1, c, p =>
    if c.required.isEmpty then (c, p)
    else if quota k p then (c, p + 1)
    else processLoop k body fuel (applyAll c (body c)) (p + 1)

def process (k : Nat) (body : Ctx → List Op) (fuel : Nat) (c : Ctx) (p : Nat) : Ctx × Nat :=
  let prepared := (step c .prepare).getD c
  let r := processLoop k body fuel prepared p
  (dropEmpty ((step r.1 .finalize).getD r.1), r.2)

/-- `Iterative::run` with a generation limit: returns the number of generations run -/
def evolve (maxGen k : Nat) (pollsPerGen : Nat → Nat) : Nat → Nat → Nat → Nat
  | 0, g, _ => g
  | fuel + 1, g, p =>
    if maxGen ≤ g || quota k p then g
    else evolve maxGen k pollsPerGen fuel (g + 1) (p + 1 + pollsPerGen g)

end C07
