/-!
# C08 — model of the populations: `Greedy`, `Elitism`, the elite path and phase machine of `Rosomaxa`

Mirrors
* `rosomaxa/src/population/greedy.rs`   `Greedy::{add, add_all, select, ranked, size, selection_phase}`
  (`add_all` is `fold(false, |acc, i| self.add(i) || acc)`: every element reaches `add`. Before the repair S35 it was
  `acc || self.add(i)`, whose right operand Rust does not evaluate once `acc` is `true`, so the elements after the
  first improving one were dropped unseen. The model keeps both folds behind the flag `shortCircuit`;
  `Greedy.repoShortCircuits = false` says which one `/repo` has),
* `rosomaxa/src/population/elitism.rs`  `Elitism::{add, add_all, add_with_iter, sort, ensure_max_population_size,
  is_improved, on_generation, select, ranked, size, selection_phase}`
  (`extend; sort_by (stable); dedup_by (keeps the earlier twin); truncate`),
* `rosomaxa/src/population/rosomaxa.rs` `Rosomaxa::{add, add_all, is_comparable_with_best_known, update_phase,
  select, ranked, size, selection_phase}`: the **elite** (an `Elitism` whose `on_generation` is never called),
  the list of individuals kept while in the initial phase, the phase and its selection size.
  The GSOM network (node populations, what `select` draws from nodes) is out of model (C19): in the
  exploration phase `select` takes its node part and the random sizes from a tape.
* `rosomaxa/src/lib.rs` `TelemetryHeuristicContext::{on_initial, on_generation}` = `add` / `add_all; on_generation`,
  `rosomaxa/src/evolution/strategies/iterative.rs` result = `ranked().take(n)`.

Individuals are an arbitrary type `α`; the objective is `le a b` (= `total_order a b != Greater`),
`fitEq a b` (= all fitness components equal, what `is_improved` tests) and the dedup function `same later kept`.
Random choices are a tape given with the operation (the theorems quantify over all tapes).
Numbers: speed ratio in eighths (`r8/8`), termination estimate and exploration ratio in 64ths.

The second half of the file is the **specification**, written without reference to sort/dedup/filter:
Boolean predicates over an observed trace (what was offered, what was returned/ranked after each operation).
-/
namespace C08

variable {α : Type}

/-! ## configuration, statistics, operations -/

structure Cfg (α : Type) where
  /-- `objective.total_order a b != Ordering::Greater` -/
  le : α → α → Bool
  /-- every fitness component equal (`a != b` on floats is what `is_improved` uses) -/
  fitEq : α → α → Bool
  /-- `dedup_fn(objective, later, kept)` -/
  same : α → α → Bool
  /-- `max_population_size` (`elite_size` for the Rosomaxa elite) -/
  cap : Nat
  /-- `selection_size` -/
  selSize : Nat

/-- `HeuristicSpeed`; `slow r8` carries `ratio = r8 / 8` -/
inductive Speed where
  | unknown
  | slow (r8 : Nat)
  | moderate
deriving DecidableEq, Repr

/-- the fields of `HeuristicStatistics` the populations read; `te64` = `termination_estimate * 64` -/
structure Stats where
  speed : Speed
  te64 : Nat
deriving DecidableEq, Repr

/-- `SelectionPhase` -/
inductive Phase where
  | initial
  | exploration
  | exploitation
deriving DecidableEq, Repr

def Phase.rank : Phase → Nat
  | .initial => 0
  | .exploration => 1
  | .exploitation => 2

/-- what the random generator and the GSOM network contribute to one `select()` call -/
structure Tape (α : Type) where
  /-- values returned by `random.uniform_int(0, size - 1)` inside `Elitism::select` -/
  picks : List Nat
  /-- `elite_explore_size` (1, or 2..4 by `is_hit`) -/
  k : Nat
  /-- what the node populations yield -/
  extra : List α

inductive Op (α : Type) where
  | add (x : α)
  | addAll (xs : List α)
  | gen (st : Stats)
  | select (t : Tape α)

/-- what is observed through `HeuristicPopulation` after an operation -/
structure Obs (α : Type) where
  /-- return value of `add` / `add_all` -/
  ret : Option Bool
  ranked : List α
  size : Nat
  phase : Phase
  /-- what `select()` returned -/
  sel : Option (List α)

/-! ## `Vec::dedup_by`, `is_improved` -/

/-- `Vec::dedup_by(|a, b| same a b)`: `a` is the later element, `b` the last retained one; when
    `same a b` the later one is removed. -/
def dedupBy (same : α → α → Bool) : List α → List α
  | [] => []
  | x :: xs => x :: go x xs
where go (kept : α) : List α → List α
  | [] => []
  | y :: ys => if same y kept then go kept ys else y :: go y ys

/-- `Elitism::is_improved`: `best_known_fitness.zip(first).is_none_or(|(a, b)| a != b)` -/
def isImproved (c : Cfg α) (old new : Option α) : Bool :=
  match old, new with
  | some o, some n => !c.fitEq o n
  | _, _ => true

/-- `(selection_size as Float * ratio).max(1.).round() as usize` with `ratio = r8/8`
    (`round` = half away from zero) -/
def slowSize (sel r8 : Nat) : Nat :=
  if sel * r8 ≤ 8 then 1 else (2 * sel * r8 + 8) / 16

/-! ## Greedy -/

/-- `Greedy::add` on the `best_known` option -/
def Greedy.add (c : Cfg α) (best : Option α) (x : α) : Option α × Bool :=
  match best with
  | some b => if c.le b x then (some b, false) else (some x, true)
  | none => (some x, true)

/-- `Greedy::add_all`; `shortCircuit = false` is the fold of /repo (`self.add(i) || acc`: every element is handed to
    `add`), `true` is the fold before the repair S35, `acc || self.add(i)` (the right operand is not evaluated once
    `acc` holds) — kept to state what a regression would lose. -/
def Greedy.addAll (shortCircuit : Bool) (c : Cfg α) (best : Option α) (xs : List α) : Option α × Bool :=
  xs.foldl (fun (acc : Option α × Bool) x =>
    if shortCircuit && acc.2 then acc
    else
      let r := Greedy.add c acc.1 x
      (r.1, acc.2 || r.2)) (best, false)

/-- which fold `/repo/rosomaxa/src/population/greedy.rs::add_all` is: the exhaustive one since the repair S35
    (checked by the correspondence run: `corpus/C08/greedy_batch_skips_better.jsonl` and every generated Greedy case
    with a better element after the first improving one distinguish the two folds). The oracle does not depend on this
    constant: it always demands the full specification (`greedySpec false`). -/
def Greedy.repoShortCircuits : Bool := false

/-- `std::iter::repeat_n(best_known, selection_size)` -/
def Greedy.select (c : Cfg α) (best : Option α) : List α :=
  match best with
  | some b => List.replicate c.selSize b
  | none => []

/-! ## Elitism -/

structure ElState (α : Type) where
  inds : List α
  /-- `speed`, set by `on_generation` -/
  speed : Option Speed

def ElState.empty : ElState α := ⟨[], none⟩

/-- `Elitism::add_with_iter`: extend; `sort_by` (stable); `dedup_by`; truncate; `is_improved` -/
def Elitism.addWithIter (c : Cfg α) (s : ElState α) (xs : List α) : ElState α × Bool :=
  let inds := (dedupBy c.same ((s.inds ++ xs).mergeSort c.le)).take c.cap
  ({ s with inds := inds }, isImproved c s.inds.head? inds.head?)

def Elitism.add (c : Cfg α) (s : ElState α) (x : α) : ElState α × Bool :=
  Elitism.addWithIter c s [x]

/-- `Elitism::add_all` (an empty batch returns `false` at once) -/
def Elitism.addAll (c : Cfg α) (s : ElState α) (xs : List α) : ElState α × Bool :=
  if xs.isEmpty then (s, false) else Elitism.addWithIter c s xs

def Elitism.onGeneration (s : ElState α) (st : Stats) : ElState α :=
  { s with speed := some st.speed }

/-- the `selection_size` computed at the top of `Elitism::select` -/
def Elitism.selectionSize (c : Cfg α) (s : ElState α) : Nat :=
  match s.speed with
  | some (.slow r8) => slowSize c.selSize r8
  | _ => c.selSize

/-- `once(0).chain((1..n).map(|_| random)).take(n).filter_map(|idx| individuals.get(idx))` -/
def Elitism.select (c : Cfg α) (s : ElState α) (picks : List Nat) : List α :=
  if s.inds.isEmpty then []
  else
    let n := Elitism.selectionSize c s
    ((0 :: picks.take (n - 1)).take n).filterMap (fun i => s.inds[i]?)

/-! ## Rosomaxa: elite path and phase machine -/

/-- the fields of `RosomaxaConfig` the phase machine reads; `er64` = `exploration_ratio * 64`
    (`elite_size`, `selection_size` are `cap`, `selSize` of the elite's `Cfg`) -/
structure RCfg where
  initialSize : Nat
  er64 : Nat
deriving DecidableEq, Repr

structure RState (α : Type) where
  /-- `elite`; its `speed` stays `None` (`elite.on_generation` is never called) -/
  elite : ElState α
  phase : Phase
  /-- `RosomaxaPhases::Initial { solutions }` (empty in the other phases) -/
  initSols : List α
  /-- `selection_size` stored in the `Exploration` / `Exploitation` phase -/
  phaseSel : Nat

def RState.empty : RState α := ⟨ElState.empty, .initial, [], 0⟩

/-- `is_comparable_with_best_known`: `total_order(individual, best_known) != Greater` -/
def Rosomaxa.comparable (c : Cfg α) (best : Option α) (x : α) : Bool :=
  match best with
  | none => true
  | some b => c.le x b

/-- `Rosomaxa::add_all`: the individuals comparable with the best known go to the elite; in the initial
    phase every individual is also remembered (in the exploration phase they go to the network: out of model) -/
def Rosomaxa.addAll (c : Cfg α) (s : RState α) (xs : List α) : RState α × Bool :=
  let cand := xs.filter (Rosomaxa.comparable c s.elite.inds.head?)
  let r := Elitism.addAll c s.elite cand
  ({ s with elite := r.1,
            initSols := match s.phase with
                        | .initial => s.initSols ++ xs
                        | _ => s.initSols }, r.2)

def Rosomaxa.add (c : Cfg α) (s : RState α) (x : α) : RState α × Bool :=
  Rosomaxa.addAll c s [x]

/-- `selection_size` at the top of `update_phase` -/
def Rosomaxa.selOf (c : Cfg α) (st : Stats) : Nat :=
  match st.speed with
  | .slow r8 => slowSize c.selSize r8
  | _ => c.selSize

/-- `exploration_ratio` at the top of `update_phase`, times 512 -/
def Rosomaxa.er512 (rc : RCfg) (st : Stats) : Nat :=
  match st.speed with
  | .slow r8 => rc.er64 * r8
  | _ => rc.er64 * 8

/-- `((old as f64 / 2.).round() as usize).clamp(2, 4)` -/
def Rosomaxa.halve (n : Nat) : Nat := min (max ((n + 1) / 2) 2) 4

/-- `Rosomaxa::update_phase` -/
def Rosomaxa.updatePhase (c : Cfg α) (rc : RCfg) (s : RState α) (st : Stats) : RState α :=
  match s.phase with
  | .initial =>
    if st.te64 * 8 > Rosomaxa.er512 rc st then
      { s with phase := .exploitation, initSols := [], phaseSel := Rosomaxa.selOf c st }
    else if s.initSols.length ≥ rc.initialSize then
      { s with phase := .exploration, initSols := [], phaseSel := Rosomaxa.selOf c st }
    else s
  | .exploration =>
    if st.te64 * 8 < Rosomaxa.er512 rc st then { s with phaseSel := Rosomaxa.selOf c st }
    else { s with phase := .exploitation, phaseSel := Rosomaxa.selOf c st }
  | .exploitation => { s with phaseSel := Rosomaxa.halve s.phaseSel }

/-- `Rosomaxa::select` -/
def Rosomaxa.select (c : Cfg α) (s : RState α) (t : Tape α) : List α :=
  match s.phase with
  | .initial => s.initSols
  | .exploration => ((Elitism.select c s.elite t.picks).take (max t.k 1) ++ t.extra).take s.phaseSel
  | .exploitation => (Elitism.select c s.elite t.picks).take s.phaseSel

/-! ## the three populations behind one interface, traces -/

/-- `HeuristicPopulation` -/
structure Machine (σ α : Type) where
  add : σ → α → σ × Bool
  addAll : σ → List α → σ × Bool
  onGen : σ → Stats → σ
  select : σ → Tape α → List α
  ranked : σ → List α
  size : σ → Nat
  phase : σ → Phase

def greedyM (shortCircuit : Bool) (c : Cfg α) : Machine (Option α) α where
  add := Greedy.add c
  addAll := Greedy.addAll shortCircuit c
  onGen := fun s _ => s
  select := fun s _ => Greedy.select c s
  ranked := fun s => s.toList
  size := fun s => if s.isSome then 1 else 0
  phase := fun _ => .exploitation

def elitismM (c : Cfg α) : Machine (ElState α) α where
  add := Elitism.add c
  addAll := Elitism.addAll c
  onGen := Elitism.onGeneration
  select := fun s t => Elitism.select c s t.picks
  ranked := fun s => s.inds
  size := fun s => s.inds.length
  phase := fun _ => .exploitation

def rosomaxaM (c : Cfg α) (rc : RCfg) : Machine (RState α) α where
  add := Rosomaxa.add c
  addAll := Rosomaxa.addAll c
  onGen := Rosomaxa.updatePhase c rc
  select := Rosomaxa.select c
  ranked := fun s => s.elite.inds
  size := fun s => s.elite.inds.length
  phase := fun s => s.phase

variable {σ : Type}

def Machine.observe (m : Machine σ α) (s : σ) (ret : Option Bool) (sel : Option (List α)) : Obs α :=
  ⟨ret, m.ranked s, m.size s, m.phase s, sel⟩

def Machine.step (m : Machine σ α) (s : σ) : Op α → σ × Obs α
  | .add x => let r := m.add s x; (r.1, m.observe r.1 (some r.2) none)
  | .addAll xs => let r := m.addAll s xs; (r.1, m.observe r.1 (some r.2) none)
  | .gen st => let s' := m.onGen s st; (s', m.observe s' none none)
  | .select t => (s, m.observe s none (some (m.select s t)))

def Machine.run (m : Machine σ α) (s : σ) : List (Op α) → σ
  | [] => s
  | op :: ops => m.run (m.step s op).1 ops

def Machine.trace (m : Machine σ α) (s : σ) : List (Op α) → List (Op α × Obs α)
  | [] => []
  | op :: ops => (op, (m.step s op).2) :: m.trace (m.step s op).1 ops

/-- `TelemetryHeuristicContext`: `on_initial` = `add`; `on_generation(offspring, ..)` = `add_all` followed by
    `population.on_generation(statistics)`; the result of `Iterative::run` is the head of `ranked()`. -/
def solveOps (initial : List α) (generations : List (List α × Stats)) : List (Op α) :=
  initial.map Op.add ++ generations.flatMap (fun g => [Op.addAll g.1, Op.gen g.2])

/-! ## SPECIFICATION (independent of the code's mechanisms)

`offered` = everything handed to the population so far. After every operation:
the first ranked individual is one of the offered individuals and no worse than every offered one;
the ranking is sorted, within the size bound, made of offered individuals; generation ticks and selections
leave it unchanged; `add`/`add_all` return `true` exactly when the best known strictly improved (or appeared);
`select()` returns offered individuals only, something whenever the population is non-empty, the best known
first (outside the initial phase); the phase only moves forward. -/

/-- the prefix of a batch up to and including the first element that improves on `best` — what a population
    whose `add_all` stops looking after the first improvement effectively receives (regression analysis only:
    the check's oracle never uses it) -/
def consideredPrefix (le : α → α → Bool) (best : Option α) : List α → List α
  | [] => []
  | x :: xs =>
    match best with
    | none => [x]
    | some b => if le b x then x :: consideredPrefix le best xs else [x]

structure Spec (α : Type) where
  le : α → α → Bool
  /-- bound on `size()` -/
  cap : Nat
  /-- a positive selection size is configured -/
  selPos : Bool
  /-- `select()` draws from the ranked individuals only (Greedy, Elitism) -/
  selStored : Bool
  /-- which part of a batch counts as offered, given the best known before (`fun _ xs => xs` for a population
      that looks at the whole batch) -/
  eff : Option α → List α → List α

def Spec.offeredBy (sp : Spec α) (best : Option α) : Op α → List α
  | .add x => [x]
  | .addAll xs => sp.eff best xs
  | _ => []

/-- which part of a batch a `Greedy` looks at: everything, or (short-circuiting fold) the considered prefix -/
def greedyEff (shortCircuit : Bool) (c : Cfg α) : Option α → List α → List α :=
  if shortCircuit then consideredPrefix c.le else fun _ xs => xs

/-- the specification instances of the three populations -/
def greedySpec (shortCircuit : Bool) (c : Cfg α) : Spec α :=
  ⟨c.le, 1, decide (1 ≤ c.selSize), true, greedyEff shortCircuit c⟩

def elitismSpec (c : Cfg α) : Spec α := ⟨c.le, c.cap, decide (1 ≤ c.selSize), true, fun _ xs => xs⟩

def rosomaxaSpec (c : Cfg α) : Spec α := ⟨c.le, c.cap, decide (1 ≤ c.selSize), false, fun _ xs => xs⟩

section
variable [DecidableEq α]

def memB (x : α) (l : List α) : Bool := l.any (fun y => decide (x = y))

def pairwiseB (le : α → α → Bool) : List α → Bool
  | [] => true
  | x :: xs => xs.all (le x) && pairwiseB le xs

/-- the first ranked individual is an offered one and no worse than everything offered;
    nothing ranked iff nothing offered -/
def headBest (le : α → α → Bool) (offered ranked : List α) : Bool :=
  match ranked.head? with
  | none => offered.isEmpty
  | some h => memB h offered && offered.all (le h)

/-- "the best known strictly improved, or appeared" -/
def improved (le : α → α → Bool) (old new : Option α) : Bool :=
  match old, new with
  | none, some _ => true
  | some o, some n => !le o n
  | _, none => false

def optEq (a b : Option α) : Bool := decide (a = b)

def sizeOK (sp : Spec α) (o : Obs α) : Bool := o.size == o.ranked.length && decide (o.size ≤ sp.cap)

def rankedOffered (offered : List α) (o : Obs α) : Bool := o.ranked.all (fun r => memB r offered)

def retOK (sp : Spec α) (prevRanked : List α) (op : Op α) (o : Obs α) : Bool :=
  match op with
  | .add _ | .addAll _ => o.ret == some (improved sp.le prevRanked.head? o.ranked.head?)
  | _ => o.ret == none

def frameOK (prevRanked : List α) (op : Op α) (o : Obs α) : Bool :=
  match op with
  | .gen _ | .select _ => decide (o.ranked = prevRanked)
  | _ => true

def selOK (sp : Spec α) (offered : List α) (op : Op α) (o : Obs α) : Bool :=
  match op, o.sel with
  | .select _, some l =>
    l.all (fun x => memB x offered)
      && (!sp.selStored || l.all (fun x => memB x o.ranked))
      && (!(decide (o.size > 0) && sp.selPos) || !l.isEmpty)
      && (o.phase == .initial || l.isEmpty || optEq l.head? o.ranked.head?)
  | .select _, none => false
  | _, some _ => false
  | _, none => true

def phaseOK (prevPhase : Phase) (o : Obs α) : Bool := decide (prevPhase.rank ≤ o.phase.rank)

/-- everything the specification says about one operation -/
def stepOK (sp : Spec α) (offered prevRanked : List α) (prevPhase : Phase) (op : Op α) (o : Obs α) : Bool :=
  headBest sp.le offered o.ranked && pairwiseB sp.le o.ranked && sizeOK sp o && rankedOffered offered o
    && retOK sp prevRanked op o && frameOK prevRanked op o && selOK sp offered op o && phaseOK prevPhase o

/-- the specification of a whole observed trace; `offered`, `prevRanked`, `prevPhase` describe the
    population before the first operation -/
def traceOK (sp : Spec α) (offered prevRanked : List α) (prevPhase : Phase) : List (Op α × Obs α) → Bool
  | [] => true
  | (op, o) :: rest =>
    let offered' := offered ++ sp.offeredBy prevRanked.head? op
    stepOK sp offered' prevRanked prevPhase op o && traceOK sp offered' o.ranked o.phase rest

end

/-! ## concrete individuals used by the driver (and by the examples in the proofs) -/

/-- an individual of the harness: unique `id`, integer fitness, first weight coordinate -/
structure Ind where
  id : Nat
  fit : Int
  w : Int
deriving DecidableEq, Repr

def Ind.le (a b : Ind) : Bool := decide (a.fit ≤ b.fit)
def Ind.fitEq (a b : Ind) : Bool := decide (a.fit = b.fit)

/-- `relative_distance([a], [b]) < 1/den` for integers: `|a−b| / max(|a|,|b|) < 1/den`, distance 0 when both are 0 -/
def relClose (den : Int) (a b : Int) : Bool :=
  a == b || decide (den * (a - b).natAbs < max a.natAbs b.natAbs)

/-- the dedup function of `Elitism::new`: relative distance of the fitness below 0.05 -/
def Ind.sameDefault (a b : Ind) : Bool := relClose 20 a.fit b.fit

/-- `create_dedup_fn(threshold = 1/den)` of rosomaxa.rs: equal order ⇒ equal fitness; otherwise relative
    distance of the weights below the threshold (weights = `[w, const]`) -/
def Ind.sameRosomaxa (den : Int) (a b : Ind) : Bool :=
  if a.fit == b.fit then true else relClose den a.w b.w

end C08
