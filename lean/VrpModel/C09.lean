/-!
# C09 — model of solution / insertion-cost comparison

Mirrors
* `vrp-core/src/models/goal.rs`  `Goal::total_order` (try_fold over layers), `GoalBuilder::add_single`
  comparator (`== 0.` special case, otherwise `f64::total_cmp`),
* `rosomaxa/src/evolution/objectives.rs` `dominance_order`,
* `vrp-pragmatic/src/format/problem/goal_reader.rs` multi-objective layers
  (`dominance_order` over plain `total_cmp`),
* `vrp-core/src/construction/heuristics/insertions.rs` `impl Ord/Add/Sub for InsertionCost`.

Floats are modelled bit-exactly as their 64-bit patterns (`UInt64`); `key` is the integer key of
IEEE-754 `totalOrder` (what `f64::total_cmp` compares), `isZero` is `x == 0.0`.
Arithmetic (`+`, `-`) is modelled over `Int` (exact); `f64` rounding is out of model.
-/
namespace C09

/-- the integer whose order is `f64::total_cmp` on the bit pattern:
    non-negative patterns keep their value, negative ones are reversed below `-0.0 ↦ -1`. -/
def key (b : UInt64) : Int :=
  if b.toNat < 2^63 then (b.toNat : Int) else -((b.toNat : Int) - 2^63) - 1

/-- `x == 0.0` in IEEE arithmetic: `+0.0` or `-0.0` (a NaN is never equal to anything). -/
def isZero (b : UInt64) : Bool := b.toNat = 0 || b.toNat = 2^63

/-- `f64::total_cmp` -/
def totalCmp (a b : UInt64) : Ordering := compare (key a) (key b)

/-- the comparator installed by `GoalBuilder::add_single` -/
def layerCmp (a b : UInt64) : Ordering :=
  if isZero a && isZero b then .eq else totalCmp a b

/-- `dominance_order` on the list of per-objective orderings -/
def domOrder (os : List Ordering) : Ordering :=
  let less := os.count .lt
  let greater := os.count .gt
  if less > 0 && greater == 0 then .lt
  else if greater > 0 && less == 0 then .gt
  else .eq

inductive LayerKind where
  | single
  | multi
deriving Repr, DecidableEq

/-- one layer of a goal together with the fitness values of its objectives for solutions a and b -/
structure LayerVals where
  kind : LayerKind
  fa : List UInt64
  fb : List UInt64

def layerOrder (l : LayerVals) : Ordering :=
  match l.kind with
  | .single =>
    match l.fa, l.fb with
    | a :: _, b :: _ => layerCmp a b
    | _, _ => .eq            -- unreachable in the code (`objectives[0]` always exists)
  | .multi => domOrder (List.zipWith totalCmp l.fa l.fb)

/-- `Goal::total_order`: first non-equal layer decides -/
def goalCmp : List LayerVals → Ordering
  | [] => .eq
  | l :: rest =>
    match layerOrder l with
    | .eq => goalCmp rest
    | o => o

/-- a goal made of single layers only, given the two fitness vectors -/
def singleGoalCmp : List UInt64 → List UInt64 → Ordering
  | a :: as, b :: bs =>
    match layerCmp a b with
    | .eq => singleGoalCmp as bs
    | o => o
  | _, _ => .eq

/-! ## InsertionCost -/

def hd (l : List Int) : Int := l.headD 0

/-- `InsertionCost::cmp` on the list of total-order keys, `size` iterations, missing = key(+0.0) = 0 -/
def icmpK : Nat → List Int → List Int → Ordering
  | 0, _, _ => .eq
  | n + 1, x, y =>
    match compare (hd x) (hd y) with
    | .eq => icmpK n x.tail y.tail
    | o => o

/-- `impl Ord for InsertionCost` on bit patterns -/
def icmp (x y : List UInt64) : Ordering :=
  icmpK (max x.length y.length) (x.map key) (y.map key)

/-- element-wise combination padded with `0` up to the longer length (`Add`/`Sub`) -/
def zipPad (f : Int → Int → Int) : List Int → List Int → List Int
  | [], [] => []
  | x :: xs, [] => f x 0 :: zipPad f xs []
  | [], y :: ys => f 0 y :: zipPad f [] ys
  | x :: xs, y :: ys => f x y :: zipPad f xs ys

def iadd (x y : List Int) : List Int := zipPad (· + ·) x y
def isub (x y : List Int) : List Int := zipPad (· - ·) x y

/-- `cmp` on integer-valued costs (key is monotone on them, so comparing values is comparing keys;
    used by the driver only for integer cases where `-0.0` does not occur) -/
def icmpI (x y : List Int) : Ordering := icmpK (max x.length y.length) x y

/-! ## Specification side (independent of the folds above; evaluated by the driver on the
implementation's own output) -/

/-- the key with both zeros identified -/
def key' (b : UInt64) : Int := if isZero b then 0 else key b

/-- lexicographic comparison of integer vectors (stops at the shorter one, as `zip` does) -/
def lexCmp : List Int → List Int → Ordering
  | a :: as, b :: bs =>
    match compare a b with
    | .eq => lexCmp as bs
    | o => o
  | _, _ => .eq

/-- SPEC for single-layer goals: lexicographic comparison of the fitness vectors, ±0 identified -/
def goalSpec (fa fb : List UInt64) : Ordering := lexCmp (fa.map key') (fb.map key')

/-- pad with zeros up to length `n` -/
def padSpec (n : Nat) (x : List Int) : List Int := x ++ List.replicate (n - x.length) 0

/-- SPEC for insertion costs: lexicographic comparison after padding the shorter vector with zeros -/
def icostSpec (x y : List UInt64) : Ordering :=
  let n := max x.length y.length
  lexCmp (padSpec n (x.map key)) (padSpec n (y.map key))

end C09
