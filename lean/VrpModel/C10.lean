/-!
# C10 — model of problem validation (`vrp-pragmatic/src/validation/*.rs`) and its documented rules

* **Document AST** (`Doc`): the part of a pragmatic problem + matrix documents that validation and
  the panic sites of the mapping code look at. Times are integer seconds or the token `Tm.bad`
  (a string that is not an RFC 3339 date); the harness renders timestamps from these integers.
* **Model** (`Validate.*`, `run`): one `Bool` function per rule function `check_eNNNN_*`, written
  the way the Rust code computes it (chains over the four optional task lists, `get_duplicates`
  with its seen-set, sort-then-adjacent window check, the entry map of E1204, grouping of E1207,
  `CoordIndex` as an insert-if-absent map, `MultiDimLoad` arithmetic and its `PartialEq`, …).
* **Specification** (`Rules.violates`): one declarative predicate per documented rule, written from
  `docs/src/concepts/pragmatic/errors/index.md` over a *typed-task view* of the document.
* **MapperSafe**: one precondition per panic site of the mapping code that runs after validation.

Out of model: custom (`unknown`) locations, objectives nested deeper than one `multi-objective`,
JSON syntax and RFC 3339 parsing itself, E0xxx errors, i32/f64 overflow and rounding.
-/
namespace C10

/-! ## Document AST -/

/-- a timestamp string: malformed, or the RFC 3339 rendering of `t` seconds -/
inductive Tm where
  | bad : Tm
  | at (t : Int) : Tm
deriving DecidableEq, Repr, Inhabited

/-- `Location::Reference { index }` / `Location::Coordinate { lat, lng }` -/
inductive Loc where
  | idx (n : Nat) : Loc
  | coord (lat lng : Int) : Loc
deriving DecidableEq, Repr, Inhabited

structure Place where
  loc : Loc
  dur : Int
  times : Option (List (List Tm))
deriving Repr, Inhabited

structure Task where
  places : List Place
  demand : Option (List Int)
  order : Option Int
deriving Repr, Inhabited

structure Job where
  id : String
  pickups : Option (List Task)
  deliveries : Option (List Task)
  replacements : Option (List Task)
  services : Option (List Task)
  /-- `value` in halves (so that 0.5 is representable) -/
  value2 : Option Int
deriving Repr, Inhabited

inductive RelType where
  | any | sequence | strict
deriving DecidableEq, Repr, Inhabited

structure Rel where
  type : RelType
  jobs : List String
  vehicle : String
  shift : Option Nat
deriving Repr, Inhabited

/-- `VehicleBreak` with its two untagged time forms each -/
inductive Break where
  | optTw (tw : List Tm) (locs : List (Option Loc)) : Break
  | optOff (off : List Int) (locs : List (Option Loc)) : Break
  | reqExact (e l : Tm) (dur : Int) : Break
  | reqOff (e l dur : Int) : Break
deriving Repr, Inhabited

structure Reload where
  loc : Loc
  times : Option (List (List Tm))
  res : Option String
deriving Repr, Inhabited

structure ShiftEnd where
  earliest : Option Tm
  latest : Tm
  loc : Loc
deriving Repr, Inhabited

structure Shift where
  startE : Tm
  startL : Option Tm
  startLoc : Loc
  end_ : Option ShiftEnd
  breaks : Option (List Break)
  reloads : Option (List Reload)
  /-- recharge stations (`recharges.stations`) -/
  recharges : Option (List Place)
deriving Repr, Inhabited

structure Veh where
  typeId : String
  ids : List String
  profile : String
  costDist : Int
  costTime : Int
  shifts : List Shift
  cap : List Int
deriving Repr, Inhabited

/-- the discriminants of `Objective` (without `MultiObjective`) -/
inductive ObjKind where
  | minCost | minDistance | minDuration | minTours | maxTours | maxValue | minUnassigned
  | minArrival | balLoad | balActivities | balDistance | balDuration | compactTour | tourOrder
  | fastService | hierAreas
deriving DecidableEq, Repr, Inhabited

/-- a top-level objective: a plain one or a `multi-objective` of plain ones -/
inductive Obj where
  | leaf (k : ObjKind) : Obj
  | multi (inner : List ObjKind) : Obj
deriving Repr, Inhabited

structure Mat where
  profile : Option String
  ts : Option Tm
  /-- `travelTimes.len()` -/
  tt : Nat
  /-- `distances.len()` -/
  dist : Nat
deriving Repr, Inhabited

structure Resource where
  id : String
  cap : List Int
deriving Repr, Inhabited

structure Doc where
  jobs : List Job
  relations : Option (List Rel)
  /-- `plan.clustering.profile.matrix` -/
  clustering : Option String
  vehicles : List Veh
  /-- `fleet.profiles[].name` -/
  profiles : List String
  resources : Option (List Resource)
  objectives : Option (List Obj)
  matrices : List Mat
deriving Repr, Inhabited

/-- the documented rules (= error codes of the validation engine) -/
inductive Rule where
  | E1100 | E1101 | E1102 | E1103 | E1104 | E1105 | E1106 | E1107
  | E1200 | E1201 | E1202 | E1203 | E1204 | E1205 | E1206 | E1207
  | E1300 | E1301 | E1302 | E1303 | E1304 | E1306 | E1307 | E1308
  | E1500 | E1501 | E1502 | E1503 | E1504 | E1505
  | E1600 | E1601 | E1602 | E1603 | E1604 | E1605 | E1606 | E1607
deriving DecidableEq, Repr, Inhabited

def Rule.code : Rule → String
  | .E1100 => "E1100" | .E1101 => "E1101" | .E1102 => "E1102" | .E1103 => "E1103"
  | .E1104 => "E1104" | .E1105 => "E1105" | .E1106 => "E1106" | .E1107 => "E1107"
  | .E1200 => "E1200" | .E1201 => "E1201" | .E1202 => "E1202" | .E1203 => "E1203"
  | .E1204 => "E1204" | .E1205 => "E1205" | .E1206 => "E1206" | .E1207 => "E1207"
  | .E1300 => "E1300" | .E1301 => "E1301" | .E1302 => "E1302" | .E1303 => "E1303"
  | .E1304 => "E1304" | .E1306 => "E1306" | .E1307 => "E1307" | .E1308 => "E1308"
  | .E1500 => "E1500" | .E1501 => "E1501" | .E1502 => "E1502" | .E1503 => "E1503"
  | .E1504 => "E1504" | .E1505 => "E1505"
  | .E1600 => "E1600" | .E1601 => "E1601" | .E1602 => "E1602" | .E1603 => "E1603"
  | .E1604 => "E1604" | .E1605 => "E1605" | .E1606 => "E1606" | .E1607 => "E1607"

/-- in the order `ValidationContext::validate` chains them: jobs, vehicles, objectives, routing, relations -/
def Rule.all : List Rule :=
  [.E1100, .E1101, .E1102, .E1103, .E1104, .E1105, .E1106, .E1107,
   .E1300, .E1301, .E1302, .E1303, .E1304, .E1306, .E1307, .E1308,
   .E1600, .E1601, .E1602, .E1603, .E1604, .E1605, .E1606, .E1607,
   .E1500, .E1501, .E1502, .E1503, .E1504, .E1505,
   .E1200, .E1201, .E1202, .E1203, .E1204, .E1205, .E1206, .E1207]

/-! ## Small shared notions (used by model and specification) -/

/-- `is_reserved_job_id` -/
def reservedIds : List String := ["departure", "arrival", "break", "reload"]
def isReserved (id : String) : Bool := reservedIds.contains id

structure TW where
  s : Int
  e : Int
deriving DecidableEq, Repr, Inhabited

/-- `TimeWindow::intersects` (inclusive) -/
def TW.intersects (a b : TW) : Bool := decide (a.s ≤ b.e) && decide (b.s ≤ a.e)
def TW.valid (a : TW) : Bool := decide (a.s ≤ a.e)

/-- a structured window that may have failed to parse: well-formed and `start ≤ end` -/
def TW.validOpt : Option TW → Bool
  | some t => t.valid
  | none => false

/-- two windows do not intersect (vacuous when one of them did not parse) -/
def TW.disjointOpt : Option TW → Option TW → Bool
  | some x, some y => !x.intersects y
  | _, _ => true

/-- the window meets `st` (vacuous when it did not parse) -/
def TW.meetsOpt (st : TW) : Option TW → Bool
  | some t => t.intersects st
  | none => true

/-- `get_time_window` on two strings -/
def tw2 (a b : Tm) : Option TW :=
  match a, b with
  | .at s, .at e => some ⟨s, e⟩
  | _, _ => none

/-- `get_time_window_from_vec`: exactly two parseable strings -/
def parseTw (w : List Tm) : Option TW :=
  match w with
  | [a, b] => tw2 a b
  | _ => none

/-- the job an id resolves to in `ValidationContext::job_index` (a `HashMap` collected from the job
    list: for duplicated ids the last one wins) -/
def Doc.job? (d : Doc) (id : String) : Option Job :=
  d.jobs.foldl (fun acc j => if j.id == id then some j else acc) none

/-- the vehicle type a vehicle id resolves to in `vehicle_map` (last one wins) -/
def Doc.vehOf? (d : Doc) (vid : String) : Option Veh :=
  d.vehicles.foldl (fun acc v => if v.ids.contains vid then some v else acc) none

def optList (o : Option (List α)) : List α := o.getD []

def Loc.isIdx : Loc → Bool
  | .idx _ => true
  | _ => false

def Loc.isCoord : Loc → Bool
  | .coord _ _ => true
  | _ => false

def Loc.refIndex : Loc → Nat
  | .idx n => n
  | _ => 0

def ObjKind.isCost : ObjKind → Bool
  | .minCost | .minDistance | .minDuration => true
  | _ => false

/-- "2200-07-04T00:00:00Z", the default shift end of `get_shift_time_window` -/
def farFuture : Int := 7274016000

/-! ## Model of `validation/common.rs` -/

namespace Validate

/-- insertion into a list sorted by start (stands for `sort_by(|a, b| a.start.total_cmp(&b.start))`;
    the outcome of the adjacent check does not depend on the order among equal starts) -/
def insertTw (x : TW) : List TW → List TW
  | [] => [x]
  | y :: ys => if x.s ≤ y.s then x :: y :: ys else y :: insertTw x ys

def sortTw : List TW → List TW
  | [] => []
  | x :: xs => insertTw x (sortTw xs)

/-- `tws.windows(2).all(|[a, b]| a.start <= a.end && b.start <= b.end && (skip || !a.intersects(b)))` -/
def adjOk (skip : Bool) : List TW → Bool
  | a :: b :: rest => a.valid && b.valid && (skip || !a.intersects b) && adjOk skip (b :: rest)
  | _ => true

/-- `check_time_windows` once every entry is a window: a single one is checked directly, otherwise
    sort by start and look at neighbours (an empty list is rejected) -/
def checkWs (skip : Bool) (ws : List TW) : Bool :=
  match ws with
  | [a] => a.valid
  | _ => !ws.isEmpty && adjOk skip (sortTw ws)

/-- `check_time_windows` -/
def checkTimeWindows (tws : List (Option TW)) (skip : Bool) : Bool :=
  if tws.any Option.isNone then false else checkWs skip (tws.filterMap id)

/-- `check_raw_time_windows` -/
def checkRaw (raw : List (List Tm)) (skip : Bool) : Bool :=
  checkTimeWindows (raw.map parseTw) skip

/-- `get_duplicates`: the ids whose insertion into the seen-set fails (emptiness is what matters) -/
def dupsGo (seen : List String) : List String → List String
  | [] => []
  | x :: xs => if seen.contains x then x :: dupsGo seen xs else dupsGo (x :: seen) xs

def hasDuplicates (ids : List String) : Bool := !(dupsGo [] ids).isEmpty

/-- a `HashSet` collected from a list: insert-if-absent -/
def dedupGo [BEq α] (seen : List α) : List α → List α
  | [] => seen
  | x :: xs => if seen.contains x then dedupGo seen xs else dedupGo (seen ++ [x]) xs

def dedup [BEq α] (l : List α) : List α := dedupGo [] l

/-! ## jobs.rs -/

/-- `ctx.tasks(job)`: pickups, deliveries, replacements, services -/
def ctxTasks (j : Job) : List Task :=
  optList j.pickups ++ optList j.deliveries ++ optList j.replacements ++ optList j.services

/-- `Job::all_tasks_iter`: pickups, deliveries, services, replacements -/
def allTasksIter (j : Job) : List Task :=
  optList j.pickups ++ optList j.deliveries ++ optList j.services ++ optList j.replacements

def e1100 (d : Doc) : Bool := hasDuplicates (d.jobs.map (·.id))

def e1101 (d : Doc) : Bool :=
  !(d.jobs.filter (fun j =>
      (optList j.pickups ++ optList j.deliveries ++ optList j.replacements).any (fun t => t.demand.isNone)
      || (optList j.services).any (fun t => t.demand.isSome))).isEmpty

/-- `MultiDimLoad`: the first `size` entries of the fixed array (the rest is zero) -/
abbrev Load := List Int

/-- element-wise combination with zero padding; the result has the larger size -/
def zipPad (f : Int → Int → Int) : Load → Load → Load
  | [], ys => ys.map (f 0)
  | xs, [] => xs.map (fun x => f x 0)
  | x :: xs, y :: ys => f x y :: zipPad f xs ys

def Load.add (a b : Load) : Load := zipPad (· + ·) a b
def Load.sub (a b : Load) : Load := zipPad (· - ·) a b

/-- `tasks.iter().map(|t| t.demand.map_or_else(default, new)).sum()` (fold `item + acc`) -/
def sumDemand (ts : List Task) : Load :=
  ts.foldl (fun acc t => Load.add (t.demand.getD []) acc) []

/-- `x.as_vec().iter().any(|&dim| dim != 0)` (`as_vec` of a load without dimensions is `[0]`) -/
def Load.neDefault (x : Load) : Bool := x.any (· != 0)

def e1102 (d : Doc) : Bool :=
  !(d.jobs.filter (fun j =>
      (!(optList j.pickups).isEmpty && !(optList j.deliveries).isEmpty)
      && Load.neDefault (Load.sub (sumDemand (optList j.pickups)) (sumDemand (optList j.deliveries))))).isEmpty

def hasInvalidTws (ts : Option (List Task)) : Bool :=
  (optList ts).any (fun t => (t.places.filterMap (·.times)).any (fun tws => !checkRaw tws false))

def e1103 (d : Doc) : Bool :=
  !(d.jobs.filter (fun j =>
      hasInvalidTws j.pickups || hasInvalidTws j.deliveries
      || hasInvalidTws j.replacements || hasInvalidTws j.services)).isEmpty

def e1104 (d : Doc) : Bool := !(d.jobs.filter (fun j => isReserved j.id)).isEmpty

def e1105 (d : Doc) : Bool := !(d.jobs.filter (fun j => (ctxTasks j).isEmpty)).isEmpty

def e1106 (d : Doc) : Bool :=
  !(d.jobs.filter (fun j => ((ctxTasks j).flatMap (fun t => t.places.map (·.dur))).any (· < 0))).isEmpty

def e1107 (d : Doc) : Bool :=
  !(d.jobs.filter (fun j => (ctxTasks j).any (fun t => t.demand.any (fun dm => dm.any (· < 0))))).isEmpty

/-! ## vehicles.rs -/

def e1300 (d : Doc) : Bool := hasDuplicates (d.vehicles.map (·.typeId))
def e1301 (d : Doc) : Bool := hasDuplicates (d.vehicles.flatMap (·.ids))

/-- the raw window E1302 builds per shift: `[start.earliest, end.latest or start.earliest]` -/
def shiftRaw (s : Shift) : List Tm :=
  [s.startE, match s.end_ with | some e => e.latest | none => s.startE]

/-- `has_valid_optional_dates`: `start.latest` and `end.earliest`, when given, parse -/
def optionalDatesOk (s : Shift) : Bool :=
  (s.startL.toList ++ (match s.end_ with | some e => e.earliest.toList | none => [])).all (fun t => t != .bad)

def e1302 (d : Doc) : Bool :=
  !(d.vehicles.filter (fun v =>
      !(checkRaw (v.shifts.map shiftRaw) false && v.shifts.all optionalDatesOk))).isEmpty

/-- `get_shift_time_window` -/
def shiftTime (s : Shift) : Option TW :=
  tw2 s.startE (match s.end_ with | some e => e.latest | none => .at farFuture)

/-- `check_shift_time_windows` -/
def checkShiftTws (st : Option TW) (tws : List (Option TW)) (skip : Bool) : Bool :=
  tws.isEmpty ||
    (checkTimeWindows tws skip &&
      match st with
      | none => true
      | some t => (tws.filterMap id).all (fun w => w.intersects t))

/-- the `filter_map` of E1303 over one break -/
def breakTw (s : Shift) : Break → Option (Option TW)
  | .optTw tw _ => some (parseTw tw)
  | .optOff off _ => if off.length != 2 then some none else none
  | .reqOff e l dur =>
    some (match s.startE with
          | .at dep => some ⟨dep + e, dep + l + dur⟩
          | .bad => none)
  | .reqExact e l dur =>
    some (match e, l with
          | .at a, .at b => some ⟨a, b + dur⟩
          | _, _ => none)

/-- `get_invalid_type_ids` with a per-shift check -/
def invalidTypes (d : Doc) (ok : Shift → Bool) : List String :=
  (d.vehicles.filter (fun v => !(v.shifts.all ok))).map (·.typeId)

def e1303 (d : Doc) : Bool :=
  !(invalidTypes d (fun s =>
      match s.breaks with
      | none => true
      | some bs => checkShiftTws (shiftTime s) (bs.filterMap (breakTw s)) false)).isEmpty

/-- the `times` properties E1304 chains: reloads, then recharge stations -/
def reloadLikeTimes (s : Shift) : List (Option (List (List Tm))) :=
  (optList s.reloads).map (·.times) ++ (optList s.recharges).map (·.times)

def e1304 (d : Doc) : Bool :=
  !(invalidTypes d (fun s =>
      checkShiftTws (shiftTime s) ((((reloadLikeTimes s).filterMap id).flatMap id).map parseTw) true)).isEmpty

def e1306 (d : Doc) : Bool := !(d.vehicles.filter (fun v => v.costTime == 0 && v.costDist == 0)).isEmpty

def isOffsetBreak : Break → Bool
  | .reqOff _ _ _ => true
  | .optOff _ _ => true
  | _ => false

def e1307 (d : Doc) : Bool :=
  !(invalidTypes d (fun s =>
      match s.breaks with
      | none => true
      | some bs =>
        let hasOffset := bs.any isOffsetBreak
        let hasRescheduling := match s.startL with
          | none => true
          | some l => l != s.startE
        !(hasOffset && hasRescheduling))).isEmpty

def e1308 (d : Doc) : Bool :=
  let ids := (optList d.resources).map (·.id)
  if ids.length != (dedup ids).length then true
  else
    !(invalidTypes d (fun s =>
        ((optList s.reloads).filterMap (·.res)).all (fun r => ids.contains r))).isEmpty

/-! ## routing.rs (with `CoordIndex`) -/

/-- the locations `CoordIndex::new` visits, in its order -/
def jobLocs (j : Job) : List Loc :=
  (optList j.pickups ++ optList j.deliveries ++ optList j.replacements ++ optList j.services).flatMap
    (fun t => t.places.map (·.loc))

def breakLocs : Break → List Loc
  | .optTw _ locs => locs.filterMap id
  | .optOff _ locs => locs.filterMap id
  | _ => []

def shiftLocs (s : Shift) : List Loc :=
  [s.startLoc] ++ (match s.end_ with | some e => [e.loc] | none => [])
    ++ (optList s.breaks).flatMap breakLocs
    ++ (optList s.reloads).map (·.loc)
    ++ (optList s.recharges).map (·.loc)

def allLocs (d : Doc) : List Loc :=
  d.jobs.flatMap jobLocs ++ d.vehicles.flatMap (fun v => v.shifts.flatMap shiftLocs)

/-- `direct_index` keys after all `add` calls (insert-if-absent) -/
def coordKeys (d : Doc) : List Loc := dedup (allLocs d)

def hasCoordinates (d : Doc) : Bool := (allLocs d).any (fun l => !l.isIdx)
def hasIndices (d : Doc) : Bool := (allLocs d).any Loc.isIdx

/-- `max_matrix_index`: largest reference index, but at least (number of distinct locations, min 1) − 1 -/
def maxMatrixIndex (d : Doc) : Nat :=
  let keys := coordKeys d
  max ((keys.map Loc.refIndex).foldl max 0) (max keys.length 1 - 1)

/-- least `s ≥ s₀` with `n ≤ s² + s`, searched with `fuel` steps -/
def roundSqrtGo (n : Nat) : Nat → Nat → Nat
  | 0, s => s
  | fuel + 1, s => if n ≤ s * s + s then s else roundSqrtGo n fuel (s + 1)

/-- `(len as Float).sqrt().round() as usize`: the `s` with `(s − ½)² < n < (s + ½)²`, i.e. the least
    `s` with `n ≤ s² + s` -/
def roundSqrt (n : Nat) : Nat := roundSqrtGo n (n + 1) 0

def e1500 (d : Doc) : Bool := hasDuplicates d.profiles
def e1501 (d : Doc) : Bool := d.profiles.isEmpty
def e1502 (d : Doc) : Bool := hasCoordinates d && hasIndices d
def e1503 (d : Doc) : Bool := hasIndices d && d.matrices.isEmpty

def e1504 (d : Doc) : Bool :=
  match d.matrices with
  | [] => false
  | m :: _ =>
    let size := roundSqrt m.dist
    let isSquare := d.matrices.all (fun m' => m'.dist == size * size)
    !(maxMatrixIndex d + 1 == size && isSquare)

def e1505 (d : Doc) : Bool :=
  !((d.vehicles.map (·.profile) ++ d.clustering.toList).filter (fun p => !d.profiles.contains p)).isEmpty

/-! ## objectives.rs -/

/-- `get_objectives_flattened` -/
def flatten (os : List Obj) : List ObjKind :=
  os.flatMap (fun o => match o with
    | .leaf k => [k]
    | .multi inner => inner)

def hasValueJobs (d : Doc) : Bool := (d.jobs.filterMap (·.value2)).any (· > 0)
def hasOrderJobs (d : Doc) : Bool := ((d.jobs.flatMap allTasksIter).filterMap (·.order)).any (· > 0)

def e1600 (os : List Obj) : Bool := os.isEmpty
def e1601 (os : List Obj) : Bool := !((dedup (flatten os)).length == (flatten os).length)
def e1602 (os : List Obj) : Bool := !(flatten os).any ObjKind.isCost
def e1603 (d : Doc) (os : List Obj) : Bool := (flatten os).any (· == .maxValue) && !hasValueJobs d
def e1604 (d : Doc) (os : List Obj) : Bool := (flatten os).any (· == .tourOrder) && !hasOrderJobs d
def e1605 (d : Doc) : Bool :=
  !(d.jobs.filter (fun j =>
      ((allTasksIter j).filterMap (·.order)).any (· < 1) || j.value2.any (fun v => decide (v < 2)))).isEmpty
def e1606 (os : List Obj) : Bool := ((flatten os).filter ObjKind.isCost).length > 1
def e1607 (d : Doc) (os : List Obj) : Bool :=
  if os.isEmpty then false
  else !(flatten os).any (· == .maxValue) && hasValueJobs d

/-! ## relations.rs -/

def vehicleIds (d : Doc) : List String := d.vehicles.flatMap (·.ids)

def e1200 (d : Doc) (rs : List Rel) : Bool :=
  !(rs.flatMap (fun r => (r.jobs.filter (fun j => !isReserved j)).filter (fun j => (d.job? j).isNone))).isEmpty

def e1201 (d : Doc) (rs : List Rel) : Bool :=
  !((rs.map (·.vehicle)).filter (fun v => (d.vehOf? v).isNone)).isEmpty

def e1202 (rs : List Rel) : Bool := rs.any (fun r => !(r.jobs.any (fun j => !isReserved j)))

def taskMulti (t : Task) : Bool :=
  t.places.length > 1 || t.places.any (fun p => p.times.any (fun tw => tw.length > 1))

def e1203 (d : Doc) (rs : List Rel) : Bool :=
  !(rs.flatMap (fun r =>
      (((r.jobs.filter (fun j => !isReserved j)).filterMap d.job?).filter
        (fun j => (ctxTasks j).any taskMulti)).map (·.id))).isEmpty

/-- the entry map of E1204 over the (job id, vehicle id) occurrences in document order:
    `*map.entry(job).or_insert(vehicle) != vehicle` -/
def e1204Go (seen : List (String × String)) : List (String × String) → List String
  | [] => []
  | (j, v) :: rest =>
    match seen.lookup j with
    | none => e1204Go ((j, v) :: seen) rest
    | some f => if f != v then j :: e1204Go seen rest else e1204Go seen rest

def relPairs (rs : List Rel) : List (String × String) :=
  rs.flatMap (fun r => (r.jobs.filter (fun j => !isReserved j)).map (fun j => (j, r.vehicle)))

def e1204 (rs : List Rel) : Bool := !(e1204Go [] (relPairs rs)).isEmpty

/-- the shift a relation refers to (`vehicle.shifts.get(shift_index.unwrap_or(0))`) -/
def relShift? (d : Doc) (r : Rel) : Option Shift :=
  match d.vehOf? r.vehicle with
  | some v => v.shifts[r.shift.getD 0]?
  | none => none

def e1205 (d : Doc) (rs : List Rel) : Bool :=
  !(rs.filter (fun r =>
      match d.vehOf? r.vehicle with
      | some v => (v.shifts[r.shift.getD 0]?).isNone
      | none => false)).isEmpty

def isOptionalBreak : Break → Bool
  | .optTw _ _ => true
  | .optOff _ _ => true
  | _ => false

/-- `relation.jobs.iter().filter(|job_id| job_id.as_str() == id).count()` -/
def countStr (id : String) (ids : List String) : Nat := (ids.filter (fun j => j == id)).length

def e1206 (d : Doc) (rs : List Rel) : Bool :=
  !(rs.filter (fun r =>
      match relShift? d r with
      | some s =>
        let breaks := ((optList s.breaks).filter isOptionalBreak).length
        let reloads := match s.reloads with | some l => l.length | none => 0
        let recharges := match s.recharges with | some l => l.length | none => 0
        decide (countStr "break" r.jobs > breaks)
          || decide (countStr "reload" r.jobs > reloads)
          || decide (countStr "recharge" r.jobs > recharges)
          || (decide (countStr "arrival" r.jobs > 0) && s.end_.isNone)
      | none => false)).isEmpty

/-- `collect_group_by_key(|job| job)` then `.get(id).len()`: group sizes as an association list -/
def groupCount (ids : List String) : List (String × Nat) :=
  ids.foldl (fun acc x =>
    match acc.lookup x with
    | some _ => acc.map (fun p => if p.1 == x then (p.1, p.2 + 1) else p)
    | none => acc ++ [(x, 1)]) []

def taskCount (j : Job) : Nat :=
  (optList j.pickups).length + (optList j.deliveries).length
    + (optList j.replacements).length + (optList j.services).length

def e1207 (d : Doc) (rs : List Rel) : Bool :=
  !(rs.flatMap (fun r =>
      let freq := groupCount r.jobs
      ((r.jobs.filterMap d.job?).filter (fun j => (freq.lookup j.id).getD 0 != taskCount j)).map (·.id))).isEmpty

/-- does the rule function report its error? (`None` sections: the whole group is skipped) -/
def fires (d : Doc) : Rule → Bool
  | .E1100 => e1100 d | .E1101 => e1101 d | .E1102 => e1102 d | .E1103 => e1103 d
  | .E1104 => e1104 d | .E1105 => e1105 d | .E1106 => e1106 d | .E1107 => e1107 d
  | .E1300 => e1300 d | .E1301 => e1301 d | .E1302 => e1302 d | .E1303 => e1303 d
  | .E1304 => e1304 d | .E1306 => e1306 d | .E1307 => e1307 d | .E1308 => e1308 d
  | .E1500 => e1500 d | .E1501 => e1501 d | .E1502 => e1502 d | .E1503 => e1503 d
  | .E1504 => e1504 d | .E1505 => e1505 d
  | .E1600 => match d.objectives with | some os => e1600 os | none => false
  | .E1601 => match d.objectives with | some os => e1601 os | none => false
  | .E1602 => match d.objectives with | some os => e1602 os | none => false
  | .E1603 => match d.objectives with | some os => e1603 d os | none => false
  | .E1604 => match d.objectives with | some os => e1604 d os | none => false
  | .E1605 => match d.objectives with | some _ => e1605 d | none => false
  | .E1606 => match d.objectives with | some os => e1606 os | none => false
  | .E1607 => match d.objectives with | some os => e1607 d os | none => false
  | .E1200 => match d.relations with | some rs => e1200 d rs | none => false
  | .E1201 => match d.relations with | some rs => e1201 d rs | none => false
  | .E1202 => match d.relations with | some rs => e1202 rs | none => false
  | .E1203 => match d.relations with | some rs => e1203 d rs | none => false
  | .E1204 => match d.relations with | some rs => e1204 rs | none => false
  | .E1205 => match d.relations with | some rs => e1205 d rs | none => false
  | .E1206 => match d.relations with | some rs => e1206 d rs | none => false
  | .E1207 => match d.relations with | some rs => e1207 d rs | none => false

/-- `ValidationContext::validate`: the codes of the errors collected from the five groups -/
def run (d : Doc) : List Rule := Rule.all.filter (fires d)

end Validate

/-! ## Specification: the documented rules over a typed-task view -/

namespace Rules

inductive TaskKind where
  | pickup | delivery | replacement | service
deriving DecidableEq, Repr

/-- every task of a job together with its type -/
def typedTasks (j : Job) : List (TaskKind × Task) :=
  (optList j.pickups).map (fun t => (TaskKind.pickup, t))
    ++ (optList j.deliveries).map (fun t => (TaskKind.delivery, t))
    ++ (optList j.replacements).map (fun t => (TaskKind.replacement, t))
    ++ (optList j.services).map (fun t => (TaskKind.service, t))

def tasksOf (j : Job) : List Task := (typedTasks j).map (·.2)

/-- no element occurs twice -/
def nodupB [BEq α] : List α → Bool
  | [] => true
  | x :: xs => !xs.contains x && nodupB xs

/-- `p` holds for all pairs at positions i < j -/
def pairwiseB (p : α → α → Bool) : List α → Bool
  | [] => true
  | x :: xs => xs.all (p x) && pairwiseB p xs

/-- E1103's criteria for one list of time windows: at least one window; each an array of two
    RFC 3339 dates with start not after end; no two windows intersect (unless intersections are
    allowed, as for reloads) -/
def twListOk (raw : List (List Tm)) (allowIntersections : Bool) : Bool :=
  !raw.isEmpty
  && raw.all (fun w => TW.validOpt (parseTw w))
  && (allowIntersections || pairwiseB (fun a b => TW.disjointOpt (parseTw a) (parseTw b)) raw)

/-- the same criteria for windows that are already structured (`none` = not a valid date pair) -/
def twOptListOk (tws : List (Option TW)) (allowIntersections : Bool) : Bool :=
  !tws.isEmpty
  && tws.all TW.validOpt
  && (allowIntersections || pairwiseB TW.disjointOpt tws)

/-- i-th component of the summed demand of some tasks (missing = 0) -/
def dimSum (i : Nat) (ts : List Task) : Int :=
  (ts.map (fun t => (t.demand.getD []).getD i 0)).sum

def maxDims (ts : List Task) : Nat :=
  (ts.map (fun t => (t.demand.getD []).length)).foldl max 0

/-- the time window a break occupies, when the document fixes one -/
def breakWindow (s : Shift) : Break → Option (Option TW)
  | .optTw tw _ => some (parseTw tw)
  | .optOff off _ => if off.length = 2 then none else some none
  | .reqOff e l dur =>
    some (match s.startE with
          | .at dep => some ⟨dep + e, dep + l + dur⟩
          | .bad => none)
  | .reqExact e l dur => some ((tw2 e l).map (fun w => ⟨w.s, w.e + dur⟩))

/-- the span of a shift as a window `[start.earliest, end.latest]` (`[start, start]` without an end) -/
def shiftSpan (s : Shift) : Option TW :=
  match s.startE, s.end_ with
  | .at a, none => some ⟨a, a⟩
  | .at a, some e => (match e.latest with | .at b => some ⟨a, b⟩ | .bad => none)
  | .bad, _ => none

/-- an optional shift date (`start.latest`, `end.earliest`) is given but is not a date -/
def optionalDateBad (s : Shift) : Bool :=
  s.startL == some .bad || (match s.end_ with | some e => e.earliest == some .bad | none => false)

/-- the shift's own time window when its dates are well-formed (open end = far future) -/
def shiftWindow (s : Shift) : Option TW :=
  match s.startE, s.end_ with
  | .at a, none => some ⟨a, farFuture⟩
  | .at a, some e => (match e.latest with | .at b => some ⟨a, b⟩ | .bad => none)
  | .bad, _ => none

/-- windows must not lie outside the shift they belong to -/
def insideShift (s : Shift) (tws : List (Option TW)) : Bool :=
  match shiftWindow s with
  | none => true
  | some st => tws.all (TW.meetsOpt st)

/-- number of leaves of kind `k` in the objective tree -/
def leafCount (k : ObjKind) (os : List Obj) : Nat :=
  (os.map (fun o => match o with
    | .leaf k' => if k' = k then 1 else 0
    | .multi inner => inner.count k)).sum

def allKinds : List ObjKind :=
  [.minCost, .minDistance, .minDuration, .minTours, .maxTours, .maxValue, .minUnassigned,
   .minArrival, .balLoad, .balActivities, .balDistance, .balDuration, .compactTour, .tourOrder,
   .fastService, .hierAreas]

def costKinds : List ObjKind := [.minCost, .minDistance, .minDuration]

def jobHasValue (d : Doc) : Bool := d.jobs.any (fun j => j.value2.any (fun v => decide (0 < v)))
def jobHasOrder (d : Doc) : Bool :=
  d.jobs.any (fun j => (tasksOf j).any (fun t => t.order.any (fun o => decide (0 < o))))

/-- the places of a break that name a location -/
def breakPlaces : Break → List Loc
  | .optTw _ locs => locs.filterMap id
  | .optOff _ locs => locs.filterMap id
  | _ => []

/-- the locations a shift mentions: start, end, break places, reloads, recharge stations -/
def shiftLocations (s : Shift) : List Loc :=
  s.startLoc :: ((s.end_.map (·.loc)).toList ++ (optList s.breaks).flatMap breakPlaces
    ++ (optList s.reloads).map (·.loc) ++ (optList s.recharges).map (·.loc))

/-- all locations of the document -/
def locations (d : Doc) : List Loc :=
  d.jobs.flatMap (fun j => (tasksOf j).flatMap (fun t => t.places.map (·.loc)))
  ++ d.vehicles.flatMap (fun v => v.shifts.flatMap shiftLocations)

/-- an index location needs a matrix with more than `index` rows -/
def Loc.indexBound : Loc → Nat
  | .idx n => n + 1
  | _ => 0

/-- number of distinct elements -/
def distinctCount [BEq α] : List α → Nat
  | [] => 0
  | x :: xs => (if xs.contains x then 0 else 1) + distinctCount xs

/-- matrix dimension the locations need: every index must be addressable and every distinct
    location needs a row (a matrix has at least one row) -/
def requiredSize (d : Doc) : Nat :=
  let locs := locations d
  max 1 (max (distinctCount locs) ((locs.map Loc.indexBound).foldl max 0))

/-- `n` is the dimension of a square matrix with `len` entries -/
def isSquareOf (len n : Nat) : Bool := n * n == len

def countId (id : String) (ids : List String) : Nat := ids.count id

/-- an optional break (it becomes a job of its own) -/
def isOptional : Break → Bool
  | .optTw _ _ => true
  | .optOff _ _ => true
  | _ => false

/-- a break given by offsets from the departure time -/
def usesOffset : Break → Bool
  | .reqOff _ _ _ => true
  | .optOff _ _ => true
  | _ => false

def optionalBreaks (s : Shift) : Nat := ((optList s.breaks).filter isOptional).length

/-- does the document break the documented rule? -/
def violates (d : Doc) : Rule → Bool
  -- E11xx jobs
  | .E1100 => !nodupB (d.jobs.map (·.id))
  | .E1101 => d.jobs.any (fun j => (typedTasks j).any (fun kt =>
      if kt.1 = TaskKind.service then kt.2.demand.isSome else kt.2.demand.isNone))
  | .E1102 => d.jobs.any (fun j =>
      let p := optList j.pickups
      let dl := optList j.deliveries
      !p.isEmpty && !dl.isEmpty &&
        (List.range (max (maxDims p) (maxDims dl))).any (fun i => dimSum i p != dimSum i dl))
  | .E1103 => d.jobs.any (fun j => (tasksOf j).any (fun t => t.places.any (fun p =>
      p.times.any (fun tws => !twListOk tws false))))
  | .E1104 => d.jobs.any (fun j => reservedIds.contains j.id)
  | .E1105 => d.jobs.any (fun j => (typedTasks j).isEmpty)
  | .E1106 => d.jobs.any (fun j => (tasksOf j).any (fun t => t.places.any (fun p => decide (p.dur < 0))))
  | .E1107 => d.jobs.any (fun j => (tasksOf j).any (fun t => (t.demand.getD []).any (fun x => decide (x < 0))))
  -- E12xx relations
  | .E1200 => (optList d.relations).any (fun r => r.jobs.any (fun j =>
      !reservedIds.contains j && !(d.jobs.map (·.id)).contains j))
  | .E1201 => (optList d.relations).any (fun r => !(d.vehicles.flatMap (·.ids)).contains r.vehicle)
  | .E1202 => (optList d.relations).any (fun r => r.jobs.all (fun j => reservedIds.contains j))
  | .E1203 => (optList d.relations).any (fun r => r.jobs.any (fun j =>
      !reservedIds.contains j &&
      (d.job? j).any (fun jb => (tasksOf jb).any (fun t =>
          decide (1 < t.places.length) || t.places.any (fun p => p.times.any (fun tw => decide (1 < tw.length)))))))
  | .E1204 => (optList d.relations).any (fun r1 => (optList d.relations).any (fun r2 =>
      r1.vehicle != r2.vehicle && r1.jobs.any (fun j => !reservedIds.contains j && r2.jobs.contains j)))
  | .E1205 => (optList d.relations).any (fun r =>
      (d.vehOf? r.vehicle).any (fun v => decide (v.shifts.length ≤ r.shift.getD 0)))
  | .E1206 => (optList d.relations).any (fun r =>
      (d.vehOf? r.vehicle).any (fun v => (v.shifts[r.shift.getD 0]?).any (fun s =>
           decide (optionalBreaks s < countId "break" r.jobs)
           || decide ((optList s.reloads).length < countId "reload" r.jobs)
           || decide ((optList s.recharges).length < countId "recharge" r.jobs)
           || (r.jobs.contains "arrival" && s.end_.isNone))))
  | .E1207 => (optList d.relations).any (fun r => r.jobs.any (fun j =>
      (d.job? j).any (fun jb => countId j r.jobs != (typedTasks jb).length)))
  -- E13xx vehicles
  | .E1300 => !nodupB (d.vehicles.map (·.typeId))
  | .E1301 => !nodupB (d.vehicles.flatMap (·.ids))
  | .E1302 => d.vehicles.any (fun v =>
      !twOptListOk (v.shifts.map shiftSpan) false || v.shifts.any optionalDateBad)
  | .E1303 => d.vehicles.any (fun v => v.shifts.any (fun s =>
      match s.breaks with
      | some bs =>
        let ws := bs.filterMap (breakWindow s)
        !ws.isEmpty && !(twOptListOk ws false && insideShift s ws)
      | none => false))
  | .E1304 => d.vehicles.any (fun v => v.shifts.any (fun s =>
      let raw := ((optList s.reloads).filterMap (·.times) ++ (optList s.recharges).filterMap (·.times)).flatMap id
      !raw.isEmpty && !(twListOk raw true && insideShift s (raw.map parseTw))))
  | .E1306 => d.vehicles.any (fun v => v.costTime == 0 && v.costDist == 0)
  | .E1307 => d.vehicles.any (fun v => v.shifts.any (fun s =>
      (optList s.breaks).any usesOffset && s.startL != some s.startE))
  | .E1308 =>
      !nodupB ((optList d.resources).map (·.id))
      || d.vehicles.any (fun v => v.shifts.any (fun s => (optList s.reloads).any (fun r =>
          r.res.any (fun id => !((optList d.resources).map (·.id)).contains id))))
  -- E15xx routing
  | .E1500 => !nodupB d.profiles
  | .E1501 => d.profiles.isEmpty
  | .E1502 => (locations d).any Loc.isCoord && (locations d).any Loc.isIdx
  | .E1503 => (locations d).any Loc.isIdx && d.matrices.isEmpty
  | .E1504 => d.matrices.any (fun m => !isSquareOf m.dist (requiredSize d))
  | .E1505 => d.vehicles.any (fun v => !d.profiles.contains v.profile)
      || d.clustering.any (fun p => !d.profiles.contains p)
  -- E16xx objectives (only when the `objectives` property is present)
  | .E1600 => match d.objectives with
      | some os => os.isEmpty
      | none => false
  | .E1601 => match d.objectives with
      | some os => allKinds.any (fun k => decide (1 < leafCount k os))
      | none => false
  | .E1602 => match d.objectives with
      | some os => costKinds.all (fun k => leafCount k os == 0)
      | none => false
  | .E1603 => match d.objectives with
      | some os => decide (0 < leafCount .maxValue os) && !jobHasValue d
      | none => false
  | .E1604 => match d.objectives with
      | some os => decide (0 < leafCount .tourOrder os) && !jobHasOrder d
      | none => false
  | .E1605 => match d.objectives with
      | some _ => d.jobs.any (fun j =>
          j.value2.any (fun v => decide (v < 2)) || (tasksOf j).any (fun t => t.order.any (fun o => decide (o < 1))))
      | none => false
  | .E1606 => match d.objectives with
      | some os => decide (1 < (costKinds.map (fun k => leafCount k os)).sum)
      | none => false
  | .E1607 => match d.objectives with
      | some os => !os.isEmpty && leafCount .maxValue os == 0 && jobHasValue d
      | none => false

end Rules

/-! ## MapperSafe: one precondition per panic site of the mapping code (see `panicSites` in the proofs) -/

namespace Mapper

def twWellFormed (w : List Tm) : Bool := (parseTw w).isSome

def timesWellFormed (t : Option (List (List Tm))) : Bool := (optList t).all twWellFormed

/-- `profile_indices.get(&vehicle.profile.matrix).unwrap()` in `read_fleet` -/
def profilesKnown (d : Doc) : Bool := d.vehicles.all (fun v => d.profiles.contains v.profile)

/-- `parse_time(&shift.start.earliest)`, `parse_time(&end.latest)` in `read_fleet` -/
def shiftDatesParse (d : Doc) : Bool :=
  d.vehicles.all (fun v => v.shifts.all (fun s =>
    s.startE != .bad && (match s.end_ with | some e => e.latest != .bad | none => true)))

/-- `shift.start.latest.map(parse_time)` in `read_fleet` -/
def shiftLatestParses (d : Doc) : Bool :=
  d.vehicles.all (fun v => v.shifts.all (fun s => s.startL != some .bad))

/-- `assert!(!singles.is_empty())` in `read_required_jobs` -/
def jobsHaveTasks (d : Doc) : Bool := d.jobs.all (fun j => !(Rules.typedTasks j).isEmpty)

/-- `parse_times(&p.times)` (`assert_eq!(tw.len(), 2)`, two `parse_time`) for job places -/
def jobTimesWellFormed (d : Doc) : Bool :=
  d.jobs.all (fun j => (Rules.tasksOf j).all (fun t => t.places.all (fun p => timesWellFormed p.times)))

/-- the same for reloads (`read_specific_job_places`) -/
def reloadTimesWellFormed (d : Doc) : Bool :=
  d.vehicles.all (fun v => v.shifts.all (fun s => (optList s.reloads).all (fun r => timesWellFormed r.times)))

/-- the same for recharge stations -/
def rechargeTimesWellFormed (d : Doc) : Bool :=
  d.vehicles.all (fun v => v.shifts.all (fun s => (optList s.recharges).all (fun p => timesWellFormed p.times)))

/-- the two `panic!`s and `parse_time_window` of `read_optional_breaks`; `parse_time` of required
    exact-time breaks in `read_reserved_times_index` -/
def breakTimesWellFormed (d : Doc) : Bool :=
  d.vehicles.all (fun v => v.shifts.all (fun s => (optList s.breaks).all (fun b =>
    match b with
    | .optTw tw _ => twWellFormed tw
    | .optOff off _ => off.length == 2
    | .reqExact e l _ => e != .bad && l != .bad
    | .reqOff _ _ _ => true)))

/-- how many conditional jobs `{vehicle}_{kind}_{shift}_{n}` a shift defines -/
def definedCount (s : Shift) (kind : String) : Nat :=
  if kind == "break" then Rules.optionalBreaks s
  else if kind == "reload" then (optList s.reloads).length
  else (optList s.recharges).length

/-- `panic!("cannot find job with id …")` in `read_locks`: plain ids are plan jobs, and the n-th
    `break`/`reload`/`recharge` entry of a relation has a conditional job behind it -/
def relationJobsResolve (d : Doc) : Bool :=
  (optList d.relations).all (fun r =>
    r.jobs.all (fun j =>
      j == "departure" || j == "arrival" || j == "break" || j == "reload" || j == "recharge"
        || (d.job? j).isSome)
    && ["break", "reload", "recharge"].all (fun kind =>
        r.jobs.count kind == 0 ||
        match relShift? d r with
        | some s => decide (r.jobs.count kind ≤ definedCount s kind)
        | none => false))
where
  relShift? (d : Doc) (r : Rel) : Option Shift := Validate.relShift? d r

/-- `assert_eq!(total_resources_specified, available_resources.len())` in `get_reload_resources` -/
def resourcesUnique (d : Doc) : Bool := Rules.nodupB ((optList d.resources).map (·.id))

/-- `assert!(data.len() <= LOAD_DIMENSION_SIZE)` in `MultiDimLoad::new` (demands, capacities, resources) -/
def dimsOk (d : Doc) : Bool :=
  d.jobs.all (fun j => (Rules.tasksOf j).all (fun t => (t.demand.getD []).length ≤ 8))
  && d.vehicles.all (fun v => v.cap.length ≤ 8)
  && (optList d.resources).all (fun r => r.cap.length ≤ 8)

/-- `assert!(!vehicles.is_empty())` in `Fleet::new` -/
def fleetNonEmpty (d : Doc) : Bool := d.vehicles.any (fun v => !v.ids.isEmpty && !v.shifts.isEmpty)

/-- `NoFallback` panics of the matrix lookups (`from * size + to` must be inside the data) -/
def matrixCoversIndices (d : Doc) : Bool :=
  match d.matrices with
  | [] => true
  | m :: _ =>
    let size := Validate.roundSqrt m.dist
    (Rules.locations d).all (fun l => match l with | .idx n => decide (n < size) | _ => true)
    && d.matrices.all (fun m' => decide (size * size ≤ m'.dist))

/-- conjunction of the preconditions -/
def mapperSafe (d : Doc) : Bool :=
  profilesKnown d && shiftDatesParse d && shiftLatestParses d && jobsHaveTasks d
  && jobTimesWellFormed d && reloadTimesWellFormed d && rechargeTimesWellFormed d
  && breakTimesWellFormed d && relationJobsResolve d && resourcesUnique d
  && dimsOk d && fleetNonEmpty d && matrixCoversIndices d

end Mapper

end C10
