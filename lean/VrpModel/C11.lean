/-!
# C11 (part 1) — schema-directed model of the serde JSON codec of the pragmatic format

Mirrors what `#[derive(Serialize, Deserialize)]` + `serde_json` do for the struct / enum definitions of
`vrp-pragmatic/src/format/problem/model.rs`, `format/solution/model.rs` and `Location` /
`CustomLocationType` of `format/mod.rs`, *generically*: the concrete schema (`defs`) is regenerated
from the Rust source by translator T1 into `VrpModel/Generated/C11Schema.lean`.

* `Ty`    — schema of a Rust type: primitives, `Option`, `Vec`, struct (fields with serialise name,
            aliases, `skip_serializing_if = "Option::is_none"`, `default`), internally tagged enum
            (`#[serde(tag = …)]`), unit-only enum (string), `#[serde(untagged)]` enum, reference to
            a named type.
* `Val`   — a value of such a type (positional records, variant index).
* `Json`  — JSON tree with **distinct integer and float tokens** (serde_json prints `f64` with a
            fraction/exponent and refuses `5.0` for an integer field, while an `f64` field accepts `5`).
            A float token carries the IEEE-754 bit pattern of the number; text⇄bits is glue
            (out of model, done by the harness).
* `encode` = `serde_json::to_*` (field order = declaration order, tag first, `None` skipped where
            `skip_serializing_if`), `decode` = `serde_json::from_*` for the derive: unknown fields
            ignored, missing field ⇒ `None` for `Option`, the default for `default`, otherwise an
            error; `untagged` tries the variants in declaration order; integer token accepted for
            `f64`; range checks of `i32`/`i64`/`usize`.
  Both are indexed by the same fuel (nesting depth).
* `envWFB` — the decidable side condition under which `VrpProofs.C11` proves
            `ser(parse(ser d)) = ser d` for every `d`.

Out of model: duplicate keys (serde rejects, `lookup` takes the first; never produced by `encode`),
a struct/enum given as JSON array, a tag given as variant index (serde accepts it only when the enum is
read from buffered content, i.e. inside another tagged / untagged enum), non-finite floats (serde_json
writes `null` for them, which is not a number any more: `encode` fails on them), f64 text printing
and parsing.
-/
namespace C11

inductive Prim | str | int | nat | i32 | flt | bool
  deriving DecidableEq, Repr

/-- JSON tree. `int` = integer literal, `flt` = float literal (bit pattern of the f64). -/
inductive Json
  | null | bool (b : Bool) | int (i : Int) | flt (q : Nat) | str (s : String)
  | arr (xs : List Json) | obj (kvs : List (String × Json))
  deriving Repr, BEq

inductive Val
  | str (s : String) | int (i : Int) | flt (q : Nat) | bool (b : Bool)
  | nul | just (v : Val) | list (vs : List Val) | record (vs : List Val)
  | variant (i : Nat) (v : Val) | unit
  deriving Repr, BEq

/-- one struct field: serialise name, further accepted names, `skip_serializing_if = "Option::is_none"`,
    value used when the key is missing (`#[serde(default…)]`) -/
structure FieldHdr where
  ser : String
  aliases : List String
  skipNone : Bool
  dflt : Option Val

def FieldHdr.deNames (h : FieldHdr) : List String := h.ser :: h.aliases

inductive Ty
  | prim (p : Prim) | opt (t : Ty) | vec (t : Ty)
  | struct (fs : List (FieldHdr × Ty))
  | tagged (tag : String) (vs : List (String × List (FieldHdr × Ty)))
  | units (names : List String)
  | untagged (ts : List Ty)
  | ref (name : String)

abbrev Fields := List (FieldHdr × Ty)
abbrev Env := String → Option Ty

def Ty.isOpt : Ty → Bool | .opt _ => true | _ => false
def Val.isNone : Val → Bool | .nul => true | _ => false

def mapO (f : α → Option β) : List α → Option (List β)
  | [] => some []
  | a :: as => match f a, mapO f as with
     | some b, some bs => some (b :: bs)
     | _, _ => none

/-- derive(Serialize) for a field list: declaration order, `None` skipped when `skipNone` -/
def encodeFields (enc : Ty → Val → Option Json) : Fields → List Val → Option (List (String × Json))
  | [], [] => some []
  | (h,t)::fs, v::vs =>
      if h.skipNone && v.isNone then encodeFields enc fs vs
      else match enc t v, encodeFields enc fs vs with
        | some j, some r => some ((h.ser, j)::r)
        | _, _ => none
  | _, _ => none

def lookup (names : List String) (kvs : List (String × Json)) : Option Json :=
  (kvs.find? (fun kv => names.contains kv.1)).map (·.2)

/-- derive(Deserialize) for one field: by name or alias; missing ⇒ default / `None` / error -/
def decodeField (dec : Ty → Json → Option Val) (h : FieldHdr) (t : Ty) (kvs : List (String × Json)) : Option Val :=
  match lookup h.deNames kvs with
  | some j => dec t j
  | none => match h.dflt with
    | some d => some d
    | none => if t.isOpt then some Val.nul else none

def decodeFields (dec : Ty → Json → Option Val) : Fields → List (String × Json) → Option (List Val)
  | [], _ => some []
  | (h,t)::fs, kvs =>
     match decodeField dec h t kvs, decodeFields dec fs kvs with
       | some v, some vs => some (v::vs)
       | _, _ => none

/-- exponent field ≠ all ones -/
def finiteBits (q : Nat) : Bool := (q / 2^52) % 2048 != 2047 && q < 2^64

/-- `n as f64` for a natural number: round to nearest, ties to even; result as bit pattern -/
def natToF64Bits (n : Nat) : Nat :=
  if n = 0 then 0 else
  let l := n.log2
  if l ≤ 52 then (l + 1023) * 2^52 + (n * 2^(52 - l) - 2^52)
  else
    let sh := l - 52
    let q := n / 2^sh
    let r := n % 2^sh
    let half := 2^(sh - 1)
    let q' := if r > half || (r == half && q % 2 == 1) then q + 1 else q
    (l + 1023) * 2^52 + (q' - 2^52)

/-- `i as f64` (what serde's `f64` visitor does with an integer token) -/
def i2f (i : Int) : Nat := if i < 0 then 2^63 + natToF64Bits i.natAbs else natToF64Bits i.natAbs

def inI64 (i : Int) : Bool := -(2^63 : Int) ≤ i && i < (2^63 : Int)
def inU64 (i : Int) : Bool := 0 ≤ i && i < (2^64 : Int)
def inI32 (i : Int) : Bool := -(2^31 : Int) ≤ i && i < (2^31 : Int)

def encPrim : Prim → Val → Option Json
  | .str, .str s => some (.str s)
  | .int, .int i => if inI64 i then some (.int i) else none
  | .nat, .int i => if inU64 i then some (.int i) else none
  | .i32, .int i => if inI32 i then some (.int i) else none
  | .flt, .flt q => if finiteBits q then some (.flt q) else none
  | .bool, .bool b => some (.bool b)
  | _, _ => none

def decPrim : Prim → Json → Option Val
  | .str, .str s => some (.str s)
  | .int, .int i => if inI64 i then some (.int i) else none
  | .nat, .int i => if inU64 i then some (.int i) else none
  | .i32, .int i => if inI32 i then some (.int i) else none
  | .flt, .flt q => if finiteBits q then some (.flt q) else none
  | .flt, .int i => some (.flt (i2f i))
  | .bool, .bool b => some (.bool b)
  | _, _ => none

def firstO (f : Ty → Option Val) : List Ty → Nat → Option Val
  | [], _ => none
  | t :: ts, i => match f t with
     | some v => some (.variant i v)
     | none => firstO f ts (i+1)

def encode (env : Env) : Nat → Ty → Val → Option Json
  | 0, _, _ => none
  | _+1, .prim p, v => encPrim p v
  | _+1, .opt _, .nul => some .null
  | n+1, .opt t, .just v => encode env n t v
  | n+1, .vec t, .list vs => (mapO (encode env n t) vs).map .arr
  | n+1, .struct fs, .record vs => (encodeFields (encode env n) fs vs).map .obj
  | n+1, .tagged tag vars, .variant i (.record vs) =>
      match vars[i]? with
      | some (name, fs) => (encodeFields (encode env n) fs vs).map (fun r => .obj ((tag, .str name) :: r))
      | none => none
  | _+1, .units names, .variant i .unit => (names[i]?).map .str
  | n+1, .untagged ts, .variant i v =>
      match ts[i]? with
      | some t => encode env n t v
      | none => none
  | n+1, .ref name, v => match env name with
      | some t => encode env n t v
      | none => none
  | _+1, _, _ => none

def findIdx (name : String) : List (String × Fields) → Nat → Option (Nat × Fields)
  | [], _ => none
  | (nm, fs) :: rest, i => if nm = name then some (i, fs) else findIdx name rest (i+1)

def decode (env : Env) : Nat → Ty → Json → Option Val
  | 0, _, _ => none
  | _+1, .prim p, j => decPrim p j
  | _+1, .opt _, .null => some .nul
  | n+1, .opt t, j => (decode env n t j).map .just
  | n+1, .vec t, .arr js => (mapO (decode env n t) js).map .list
  | n+1, .struct fs, .obj kvs => (decodeFields (decode env n) fs kvs).map .record
  | n+1, .tagged tag vars, .obj kvs =>
      match lookup [tag] kvs with
      | some (.str name) =>
          match findIdx name vars 0 with
          | some (i, fs) => (decodeFields (decode env n) fs kvs).map (fun vs => .variant i (.record vs))
          | none => none
      | _ => none
  | _+1, .units names, .str s =>
      let i := names.idxOf s
      if i < names.length then some (.variant i .unit) else none
  | n+1, .untagged ts, j => firstO (fun t => decode env n t j) ts 0
  | n+1, .ref name, j => match env name with
      | some t => decode env n t j
      | none => none
  | _+1, _, _ => none

/-! ## The decidable schema check (soundness proved in `VrpProofs/C11/*.lean`) -/

/-- decoder `q` accepts some encoding of `p` -/
def primAccepts : Prim → Prim → Bool
  | .str, .str | .bool, .bool => true
  | .int, .int | .int, .nat | .int, .i32 => true
  | .nat, .nat | .nat, .int | .nat, .i32 => true
  | .i32, .i32 | .i32, .int | .i32, .nat => true
  | .flt, .flt | .flt, .int | .flt, .nat | .flt, .i32 => true
  | _, _ => false

def FieldHdr.required (h : FieldHdr) (t : Ty) : Bool := h.dflt.isNone && !t.isOpt

def namesOKB : Fields → Bool
  | [] => true
  | (h,t)::fs => fs.all (fun f => !h.deNames.contains f.1.ser && !f.1.deNames.contains h.ser)
                 && (!h.skipNone || (t.isOpt && h.dflt.isNone)) && namesOKB fs

/-- no encoding of `s` is accepted by the decoder of `t` -/
def disjointB (env : Env) : Nat → Ty → Ty → Bool
  | 0, _, _ => false
  | _+1, .prim p, .prim q => !primAccepts q p
  | n+1, .struct fs, .struct gs =>
      namesOKB fs && gs.any (fun g => g.1.required g.2 &&
        (fs.all (fun f => !g.1.deNames.contains f.1.ser) ||
         (g.1.aliases.isEmpty && fs.any (fun f => f.1.ser == g.1.ser && !f.1.skipNone && disjointB env n f.2 g.2))))
  | n+1, .ref a, t => match env a with | some s => disjointB env n s t | none => false
  | n+1, s, .ref b => match env b with | some t => disjointB env n s t | none => false
  | _+1, _, _ => false

/-- whatever of `s`'s encodings the decoder of `t` accepts, it re-encodes to the same JSON -/
def safeB (env : Env) : Nat → Ty → Ty → Bool
  | 0, _, _ => false
  | n+1, s, t => disjointB env (n+1) s t ||
      (match s, t with
       | .vec a, .vec b => safeB env n a b
       | .ref a, .ref b => match env a, env b with | some s, some t => safeB env n s t | _, _ => false
       | _, _ => false)

def neverNullB (env : Env) : Nat → Ty → Bool
  | 0, _ => false
  | _+1, .prim _ => true
  | _+1, .vec _ => true
  | _+1, .struct _ => true
  | _+1, .tagged _ _ => true
  | _+1, .units _ => true
  | n+1, .ref a => match env a with | some t => neverNullB env n t | none => true
  | n+1, .untagged ts => ts.all (neverNullB env n)
  | _+1, .opt _ => false

def skipOKB (env : Env) (n : Nat) (f : FieldHdr × Ty) : Bool :=
  !f.1.skipNone || (match f.2 with | .opt t' => neverNullB env n t' | _ => false)

def pairwiseSafeB (env : Env) (n : Nat) : List Ty → Bool
  | [] => true
  | t :: rest => rest.all (fun s => safeB env n s t) && pairwiseSafeB env n rest

def tyWFB (env : Env) : Nat → Ty → Bool
  | 0, _ => false
  | _+1, .prim _ => true
  | n+1, .opt t => tyWFB env n t
  | n+1, .vec t => tyWFB env n t
  | n+1, .struct fs => namesOKB fs && fs.all (fun f => tyWFB env n f.2 && skipOKB env n f)
  | n+1, .tagged tag vars =>
      vars.all (fun v => namesOKB v.2 &&
        v.2.all (fun f => !f.1.deNames.contains tag && tyWFB env n f.2 && skipOKB env n f))
      && decide ((vars.map (·.1)).Nodup)
  | _+1, .units names => decide names.Nodup
  | n+1, .untagged ts => ts.all (tyWFB env n) && pairwiseSafeB env n ts
  | _+1, .ref _ => true

def envOf (defs : List (String × Ty)) : Env := fun n => (defs.find? (fun d => d.1 == n)).map (·.2)

def envWFB (defs : List (String × Ty)) (fuel : Nat) : Bool :=
  defs.all (fun d => tyWFB (envOf defs) fuel d.2)

/-! ## Coverage: every type name referenced from the schema is defined -/

mutual
  def refsOf : Ty → List String
    | .prim _ => []
    | .opt t => refsOf t
    | .vec t => refsOf t
    | .struct fs => refsOfFields fs
    | .tagged _ vs => refsOfVars vs
    | .units _ => []
    | .untagged ts => refsOfList ts
    | .ref n => [n]
  def refsOfFields : List (FieldHdr × Ty) → List String
    | [] => []
    | (_, t) :: fs => refsOf t ++ refsOfFields fs
  def refsOfVars : List (String × List (FieldHdr × Ty)) → List String
    | [] => []
    | (_, fs) :: vs => refsOfFields fs ++ refsOfVars vs
  def refsOfList : List Ty → List String
    | [] => []
    | t :: ts => refsOf t ++ refsOfList ts
end

/-- every name referenced anywhere in `defs`, and every root, has a definition (so everything
    reachable from the roots is defined) -/
def coverB (defs : List (String × Ty)) (roots : List String) : Bool :=
  let names := defs.map (·.1)
  roots.all names.contains && defs.all (fun d => (refsOf d.2).all names.contains)

/-! ## helper constructors used by the generated schema -/

/-- plain field -/
def fh (s : String) : FieldHdr := { ser := s, aliases := [], skipNone := false, dflt := none }
/-- `skip_serializing_if = "Option::is_none"` -/
def fs (s : String) : FieldHdr := { ser := s, aliases := [], skipNone := true, dflt := none }
/-- general -/
def fx (s : String) (al : List String) (skip : Bool) (d : Option Val) : FieldHdr :=
  { ser := s, aliases := al, skipNone := skip, dflt := d }

end C11
