/-!
# C11 (part 3) — model of the CSV import

Mirrors `vrp-cli/src/extensions/import/csv.rs`: `CsvJob` / `CsvVehicle` typed rows (`i32` demand and
capacity, `usize` duration and amount), `parse_tw`, `read_jobs` (rows grouped by `ID`; pickups =
positive demand, deliveries = negative, services = zero; `demand.abs()`), `read_vehicles` (type id =
row `ID`, vehicle ids `"{ID}_{seq}"`, one shift from the row's window at the row's coordinates, fixed
costs), `read_csv_problem` (profiles = set of the rows' `PROFILE`s); and the structural validation rules
of `vrp-pragmatic/src/validation/{jobs,vehicles,routing}.rs` that an imported document can break:
E1100, E1102, E1103, E1104, E1300, E1301, E1302, E1501.

Coordinates are integers (micro-degrees); a date is `ok t` (RFC 3339 of second `t`) or `bad text` (text that
does not parse). A vehicle id is the pair `(ID, seq)`; its rendering `"{ID}_{seq}"` is injective
(`seq` is a decimal numeral, so the last `_` splits uniquely) — glue, done by the driver.
Jobs come out of a `HashMap` and profiles out of a `HashSet`: their order is not modelled (the
comparison sorts both).
-/
namespace C11.Csv

inductive Date
  | ok (t : Int)
  | bad (text : String)
deriving DecidableEq, Repr

structure JobRow where
  id : String
  lat : Int
  lng : Int
  demand : Int
  duration : Int
  twStart : Option Date
  twEnd : Option Date
deriving DecidableEq, Repr

structure VehRow where
  id : String
  lat : Int
  lng : Int
  capacity : Int
  twStart : Date
  twEnd : Date
  amount : Int
  profile : String
deriving DecidableEq, Repr

structure Tables where
  jobs : List JobRow
  vehicles : List VehRow
deriving Repr

/-! ## the imported document (the part of `format::problem::Problem` the import fills) -/

structure Task where
  lat : Int
  lng : Int
  duration : Int
  times : Option (Date × Date)
  demand : Option Int
deriving DecidableEq, Repr

structure Job where
  id : String
  pickups : List Task       -- `None` in the document when empty
  deliveries : List Task
  services : List Task
deriving DecidableEq, Repr

structure VType where
  typeId : String
  vehicleIds : List (String × Nat)
  profile : String
  lat : Int
  lng : Int
  startEarliest : Date
  endLatest : Date
  capacity : Int
deriving DecidableEq, Repr

structure Doc where
  jobs : List Job
  vehicles : List VType
  profiles : List String
deriving Repr

inductive ImportErr
  | parse      -- a field does not fit its Rust type (`usize`, `i32`)
  | overflow   -- `i32::MIN.abs()` (panics with overflow checks)
deriving DecidableEq, Repr

def inI32 (i : Int) : Bool := -(2^31 : Int) ≤ i && i < (2^31 : Int)
def inUsize (i : Int) : Bool := 0 ≤ i && i < (2^64 : Int)

/-- `parse_tw`: a lone bound is dropped -/
def parseTw : Option Date → Option Date → Option (Date × Date)
  | some s, some e => some (s, e)
  | _, _ => none

/-- `get_task` -/
def taskOf (r : JobRow) : Task :=
  { lat := r.lat, lng := r.lng, duration := r.duration, times := parseTw r.twStart r.twEnd,
    demand := if r.demand ≠ 0 then some (r.demand.natAbs : Int) else none }

def dedup [BEq α] : List α → List α
  | [] => []
  | a :: as => a :: (dedup as).filter (fun b => !(b == a))

def groupOf (rows : List JobRow) (k : String) : List JobRow := rows.filter (fun r => r.id == k)

def jobOf (rows : List JobRow) (k : String) : Job :=
  let g := groupOf rows k
  { id := k,
    pickups := (g.filter (fun r => decide (r.demand > 0))).map taskOf,
    deliveries := (g.filter (fun r => decide (r.demand < 0))).map taskOf,
    services := (g.filter (fun r => decide (r.demand = 0))).map taskOf }

/-- `read_jobs` (one job per distinct `ID`; here in order of first occurrence) -/
def importJobs (rows : List JobRow) : List Job := (dedup (rows.map (·.id))).map (jobOf rows)

/-- `read_vehicles` -/
def vtypeOf (v : VehRow) : VType :=
  { typeId := v.id, vehicleIds := (List.range v.amount.toNat).map (fun i => (v.id, i + 1)), profile := v.profile,
    lat := v.lat, lng := v.lng, startEarliest := v.twStart, endLatest := v.twEnd, capacity := v.capacity }

def importDoc (t : Tables) : Doc :=
  { jobs := importJobs t.jobs, vehicles := t.vehicles.map vtypeOf, profiles := dedup (t.vehicles.map (·.profile)) }

/-- typed CSV parsing, then the mapping (`read_jobs` runs completely before `read_vehicles`) -/
def importCsv (t : Tables) : Except ImportErr Doc :=
  if !(t.jobs.all (fun r => inI32 r.demand && inUsize r.duration)) then .error .parse
  else if t.jobs.any (fun r => r.demand == -(2^31 : Int)) then .error .overflow
  else if !(t.vehicles.all (fun v => inI32 v.capacity && inUsize v.amount)) then .error .parse
  else .ok (importDoc t)

/-! ## validation rules an imported document can break -/

def nodupB [BEq α] : List α → Bool
  | [] => true
  | a :: as => !as.contains a && nodupB as

def sumDemand (ts : List Task) : Int := (ts.map (fun t => t.demand.getD 0)).sum

def isReserved (id : String) : Bool := id == "departure" || id == "arrival" || id == "break" || id == "reload"

/-- `check_raw_time_windows` for a single window: both dates parse and start ≤ end -/
def windowOk : Date × Date → Bool
  | (.ok s, .ok e) => decide (s ≤ e)
  | _ => false

def Job.tasks (j : Job) : List Task := j.pickups ++ j.deliveries ++ j.services

def e1100 (d : Doc) : Bool := nodupB (d.jobs.map (·.id))
def e1102 (d : Doc) : Bool :=
  d.jobs.all (fun j => j.pickups.isEmpty || j.deliveries.isEmpty || sumDemand j.pickups == sumDemand j.deliveries)
def e1103 (d : Doc) : Bool := d.jobs.all (fun j => j.tasks.all (fun t => match t.times with | some w => windowOk w | none => true))
def e1104 (d : Doc) : Bool := d.jobs.all (fun j => !isReserved j.id)
def e1300 (d : Doc) : Bool := nodupB (d.vehicles.map (·.typeId))
def e1301 (d : Doc) : Bool := nodupB (d.vehicles.flatMap (·.vehicleIds))
def e1302 (d : Doc) : Bool := d.vehicles.all (fun v => windowOk (v.startEarliest, v.endLatest))
def e1501 (d : Doc) : Bool := !d.profiles.isEmpty

/-- codes of the violated rules, in code order -/
def validate (d : Doc) : List String :=
  (if e1100 d then [] else ["E1100"]) ++ (if e1102 d then [] else ["E1102"]) ++
  (if e1103 d then [] else ["E1103"]) ++ (if e1104 d then [] else ["E1104"]) ++
  (if e1300 d then [] else ["E1300"]) ++ (if e1301 d then [] else ["E1301"]) ++
  (if e1302 d then [] else ["E1302"]) ++ (if e1501 d then [] else ["E1501"])

/-! ## `TablesOk`: what the tables have to satisfy for a valid import (executable) -/

def dateOk : Date → Bool | .ok _ => true | .bad _ => false

def jobRowOk (r : JobRow) : Bool :=
  inI32 r.demand && r.demand != -(2^31 : Int) && inUsize r.duration && !isReserved r.id &&
  (match r.twStart, r.twEnd with
   | none, none => true
   | some s, some e => windowOk (s, e)
   | _, _ => false)          -- a lone bound would be dropped silently

def vehRowOk (v : VehRow) : Bool :=
  inI32 v.capacity && inUsize v.amount && decide (1 ≤ v.amount) && windowOk (v.twStart, v.twEnd)

/-- rows sharing an `ID`: when both signs occur, the amounts balance -/
def balanced (rows : List JobRow) : Bool :=
  (dedup (rows.map (·.id))).all (fun k =>
    let g := groupOf rows k
    let p := ((g.filter (fun r => decide (r.demand > 0))).map (·.demand)).sum
    let d := ((g.filter (fun r => decide (r.demand < 0))).map (·.demand)).sum
    (g.all (fun r => decide (r.demand ≤ 0))) || (g.all (fun r => decide (r.demand ≥ 0))) || p + d == 0)

def tablesOk (t : Tables) : Bool :=
  t.jobs.all jobRowOk && t.vehicles.all vehRowOk && !t.vehicles.isEmpty &&
  nodupB (t.vehicles.map (·.id)) && balanced t.jobs

/-! ## reading the tables back from a document (specification of "carries exactly the tables' data") -/

def rowOf (id : String) (sign : Int) (t : Task) : JobRow :=
  { id := id, lat := t.lat, lng := t.lng, demand := sign * t.demand.getD 0, duration := t.duration,
    twStart := t.times.map (·.1), twEnd := t.times.map (·.2) }

def rowsOfJob (j : Job) : List JobRow :=
  j.pickups.map (rowOf j.id 1) ++ j.deliveries.map (rowOf j.id (-1)) ++ j.services.map (rowOf j.id 0)

def rowsOfJobs (js : List Job) : List JobRow := js.flatMap rowsOfJob

def vehRowOf (v : VType) : VehRow :=
  { id := v.typeId, lat := v.lat, lng := v.lng, capacity := v.capacity, twStart := v.startEarliest,
    twEnd := v.endLatest, amount := v.vehicleIds.length, profile := v.profile }

end C11.Csv
