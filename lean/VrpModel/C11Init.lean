/-!
# C11 (part 2) — model of the initial-solution round trip

Mirrors, on the no-clustering fragment (no commute, no parking, no transit stops):

* `vrp-pragmatic/src/format/solution/solution_writer.rs` `create_tour` — the activity output: stops as
  runs of consecutive activities at one location, `jobId` / `type` / `jobTag` (tag of the place the
  activity used), activity interval `[max(arrival, tw.start), … + duration]`, stop schedule, the
  departure activity, "remove redundant info from single activity on the stop";
  `create_unassigned` (customer jobs only);
* `format/solution/activity_matcher.rs` `try_match_point_job`, `match_place` (id rule; the candidate
  place must carry the activity's tag, be at its location and have a time span that intersects its
  interval), the lookup of vehicle-bound jobs `"{vehicle}_{type}_{shift}_{n}"`, `get_route_start_time`,
  `get_activity_time`;
* `format/solution/initial_reader.rs` `read_init_solution` / `try_insert_activity` bookkeeping:
  `added_jobs`, the double-assignment error for single jobs, the unassigned list (written ones,
  then every job of the problem that was not added).

Times: the trace (core solution) is given in units of `1/Q` seconds (`Q = 4`: pragen scales travel
times by fractions with denominator ≤ 4); `format_time` truncates to whole seconds (`fmt`).
Problem windows and everything the reader sees are whole seconds. `TimeWindow::max()`'s end is `tmax`.
-/
namespace C11.Init

/-- trace time units per second -/
def Q : Int := 4
/-- `format_time` then `parse_time`: whole seconds (times are non-negative) -/
def fmt (t : Int) : Int := t / Q
/-- stands for `f64::MAX` (unrestricted window end) -/
def tmax : Int := 10^30

/-- `TimeSpan`: window `[s,e]` or offset `[s,e]` relative to the tour's departure -/
structure Span where
  offset : Bool
  s : Int
  e : Int
deriving Repr, BEq, DecidableEq

structure Place where
  loc : Option Nat
  dur : Int
  spans : List Span
  tag : Option String
deriving Repr, BEq, DecidableEq

structure Single where
  places : List Place
deriving Repr, BEq, DecidableEq

/-- an entry of the job index: a customer job (one single = `Job::Single`, more = `Job::Multi`) or a
    vehicle-bound marker job (break / reload), always a single -/
structure JobDef where
  id : String
  singles : List Single
  bound : Bool
deriving Repr, BEq, DecidableEq

structure Problem where
  jobs : List JobDef
deriving Repr

def Problem.find (P : Problem) (id : String) : Option JobDef := P.jobs.find? (fun j => j.id == id)

/-- an activity of the core solution (trace): times in `1/Q` s -/
structure Act where
  job : String      -- id of the job (customer or vehicle-bound); "" for start / end
  kind : String     -- pickup | delivery | replacement | service | break | reload | recharge | departure | arrival
  task : Nat        -- index of the single inside the job
  place : Nat       -- `activity.place.idx`
  loc : Nat         -- `activity.place.location`
  arr : Int
  dep : Int
  tws : Int         -- `activity.place.time.start`
  dur : Int
deriving Repr, BEq, DecidableEq

structure Tour where
  vehicle : String
  shift : Nat
  acts : List Act   -- start activity first, end activity (if any) last
deriving Repr

def isCustomerKind (k : String) : Bool := k == "pickup" || k == "delivery" || k == "replacement" || k == "service"
def isBoundKind (k : String) : Bool := k == "break" || k == "reload" || k == "recharge"

/-! ## writer -/

structure WAct where
  jobId : String
  kind : String
  loc : Option Nat
  time : Option (Int × Int)
  tag : Option String
deriving Repr, BEq, DecidableEq

structure WStop where
  loc : Nat
  arrival : Int
  departure : Int
  acts : List WAct
deriving Repr, BEq, DecidableEq

structure WTour where
  vehicle : String
  shift : Nat
  stops : List WStop
deriving Repr, BEq

/-- tag of the place the activity used (`get_place_tags().find(|(idx,_)| idx == act.place.idx)`) -/
def tagOf (P : Problem) (a : Act) : Option String :=
  match P.find a.job with
  | some jd => match jd.singles[a.task]? with
    | some s => match s.places[a.place]? with
      | some pl => pl.tag
      | none => none
    | none => none
  | none => none

def startOf (a : Act) : Int := fmt (max a.arr a.tws)
def endOf (a : Act) : Int := fmt (max a.arr a.tws + a.dur)

/-- the activity as `create_tour` pushes it (before the single-activity clean-up);
    `runLen` = number of activities of its stop -/
def wact (P : Problem) (runLen : Nat) (a : Act) : WAct :=
  if a.kind == "departure" then
    { jobId := "departure", kind := "departure", loc := none,
      time := if runLen ≥ 2 then some (fmt a.arr, fmt a.dep) else none, tag := none }
  else
    { jobId := if isCustomerKind a.kind then a.job else a.kind, kind := a.kind, loc := some a.loc,
      time := some (startOf a, endOf a), tag := tagOf P a }

/-- consecutive activities at one location form a stop (`is_new_stop = prev_location != location`);
    a run is (first activity, further activities) -/
def groupRuns : List Act → List (Act × List Act)
  | [] => []
  | a :: as =>
    match groupRuns as with
    | (b, r) :: rs => if a.loc = b.loc then (a, b :: r) :: rs else (a, []) :: (b, r) :: rs
    | [] => [(a, [])]

/-- "remove redundant info from single activity on the stop" -/
def cleanSingle (arrival : Int) (loc : Nat) (w : WAct) : WAct :=
  { w with
    time := match w.time with
      | some (s, e) => if arrival = s then none else some (s, e)
      | none => none
    loc := match w.loc with
      | some l => if l = loc then none else some l
      | none => none }

def lastOf (a : Act) : List Act → Act
  | [] => a
  | b :: r => lastOf b r

def stopOfRun (P : Problem) (run : Act × List Act) : WStop :=
  let a := run.1
  let arrival := fmt a.arr
  { loc := a.loc, arrival := arrival, departure := fmt (lastOf a run.2).dep,
    acts := match run.2 with
      | [] => [cleanSingle arrival a.loc (wact P 1 a)]
      | r => (a :: r).map (wact P (r.length + 1)) }

def writeTour (P : Problem) (t : Tour) : WTour :=
  { vehicle := t.vehicle, shift := t.shift, stops := (groupRuns t.acts).map (stopOfRun P) }

/-! ## reader -/

/-- `ActivityContext` -/
structure Ctx where
  routeStart : Int
  loc : Nat
  time : Int × Int
  kind : String
  jobId : String
  tag : Option String
deriving Repr, BEq, DecidableEq

/-- `get_route_start_time`: the departure activity's own interval end when it has one (the first stop's
    schedule also covers further activities at the depot), otherwise the first stop's departure -/
def routeStartOf (stops : List WStop) : Int :=
  match stops with
  | [] => 0
  | s :: _ => match s.acts with
    | w :: _ => match w.time with
      | some (_, e) => e
      | none => s.departure
    | [] => s.departure

def ctxOfW (routeStart : Int) (s : WStop) (w : WAct) : Ctx :=
  { routeStart := routeStart, loc := w.loc.getD s.loc, time := w.time.getD (s.arrival, s.departure),
    kind := w.kind, jobId := w.jobId, tag := w.tag }

/-- all activities of a written tour as the reader sees them, in order -/
def viewTour (t : WTour) : List Ctx :=
  let rs := routeStartOf t.stops
  t.stops.flatMap (fun s => s.acts.map (ctxOfW rs s))

def Span.window (routeStart : Int) (sp : Span) : Int × Int :=
  if sp.offset then (routeStart + sp.s, routeStart + sp.e) else (sp.s, sp.e)

/-- `TimeWindow::intersects` (inclusive) -/
def intersects (a b : Int × Int) : Bool := a.1 ≤ b.2 && b.1 ≤ a.2

/-- the three conditions of `match_place`'s `find` -/
def placeMatches (pl : Place) (c : Ctx) : Bool :=
  pl.tag == c.tag &&
  (match pl.loc with | none => true | some l => l == c.loc) &&
  pl.spans.any (fun sp => intersects (sp.window c.routeStart) c.time)

def findIdxFrom (p : α → Bool) : List α → Nat → Option Nat
  | [], _ => none
  | a :: as, i => if p a then some i else findIdxFrom p as (i+1)

/-- `match_place`: index of the first matching place -/
def matchPlace (s : Single) (sameIds isJob : Bool) (c : Ctx) : Option Nat :=
  if isJob && !sameIds then none else findIdxFrom (fun pl => placeMatches pl c) s.places 0

/-- first single of the job (in order) that has a matching place: (single index, place index) -/
def matchSingles (sameIds : Bool) (c : Ctx) : List Single → Nat → Option (Nat × Nat)
  | [], _ => none
  | s :: ss, i => match matchPlace s sameIds true c with
    | some p => some (i, p)
    | none => matchSingles sameIds c ss (i+1)

def dedup [BEq α] : List α → List α
  | [] => []
  | a :: as => if (dedup as).contains a then dedup as else a :: dedup as

/-- the multi-job guard: number of distinct tags ≥ number of singles -/
def multiTagsOk (jd : JobDef) : Bool :=
  let tags := jd.singles.flatMap (fun s => s.places.filterMap (·.tag))
  decide ((dedup tags).length ≥ jd.singles.length)

inductive RErr
  | unknownJob | multiTags | cannotMatchJob | cannotMatchBound | unknownType | doubleAssignment
  | unknownUnassigned | emptyTour
deriving Repr, BEq, DecidableEq

/-- a reconstructed job activity -/
structure RAct where
  job : String
  task : Nat
  place : Nat
  loc : Nat
deriving Repr, BEq, DecidableEq

/-- the vehicle-bound jobs `"{vehicle}_{kind}_{shift}_{n}"`, n = from.., while present -/
def boundGroup (P : Problem) (vehicle kind : String) (shift : Nat) : Nat → Nat → List JobDef
  | 0, _ => []
  | fuel+1, n =>
    match P.find s!"{vehicle}_{kind}_{shift}_{n}" with
    | some jd => jd :: boundGroup P vehicle kind shift fuel (n+1)
    | none => []

/-- start of the matched place's time: the first span that intersects (`find`); an offset span gives
    `[time.end - duration, time.end]` -/
def matchedStart (pl : Place) (c : Ctx) : Int :=
  match pl.spans.find? (fun sp => intersects (sp.window c.routeStart) c.time) with
  | some sp => if sp.offset then c.time.2 - pl.dur else sp.s
  | none => 0

/-- all vehicle-bound jobs of the group that have a matching place: (job, place index, place) -/
def boundCandidates (c : Ctx) : List JobDef → List (JobDef × Nat × Place)
  | [] => []
  | jd :: rest =>
    match jd.singles with
    | [s] => (match matchPlace s (c.jobId == jd.id) false c with
        | some p => (match s.places[p]? with
            | some pl => (jd, p, pl) :: boundCandidates c rest
            | none => boundCandidates c rest)
        | none => boundCandidates c rest)
    | _ => boundCandidates c rest

/-- "prefer the one which has the same duration": `time.end == max(time.start, place.time.start) + duration` -/
def durationConsistent (c : Ctx) (x : JobDef × Nat × Place) : Bool :=
  c.time.2 == max c.time.1 (matchedStart x.2.2 c) + x.2.2.dur

def matchBound (c : Ctx) (group : List JobDef) : Option (JobDef × Nat) :=
  let cands := boundCandidates c group
  match cands.find? (durationConsistent c) with
  | some x => some (x.1, x.2.1)
  | none => match cands with
    | x :: _ => some (x.1, x.2.1)
    | [] => none

/-- `try_match_point_job`: `ok none` for departure / arrival -/
def matchAct (P : Problem) (vehicle : String) (shift : Nat) (c : Ctx) : Except RErr (Option (JobDef × RAct)) :=
  if c.kind == "departure" || c.kind == "arrival" then .ok none
  else if isCustomerKind c.kind then
    match P.find c.jobId with
    | none => .error .unknownJob
    | some jd =>
      if jd.singles.length > 1 && !multiTagsOk jd then .error .multiTags
      else match matchSingles (c.jobId == jd.id) c jd.singles 0 with
        | some (i, p) => .ok (some (jd, { job := jd.id, task := i, place := p, loc := c.loc }))
        | none => .error .cannotMatchJob
  else if isBoundKind c.kind then
    match matchBound c (boundGroup P vehicle c.kind shift P.jobs.length 1) with
    | some (jd, p) => .ok (some (jd, { job := jd.id, task := 0, place := p, loc := c.loc }))
    | none => .error .cannotMatchBound
  else .error .unknownType

/-- `try_insert_activity` over the activities of one tour; `added` = ids in `added_jobs` -/
def readActs (P : Problem) (vehicle : String) (shift : Nat) :
    List Ctx → List String → Except RErr (List RAct × List String)
  | [], added => .ok ([], added)
  | c :: cs, added =>
    match matchAct P vehicle shift c with
    | .error e => .error e
    | .ok none => readActs P vehicle shift cs added
    | .ok (some (jd, ra)) =>
      if added.contains jd.id && jd.singles.length ≤ 1 then .error .doubleAssignment
      else match readActs P vehicle shift cs (if added.contains jd.id then added else jd.id :: added) with
        | .error e => .error e
        | .ok (ras, added') => .ok (ra :: ras, added')

structure RTour where
  vehicle : String
  shift : Nat
  acts : List RAct
deriving Repr, BEq, DecidableEq

def readTours (P : Problem) : List WTour → List String → Except RErr (List RTour × List String)
  | [], added => .ok ([], added)
  | t :: ts, added =>
    if t.stops.isEmpty then .error .emptyTour else
    match readActs P t.vehicle t.shift (viewTour t) added with
    | .error e => .error e
    | .ok (ras, added') =>
      match readTours P ts added' with
      | .error e => .error e
      | .ok (rts, added'') => .ok ({ vehicle := t.vehicle, shift := t.shift, acts := ras } :: rts, added'')

structure ReadResult where
  tours : List RTour
  /-- ids of the jobs in the re-read solution's `unassigned`, in the reader's order -/
  unassigned : List String
deriving Repr, BEq, DecidableEq

/-- `read_init_solution` on a written solution (tours + ids of the written `unassigned` list) -/
def readInit (P : Problem) (tours : List WTour) (unassignedWritten : List String) : Except RErr ReadResult :=
  match readTours P tours [] with
  | .error e => .error e
  | .ok (rts, added) =>
    if unassignedWritten.all (fun id => (P.find id).isSome) then
      let added2 := unassignedWritten.reverse ++ added
      .ok { tours := rts,
            unassigned := unassignedWritten ++ (P.jobs.filter (fun j => !added2.contains j.id)).map (·.id) }
    else .error .unknownUnassigned

/-- `create_unassigned`: customer jobs of the solver's unassigned list -/
def writeUnassigned (P : Problem) (unassigned : List String) : List String :=
  unassigned.filter (fun id => match P.find id with | some jd => !jd.bound | none => true)

/-- write, then read back -/
def roundTrip (P : Problem) (tours : List Tour) (unassigned : List String) : Except RErr ReadResult :=
  readInit P (tours.map (writeTour P)) (writeUnassigned P unassigned)

/-! ## independent specification of the property (evaluated on the real output by the driver) -/

/-- the customer-job activities of a trace tour: what has to survive -/
def customerActs (acts : List Act) : List RAct :=
  (acts.filter (fun a => isCustomerKind a.kind)).map
    (fun a => { job := a.job, task := a.task, place := a.place, loc := a.loc })

def customerOnly (P : Problem) (ras : List RAct) : List RAct :=
  ras.filter (fun r => match P.find r.job with | some jd => !jd.bound | none => true)

def customerIds (P : Problem) (ids : List String) : List String :=
  ids.filter (fun id => match P.find id with | some jd => !jd.bound | none => true)

/-- same customer-job activities, on the same vehicle shifts, in the same order, at the same place -/
def sameCustomerActs (P : Problem) (orig : List Tour) (re : List RTour) : Bool :=
  orig.length == re.length &&
  (List.zip orig re).all (fun p =>
    p.1.vehicle == p.2.vehicle && p.1.shift == p.2.shift &&
    decide (customerActs p.1.acts = customerOnly P p.2.acts))

/-- same set (lists without order) -/
def sameSet (a b : List String) : Bool := a.all b.contains && b.all a.contains

/-! ## hypotheses of the theorem, as executable checks -/

/-- the activity is served at place `pl`: at its location, for its duration, starting inside one of
    its windows (what a feasible solution of the solver satisfies), and it leaves when it is done -/
def servedAt (pl : Place) (a : Act) : Bool :=
  pl.loc == some a.loc && a.dur == Q * pl.dur && fmt a.dep == endOf a && decide (0 ≤ pl.dur) &&
  pl.spans.any (fun wp => !wp.offset && decide (wp.s ≤ startOf a) && decide (startOf a ≤ wp.e))

/-- the place of the problem a trace activity refers to -/
def placeOf (P : Problem) (a : Act) : Option (JobDef × Place) :=
  match P.find a.job with
  | some jd => match jd.singles[a.task]? with
    | some s => match s.places[a.place]? with
      | some pl => some (jd, pl)
      | none => none
    | none => none
  | none => none

/-- two places can be told apart: tag, or location, or windows further apart than the duration
    (the written interval `[start, start + duration]` may stick out of the window it started in) -/
def placesApart (p q : Place) : Bool :=
  p.tag != q.tag ||
  (match p.loc, q.loc with | some a, some b => a != b | _, _ => false) ||
  (p.spans.all (fun wp => q.spans.all (fun wq =>
      !wp.offset && !wq.offset && (wq.e < wp.s || wp.e + p.dur < wq.s))))

/-- all (single, place) pairs of a job with their position -/
def allPlaces (jd : JobDef) : List ((Nat × Nat) × Place) :=
  (jd.singles.zipIdx).flatMap (fun si => (si.1.places.zipIdx).map (fun pi => ((si.2, pi.2), pi.1)))

/-- `PlacesDistinguishable`: any two different places of one job can be told apart -/
def placesDistinguishable (jd : JobDef) : Bool :=
  (allPlaces jd).all (fun x => (allPlaces jd).all (fun y => x.1 == y.1 || placesApart x.2 y.2))

/-- the view the reader gets of a trace activity (what the writer puts into the document) -/
def ctxOfAct (P : Problem) (routeStart : Int) (a : Act) : Ctx :=
  { routeStart := routeStart, loc := a.loc, time := (startOf a, endOf a), kind := a.kind,
    jobId := if isCustomerKind a.kind then a.job else a.kind, tag := tagOf P a }

def nodupB [BEq α] : List α → Bool
  | [] => true
  | a :: as => !as.contains a && nodupB as

/-- conditions on the solver's output: every customer activity is served at the place it names, no
    (job, task) is served twice, a vehicle-bound activity is resolved to its own job and only once -/
def tourOk (P : Problem) (t : Tour) : Bool :=
  match t.acts with
  | [] => false
  | st :: rest =>
    let rs := fmt st.dep
    st.kind == "departure" &&
    rest.all (fun a =>
      (a.kind == "arrival") ||
      (isCustomerKind a.kind &&
        (match placeOf P a with | some (jd, pl) => !jd.bound && servedAt pl a | none => false)) ||
      (isBoundKind a.kind && !isCustomerKind a.kind && a.task == 0 && fmt a.dep == endOf a &&
        (match matchBound (ctxOfAct P rs a) (boundGroup P t.vehicle a.kind t.shift P.jobs.length 1) with
         | some (jd, _) => jd.id == a.job && jd.bound
         | none => false)))

def jobActs (tours : List Tour) : List Act :=
  (tours.flatMap (·.acts)).filter (fun a => isCustomerKind a.kind || isBoundKind a.kind)

def traceOk (P : Problem) (tours : List Tour) : Bool :=
  nodupB ((jobActs tours).map (fun a => (a.job, a.task))) && tours.all (tourOk P)

/-- the solver's unassigned list names jobs of the problem, and every customer job is either in it or served -/
def unassignedOk (P : Problem) (tours : List Tour) (unassigned : List String) : Bool :=
  unassigned.all (fun id => (P.find id).isSome) &&
  (P.jobs.filter (fun j => !j.bound)).all (fun jd =>
    unassigned.contains jd.id || (jobActs tours).any (fun a => a.job == jd.id))

/-- job ids are unique in the job index -/
def idsOk (P : Problem) : Bool := nodupB (P.jobs.map (·.id))

/-- all hypotheses of `init_roundtrip_partial` as one executable check -/
def initHyp (P : Problem) (tours : List Tour) (unassigned : List String) : Bool :=
  idsOk P &&
  (P.jobs.filter (fun j => !j.bound)).all (fun jd =>
    placesDistinguishable jd && (jd.singles.length ≤ 1 || multiTagsOk jd)) &&
  traceOk P tours && unassignedOk P tours unassigned

end C11.Init
