/-!
# C12 — the bundled solution checker (`vrp-pragmatic/src/checker/*.rs`)

Executable model of `CheckerContext::check` on the no-clustering fragment (point stops only, optional
breaks, reloads with and without shared resources, no recharge, no time-aware matrices) over the simplified
integer (problem, solution) pair of the shared generator, plus the **independent specification**
`validSolution` (the rules the checker documents, stated positionally / by counting, not as folds).

The model returns, per sub-check, the *class of the first error* the real code reports (`Code`);
`check` is the chain of the six rule groups. Every `def` names the Rust function it mirrors.
-/

namespace C12

/-! ## Loads — `MultiDimLoad` as far as the checker uses it (zero padded vectors, size = length) -/

abbrev Load := List Int

/-- `impl Add for MultiDimLoad` -/
def ladd : Load → Load → Load
  | [], b => b
  | a, [] => a
  | x :: a, y :: b => (x + y) :: ladd a b

def lneg (l : Load) : Load := l.map (fun x => -x)

/-- `impl Sub for MultiDimLoad` -/
def lsub : Load → Load → Load
  | a, [] => a
  | [], b => lneg b
  | x :: a, y :: b => (x - y) :: lsub a b

/-- `capacity.can_fit(load)`: all (zero padded) dimensions -/
def lfit : Load → Load → Bool
  | [], l => l.all (fun x => decide (x ≤ 0))
  | c, [] => c.all (fun x => decide (0 ≤ x))
  | c :: cs, x :: xs => decide (x ≤ c) && lfit cs xs

def leqPad : Load → Load → Bool
  | [], b => b.all (fun x => x == 0)
  | a, [] => a.all (fun x => x == 0)
  | x :: a, y :: b => x == y && leqPad a b

/-- `impl PartialEq for MultiDimLoad` = `partial_cmp == Some(Equal)`; quirk: two loads of size 0 compare
as *not* equal (`partial_cmp` folds over `0..0` and yields `None`) -/
def leq (a b : Load) : Bool := !(a.isEmpty && b.isEmpty) && leqPad a b

/-! ## Problem and solution (simplified integer form of `pragen`) -/

inductive TKind | pickup | delivery | replacement | service
  deriving DecidableEq, Repr

inductive ATy | departure | arrival | pickup | delivery | replacement | service | brk | reload | recharge | other
  deriving DecidableEq, Repr

/-- time window; `e = none` is `Float::MAX` -/
structure TW where
  s : Int
  e : Option Int
  deriving DecidableEq, Repr

structure Place where
  loc : Nat
  dur : Int
  tws : List TW
  tag : Option String
  /-- `resourceId` of a reload place (shared reload resource); never set on job places -/
  resource : Option String := none
  deriving DecidableEq, Repr

structure Task where
  kind : TKind
  places : List Place
  demand : Load
  deriving DecidableEq, Repr

structure Job where
  id : String
  tasks : List Task
  group : Option String
  deriving DecidableEq, Repr

structure BreakPlace where
  dur : Int
  loc : Option Nat
  tag : Option String
  deriving DecidableEq, Repr

inductive BPolicy | noIntersection | arrivalBeforeEnd
  deriving DecidableEq, Repr

/-- optional break; `offset`: the time is relative to the tour's departure -/
structure Break where
  offset : Bool
  t0 : Int
  t1 : Int
  places : List BreakPlace
  policy : Option BPolicy
  deriving DecidableEq, Repr

structure ShiftEnd where
  latest : Int
  loc : Nat
  deriving DecidableEq, Repr

structure Shift where
  startEarliest : Int
  startLoc : Nat
  end_ : Option ShiftEnd
  breaks : List Break
  reloads : List Place
  deriving DecidableEq, Repr

structure VType where
  typeId : String
  ids : List String
  profile : Nat
  scaleNum : Int
  scaleDen : Int
  shifts : List Shift
  capacity : Load
  maxDistance : Option Int
  maxDuration : Option Int
  tourSize : Option Nat
  deriving DecidableEq, Repr

inductive RKind | any | sequence | strict
  deriving DecidableEq, Repr

structure Relation where
  kind : RKind
  jobs : List String
  vehicleId : String
  shiftIndex : Option Nat
  deriving DecidableEq, Repr

structure Profile where
  dur : List Int
  dist : List Int
  deriving DecidableEq, Repr

structure Problem where
  n : Nat
  profiles : List Profile
  jobs : List Job
  vehicles : List VType
  relations : List Relation
  /-- `fleet.resources` (all of type reload): (id, capacity) -/
  resources : List (String × Load) := []
  deriving Repr

structure Act where
  jobId : String
  ty : ATy
  tag : Option String
  loc : Option Nat
  time : Option (Int × Int)
  deriving DecidableEq, Repr

structure Stop where
  loc : Nat
  arrival : Int
  departure : Int
  distance : Int
  load : Load
  acts : List Act
  deriving DecidableEq, Repr

structure Stat where
  distance : Int
  duration : Int
  deriving DecidableEq, Repr

structure Tour where
  vehicleId : String
  typeId : String
  shiftIndex : Nat
  stops : List Stop
  stat : Stat
  deriving DecidableEq, Repr

structure Solution where
  stat : Stat
  tours : List Tour
  unassigned : List String
  /-- break violations: (vehicle id, shift index) -/
  violations : List (String × Nat)
  deriving Repr

/-! ## Error classes (one per message family of the checker) -/

inductive Code
  | panic
  | load_exceeds | load_mismatch | resource
  | no_vehicle | no_shift | no_stops | no_job | no_break | no_reload | no_recharge | unknown_type | no_tag | no_place
  | rel_no_tour | rel_unknown_job | rel_dup | rel_strict | rel_sequence | rel_any
  | brk_time | brk_loc | brk_match | brk_count
  | veh_unknown | veh_dup | job_multi_tour | job_tasks | unas_dup | unas_bad | job_count | act_match | groups
  | rt_arrival | rt_distance | rt_tour_distance | rt_tour_duration | rt_total | empty_tour | no_first_act | no_matrix
  | lim_distance | lim_duration | lim_size | lim_shift_time
  deriving DecidableEq, Repr

def Code.name : Code → String
  | .panic => "panic"
  | .load_exceeds => "load_exceeds" | .load_mismatch => "load_mismatch" | .resource => "resource"
  | .no_vehicle => "no_vehicle" | .no_shift => "no_shift" | .no_stops => "no_stops" | .no_job => "no_job"
  | .no_break => "no_break" | .no_reload => "no_reload" | .no_recharge => "no_recharge"
  | .unknown_type => "unknown_type" | .no_tag => "no_tag" | .no_place => "no_place"
  | .rel_no_tour => "rel_no_tour" | .rel_unknown_job => "rel_unknown_job" | .rel_dup => "rel_dup"
  | .rel_strict => "rel_strict" | .rel_sequence => "rel_sequence" | .rel_any => "rel_any"
  | .brk_time => "brk_time" | .brk_loc => "brk_loc" | .brk_match => "brk_match" | .brk_count => "brk_count"
  | .veh_unknown => "veh_unknown" | .veh_dup => "veh_dup" | .job_multi_tour => "job_multi_tour"
  | .job_tasks => "job_tasks" | .unas_dup => "unas_dup" | .unas_bad => "unas_bad" | .job_count => "job_count"
  | .act_match => "act_match" | .groups => "groups"
  | .rt_arrival => "rt_arrival" | .rt_distance => "rt_distance" | .rt_tour_distance => "rt_tour_distance"
  | .rt_tour_duration => "rt_tour_duration" | .rt_total => "rt_total" | .empty_tour => "empty_tour"
  | .no_first_act => "no_first_act" | .no_matrix => "no_matrix"
  | .lim_distance => "lim_distance" | .lim_duration => "lim_duration" | .lim_size => "lim_size"
  | .lim_shift_time => "lim_shift_time"

/-! ## Small helpers -/

/-- `TimeWindow::intersects` (inclusive) -/
def meets (a b : Int × Int) : Bool := decide (a.1 ≤ b.2) && decide (b.1 ≤ a.2)

def TW.meets (w : TW) (t : Int × Int) : Bool :=
  decide (w.s ≤ t.2) && (match w.e with | none => true | some e => decide (t.1 ≤ e))

def isJobTy : ATy → Bool
  | .pickup | .delivery | .replacement | .service => true
  | _ => false

def kindOfTy : ATy → Option TKind
  | .pickup => some .pickup
  | .delivery => some .delivery
  | .replacement => some .replacement
  | .service => some .service
  | _ => none

def firstErr : List (Option Code) → Option Code
  | [] => none
  | some c :: _ => some c
  | none :: rest => firstErr rest

/-- first error over a list (`try_for_each`) -/
def firstErrOf (f : α → Option Code) : List α → Option Code
  | [] => none
  | x :: rest => match f x with
    | some c => some c
    | none => firstErrOf f rest

def countP (p : α → Bool) : List α → Nat
  | [] => 0
  | x :: rest => (if p x then 1 else 0) + countP p rest

def dedup [BEq α] : List α → List α
  | [] => []
  | x :: rest => x :: (dedup rest).filter (fun y => !(y == x))

def hasDup [BEq α] : List α → Bool
  | [] => false
  | x :: rest => rest.contains x || hasDup rest

def sumInt : List Int → Int
  | [] => 0
  | x :: rest => x + sumInt rest

/-! ## `CheckerContext` helpers (mod.rs) -/

/-- `get_vehicle` -/
def findVehicle (P : Problem) (vid : String) : Option VType := P.vehicles.find? (fun v => v.ids.contains vid)

/-- `get_job_by_id` / `job_map.get` (job ids are unique after validation) -/
def findJob (P : Problem) (id : String) : Option Job := P.jobs.find? (fun j => j.id == id)

def firstStop (t : Tour) : Option Stop := t.stops.head?
def lastStop (t : Tour) : Option Stop := t.stops.getLast?

/-- the tour's departure as the checker sees it: departure of the first *stop* -/
def tourDeparture (t : Tour) : Int := match firstStop t with | some s => s.departure | none => 0
def tourArrival (t : Tour) : Int := match lastStop t with | some s => s.arrival | none => 0

/-- the start time offsets are counted from (`get_break_time_window`, `get_route_start_time`, routing's
`time_offset`): the end of the departure activity when it carries a time (a break served at the start location is
part of the first stop), else the departure of the first stop -/
def tourStart (t : Tour) : Int :=
  match firstStop t with
  | none => 0
  | some s => match s.acts.head? with
    | some a => (match a.time with | some tm => tm.2 | none => s.departure)
    | none => s.departure

def shiftMeets (s : Shift) (span : Int × Int) : Bool :=
  decide (s.startEarliest ≤ span.2) && (match s.end_ with | none => true | some e => decide (span.1 ≤ e.latest))

/-- `get_vehicle_shift`: the shift named by `tour.shift_index` if its time range meets [first arrival, last
arrival], else the first shift that does -/
def vehicleShift (P : Problem) (t : Tour) : Except Code Shift :=
  match firstStop t, lastStop t with
  | some f, some l =>
    match findVehicle P t.vehicleId with
    | none => .error .no_vehicle
    | some v =>
      match (match v.shifts[t.shiftIndex]? with
             | some s => if shiftMeets s (f.arrival, l.arrival) then some s else none
             | none => none) with
      | some s => .ok s
      | none =>
        match v.shifts.find? (fun s => shiftMeets s (f.arrival, l.arrival)) with
        | none => .error .no_shift
        | some s => .ok s
  | _, _ => .error .no_stops

/-- `get_break_time_window` (optional breaks) -/
def breakWindow (t : Tour) (b : Break) : Int × Int :=
  if b.offset then (tourStart t + b.t0, tourStart t + b.t1) else (b.t0, b.t1)

/-- `get_activity_time` / `get_time_window` -/
def actTime (s : Stop) (a : Act) : Int × Int := match a.time with | some t => t | none => (s.arrival, s.departure)

/-- `get_activity_location` (point stops) -/
def actLoc (s : Stop) (a : Act) : Nat := match a.loc with | some l => l | none => s.loc

inductive AType
  | terminal
  | job (j : Job)
  | brk (b : Break)
  | reload (r : Place)

/-- `get_activity_type` -/
def activityType (P : Problem) (t : Tour) (s : Stop) (a : Act) : Except Code AType :=
  match vehicleShift P t with
  | .error c => .error c
  | .ok shift =>
    match a.ty with
    | .departure | .arrival => .ok .terminal
    | .pickup | .delivery | .replacement | .service =>
      match findJob P a.jobId with
      | none => .error .no_job
      | some j => .ok (.job j)
    | .brk =>
      match shift.breaks.find? (fun b => meets (breakWindow t b) (actTime s a)) with
      | none => .error .no_break
      | some b => .ok (.brk b)
    | .reload =>
      match shift.reloads.find? (fun r => r.loc == actLoc s a && r.tag == a.tag) with
      | none => .error .no_reload
      | some r => .ok (.reload r)
    | .recharge => .error .no_recharge
    | .other => .error .unknown_type

def tasksOf (j : Job) (k : TKind) : List Task := j.tasks.filter (fun t => t.kind == k)

/-- `visit_job` + `match_job_task`: the task an activity refers to -/
def matchTask (a : Act) (j : Job) : Except Code Task :=
  let np := (tasksOf j .pickup).length
  let nd := (tasksOf j .delivery).length
  let n := j.tasks.length
  if n < 2 || (n == 2 && np == 1 && nd == 1) then
    match (kindOfTy a.ty).bind (fun k => (tasksOf j k).head?) with
    | none => .error .no_place
    | some t => .ok t
  else
    match a.tag with
    | none => .error .no_tag
    | some _ =>
      match (kindOfTy a.ty).bind (fun k => (tasksOf j k).find? (fun t => t.places.any (fun p => p.tag == a.tag))) with
      | none => .error .no_place
      | some t => .ok t

inductive DKind | none | sPickup | sDelivery | sBoth | dPickup | dDelivery
  deriving DecidableEq, Repr

def isDynamic (j : Job) : Bool := !(tasksOf j .pickup).isEmpty && !(tasksOf j .delivery).isEmpty

def dkind (dyn : Bool) : ATy → DKind
  | .replacement => .sBoth
  | .pickup => if dyn then .dPickup else .sPickup
  | .delivery => if dyn then .dDelivery else .sDelivery
  | _ => .none

/-- `get_demand` (capacity.rs) -/
def demandOf (a : Act) : AType → Except Code (DKind × Load)
  | .job j =>
    match matchTask a j with
    | .error c => .error c
    | .ok t => .ok (dkind (isDynamic j) a.ty, t.demand)
  | _ => .ok (dkind false a.ty, [])

/-! ## Group 1: vehicle load (capacity.rs) -/

/-- `is_reload_stop`: only the FIRST activity counts -/
def isReloadStop (s : Stop) : Bool := match s.acts.head? with | some a => a.ty == .reload | none => false

/-- splitting of the stop list before every reload stop that is not the last stop -/
def splitGo (cur : List Stop) : List Stop → List (List Stop)
  | [] => [cur.reverse]
  | s :: rest =>
    if isReloadStop s && !rest.isEmpty then cur.reverse :: splitGo [s] rest else splitGo (s :: cur) rest

/-- `get_intervals` as lists of stops (interval = first `from` and every `to` of its legs). `none` where the
Rust index arithmetic underflows (reload as second stop of a longer tour, two reload stops in a row):
a panic in builds with overflow checks -/
def intervals (stops : List Stop) : Option (List (List Stop)) :=
  match stops with
  | [] => some []
  | [_] => some []
  | s0 :: rest =>
    let ivs := splitGo [s0] rest
    if ivs.any (fun iv => decide (iv.length < 2)) then none else some ivs

def stopActs (iv : List Stop) : List (Stop × Act) := iv.flatMap (fun s => s.acts.map (fun a => (s, a)))

/-- the `(start_delivery, end_pickup)` fold over `get_activities_from_interval` -/
def sumsGo (P : Problem) (t : Tour) : Load × Load → List (Stop × Act) → Except Code (Load × Load)
  | acc, [] => .ok acc
  | acc, (s, a) :: rest =>
    match activityType P t s a with
    | .error c => .error c
    | .ok aty =>
      match demandOf a aty with
      | .error c => .error c
      | .ok (k, d) =>
        sumsGo P t (match k with
          | .sDelivery => (ladd acc.1 d, acc.2)
          | .sPickup => (acc.1, ladd acc.2 d)
          | .sBoth => (ladd acc.1 d, ladd acc.2 d)
          | _ => acc) rest

/-- the `change` fold over the activities of the `to` stop of a leg -/
def changeGo (P : Problem) (t : Tour) (to : Stop) (ep : Load) : Load → List Act → Except Code Load
  | acc, [] => .ok acc
  | acc, a :: rest =>
    match activityType P t to a with
    | .error c => .error c
    | .ok aty =>
      match (if a.ty == .arrival || a.ty == .reload then .ok (DKind.sDelivery, ep) else demandOf a aty) with
      | .error c => .error c
      | .ok (k, d) =>
        changeGo P t to ep (match k with
          | .sDelivery | .dDelivery => lsub acc d
          | .sPickup | .dPickup => ladd acc d
          | _ => acc) rest

/-- the `start_load` fold: job activities of the interval's FIRST stop change the load it starts with -/
def startGo (P : Problem) (t : Tour) (s0 : Stop) : Load → List Act → Except Code Load
  | acc, [] => .ok acc
  | acc, a :: rest =>
    match activityType P t s0 a with
    | .error c => .error c
    | .ok aty =>
      match demandOf a aty with
      | .error c => .error c
      | .ok (k, d) =>
        startGo P t s0 (match k with
          | .sDelivery | .dDelivery => lsub acc d
          | .sPickup | .dPickup => ladd acc d
          | _ => acc) rest

/-- the leg fold of one interval -/
def legsGo (P : Problem) (t : Tour) (cap ep : Load) : Load → Stop → List Stop → Except Code Load
  | acc, _, [] => .ok acc
  | acc, from_, to :: rest =>
    if !lfit cap from_.load || !lfit cap to.load then .error .load_exceeds
    else
      match changeGo P t to ep [] to.acts with
      | .error c => .error c
      | .ok ch =>
        if leq from_.load acc && leq to.load (ladd from_.load ch) then legsGo P t cap ep to.load to rest
        else .error .load_mismatch

/-- the interval fold (`acc` = what is carried over a reload) -/
def intervalsGo (P : Problem) (t : Tour) (cap : Load) : Load → List (List Stop) → Except Code Unit
  | _, [] => .ok ()
  | acc, iv :: rest =>
    match sumsGo P t (acc, []) (stopActs iv) with
    | .error c => .error c
    | .ok (sd, ep) =>
      match iv with
      | [] => intervalsGo P t cap (lsub sd ep) rest
      | s0 :: tl =>
        match startGo P t s0 sd s0.acts with
        | .error c => .error c
        | .ok sl =>
          match legsGo P t cap ep sl s0 tl with
          | .error c => .error c
          | .ok endCap => intervalsGo P t cap (lsub endCap ep) rest

/-- `check_vehicle_load_assignment` for one tour -/
def checkLoadTour (P : Problem) (t : Tour) : Option Code :=
  match findVehicle P t.vehicleId with
  | none => some .no_vehicle
  | some v =>
    match intervals t.stops with
    | none => some .panic
    | some ivs =>
      match intervalsGo P t v.capacity [] ivs with
      | .error c => some c
      | .ok _ => none

/-! ### `check_resource_consumption`: shared reload resources -/

/-- the `resource_id` closure: the first activity of the interval's first stop that resolves (errors are dropped) to a
reload place carrying a `resourceId` -/
def resourceIdOf (P : Problem) (t : Tour) (s0 : Stop) : Option String :=
  s0.acts.findSome? (fun a =>
    match activityType P t s0 a with
    | .ok (.reload r) => r.resource
    | _ => none)

/-- what one activity adds to the consumption of its interval: the demand of a static delivery; an activity whose type or
demand cannot be resolved is dropped (`filter_map(.. .ok())`) -/
def staticDeliveryOf (P : Problem) (t : Tour) (p : Stop × Act) : Load :=
  match activityType P t p.1 p.2 with
  | .error _ => []
  | .ok aty =>
    match demandOf p.2 aty with
    | .ok (.sDelivery, d) => d
    | _ => []

/-- the `consumption` fold over `get_activities_from_interval` -/
def consumptionOf (P : Problem) (t : Tour) (iv : List Stop) : Load :=
  (stopActs iv).foldl (fun acc p => ladd acc (staticDeliveryOf P t p)) []

/-- the (resource id, consumption) pairs of one tour: one per interval whose first stop draws on a resource -/
def tourDraws (P : Problem) (t : Tour) : List (String × Load) :=
  match intervals t.stops with
  | none => []
  | some ivs => ivs.filterMap (fun iv =>
      match iv with
      | [] => none
      | s0 :: _ => (resourceIdOf P t s0).map (fun id => (id, consumptionOf P t iv)))

def allDraws (P : Problem) (S : Solution) : List (String × Load) := S.tours.flatMap (tourDraws P)

/-- the hash map entry of a resource after the fold over all tours -/
def consumedOf (draws : List (String × Load)) (id : String) : Load :=
  (draws.filter (fun p => p.1 == id)).foldl (fun acc p => ladd acc p.2) []

/-- `resources` collected into a hash map: the last definition of an id wins (ids are unique after validation, E1308) -/
def resourceCap (P : Problem) (id : String) : Option Load := (P.resources.reverse.find? (fun r => r.1 == id)).map (fun r => r.2)

/-- `check_resource_consumption`: every consumed resource is defined and what is consumed fits into what is available
(`available.can_fit(consumed)`: every zero padded dimension); both messages are one class (the real loop runs over a
hash map) -/
def checkResources (P : Problem) (S : Solution) : Option Code :=
  let draws := allDraws P S
  if (dedup (draws.map (fun p => p.1))).any (fun id =>
      match resourceCap P id with
      | none => true
      | some cap => !lfit cap (consumedOf draws id))
  then some .resource else none

/-- `check_vehicle_load` -/
def checkLoad (P : Problem) (S : Solution) : List (Option Code) :=
  [firstErrOf (checkLoadTour P) S.tours, checkResources P S]

/-! ## Group 2: relations (relations.rs) -/

/-- `get_activity_ids` -/
def tourIds (t : Tour) : List String := t.stops.flatMap (fun s => s.acts.map (fun a => a.jobId))

/-- `get_tour_by_vehicle_id` -/
def findTour (S : Solution) (vid : String) (shift : Nat) : Option Tour :=
  S.tours.find? (fun t => t.vehicleId == vid && t.shiftIndex == shift)

def isReservedId (id : String) : Bool := id == "departure" || id == "arrival" || id == "break" || id == "reload"

def positionOf (x : String) : List String → Option Nat
  | [] => none
  | y :: rest => if y == x then some 0 else (positionOf x rest).map (· + 1)

/-- `intersection` (relations.rs): zip from the first occurrence of the relation's head, keep equal pairs -/
def intersection (left right : List String) : List String :=
  match right with
  | [] => []
  | r0 :: _ =>
    match positionOf r0 left with
    | none => []
    | some pos => ((left.drop pos).zip right).filterMap (fun p => if p.1 == p.2 then some p.1 else none)

def jobTaskCount (P : Problem) (id : String) : Nat := match findJob P id with | some j => j.tasks.length | none => 1

/-- `is_subsequence` -/
def isSubseq : List String → List String → Bool
  | [], _ => true
  | _ :: _, [] => false
  | x :: xs, y :: ys => if x == y then isSubseq xs ys else isSubseq (x :: xs) ys

/-- `expected_relation_count`: a customer job once per task, a reserved id once per occurrence -/
def relationCount (P : Problem) (jobs : List String) (id : String) : Nat :=
  match findJob P id with
  | some j => j.tasks.length
  | none => countP (fun x => x == id) jobs

def checkRelation (P : Problem) (S : Solution) (r : Relation) : Option Code :=
  match findTour S r.vehicleId (r.shiftIndex.getD 0) with
  | none =>
    match r.kind with
    | .any => if S.tours.any (fun t => (tourIds t).any (fun id => !isReservedId id && r.jobs.contains id)) then some .rel_any else none
    | _ => some .rel_no_tour
  | some tour =>
    let ids := tourIds tour
    let distinct := dedup r.jobs
    if distinct.any (fun id => (findJob P id).isNone && !isReservedId id) then some .rel_unknown_job
    else if (distinct.map (relationCount P r.jobs)).sum != r.jobs.length then some .rel_dup
    else
      match r.kind with
      | .strict => if intersection ids r.jobs != r.jobs then some .rel_strict else none
      | .sequence =>
        let kept := ids.filter (fun id => r.jobs.contains id)
        if (if r.jobs.any isReservedId then !isSubseq r.jobs kept else kept != r.jobs) then some .rel_sequence else none
      | .any =>
        if S.tours.any (fun o => o.vehicleId != tour.vehicleId && (tourIds o).any (fun id => !isReservedId id && r.jobs.contains id))
        then some .rel_any else none

def checkRelations (P : Problem) (S : Solution) : List (Option Code) :=
  [firstErrOf (checkRelation P S) P.relations]

/-! ## Group 3: breaks (breaks.rs) -/

/-- the legs `activities.windows(min(len, 2))` of a stop as (is first leg, from?, to) -/
def actLegsGo : Bool → List Act → List (Bool × Option Act × Act)
  | _, [] => []
  | _, [_] => []
  | first, a :: b :: rest => (first, some a, b) :: actLegsGo false (b :: rest)

def actLegs : List Act → List (Bool × Option Act × Act)
  | [] => []
  | [a] => [(true, none, a)]
  | acts => actLegsGo true acts

def breakOf (P : Problem) (t : Tour) (s : Stop) (a : Act) : Option Break :=
  match activityType P t s a with
  | .ok (.brk b) => some b
  | _ => none

/-- `as_leg_info_with_break` + the body of the fold in `check_break_assignment` for one leg:
`none` = leg without a break, `some (error?)` = a break was seen -/
def legBreak (P : Problem) (t : Tour) (s : Stop) (leg : Bool × Option Act × Act) : Option (Option Code) :=
  let to := leg.2.2
  let cand : Option (Act × Break) :=
    match breakOf P t s to with
    | some b => some (to, b)
    | none => match leg.2.1 with
      | none => none
      | some f => if leg.1 then (breakOf P t s f).map (fun b => (f, b)) else none
  match cand with
  | none => none
  | some (ba, b) =>
    let fromLoc : Nat := match leg.2.1 with
      | some f => (match f.loc with | some l => l | none => s.loc)
      | none => s.loc
    if !meets (actTime s ba) (breakWindow t b) then some (some .brk_time)
    else
      let actual := actLoc s to
      if b.places.any (fun p => match p.loc with | some l => actual == l | none => fromLoc == actual)
      then some none else some (some .brk_loc)

/-- matched break count over all stops, or the first error -/
def matchedBreaks (P : Problem) (t : Tour) : Nat → List (Stop × (Bool × Option Act × Act)) → Except Code Nat
  | acc, [] => .ok acc
  | acc, (s, leg) :: rest =>
    match legBreak P t s leg with
    | none => matchedBreaks P t acc rest
    | some (some c) => .error c
    | some none => matchedBreaks P t (acc + 1) rest

def shouldAssign (t : Tour) (b : Break) : Bool :=
  let w := breakWindow t b
  match b.policy with
  | some .arrivalBeforeEnd => decide (tourArrival t > w.2)
  | _ => meets w (tourDeparture t, tourArrival t)

def tourActs (t : Tour) : List Act := t.stops.flatMap (fun s => s.acts)

def checkBreaksTour (P : Problem) (S : Solution) (t : Tour) : Option Code :=
  match vehicleShift P t with
  | .error c => some c
  | .ok shift =>
    let actual := countP (fun a => a.ty == .brk) (tourActs t)
    match matchedBreaks P t 0 (t.stops.flatMap (fun s => (actLegs s.acts).map (fun l => (s, l)))) with
    | .error c => some c
    | .ok matched =>
      if actual != matched then some .brk_match
      else
        let expected := countP (shouldAssign t) shift.breaks
        let total := actual + countP (fun v => v.1 == t.vehicleId && v.2 == t.shiftIndex) S.violations
        if total < expected || total > shift.breaks.length then some .brk_count else none

def checkBreaks (P : Problem) (S : Solution) : List (Option Code) :=
  [firstErrOf (checkBreaksTour P S) S.tours]

/-! ## Group 4: assignment (assignment.rs) -/

/-- `check_vehicles` -/
def checkVehiclesGo (P : Problem) : List (String × Nat) → List Tour → Option Code
  | _, [] => none
  | seen, t :: rest =>
    if !(P.vehicles.any (fun v => v.ids.contains t.vehicleId)) then some .veh_unknown
    else if seen.contains (t.vehicleId, t.shiftIndex) then some .veh_dup
    else checkVehiclesGo P ((t.vehicleId, t.shiftIndex) :: seen) rest

/-- all job activities of the solution as (tour key, index inside the tour, activity) in iteration order -/
def indexed : Nat → List α → List (Nat × α)
  | _, [] => []
  | i, x :: rest => (i, x) :: indexed (i + 1) rest

def jobActs (S : Solution) : List ((String × Nat) × Nat × Act) :=
  S.tours.flatMap (fun t => ((indexed 0 (tourActs t)).filter (fun p => isJobTy p.2.ty)).map
    (fun p => ((t.vehicleId, t.shiftIndex), p.1, p.2)))

/-- first loop of `check_jobs_presence`: a job id seen under two different (vehicle, shift) keys -/
def multiTourGo : List (String × (String × Nat)) → List ((String × Nat) × Nat × Act) → Bool
  | _, [] => false
  | owners, (key, _, a) :: rest =>
    match owners.find? (fun o => o.1 == a.jobId) with
    | some o => if o.2 != key then true else multiTourGo owners rest
    | none => multiTourGo ((a.jobId, key) :: owners) rest

def usedIds (S : Solution) : List String := dedup ((jobActs S).map (fun p => p.2.2.jobId))

def idxOfTy (S : Solution) (id : String) (ty : ATy) : List Nat :=
  ((jobActs S).filter (fun p => p.2.2.jobId == id && p.2.2.ty == ty)).map (fun p => p.2.1)

def maxNat : List Nat → Nat
  | [] => 0
  | x :: rest => max x (maxNat rest)

def minNat : List Nat → Nat
  | [] => 0
  | [x] => x
  | x :: rest => min x (minNat rest)

/-- second loop of `check_jobs_presence` for one used job id (the three messages are one class: the real
loop runs over a hash map, so which of them is reported first is not deterministic) -/
def jobTasksBad (P : Problem) (S : Solution) (id : String) : Bool :=
  match findJob P id with
  | none => true
  | some j =>
    let assigned := countP (fun p => p.2.2.jobId == id) (jobActs S)
    let ps := idxOfTy S id .pickup
    let ds := idxOfTy S id .delivery
    j.tasks.length != assigned || (!ds.isEmpty && !ps.isEmpty && decide (maxNat ps > minNat ds))

def endsWithBreak (id : String) : Bool := id.endsWith "_break"

def unassignedIds (S : Solution) : List String := S.unassigned.filter (fun id => !endsWithBreak id)

/-- `check_jobs_presence` -/
def checkPresence (P : Problem) (S : Solution) : Option Code :=
  if multiTourGo [] (jobActs S) then some .job_multi_tour
  else if (usedIds S).any (jobTasksBad P S) then some .job_tasks
  else
    let un := unassignedIds S
    if hasDup un then some .unas_dup
    else if un.any (fun id => (findJob P id).isNone || (usedIds S).contains id) then some .unas_bad
    else if un.length + (usedIds S).length != (dedup (P.jobs.map (fun j => j.id))).length then some .job_count
    else none

/-! ### `check_jobs_match` : the activity matcher (format/solution/activity_matcher.rs) -/

inductive TSpan
  | window (w : TW)
  | offset (a b : Int)
  deriving Repr

/-- a core `Single` as far as the matcher looks at it -/
structure MPlace where
  loc : Option Nat
  dur : Int
  times : List TSpan
  tag : Option String
  deriving Repr

def TSpan.meets (sp : TSpan) (start : Int) (t : Int × Int) : Bool :=
  match sp with
  | .window w => w.meets t
  | .offset a b => C12.meets (start + a, start + b) t

def placeFits (p : MPlace) (loc : Nat) (start : Int) (t : Int × Int) : Bool :=
  (match p.loc with | none => true | some l => l == loc) && p.times.any (fun sp => sp.meets start t)

def singleOfTask (t : Task) : List MPlace :=
  t.places.map (fun p => { loc := some p.loc, dur := p.dur, times := p.tws.map TSpan.window, tag := p.tag })

def singleOfBreak (b : Break) : List MPlace :=
  b.places.map (fun p => { loc := p.loc, dur := p.dur,
                           times := [if b.offset then TSpan.offset b.t0 b.t1 else TSpan.window ⟨b.t0, some b.t1⟩],
                           tag := p.tag })

def singleOfReload (r : Place) : List MPlace :=
  [{ loc := some r.loc, dur := r.dur, times := r.tws.map TSpan.window, tag := r.tag }]

/-- reader order of the singles of a job: pickups, deliveries, replacements, services -/
def singlesOfJob (j : Job) : List (List MPlace) :=
  (tasksOf j .pickup ++ tasksOf j .delivery ++ tasksOf j .replacement ++ tasksOf j .service).map singleOfTask

def lastSome (f : α → Option β) : List α → Option β
  | [] => none
  | x :: rest => match lastSome f rest with
    | some y => some y
    | none => f x

/-- `match_place`: duration and window start of the first place that carries the activity's tag and fits location and
time; the window is the FIRST time span that meets the activity time -/
def matchPlace (single : List MPlace) (loc : Nat) (start : Int) (t : Int × Int) (tag : Option String) : Option (Int × Int) :=
  match single.find? (fun p => p.tag == tag && placeFits p loc start t) with
  | none => none
  | some p =>
    match p.times.find? (fun sp => TSpan.meets sp start t) with
    | none => none
    | some (.window w) => some (p.dur, w.s)
    | some (.offset _ _) => some (p.dur, t.2 - p.dur)

/-- `get_extra_time`: a break inside the same stop that overlaps the service -/
def extraTime (s : Stop) (a : Act) (dur : Int) : Int :=
  let st := (actTime s a).1
  let r := s.acts.findSome? (fun b =>
    if b.ty == .brk && b != a then
      match b.time with
      | none => none
      | some (bs, be) =>
        if meets (st, st + dur) (bs, be) then
          let os := max st bs
          let oe := min (st + dur) be
          if os != oe then some (be - os) else none
        else none
    else none)
  r.getD 0

/-- the filter closure of `check_jobs_match`: is this activity NOT matched -/
def actUnmatched (P : Problem) (t : Tour) (s : Stop) (a : Act) : Bool :=
  let loc := actLoc s a
  let time := actTime s a
  let start := tourStart t
  let validInfo (info : Option (Int × Int)) : Bool :=
    match info with
    | none => true
    | some (dur, twStart) => time.2 != max time.1 twStart + dur + extraTime s a dur
  match a.ty with
  | .departure | .arrival => false
  | .pickup | .delivery | .replacement | .service =>
    match findJob P a.jobId with
    | none => true
    | some j =>
      let singles := singlesOfJob j
      let tags := dedup ((singles.flatMap id).filterMap (fun p => p.tag))
      if singles.length > 1 && tags.length < singles.length then true
      else validInfo (singles.findSome? (fun sg => matchPlace sg loc start time a.tag))
  | .brk | .reload =>
    match findVehicle P t.vehicleId with
    | none => true
    | some v =>
      match v.shifts[t.shiftIndex]? with
      | none => true
      | some shift =>
        let cands := if a.ty == .brk then shift.breaks.map singleOfBreak else shift.reloads.map singleOfReload
        let infos := cands.filterMap (fun sg => matchPlace sg loc start time a.tag)
        -- several candidates can share location and tag: the first with a consistent duration, else the first
        validInfo (match infos.find? (fun i => time.2 == max time.1 i.2 + i.1) with
                   | some i => some i
                   | none => infos.head?)
  | _ => true

def checkMatch (P : Problem) (S : Solution) : Option Code :=
  if S.tours.any (fun t => t.stops.any (fun s => s.acts.any (fun a => actUnmatched P t s a))) then some .act_match else none

/-- `check_groups` -/
def checkGroups (P : Problem) (S : Solution) : Option Code :=
  let uses : List (String × (String × String × Nat)) :=
    S.tours.flatMap (fun t => (tourActs t).filterMap (fun a =>
      match findJob P a.jobId with
      | some j => j.group.map (fun g => (g, (t.typeId, t.vehicleId, t.shiftIndex)))
      | none => none))
  if (dedup (uses.map (fun u => u.1))).any (fun g => (dedup ((uses.filter (fun u => u.1 == g)).map (fun u => u.2))).length > 1)
  then some .groups else none

def checkAssignment (P : Problem) (S : Solution) : List (Option Code) :=
  [checkVehiclesGo P [] S.tours, checkPresence P S, checkMatch P S, checkGroups P S]

/-! ## Group 5: routing (routing.rs) -/

def absI (x : Int) : Int := if x < 0 then -x else x

/-- `get_matrix_data`: (distance, scaled duration) -/
def matrixData (P : Problem) (v : VType) (a b : Nat) : Option (Int × Int) :=
  match P.profiles[v.profile]? with
  | none => none
  | some pr =>
    match pr.dist[a * P.n + b]?, pr.dur[a * P.n + b]? with
    | some d, some t => some (d, (t * v.scaleNum) / v.scaleDen)
    | _, _ => none

/-- `skip_distance_check` -/
def skipDistance (S : Solution) : Bool := S.tours.all (fun t => t.stops.all (fun s => s.distance == 0))

/-- the leg fold of `check_routing_rules` : (departure of previous stop, its reported distance) -/
def routeGo (P : Problem) (v : VType) (skip : Bool) : Int → Int → Stop → List Stop → Except Code (Int × Int)
  | dep, dist, _, [] => .ok (dep, dist)
  | dep, dist, from_, to :: rest =>
    match matrixData P v from_.loc to.loc with
    | none => .error .no_matrix
    | some (d, dur) =>
      if decide (absI (dep + dur - to.arrival) > 1) then .error .rt_arrival
      else if !skip && decide (absI (dist + d - to.distance) > 1) then .error .rt_distance
      else routeGo P v skip to.departure to.distance to rest

def checkRoutingTour (P : Problem) (skip : Bool) (t : Tour) : Option Code :=
  match findVehicle P t.vehicleId with
  | none => some .no_vehicle
  | some v =>
    if P.profiles[v.profile]?.isNone then some .no_matrix else
    match t.stops with
    | [] => some .empty_tour
    | s0 :: rest =>
      match s0.acts.head? with
      | none => some .no_first_act
      | some _ =>
        -- `time_offset`: end of the first activity if it carries a time, else the first stop's departure
        let offset := tourStart t
        match routeGo P v skip s0.departure 0 s0 rest with
        | .error c => some c
        | .ok (dep, dist) =>
          if !skip && decide (absI (dist - t.stat.distance) > 1) then some .rt_tour_distance
          else if decide (absI (dep - offset - t.stat.duration) > 1) then some .rt_tour_duration
          else none

def checkRouting (P : Problem) (S : Solution) : List (Option Code) :=
  [match firstErrOf (checkRoutingTour P (skipDistance S)) S.tours with
   | some c => some c
   | none =>
     if sumInt (S.tours.map (fun t => t.stat.duration)) != S.stat.duration
        || sumInt (S.tours.map (fun t => t.stat.distance)) != S.stat.distance then some .rt_total else none]

/-! ## Group 6: limits (limits.rs) -/

def overLimit (lim : Option Int) (x : Int) : Bool := match lim with | some m => decide (x > m) | none => false

def checkShiftLimitsTour (P : Problem) (t : Tour) : Option Code :=
  match findVehicle P t.vehicleId with
  | none => some .no_vehicle
  | some v =>
    if overLimit v.maxDistance t.stat.distance then some .lim_distance
    else if overLimit v.maxDuration t.stat.duration then some .lim_duration
    else
      match v.tourSize with
      | none => none
      | some lim =>
        match vehicleShift P t with
        | .error c => some c
        | .ok shift =>
          let extra := if shift.end_.isSome then 2 else 1
          if (tourActs t).length - extra > lim then some .lim_size else none

def checkShiftTimeTour (P : Problem) (t : Tour) : Option Code :=
  match findVehicle P t.vehicleId with
  | none => some .no_vehicle
  | some v =>
    match firstStop t, lastStop t with
    | some f, some l =>
      if v.shifts.any (fun s => decide (f.departure ≥ s.startEarliest) &&
            (match s.end_ with | none => true | some e => decide (l.arrival ≤ e.latest)))
      then none else some .lim_shift_time
    | _, _ => some .empty_tour

/-- `check_recharge_limits` without recharge stations: only the shift lookup can fail -/
def checkRechargeTour (P : Problem) (t : Tour) : Option Code :=
  if t.stops.length > 1 then
    match vehicleShift P t with
    | .error c => some c
    | .ok _ => none
  else none

def checkLimits (P : Problem) (S : Solution) : List (Option Code) :=
  [firstErrOf (checkShiftLimitsTour P) S.tours, firstErrOf (checkShiftTimeTour P) S.tours,
   firstErrOf (checkRechargeTour P) S.tours]

/-! ## The chain (`CheckerContext::check`) -/

inductive Group | load | relations | breaks | assignment | routing | limits
  deriving DecidableEq, Repr

/-- the order in which `check` chains the rule groups -/
def chain : List Group := [.load, .relations, .breaks, .assignment, .routing, .limits]

/-- the sub-checks each group combines (`combine_error_results`), by their Rust names -/
def subChecks : Group → List String
  | .load => ["check_vehicle_load_assignment", "check_resource_consumption"]
  | .relations => ["check_relations_assignment"]
  | .breaks => ["check_break_assignment"]
  | .assignment => ["check_vehicles", "check_jobs_presence", "check_jobs_match", "check_groups"]
  | .routing => ["check_routing_rules"]
  | .limits => ["check_shift_limits", "check_shift_time", "check_recharge_limits"]

def Group.fnName : Group → String
  | .load => "check_vehicle_load"
  | .relations => "check_relations"
  | .breaks => "check_breaks"
  | .assignment => "check_assignment"
  | .routing => "check_routing"
  | .limits => "check_limits"

def runGroup (P : Problem) (S : Solution) : Group → List (Option Code)
  | .load => checkLoad P S
  | .relations => checkRelations P S
  | .breaks => checkBreaks P S
  | .assignment => checkAssignment P S
  | .routing => checkRouting P S
  | .limits => checkLimits P S

/-- errors of one group -/
def groupErrors (P : Problem) (S : Solution) (g : Group) : List Code := (runGroup P S g).filterMap id

/-- `CheckerContext::check`: all errors of all groups in chain order (the real code also removes duplicates;
the comparison is on sets). An index underflow in `get_intervals` aborts the whole check. -/
def check (P : Problem) (S : Solution) : List Code :=
  if S.tours.any (fun t => (intervals t.stops).isNone) then [.panic]
  else chain.flatMap (groupErrors P S)

/-- which groups reject -/
def rejecting (P : Problem) (S : Solution) : List Group := chain.filter (fun g => !(groupErrors P S g).isEmpty)

/-! # Independent specification: the rules the checker documents

Stated positionally / by counting over the (problem, solution) pair, not as the folds of the code.
`validSolution` is the conjunction; every conjunct is a `Bool` so that the driver can evaluate it on the
implementation's inputs. `supported` collects the input shapes on which the unchanged checker is known
to decide correctly (each excluded shape has a witness in `corpus/C12/deviations.jsonl`). -/

namespace Spec

/-- the shift a tour claims to run in (by `shiftIndex`, as the documentation defines a tour) -/
def shiftOf (P : Problem) (t : Tour) : Option Shift :=
  (findVehicle P t.vehicleId).bind (fun v => v.shifts[t.shiftIndex]?)

def tourKey (t : Tour) : String × Nat := (t.vehicleId, t.shiftIndex)

/-! ## vehicles -/

/-- every tour runs a vehicle of the fleet, no (vehicle, shift) pair twice -/
def vehiclesOk (P : Problem) (S : Solution) : Bool :=
  S.tours.all (fun t => (findVehicle P t.vehicleId).isSome) && !hasDup (S.tours.map tourKey)

/-! ## partition of the jobs -/

/-- all job activities of a tour with their position inside the tour -/
def tourJobActs (t : Tour) : List (Nat × Act) := (indexed 0 (tourActs t)).filter (fun p => isJobTy p.2.ty)

/-- number of activities of job `id` in tour `t` -/
def servedIn (t : Tour) (id : String) : Nat := countP (fun p => p.2.jobId == id) (tourJobActs t)

/-- number of activities of job `id` in the whole solution -/
def served (S : Solution) (id : String) : Nat := (S.tours.map (fun t => servedIn t id)).sum

/-- how often the unassigned list names `id` -/
def listed (S : Solution) (id : String) : Nat := countP (fun x => x == id) (unassignedIds S)

/-- pickups of a job come before its deliveries (positions inside the tour) -/
def pickupsFirst (t : Tour) (id : String) : Bool :=
  (tourJobActs t).all (fun p => (tourJobActs t).all (fun d =>
    !(p.2.jobId == id && d.2.jobId == id && p.2.ty == .pickup && d.2.ty == .delivery) || decide (p.1 ≤ d.1)))

/-- a job is either served completely by exactly one tour and not listed, or not served and listed once -/
def jobOk (S : Solution) (j : Job) : Bool :=
  (served S j.id == j.tasks.length && listed S j.id == 0
    && S.tours.all (fun t => servedIn t j.id == 0 || servedIn t j.id == j.tasks.length)
    && S.tours.all (fun t => pickupsFirst t j.id))
  || (served S j.id == 0 && listed S j.id == 1)

def partitionOk (P : Problem) (S : Solution) : Bool :=
  P.jobs.all (jobOk S)
  && S.tours.all (fun t => (tourJobActs t).all (fun p => (findJob P p.2.jobId).isSome))
  && (unassignedIds S).all (fun id => (findJob P id).isSome)

/-! ## groups -/

/-- all jobs of one group are served by one tour -/
def groupsOk (P : Problem) (S : Solution) : Bool :=
  S.tours.all (fun t1 => S.tours.all (fun t2 =>
    (t1.typeId == t2.typeId && t1.vehicleId == t2.vehicleId && t1.shiftIndex == t2.shiftIndex) ||
    (tourActs t1).all (fun a1 => (tourActs t2).all (fun a2 =>
      match findJob P a1.jobId, findJob P a2.jobId with
      | some j1, some j2 => (match j1.group, j2.group with | some g1, some g2 => g1 != g2 | _, _ => true)
      | _, _ => true))))

/-! ## loads -/

/-- the task an activity refers to. The rule is the checker's documented requirement: a job with a single task (or a
plain pickup-and-delivery pair) is addressed by the activity type, any other multi-task job by the place tag -/
def taskOf (P : Problem) (a : Act) : Option (Job × Task) :=
  match findJob P a.jobId with
  | some j => (match matchTask a j with | .ok tk => some (j, tk) | .error _ => none)
  | none => none

/-- per dimension: (static delivery, static pickup, dynamic change) of an activity; dynamic = the job has both
pickups and deliveries, so its goods travel inside the tour -/
def actDelta (P : Problem) (a : Act) (d : Nat) : Int × Int × Int :=
  match taskOf P a with
  | none => (0, 0, 0)
  | some (j, t) =>
    let x := t.demand.getD d 0
    match a.ty with
    | .delivery => if isDynamic j then (0, 0, -x) else (x, 0, 0)
    | .pickup => if isDynamic j then (0, 0, x) else (0, x, 0)
    | _ => (0, 0, 0)

/-- static deliveries / static pickups / dynamic change of a stop in dimension `d` -/
def stopD (P : Problem) (d : Nat) (s : Stop) : Int := sumInt (s.acts.map (fun a => (actDelta P a d).1))
def stopP (P : Problem) (d : Nat) (s : Stop) : Int := sumInt (s.acts.map (fun a => (actDelta P a d).2.1))
def stopY (P : Problem) (d : Nat) (s : Stop) : Int := sumInt (s.acts.map (fun a => (actDelta P a d).2.2))

/-- number of activities of a stop at which the collected pickups leave the vehicle (tour end, reload) -/
def unloads (s : Stop) : Int := ((countP (fun a => a.ty == .arrival || a.ty == .reload) s.acts : Nat) : Int)

def sumStops (f : Stop → Int) (l : List Stop) : Int := sumInt (l.map f)

/-- the load after the stop at position `m` of a reload interval `iv` in dimension `d`, `dynBefore` being what is on
board from before the interval (goods of pickup-and-delivery jobs):
deliveries still ahead in the interval (they were loaded at its start) + pickups collected in it so far + dynamic goods
on board − the collected pickups once per unloading activity passed after the interval's first stop -/
def expectedLoad (P : Problem) (dynBefore : Nat → Int) (iv : List Stop) (m d : Nat) : Int :=
  sumStops (stopD P d) (iv.drop (m + 1)) + sumStops (stopP P d) (iv.take (m + 1))
  + dynBefore d + sumStops (stopY P d) (iv.take (m + 1))
  - sumStops (stopP P d) iv * sumStops unloads ((iv.take (m + 1)).drop 1)

/-- what stays on board over the reload that ends the interval: the load at its last stop without its pickups -/
def carryAfter (P : Problem) (dynBefore : Nat → Int) (iv : List Stop) (d : Nat) : Int :=
  expectedLoad P dynBefore iv (iv.length - 1) d - sumStops (stopP P d) iv

/-- number of load dimensions in play: the longest demand of the problem, the capacity vector, at least one -/
def dims (P : Problem) (v : VType) : Nat :=
  max (maxNat (P.jobs.flatMap (fun j => j.tasks.map (fun tk => tk.demand.length)))) (max v.capacity.length 1)

def stopLoadOk (P : Problem) (cap : Load) (nd : Nat) (dynBefore : Nat → Int) (iv : List Stop) (m : Nat) (s : Stop) : Bool :=
  !s.load.isEmpty && decide (s.load.length ≤ nd) &&
  (List.range nd).all (fun d =>
    s.load.getD d 0 == expectedLoad P dynBefore iv m d && decide (s.load.getD d 0 ≤ cap.getD d 0))

def intervalLoadsOk (P : Problem) (cap : Load) (nd : Nat) (dynBefore : Nat → Int) (iv : List Stop) : Bool :=
  (List.range iv.length).all (fun m =>
    match iv[m]? with
    | none => true
    | some s => stopLoadOk P cap nd dynBefore iv m s)

/-- loads over the reload intervals of a tour -/
def intervalsLoadsOk (P : Problem) (cap : Load) (nd : Nat) : (Nat → Int) → List (List Stop) → Bool
  | _, [] => true
  | dynBefore, iv :: rest =>
    intervalLoadsOk P cap nd dynBefore iv && intervalsLoadsOk P cap nd (carryAfter P dynBefore iv) rest

/-- every job activity refers to a task, every reload/break activity to something the shift defines -/
def actsKnown (P : Problem) (t : Tour) : Bool :=
  (vehicleShift P t).toOption.isSome &&
  t.stops.all (fun s => s.acts.all (fun a =>
    match a.ty with
    | .departure | .arrival => true
    | .pickup | .delivery | .service => (taskOf P a).isSome
    | .brk | .reload => (activityType P t s a).toOption.isSome
    | _ => false))

/-- reported loads = goods on board, within capacity, at every stop of every tour that moves (two stops or more) -/
def loadsOk (P : Problem) (S : Solution) : Bool :=
  S.tours.all (fun t =>
    match findVehicle P t.vehicleId with
    | none => false
    | some v =>
      match intervals t.stops with
      | none => false
      | some ivs => (t.stops.length ≤ 1 || actsKnown P t) && intervalsLoadsOk P v.capacity (dims P v) (fun _ => 0) ivs)

/-! ## shared reload resources -/

/-- the reload place of the shift (by location and tag) a reload activity is served at -/
def reloadPlaceOf (P : Problem) (t : Tour) (s : Stop) (a : Act) : Option Place :=
  if a.ty == .reload then
    (shiftOf P t).bind (fun sh => sh.reloads.find? (fun r => r.loc == actLoc s a && r.tag == a.tag))
  else none

/-- the shared resource a reload interval draws on: the one of the reload that opens it (the first activity of its
first stop), if that reload place names one -/
def drawsOn (P : Problem) (t : Tour) (iv : List Stop) : Option String :=
  match iv with
  | [] => none
  | s0 :: _ =>
    match s0.acts.head? with
    | none => none
    | some a => (reloadPlaceOf P t s0 a).bind (fun r => r.resource)

/-- what tour `t` takes from resource `id` in dimension `d`: the static deliveries of every reload interval that draws on
it (they are loaded at the reload that opens the interval) -/
def tourDrawn (P : Problem) (t : Tour) (id : String) (d : Nat) : Int :=
  match intervals t.stops with
  | none => 0
  | some ivs => sumInt ((ivs.filter (fun iv => drawsOn P t iv == some id)).map (fun iv => sumStops (stopD P d) iv))

/-- what all tours together take from resource `id` in dimension `d` -/
def drawn (P : Problem) (S : Solution) (id : String) (d : Nat) : Int := sumInt (S.tours.map (fun t => tourDrawn P t id d))

/-- number of dimensions in play for a resource: the longest demand of the problem, its capacity vector, at least one -/
def rdims (P : Problem) (cap : Load) : Nat :=
  max (maxNat (P.jobs.flatMap (fun j => j.tasks.map (fun tk => tk.demand.length)))) (max cap.length 1)

/-- every resource drawn on is defined by the problem, and in EVERY dimension the tours together take at most the capacity
of each resource -/
def resourcesOk (P : Problem) (S : Solution) : Bool :=
  S.tours.all (fun t =>
    match intervals t.stops with
    | none => true
    | some ivs => ivs.all (fun iv =>
        match drawsOn P t iv with
        | none => true
        | some id => P.resources.any (fun r => r.1 == id)))
  && P.resources.all (fun r => (List.range (rdims P r.2)).all (fun d => decide (drawn P S r.1 d ≤ r.2.getD d 0)))

/-! ## routing and statistics -/

def legsOk (P : Problem) (v : VType) (skip : Bool) : List Stop → Bool
  | a :: b :: rest =>
    (match matrixData P v a.loc b.loc with
     | none => false
     | some (dist, dur) =>
       decide (absI (a.departure + dur - b.arrival) ≤ 1) &&
       (skip || decide (absI (a.distance + dist - b.distance) ≤ 1)))
    && legsOk P v skip (b :: rest)
  | _ => true

/-- arrival = previous departure + travel time, distance = previous distance + leg distance (±1), from the matrices;
tour statistic = last distance and time between first departure and last departure (±1) -/
def routingTourOk (P : Problem) (skip : Bool) (t : Tour) : Bool :=
  match findVehicle P t.vehicleId, firstStop t, lastStop t with
  | some v, some f, some l =>
    (P.profiles[v.profile]?).isSome &&
    (match f.acts.head? with | some a => a.ty == .departure | none => false) &&
    (skip || f.distance == 0) &&
    legsOk P v skip t.stops &&
    (skip || decide (absI (l.distance - t.stat.distance) ≤ 1)) &&
    decide (absI (l.departure - tourStart t - t.stat.duration) ≤ 1)
  | _, _, _ => false

def routingOk (P : Problem) (S : Solution) : Bool :=
  S.tours.all (routingTourOk P (skipDistance S)) &&
  sumInt (S.tours.map (fun t => t.stat.distance)) == S.stat.distance &&
  sumInt (S.tours.map (fun t => t.stat.duration)) == S.stat.duration

/-! ## limits -/

def isTerminalTy : ATy → Bool
  | .departure | .arrival => true
  | _ => false

/-- distance / duration / tour size limits of the vehicle type; the tour lies inside its shift -/
def limitsTourOk (P : Problem) (t : Tour) : Bool :=
  match findVehicle P t.vehicleId, shiftOf P t, firstStop t, lastStop t with
  | some v, some sh, some f, some l =>
    (match v.maxDistance with | some m => decide (t.stat.distance ≤ m) | none => true) &&
    (match v.maxDuration with | some m => decide (t.stat.duration ≤ m) | none => true) &&
    (match v.tourSize with | some m => decide (countP (fun a => !isTerminalTy a.ty) (tourActs t) ≤ m) | none => true) &&
    decide (sh.startEarliest ≤ f.departure) &&
    (match sh.end_ with | some e => decide (l.arrival ≤ e.latest) | none => true)
  | _, _, _, _ => false

def limitsOk (P : Problem) (S : Solution) : Bool := S.tours.all (limitsTourOk P)

/-! ## relations -/

def isPrefix : List String → List String → Bool
  | [], _ => true
  | _ :: _, [] => false
  | x :: xs, y :: ys => x == y && isPrefix xs ys

def isInfix (xs : List String) : List String → Bool
  | [] => xs.isEmpty
  | y :: ys => isPrefix xs (y :: ys) || isInfix xs ys

/-- the relation names known ids, each customer job once per task, and
any: no tour of ANOTHER vehicle serves a listed job; sequence: the listed ids occur in this order in the named tour;
strict: they occur there one directly after the other -/
def relationOk (P : Problem) (S : Solution) (r : Relation) : Bool :=
  r.jobs.all (fun id => (findJob P id).isSome || isReservedId id) &&
  r.jobs.all (fun id => isReservedId id || countP (fun x => x == id) r.jobs == jobTaskCount P id) &&
  (match r.kind with
   | .any =>
     S.tours.all (fun o => o.vehicleId == r.vehicleId ||
       (tourIds o).all (fun id => isReservedId id || !r.jobs.contains id))
   | .sequence =>
     (match findTour S r.vehicleId (r.shiftIndex.getD 0) with
      | none => false
      | some t => isSubseq r.jobs (tourIds t))
   | .strict =>
     (match findTour S r.vehicleId (r.shiftIndex.getD 0) with
      | none => false
      | some t => isInfix r.jobs (tourIds t)))

def relationsOk (P : Problem) (S : Solution) : Bool := P.relations.all (relationOk P S)

/-! ## breaks -/

/-- a break is due when its policy does not allow to skip it (as documented) -/
def breakDue (t : Tour) (b : Break) : Bool :=
  let w := breakWindow t b
  match b.policy with
  | some .arrivalBeforeEnd => decide (tourArrival t > w.2)
  | _ => meets w (tourDeparture t, tourArrival t)

/-- every break activity lies in the window of a break of the shift at one of its places; every break that is due is
served or reported as a violation, and not more breaks than the shift defines -/
def breaksTourOk (P : Problem) (S : Solution) (t : Tour) : Bool :=
  match shiftOf P t with
  | none => false
  | some sh =>
    t.stops.all (fun s => s.acts.all (fun a => a.ty != .brk ||
      sh.breaks.any (fun b => meets (breakWindow t b) (actTime s a) &&
        b.places.any (fun p => match p.loc with | some l => actLoc s a == l | none => actLoc s a == s.loc)))) &&
    (let total := countP (fun a => a.ty == .brk) (tourActs t)
                    + countP (fun v => v.1 == t.vehicleId && v.2 == t.shiftIndex) S.violations
     decide (countP (breakDue t) sh.breaks ≤ total) && decide (total ≤ sh.breaks.length))

def breaksOk (P : Problem) (S : Solution) : Bool := S.tours.all (breaksTourOk P S)

/-! ## activities match the places they claim -/

def extraOf (s : Stop) (a : Act) (dur : Int) : Int := extraTime s a dur

/-- service: starts at max(arrival, window start), lasts the place's duration (plus a break taken inside) -/
def serviceOk (s : Stop) (a : Act) (twStart dur : Int) : Bool :=
  let tm := actTime s a
  tm.2 == max tm.1 twStart + dur + extraOf s a dur

def actMatches (P : Problem) (t : Tour) (s : Stop) (a : Act) : Bool :=
  let tm := actTime s a
  match a.ty with
  | .departure | .arrival => true
  | .pickup | .delivery | .replacement | .service =>
    (match findJob P a.jobId, kindOfTy a.ty with
     | some j, some k =>
       (tasksOf j k).any (fun tk => tk.places.any (fun p =>
         p.loc == actLoc s a && p.tag == a.tag && p.tws.any (fun w => w.meets tm && serviceOk s a w.s p.dur)))
     | _, _ => false)
  | .reload =>
    (match shiftOf P t with
     | none => false
     | some sh => sh.reloads.any (fun r => r.loc == actLoc s a && r.tag == a.tag &&
         r.tws.any (fun w => w.meets tm && serviceOk s a w.s r.dur)))
  | .brk =>
    (match shiftOf P t with
     | none => false
     | some sh => sh.breaks.any (fun b => meets (breakWindow t b) tm && b.places.any (fun p =>
         (match p.loc with | some l => l == actLoc s a | none => true) && p.tag == a.tag &&
         (if b.offset then decide (tm.1 + p.dur ≤ tm.2) else serviceOk s a b.t0 p.dur))))
  | _ => false

def matchOk (P : Problem) (S : Solution) : Bool :=
  S.tours.all (fun t => t.stops.all (fun s => s.acts.all (fun a => actMatches P t s a)))

/-! ## the conjunction -/

def parts (P : Problem) (S : Solution) : List (String × Bool) :=
  [("vehicles", vehiclesOk P S), ("partition", partitionOk P S), ("groups", groupsOk P S), ("loads", loadsOk P S),
   ("routing", routingOk P S), ("limits", limitsOk P S), ("relations", relationsOk P S), ("breaks", breaksOk P S),
   ("match", matchOk P S), ("resources", resourcesOk P S)]

def validSolution (P : Problem) (S : Solution) : Bool := (parts P S).all (fun p => p.2)

/-! ## supported input shapes (where the unchanged checker decides correctly) -/

/-- tour shape: the first activity of the first stop is the only `departure`, `arrival` only as the very last
activity of a closed shift's tour, a `reload` only as the first activity of a stop that is not the first stop
(D9: only the first activity makes a stop a reload stop) -/
def tourShapeOk (P : Problem) (t : Tour) : Bool :=
  match t.stops with
  | [] => false
  | s0 :: rest =>
    (match s0.acts.head? with | some a => a.ty == .departure | none => false) &&
    rest.all (fun s => !s.acts.isEmpty) &&
    s0.acts.all (fun a => a.ty != .reload) &&
    rest.all (fun s => (s.acts.drop 1).all (fun a => a.ty != .reload)) &&
    countP (fun a => a.ty == .departure) (tourActs t) == 1 &&
    -- D11: a reload stop that is the last stop does not start a load interval of its own
    (match rest.getLast? with | some s => !(isReloadStop s && s.acts.any (fun a => isJobTy a.ty)) | none => true) &&
    (match shiftOf P t with
     | none => false
     | some sh =>
       (match sh.end_ with
        | some _ => countP (fun a => a.ty == .arrival) (tourActs t) == 1 &&
                    (match (tourActs t).getLast? with | some a => a.ty == .arrival | none => false)
        | none => countP (fun a => a.ty == .arrival) (tourActs t) == 0))

/-- the shift the checker resolves is the shift named by index -/
def shiftAgrees (P : Problem) (t : Tour) : Bool :=
  match shiftOf P t, vehicleShift P t with
  | some a, .ok b => a == b
  | _, _ => false

def problemShapeOk (P : Problem) : Bool :=
  !hasDup (P.jobs.map (fun j => j.id)) &&
  P.jobs.all (fun j => !j.tasks.isEmpty && j.tasks.all (fun tk => tk.kind != .replacement && !tk.places.isEmpty)) &&
  -- places of one job are told apart by location or tag
  P.jobs.all (fun j => !hasDup ((j.tasks.flatMap (fun tk => tk.places)).map (fun p => (p.loc, p.tag)))) &&
  -- multi-task jobs carry a tag on every place (the checker refuses them otherwise)
  P.jobs.all (fun j => j.tasks.length ≤ 1 || j.tasks.all (fun tk => tk.places.all (fun p => p.tag.isSome)))

def supported (P : Problem) (S : Solution) : Bool :=
  problemShapeOk P && S.tours.all (fun t => tourShapeOk P t && shiftAgrees P t)

/-! ### the open deviations D9 / D11 as shapes of their own

`tourShapeOk` excludes two shapes on which the unchanged checker is known to reject valid solver output. They are kept
visible: `tourShapeCore` is `tourShapeOk` without those two clauses, `d9Shape` / `d11Shape` name them. The driver
reports a spec-valid, core-supported solution that the real checker rejects as a failure of `accepts_valid` tagged
with the deviation, so that it is listed as a known finding instead of being silently skipped. -/

/-- D9: a reload that is not the first activity of its stop, or that is served at the first stop -/
def d9Shape (t : Tour) : Bool :=
  match t.stops with
  | [] => false
  | s0 :: rest => s0.acts.any (fun a => a.ty == .reload) || rest.any (fun s => (s.acts.drop 1).any (fun a => a.ty == .reload))

/-- D11: the last stop is a reload stop that also serves jobs -/
def d11Shape (t : Tour) : Bool :=
  match t.stops with
  | [] => false
  | _ :: rest => (match rest.getLast? with | some s => isReloadStop s && s.acts.any (fun a => isJobTy a.ty) | none => false)

def tourShapeCore (P : Problem) (t : Tour) : Bool :=
  match t.stops with
  | [] => false
  | s0 :: rest =>
    (match s0.acts.head? with | some a => a.ty == .departure | none => false) &&
    rest.all (fun s => !s.acts.isEmpty) &&
    countP (fun a => a.ty == .departure) (tourActs t) == 1 &&
    (match shiftOf P t with
     | none => false
     | some sh =>
       (match sh.end_ with
        | some _ => countP (fun a => a.ty == .arrival) (tourActs t) == 1 &&
                    (match (tourActs t).getLast? with | some a => a.ty == .arrival | none => false)
        | none => countP (fun a => a.ty == .arrival) (tourActs t) == 0))

def supportedCore (P : Problem) (S : Solution) : Bool :=
  problemShapeOk P && S.tours.all (fun t => tourShapeCore P t && shiftAgrees P t)

/-- which open deviation (if any) keeps a core-supported solution out of `supported` -/
def deviationOf (P : Problem) (S : Solution) : Option String :=
  if supported P S || !supportedCore P S then none
  else if S.tours.any d9Shape then some "D9"
  else if S.tours.any d11Shape then some "D11"
  else none

end Spec

end C12
