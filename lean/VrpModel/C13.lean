/-!
# C13 — model of the scientific instance readers (Solomon, Li&Lim, TSPLIB CVRP/EUC_2D),
the rounded Euclidean routing matrix, the text solution writer and the initial-solution reader

Mirrors (token level; character-level tokenisation — `split_whitespace`, `parse::<i32>`, `parse::<f64>().round()`,
`split(':')`, `trim` — is outside the model and covered by the correspondence run only)
* `vrp-scientific/src/solomon/reader.rs`   `read_fleet`, `read_vehicle`, `read_customer`, `read_jobs`
* `vrp-scientific/src/lilim/reader.rs`     `read_fleet`, `read_vehicle`, `read_customer`, `read_jobs`, `create_single_job`
* `vrp-scientific/src/tsplib/reader.rs`    `read_meta`, `read_customer_data`, `read_depot_data`, `read_definitions`, `create_job`
* `vrp-scientific/src/common/text_reader.rs`  `create_fleet_with_distance_costs`, `skip_lines`, `read_line`
* `vrp-scientific/src/common/routing.rs`   `CoordIndex::collect`, `CoordIndex::create_transport`
* `vrp-scientific/src/common/text_writer.rs`  `write_text_solution`
* `vrp-scientific/src/common/initial_reader.rs`  `read_init_solution`

The second half of the file is the **specification side**: the abstract content of a file in each grammar
(`SolomonFile`, `LilimFile`, `TsplibFile`), how it is printed (`print*`), what it means (`meaning*`, written
from the format descriptions, not from the readers), how an instance is read back from the *observable* part of a
core problem (`decode*`), and the capacity / distance specifications. All of it is executable so that the
driver can evaluate it on the implementation's own output.
-/
namespace C13

/-! ## token-level lines -/

/-- value of a TSPLIB `KEY : VALUE` line: a word or a number -/
inductive Val where
  | w (s : String)
  | n (i : Int)
deriving DecidableEq, Repr

/-- one line of a file after tokenisation -/
inductive Line where
  /-- whitespace separated integer tokens (a blank line is `nums []`) -/
  | nums (xs : List Int)
  /-- a single non-numeric token (TSPLIB section keyword) -/
  | word (w : String)
  /-- TSPLIB `KEY : VALUE` -/
  | kv (k : String) (v : Val)
  /-- free text that the reader skips without looking at it (titles, column headers, comments) -/
  | text
deriving DecidableEq, Repr

/-! ## the part of the core `Problem` the readers fill in -/

/-- end of a time window / shift: a number or `f64::MAX` (`TimeWindow::max()`) -/
inductive Bound where
  | fin (i : Int)
  | max
deriving DecidableEq, Repr

structure TW where
  lo : Int
  hi : Bound
deriving DecidableEq, Repr

/-- `Demand<SingleDimLoad>`: pickup (static, dynamic), delivery (static, dynamic) -/
structure Demand4 where
  ps : Int
  pd : Int
  ds : Int
  dd : Int
deriving DecidableEq, Repr

/-- `Single` with one `Place`; `id` is the number in the job id string, `loc` the interned location index -/
structure Single' where
  id : Int
  loc : Nat
  dur : Int
  tws : List TW
  dem : Demand4
deriving DecidableEq, Repr

inductive Job' where
  | single (s : Single')
  /-- `Multi` with job id `id` (Li&Lim: the index of the relation) -/
  | multi (id : Int) (subs : List Single')
deriving DecidableEq, Repr

/-- vehicle `v{idx}` with one detail: start place / end place and the four optional time bounds
    (start.earliest, start.latest, end.earliest, end.latest) -/
structure Vehicle' where
  idx : Nat
  cap : Int
  startLoc : Nat
  endLoc : Nat
  sE : Option Bound
  sL : Option Bound
  eE : Option Bound
  eL : Option Bound
deriving DecidableEq, Repr

structure Problem' where
  vehicles : List Vehicle'
  jobs : List Job'
  /-- `CoordIndex::locations` -/
  coords : List (Int × Int)
  rounded : Bool
deriving Repr

inductive Err where
  /-- "cannot parse vehicle number or/and capacity" -/
  | vehicleLine
  /-- "cannot read customer line" -/
  | customerLine
  /-- "expected colon separated string" -/
  | colon
  /-- "unexpected key" -/
  | key
  /-- "expecting 'CVRP' as TYPE" -/
  | badType
  /-- "expecting 'EUC_2D' as EDGE_WEIGHT_TYPE" -/
  | badEdge
  /-- "cannot parse …" -/
  | parse
  /-- "expecting X, got …" (section keywords, `-1`, `EOF`) -/
  | expecting
  /-- "unexpected coord data" -/
  | coordData
  /-- "unexpected demand data" -/
  | demandData
  /-- "cannot find demand for id" -/
  | noDemand
  /-- "cannot find coordinate for depot id" -/
  | noDepot
  /-- the real reader panics here (`unwrap` on a non-numeric token, empty fleet, missing sibling, …) or the
      line cannot be expressed at token level: not modelled, never generated -/
  | unmodelled
deriving DecidableEq, Repr

/-! ## `CoordIndex::collect` and the routing matrix -/

/-- `locations.iter().position(|l| l == p)` -/
def pos (p : Int × Int) : List (Int × Int) → Option Nat
  | [] => none
  | q :: qs => if q = p then some 0 else (pos p qs).map (· + 1)

/-- `CoordIndex::collect`: index of the first equal coordinate, otherwise push -/
def collect (ci : List (Int × Int)) (p : Int × Int) : Nat × List (Int × Int) :=
  match pos p ci with
  | some i => (i, ci)
  | none => (ci.length, ci ++ [p])

/-- nearest integer to `√n` in integer arithmetic (what `(n as f64).sqrt().round()` computes) -/
def roundSqrt (n : Nat) : Nat :=
  let s := Nat.sqrt n
  if n - s * s ≤ s then s else s + 1

/-- squared Euclidean distance -/
def sqDist (p q : Int × Int) : Nat := ((p.1 - q.1) * (p.1 - q.1) + (p.2 - q.2) * (p.2 - q.2)).toNat

/-- observable form of one matrix entry `v`: `(⌊v⌋, v is integral)`.
    rounded mode: `(roundSqrt n, true)`; unrounded: `(⌊√n⌋, n is a perfect square)` -/
def distObs (rounded : Bool) (p q : Int × Int) : Nat × Bool :=
  let n := sqDist p q
  if rounded then (roundSqrt n, true) else (Nat.sqrt n, Nat.sqrt n * Nat.sqrt n == n)

/-! ### bit-exact view of the matrix (executed by the correspondence only, not reasoned about):
the IEEE-754 double nearest to `√n` — what a correctly rounded `f64::sqrt` returns for an exactly representable `n` -/

/-- smallest `e` with `⌊√(n·4^e)⌋ ≥ 2^52` (53 significant bits) -/
def sqrtScale (n : Nat) : Nat → Nat → Nat
  | 0, e => e
  | fuel + 1, e => if Nat.sqrt (n * 4 ^ e) ≥ 2 ^ 52 then e else sqrtScale n fuel (e + 1)

/-- bit pattern of the double nearest to `√n` (for `1 ≤ n < 2^104`; `0 ↦ +0.0`); never a tie: `√n` is an integer or irrational -/
def sqrtBits (n : Nat) : Nat :=
  if n = 0 then 0 else
  let e := sqrtScale n 64 0
  let m := Nat.sqrt (n * 4 ^ e)
  let mant := if (2 * m + 1) ^ 2 < 4 * (n * 4 ^ e) then m + 1 else m
  (52 + 1023 - e) * 2 ^ 52 + (mant - 2 ^ 52)

/-- bit pattern of the matrix entry: rounded mode stores the integer `roundSqrt n` (as a double: `√(r²)`) -/
def distBits (rounded : Bool) (p q : Int × Int) : Nat :=
  let n := sqDist p q
  if rounded then sqrtBits (roundSqrt n * roundSqrt n) else sqrtBits n

def bitsMatrix (rounded : Bool) (pts : List (Option (Int × Int))) : List (List Nat) :=
  pts.map (fun p => pts.map (fun q => match p, q with | some a, some b => distBits rounded a b | _, _ => 0))

/-! ## `create_fleet_with_distance_costs` -/

def mkVehicle (cap : Int) (loc : Nat) (lo : Int) (hi : Bound) (i : Nat) : Vehicle' :=
  { idx := i, cap := cap, startLoc := loc, endLoc := loc,
    sE := some (.fin lo), sL := none, eE := none, eL := some hi }

def mkFleet (n : Nat) (cap : Int) (loc : Nat) (lo : Int) (hi : Bound) : List Vehicle' :=
  (List.range n).map (mkVehicle cap loc lo hi)

/-! ## Solomon -/

/-- the 7 columns of a Solomon customer line -/
structure CustLine where
  id : Int
  x : Int
  y : Int
  demand : Int
  start : Int
  stop : Int
  service : Int
deriving DecidableEq, Repr

/-- run a line reader over all lines, first error wins (the readers stop at the first bad line) -/
def mapE (f : α → Except Err β) : List α → Except Err (List β)
  | [] => .ok []
  | a :: as =>
    match f a with
    | .error e => .error e
    | .ok b =>
      match mapE f as with
      | .error e => .error e
      | .ok bs => .ok (b :: bs)

/-- `read_customer`: the first seven tokens (`try_collect_tuple` ignores the rest) -/
def readCustomer7 : Line → Except Err CustLine
  | .nums (a :: b :: c :: d :: e :: f :: g :: _) => .ok ⟨a, b, c, d, e, f, g⟩
  | .nums _ => .error .customerLine
  | _ => .error .unmodelled

/-- body of the loop in `read_jobs`: one `Single` per customer, locations interned in file order -/
def solomonJobs (ci : List (Int × Int)) : List CustLine → List Job' × List (Int × Int)
  | [] => ([], ci)
  | c :: cs =>
    let r := collect ci (c.x, c.y)
    let rest := solomonJobs r.2 cs
    (Job'.single { id := c.id, loc := r.1, dur := c.service, tws := [⟨c.start, .fin c.stop⟩],
                   dem := ⟨0, 0, c.demand, 0⟩ } :: rest.1, rest.2)

/-- `read_solomon_format`: skip 4 lines, vehicle line, skip 4 lines, depot line, customers until EOF.
    A customer line with fewer than 7 tokens (a blank line included) is an error, as in the code
    (`buffer` is not empty there). -/
def parseSolomon (rounded : Bool) (ls : List Line) : Except Err Problem' :=
  match ls.drop 4 with
  | [] => .error .vehicleLine
  | .nums (n :: cap :: _) :: rest =>
    if n < 1 ∨ cap < 0 then .error .unmodelled else
    match rest.drop 4 with
    | [] => .error .customerLine
    | d :: custs =>
      match readCustomer7 d with
      | .error e => .error e
      | .ok dep =>
        match mapE readCustomer7 custs with
        | .error e => .error e
        | .ok cs =>
          let r := collect [] (dep.x, dep.y)
          let js := solomonJobs r.2 cs
          .ok { vehicles := mkFleet n.toNat cap r.1 dep.start (.fin dep.stop), jobs := js.1,
                coords := js.2, rounded := rounded }
  | .nums _ :: _ => .error .vehicleLine
  | _ :: _ => .error .unmodelled

/-! ## Li&Lim -/

/-- the 9 columns of a Li&Lim task line -/
structure Row where
  id : Int
  x : Int
  y : Int
  demand : Int
  start : Int
  stop : Int
  service : Int
  pIdx : Int
  dIdx : Int
deriving DecidableEq, Repr

def readCustomer9 : Line → Except Err Row
  | .nums (a :: b :: c :: d :: e :: f :: g :: h :: i :: _) => .ok ⟨a, b, c, d, e, f, g, h, i⟩
  | .nums _ => .error .customerLine
  | _ => .error .unmodelled

/-- `HashMap::insert` per row then `get(id)`: the LAST row with that id -/
def lookupLast (id : Int) : List Row → Option Row
  | [] => none
  | r :: rs =>
    match lookupLast id rs with
    | some x => some x
    | none => if r.id = id then some r else none

/-- `create_single_job`: positive demand = dynamic pickup, otherwise dynamic delivery of `-demand` -/
def lilimSingle (ci : List (Int × Int)) (r : Row) : Single' × List (Int × Int) :=
  let c := collect ci (r.x, r.y)
  ({ id := r.id, loc := c.1, dur := r.service, tws := [⟨r.start, .fin r.stop⟩],
     dem := if r.demand > 0 then ⟨0, r.demand, 0, 0⟩ else ⟨0, 0, 0, -r.demand⟩ }, c.2)

/-- second loop of `read_jobs`: relation `k` becomes multi job `k` = [pickup, delivery] -/
def lilimJobs (rows : List Row) (ci : List (Int × Int)) (k : Nat) :
    List (Int × Int) → Except Err (List Job' × List (Int × Int))
  | [] => .ok ([], ci)
  | (p, d) :: rels =>
    match lookupLast p rows, lookupLast d rows with
    | some pr, some dr =>
      let sp := lilimSingle ci pr
      let sd := lilimSingle sp.2 dr
      match lilimJobs rows sd.2 (k + 1) rels with
      | .error e => .error e
      | .ok rest => .ok (Job'.multi k [sp.1, sd.1] :: rest.1, rest.2)
    | _, _ => .error .unmodelled

/-- `relations`: one per row with positive demand, in file order: (own id, 9th column) -/
def relationsOf (rows : List Row) : List (Int × Int) :=
  (rows.filter (fun r => r.demand > 0)).map (fun r => (r.id, r.dIdx))

def parseLilim (rounded : Bool) (ls : List Line) : Except Err Problem' :=
  match ls with
  | [] => .error .vehicleLine
  | .nums (n :: cap :: _ :: _) :: rest =>
    if n < 1 ∨ cap < 0 then .error .unmodelled else
    match rest with
    | [] => .error .customerLine
    | d :: custs =>
      match readCustomer9 d with
      | .error e => .error e
      | .ok dep =>
        match mapE readCustomer9 custs with
        | .error e => .error e
        | .ok rows =>
          let r := collect [] (dep.x, dep.y)
          match lilimJobs rows r.2 0 (relationsOf rows) with
          | .error e => .error e
          | .ok js =>
            .ok { vehicles := mkFleet n.toNat cap r.1 dep.start (.fin dep.stop), jobs := js.1,
                  coords := js.2, rounded := rounded }
  | .nums _ :: _ => .error .vehicleLine
  | _ :: _ => .error .unmodelled

/-! ## TSPLIB (CVRP, EUC_2D) -/

/-- `HashMap::insert`: replace the value of an existing key, otherwise add (the iteration order of the real
    map is arbitrary; the model keeps first-insertion order and the correspondence compares sorted by id) -/
def amInsert (k : Int) (v : α) : List (Int × α) → List (Int × α)
  | [] => [(k, v)]
  | (k', v') :: m => if k' = k then (k, v) :: m else (k', v') :: amInsert k v m

def amGet (k : Int) : List (Int × α) → Option α
  | [] => none
  | (k', v) :: m => if k' = k then some v else amGet k m

/-- `read_key_value(expected)` -/
def readKV (expected : String) : Option Line → Except Err Val
  | some (.kv k v) => if k = expected then .ok v else .error .key
  | some .text => .error .unmodelled
  | _ => .error .colon

/-- `read_expected_line(expected)` -/
def expectLine (expected : Line) : Option Line → Except Err Unit
  | some .text => .error .unmodelled
  | some (.kv _ _) => .error .unmodelled
  | some l => if l = expected then .ok () else .error .expecting
  | none => .error .expecting

/-- `parse_int` on a key-value value -/
def valInt : Val → Except Err Int
  | .n i => .ok i
  | .w _ => .error .parse

/-- the `dimension` coordinate lines -/
def readCoords : Nat → List Line → List (Int × (Int × Int)) → Except Err (List (Int × (Int × Int)) × List Line)
  | 0, ls, m => .ok (m, ls)
  | _ + 1, [], _ => .error .coordData
  | k + 1, .nums [a, b, c] :: rest, m => readCoords k rest (amInsert a (b, c) m)
  | _ + 1, .nums _ :: _, _ => .error .coordData
  | _ + 1, .word _ :: _, _ => .error .coordData
  | _ + 1, _ :: _, _ => .error .unmodelled

/-- the `dimension` demand lines -/
def readDemands : Nat → List Line → List (Int × Int) → Except Err (List (Int × Int) × List Line)
  | 0, ls, m => .ok (m, ls)
  | _ + 1, [], _ => .error .demandData
  | k + 1, .nums [a, b] :: rest, m => readDemands k rest (amInsert a b m)
  | _ + 1, .nums _ :: _, _ => .error .demandData
  | _ + 1, .word _ :: _, _ => .error .demandData
  | _ + 1, _ :: _, _ => .error .unmodelled

/-- `coordinates.iter().filter(id != depot).try_fold(…)`: job `id-1` with static delivery `demands[id]` -/
def tsplibJobs (depot : Int) (demands : List (Int × Int)) (ci : List (Int × Int)) :
    List (Int × (Int × Int)) → Except Err (List Job' × List (Int × Int))
  | [] => .ok ([], ci)
  | (id, xy) :: rest =>
    if id = depot then tsplibJobs depot demands ci rest else
    match amGet id demands with
    | none => .error .noDemand
    | some d =>
      let c := collect ci xy
      match tsplibJobs depot demands c.2 rest with
      | .error e => .error e
      | .ok js =>
        .ok (Job'.single { id := id - 1, loc := c.1, dur := 0, tws := [⟨0, .max⟩], dem := ⟨0, 0, d, 0⟩ } :: js.1,
             js.2)

def parseTsplib (rounded : Bool) (ls : List Line) : Except Err Problem' := do
  let ls := ls.drop 2
  let ty ← readKV "TYPE" ls.head?
  if ty ≠ .w "CVRP" then throw .badType
  let ls := ls.tail
  let dim ← (readKV "DIMENSION" ls.head?) >>= valInt
  let ls := ls.tail
  let et ← readKV "EDGE_WEIGHT_TYPE" ls.head?
  if et ≠ .w "EUC_2D" then throw .badEdge
  let ls := ls.tail
  let cap ← (readKV "CAPACITY" ls.head?) >>= valInt
  let ls := ls.tail
  if dim < 0 then throw .unmodelled
  expectLine (.word "NODE_COORD_SECTION") ls.head?
  let (coords, ls) ← readCoords dim.toNat ls.tail []
  expectLine (.word "DEMAND_SECTION") ls.head?
  let (demands, ls) ← readDemands dim.toNat ls.tail []
  expectLine (.word "DEPOT_SECTION") ls.head?
  let ls := ls.tail
  let depot ← match ls.head? with
    | some (.nums [d]) => pure d
    | some .text => throw .unmodelled
    | some (.kv _ _) => throw .unmodelled
    | _ => throw .parse
  let ls := ls.tail
  expectLine (.nums [-1]) ls.head?
  let ls := ls.tail
  expectLine (.word "EOF") ls.head?
  let js ← tsplibJobs depot demands [] coords
  match amGet depot coords with
  | none => throw .noDepot
  | some dxy =>
    let r := collect js.2 dxy
    pure { vehicles := mkFleet dim.toNat cap r.1 0 .max, jobs := js.1, coords := r.2, rounded := rounded }

/-! ## what is observed of a problem (index-free: coordinates are looked up through the coord index,
distances are listed between the depot and every single job in order) -/

structure DSingle where
  id : Int
  xy : Option (Int × Int)
  dur : Int
  tws : List TW
  dem : Demand4
deriving DecidableEq, Repr

structure DJob where
  id : Int
  multi : Bool
  subs : List DSingle
deriving DecidableEq, Repr

structure DVehicle where
  idx : Nat
  cap : Int
  s : Option (Int × Int)
  e : Option (Int × Int)
  sE : Option Bound
  sL : Option Bound
  eE : Option Bound
  eL : Option Bound
deriving DecidableEq, Repr

structure Dump where
  vehicles : List DVehicle
  jobs : List DJob
  /-- matrix over the points `[start of vehicle 0] ++ every single in order` -/
  dist : List (List (Nat × Bool))
deriving DecidableEq, Repr

def obsSingle (cs : List (Int × Int)) (s : Single') : DSingle :=
  { id := s.id, xy := cs[s.loc]?, dur := s.dur, tws := s.tws, dem := s.dem }

def obsJob (cs : List (Int × Int)) : Job' → DJob
  | .single s => { id := s.id, multi := false, subs := [obsSingle cs s] }
  | .multi id subs => { id := id, multi := true, subs := subs.map (obsSingle cs) }

def obsVehicle (cs : List (Int × Int)) (v : Vehicle') : DVehicle :=
  { idx := v.idx, cap := v.cap, s := cs[v.startLoc]?, e := cs[v.endLoc]?,
    sE := v.sE, sL := v.sL, eE := v.eE, eL := v.eL }

/-- the points of a dump: depot (start of the first vehicle), then every single in order -/
def pointsOf (vs : List DVehicle) (js : List DJob) : List (Option (Int × Int)) :=
  (match vs with | [] => [] | v :: _ => [v.s]) ++ (js.flatMap (·.subs)).map (·.xy)

def distEntry (rounded : Bool) : Option (Int × Int) → Option (Int × Int) → Nat × Bool
  | some p, some q => distObs rounded p q
  | _, _ => (0, false)

def distMatrix (rounded : Bool) (pts : List (Option (Int × Int))) : List (List (Nat × Bool)) :=
  pts.map (fun p => pts.map (fun q => distEntry rounded p q))

/-- `SingleDataTransportCost` holds `values[from * size + to]` = the Euclidean distance between the coordinates
    interned at `from` and `to`; observed between the points of the dump -/
def observe (P : Problem') : Dump :=
  let vs := P.vehicles.map (obsVehicle P.coords)
  let js := P.jobs.map (obsJob P.coords)
  { vehicles := vs, jobs := js, dist := distMatrix P.rounded (pointsOf vs js) }

/-- location indices in interning order (deterministic for Solomon and Li&Lim only) -/
def locsOf (P : Problem') : List Nat :=
  (match P.vehicles with | [] => [] | v :: _ => [v.startLoc, v.endLoc]) ++
  (P.jobs.flatMap (fun j => match j with | .single s => [s.loc] | .multi _ subs => subs.map (·.loc)))

/-! ## text solution writer / initial solution reader -/

/-- a line of a solution text: `label: ids…` (exactly one colon) or anything else (skipped by the reader) -/
inductive SolLine where
  | route (label : Nat) (ids : List Int)
  | skip
deriving DecidableEq, Repr

/-- `write_text_solution`: `Route {i}: ids` per route (i from 1) then the `Cost` line (no colon) -/
def writeRoutes : Nat → List (List Int) → List SolLine
  | _, [] => []
  | i, r :: rs => .route i r :: writeRoutes (i + 1) rs

def writeSol (routes : List (List Int)) : List SolLine := writeRoutes 1 routes ++ [.skip]

/-- all single job ids of a problem (`to_single()` of the reader panics on a multi job: not modelled) -/
def singleIds : List Job' → Option (List Int)
  | [] => some []
  | .single s :: js => (singleIds js).map (s.id :: ·)
  | .multi _ _ :: _ => none

structure InitSol where
  routes : List (List Int)
  unassigned : List Int
deriving DecidableEq, Repr

/-- loop of `read_init_solution`: every line with exactly one colon opens a new route on the next free actor
    (`none` when the fleet is exhausted or an id is unknown: `unwrap` panics there) -/
def readRoutes (ids : List Int) : Nat → List SolLine → Option (List (List Int))
  | _, [] => some []
  | free, .skip :: ls => readRoutes ids free ls
  | 0, .route _ _ :: _ => none
  | free + 1, .route _ r :: ls =>
    if r.all (fun id => ids.contains id) then (readRoutes ids free ls).map (r :: ·) else none

def readInit (P : Problem') (ls : List SolLine) : Option InitSol :=
  match singleIds P.jobs with
  | none => none
  | some ids =>
    match readRoutes ids P.vehicles.length ls with
    | none => none
    | some routes =>
      some { routes := routes, unassigned := ids.filter (fun id => !(routes.any (fun r => r.contains id))) }

/-! # Specification side -/

/-! ## abstract content of the files -/

structure Depot where
  x : Int
  y : Int
  ready : Int
  due : Int
deriving DecidableEq, Repr

/-- a Solomon file: fleet size, capacity, depot row (its id/demand/service are 0), customer rows -/
structure SolomonFile where
  vehicles : Nat
  capacity : Int
  depot : Depot
  customers : List CustLine
deriving DecidableEq, Repr

def custLine (c : CustLine) : Line := .nums [c.id, c.x, c.y, c.demand, c.start, c.stop, c.service]

/-- title, blank, VEHICLE, NUMBER CAPACITY, `n cap`, blank, CUSTOMER, column header, blank, depot, customers -/
def printSolomon (F : SolomonFile) : List Line :=
  [.text, .text, .text, .text, .nums [F.vehicles, F.capacity], .text, .text, .text, .text,
   .nums [0, F.depot.x, F.depot.y, 0, F.depot.ready, F.depot.due, 0]] ++ F.customers.map custLine

def i32 (v : Int) : Bool := decide (-2147483648 ≤ v ∧ v ≤ 2147483647)

def CustLine.inRange (c : CustLine) : Bool :=
  decide (0 ≤ c.id) && i32 c.id && i32 c.x && i32 c.y && i32 c.demand && i32 c.start && i32 c.stop &&
  decide (0 ≤ c.service) && i32 c.service

/-- well-formed Solomon file: at least one vehicle, capacity a non-negative i32, every number an i32,
    ids and service times non-negative (the ranges in which the token-level model is the code) -/
def wfSolomon (F : SolomonFile) : Bool :=
  decide (1 ≤ F.vehicles) && decide (0 ≤ F.capacity) && i32 F.capacity &&
  i32 F.depot.x && i32 F.depot.y && i32 F.depot.ready && i32 F.depot.due &&
  F.customers.all CustLine.inRange

/-- a Li&Lim file: fleet size, capacity (third number of the first line is the speed, printed as 1), depot row, task rows -/
structure LilimFile where
  vehicles : Nat
  capacity : Int
  depot : Depot
  rows : List Row
deriving DecidableEq, Repr

def rowLine (r : Row) : Line := .nums [r.id, r.x, r.y, r.demand, r.start, r.stop, r.service, r.pIdx, r.dIdx]

def printLilim (F : LilimFile) : List Line :=
  [.nums [F.vehicles, F.capacity, 1], .nums [0, F.depot.x, F.depot.y, 0, F.depot.ready, F.depot.due, 0, 0, 0]] ++
  F.rows.map rowLine

def Row.inRange (r : Row) : Bool :=
  decide (0 ≤ r.id) && i32 r.id && i32 r.x && i32 r.y && i32 r.demand && i32 r.start && i32 r.stop &&
  decide (0 ≤ r.service) && i32 r.service && decide (0 ≤ r.pIdx) && i32 r.pIdx && decide (0 ≤ r.dIdx) && i32 r.dIdx

/-- the row with a given id (FIRST match: the specification's own lookup) -/
def findRow (id : Int) (rows : List Row) : Option Row := rows.find? (fun r => r.id = id)

def isPickup (r : Row) : Bool := decide (r.demand > 0)

/-- a pickup row is consistent: no pickup sibling, its delivery sibling exists, carries the opposite amount,
    points back to it and has no delivery sibling -/
def pickupOk (rows : List Row) (p : Row) : Bool :=
  decide (p.pIdx = 0) &&
  match findRow p.dIdx rows with
  | none => false
  | some d => decide (d.demand = -p.demand) && decide (d.pIdx = p.id) && decide (d.dIdx = 0)

/-- well-formed Li&Lim file: ranges as for Solomon; task ids distinct; every pickup row consistent with its
    delivery row; every other row is the delivery of exactly one pickup -/
def wfLilim (F : LilimFile) : Bool :=
  decide (1 ≤ F.vehicles) && decide (0 ≤ F.capacity) && i32 F.capacity &&
  i32 F.depot.x && i32 F.depot.y && i32 F.depot.ready && i32 F.depot.due &&
  F.rows.all Row.inRange &&
  decide ((F.rows.map (·.id)).Nodup) &&
  (F.rows.filter isPickup).all (pickupOk F.rows) &&
  (F.rows.filter (fun r => !isPickup r)).all
    (fun d => (F.rows.filter isPickup).countP (fun p => p.dIdx = d.id) == 1)

/-- a TSPLIB CVRP file: capacity, NODE_COORD_SECTION rows (id, x, y), DEMAND_SECTION rows (id, demand), depot id;
    DIMENSION is the number of node rows -/
structure TsplibFile where
  capacity : Int
  nodes : List (Int × Int × Int)
  demands : List (Int × Int)
  depot : Int
deriving DecidableEq, Repr

def printTsplib (F : TsplibFile) : List Line :=
  [.text, .text, .kv "TYPE" (.w "CVRP"), .kv "DIMENSION" (.n F.nodes.length),
   .kv "EDGE_WEIGHT_TYPE" (.w "EUC_2D"), .kv "CAPACITY" (.n F.capacity), .word "NODE_COORD_SECTION"] ++
  F.nodes.map (fun n => .nums [n.1, n.2.1, n.2.2]) ++ [.word "DEMAND_SECTION"] ++
  F.demands.map (fun d => .nums [d.1, d.2]) ++ [.word "DEPOT_SECTION", .nums [F.depot], .nums [-1], .word "EOF"]

/-- first match in an association list (the specification's own lookup) -/
def assocFind (k : Int) (m : List (Int × α)) : Option α := (m.find? (fun e => e.1 = k)).map (·.2)

/-- well-formed TSPLIB file: node ids distinct, demand ids distinct, as many demand rows as node rows,
    every node has a demand row, the depot is a node, numbers are i32 -/
def wfTsplib (F : TsplibFile) : Bool :=
  i32 F.capacity && decide (0 ≤ F.capacity) &&
  F.nodes.all (fun n => i32 n.1 && i32 n.2.1 && i32 n.2.2 && decide (-2147483647 ≤ n.1)) &&
  F.demands.all (fun d => i32 d.1 && i32 d.2) &&
  decide ((F.nodes.map (·.1)).Nodup) && decide ((F.demands.map (·.1)).Nodup) &&
  decide (F.demands.length = F.nodes.length) &&
  F.nodes.all (fun n => (assocFind n.1 F.demands).isSome) &&
  (assocFind F.depot F.nodes).isSome

/-! ## what the files mean (independent of the readers) -/

/-- a customer of an instance: id, position, signed demand change at the customer as the file gives it
    (Solomon/TSPLIB: amount to deliver; Li&Lim: positive = picked up, negative = delivered), window, service -/
structure Cust where
  id : Int
  x : Int
  y : Int
  demand : Int
  ready : Int
  due : Bound
  service : Int
deriving DecidableEq, Repr

structure Instance where
  vehicles : Nat
  capacity : Int
  depotXY : Int × Int
  depotOpen : Int
  depotClose : Bound
  /-- delivery instances: customers in file order; pickup-and-delivery: request by request, pickup then delivery -/
  customers : List Cust
  /-- Li&Lim requests (pickup id, delivery id), in the order of the pickup rows -/
  pairs : List (Int × Int)
deriving DecidableEq, Repr

def meaningSolomon (F : SolomonFile) : Instance :=
  { vehicles := F.vehicles, capacity := F.capacity, depotXY := (F.depot.x, F.depot.y),
    depotOpen := F.depot.ready, depotClose := .fin F.depot.due,
    customers := F.customers.map (fun c => ⟨c.id, c.x, c.y, c.demand, c.start, .fin c.stop, c.service⟩),
    pairs := [] }

def rowCust (r : Row) : Cust := ⟨r.id, r.x, r.y, r.demand, r.start, .fin r.stop, r.service⟩

/-- the requests of a Li&Lim file: every pickup row with the row its delivery column names -/
def requestsOf (rows : List Row) : List (Row × Row) :=
  (rows.filter isPickup).filterMap (fun p => (findRow p.dIdx rows).map (fun d => (p, d)))

def meaningLilim (F : LilimFile) : Instance :=
  { vehicles := F.vehicles, capacity := F.capacity, depotXY := (F.depot.x, F.depot.y),
    depotOpen := F.depot.ready, depotClose := .fin F.depot.due,
    customers := (requestsOf F.rows).flatMap (fun pd => [rowCust pd.1, rowCust pd.2]),
    pairs := (requestsOf F.rows).map (fun pd => (pd.1.id, pd.2.id)) }

/-- TSPLIB: `DIMENSION` vehicles (the reader's convention), every node but the depot is a customer with
    its demand row's amount, no time windows (0 … max), no service time -/
def meaningTsplib (F : TsplibFile) : Instance :=
  { vehicles := F.nodes.length, capacity := F.capacity,
    depotXY := (assocFind F.depot F.nodes).getD (0, 0), depotOpen := 0, depotClose := .max,
    customers := (F.nodes.filter (fun n => n.1 ≠ F.depot)).map
      (fun n => ⟨n.1, n.2.1, n.2.2, (assocFind n.1 F.demands).getD 0, 0, .max, 0⟩),
    pairs := [] }

/-! ## reading an instance back from the observable part of a core problem -/

def allSome : List (Option α) → Option (List α)
  | [] => some []
  | none :: _ => none
  | some a :: as => (allSome as).map (a :: ·)

/-- fleet: non-empty, vehicle `k` is `v{k}`, identical capacity, start = end = the depot, departure not before
    `open`, arrival not after `close`, no other time bounds -/
def fleetOk (vs : List DVehicle) (cap : Int) (xy : Int × Int) (lo : Int) (hi : Bound) : Bool :=
  (vs.map (·.idx) == List.range vs.length) &&
  vs.all (fun w => w.cap = cap && w.s = some xy && w.e = some xy &&
            w.sE = some (.fin lo) && w.sL = none && w.eE = none && w.eL = some hi)

def decodeFleet (vs : List DVehicle) : Option (Nat × Int × (Int × Int) × Int × Bound) :=
  match vs.head? with
  | none => none
  | some v =>
    match v.s, v.sE, v.eL with
    | some xy, some (.fin lo), some hi =>
      if fleetOk vs v.cap xy lo hi then some (vs.length, v.cap, xy, lo, hi) else none
    | _, _, _ => none

/-- a delivery customer (Solomon, TSPLIB): single job, one window, demand in the static delivery slot only;
    `off` = what to add to the job id to get the file id (TSPLIB names node `id` as job `id-1`) -/
def decodeDelivery (off : Int) (j : DJob) : Option Cust :=
  match j.multi, j.subs with
  | false, [s] =>
    match s.xy, s.tws with
    | some (x, y), [tw] =>
      if s.id = j.id ∧ s.dem.ps = 0 ∧ s.dem.pd = 0 ∧ s.dem.dd = 0
      then some ⟨j.id + off, x, y, s.dem.ds, tw.lo, tw.hi, s.dur⟩ else none
    | _, _ => none
  | _, _ => none

def decodeTask (s : DSingle) (signed : Int) : Option Cust :=
  match s.xy, s.tws with
  | some (x, y), [tw] => some ⟨s.id, x, y, signed, tw.lo, tw.hi, s.dur⟩
  | _, _ => none

/-- a Li&Lim request: multi job number `k` = [pickup, delivery]; pickup amount in the dynamic pickup slot
    (positive), delivery amount in the dynamic delivery slot; the file's signed demands are `+a` and `-b` -/
def decodeRequest (jk : DJob × Nat) : Option (Cust × Cust) :=
  match jk.1.multi, jk.1.subs with
  | true, [p, d] =>
    if jk.1.id = jk.2 ∧ p.dem.ps = 0 ∧ p.dem.ds = 0 ∧ p.dem.dd = 0 ∧ 0 < p.dem.pd ∧
       d.dem.ps = 0 ∧ d.dem.pd = 0 ∧ d.dem.ds = 0
    then
      match decodeTask p p.dem.pd, decodeTask d (-d.dem.dd) with
      | some a, some b => some (a, b)
      | _, _ => none
    else none
  | _, _ => none

def decodeDeliveries (off : Int) (d : Dump) : Option Instance :=
  match decodeFleet d.vehicles, allSome (d.jobs.map (decodeDelivery off)) with
  | some (n, cap, xy, lo, hi), some cs =>
    some { vehicles := n, capacity := cap, depotXY := xy, depotOpen := lo, depotClose := hi,
           customers := cs, pairs := [] }
  | _, _ => none

def decodeSolomon (d : Dump) : Option Instance := decodeDeliveries 0 d
def decodeTsplib (d : Dump) : Option Instance := decodeDeliveries 1 d

def decodeLilim (d : Dump) : Option Instance :=
  match decodeFleet d.vehicles, allSome (d.jobs.zipIdx.map decodeRequest) with
  | some (n, cap, xy, lo, hi), some rs =>
    some { vehicles := n, capacity := cap, depotXY := xy, depotOpen := lo, depotClose := hi,
           customers := rs.flatMap (fun pd => [pd.1, pd.2]), pairs := rs.map (fun pd => (pd.1.id, pd.2.id)) }
  | _, _ => none

/-- the distance matrix an instance prescribes between depot and customers (in the instance's order) -/
def instDist (rounded : Bool) (I : Instance) : List (List (Nat × Bool)) :=
  distMatrix rounded ((some I.depotXY) :: I.customers.map (fun c => some (c.x, c.y)))

/-! ## capacity -/

/-- demand 4-tuple a delivery customer with file demand `q` denotes: static delivery -/
def static4 (q : Int) : Demand4 := ⟨0, 0, q, 0⟩

/-- demand 4-tuple a Li&Lim task with signed file demand `q` denotes: dynamic pickup of `q`, or dynamic delivery of `-q` -/
def dynamic4 (q : Int) : Demand4 := if q > 0 then ⟨0, q, 0, 0⟩ else ⟨0, 0, 0, -q⟩

/-- load of the vehicle along a tour as the core capacity feature computes it: static deliveries are on board
    from the start, static pickups stay until the end, dynamic amounts change the load where they happen;
    returns the list of loads (at departure and after every stop) -/
def loadsFrom (cur : Int) : List Demand4 → List Int
  | [] => []
  | d :: ds => let nxt := cur + (d.ps + d.pd - d.ds - d.dd); nxt :: loadsFrom nxt ds

def tourLoads (ds : List Demand4) : List Int :=
  let start := (ds.map (·.ds)).sum
  start :: loadsFrom start ds

/-- the capacity constraint on a whole tour: no load exceeds the capacity -/
def capAccepts (cap : Int) (ds : List Demand4) : Bool := (tourLoads ds).all (fun l => decide (l ≤ cap))

/-- demand of the single job `id` in a dump (first match) -/
def demandOfId (js : List DJob) (id : Int) : Option Demand4 :=
  ((js.flatMap (·.subs)).find? (fun s => s.id = id)).map (·.dem)

/-- capacity of the first vehicle -/
def dumpCapacity (d : Dump) : Int := match d.vehicles with | [] => 0 | v :: _ => v.cap

/-- **capacity model on a parsed problem**: does the capacity constraint accept the tour (job ids as the
    problem names them)? `none` if an id is unknown -/
def dumpAccepts (d : Dump) (tour : List Int) : Option Bool :=
  (allSome (tour.map (demandOfId d.jobs))).map (capAccepts (dumpCapacity d))

/-- file demand of customer `id` -/
def instDemand (I : Instance) (id : Int) : Option Int := (I.customers.find? (fun c => c.id = id)).map (·.demand)

def prefixSums (acc : Int) : List Int → List Int
  | [] => []
  | x :: xs => (acc + x) :: prefixSums (acc + x) xs

/-- **capacity as the file says** for a delivery instance: the demands of the tour's customers sum to at most the
    capacity -/
def fileAcceptsDelivery (I : Instance) (tour : List Int) : Option Bool :=
  (allSome (tour.map (instDemand I))).map (fun ds => decide (ds.sum ≤ I.capacity))

/-- **capacity as the file says** for a pickup-and-delivery instance: the vehicle starts empty and after every stop the
    sum of the signed demands so far is at most the capacity -/
def fileAcceptsPD (I : Instance) (tour : List Int) : Option Bool :=
  (allSome (tour.map (instDemand I))).map (fun ds => (0 :: prefixSums 0 ds).all (fun l => decide (l ≤ I.capacity)))

/-! ## appending a customer to a tour: capacity and time windows together -/

/-- what a tour needs to know about a stop -/
structure Stop where
  id : Int
  dem : Demand4
  tws : List TW
  service : Int
deriving DecidableEq, Repr

/-- the stops of a dump, in the order of its points (point `k+1` is stop `k`; point 0 is the depot) -/
def dumpStops (d : Dump) : List Stop := (d.jobs.flatMap (·.subs)).map (fun s => ⟨s.id, s.dem, s.tws, s.dur⟩)

/-- the stops an instance prescribes; `pd`: signed demands are dynamic pickups/deliveries; `off`: file id − job id -/
def instStops (pd : Bool) (off : Int) (I : Instance) : List Stop :=
  I.customers.map (fun c => ⟨c.id - off, if pd then dynamic4 c.demand else static4 c.demand, [⟨c.ready, c.due⟩], c.service⟩)

def bLe (t : Int) : Bound → Bool
  | .fin b => decide (t ≤ b)
  | .max => true

/-- point index (position + 1) and data of the stop with a given id (first match) -/
def stopAt (id : Int) : Nat → List Stop → Option (Nat × Stop)
  | _, [] => none
  | k, s :: ss => if s.id = id then some (k, s) else stopAt id (k + 1) ss

/-- an integral matrix entry (`none` if the entry is missing or not integral: unrounded mode off the lattice) -/
def distAt (dist : List (List (Nat × Bool))) (i j : Nat) : Option Int :=
  match (dist.getD i []).getD j (0, false) with
  | (n, true) => some n
  | (_, false) => none

/-- forward schedule along the stops: arrive (in time?), wait for the window to open, serve;
    returns (every window met, departure time from the last stop, its point) -/
def runStops (dist : List (List (Nat × Bool))) : Bool → Int → Nat → List (Nat × Stop) → Option (Bool × Int × Nat)
  | ok, t, p, [] => some (ok, t, p)
  | ok, t, p, (q, s) :: rest =>
    match distAt dist p q, s.tws with
    | some d, [tw] => runStops dist (ok && bLe (t + d) tw.hi) (max (t + d) tw.lo + s.service) q rest
    | _, _ => none

/-- **is the tour feasible as the file says?** The vehicle leaves the depot when it opens and serves the stops in order:
    the load never exceeds the capacity, every stop is reached before its window closes (waiting if it is not open yet)
    and the vehicle is back before the depot closes. (`none`: unknown id, several windows or a non-integral distance.) -/
def tourOk (cap : Int) (opens : Int) (closes : Bound) (dist : List (List (Nat × Bool))) (stops : List Stop)
    (tour : List Int) : Option Bool :=
  match allSome (tour.map (fun id => stopAt id 1 stops)) with
  | none => none
  | some ps =>
    match runStops dist true opens 0 ps with
    | none => none
    | some (ok, t, p) =>
      match distAt dist p 0 with
      | none => none
      | some d => some (ok && bLe (t + d) closes && capAccepts cap (ps.map (·.2.dem)))

/-- may `target` be appended to the feasible tour `pre`? (`none` if `pre` is not feasible itself) -/
def appendOk (cap : Int) (opens : Int) (closes : Bound) (dist : List (List (Nat × Bool))) (stops : List Stop)
    (pre : List Int) (target : Int) : Option Bool :=
  match tourOk cap opens closes dist stops pre with
  | some true => tourOk cap opens closes dist stops (pre ++ [target])
  | _ => none

def dumpAppendOk (d : Dump) (pre : List Int) (target : Int) : Option Bool :=
  match d.vehicles with
  | [] => none
  | v :: _ =>
    match v.sE, v.eL with
    | some (.fin lo), some hi => appendOk v.cap lo hi d.dist (dumpStops d) pre target
    | _, _ => none

def instAppendOk (rounded pd : Bool) (off : Int) (I : Instance) (pre : List Int) (target : Int) : Option Bool :=
  appendOk I.capacity I.depotOpen I.depotClose (instDist rounded I) (instStops pd off I) pre target

/-! ## complete solutions -/

/-- a complete solution of a problem whose single job ids are `ids`: no more routes than vehicles, every
    visited id is a job, every job is visited -/
def completeSol (ids : List Int) (nVehicles : Nat) (routes : List (List Int)) : Bool :=
  decide (routes.length ≤ nVehicles) &&
  routes.all (fun r => r.all (fun id => ids.contains id)) &&
  ids.all (fun id => routes.any (fun r => r.contains id))

end C13
