/-!
# C14 — model of `Tour`, `Route`, `RouteContext`, `Registry`, `RegistryContext`

Mirrors (code-shaped side, section "MIRROR")
* `vrp-core/src/models/solution/tour.rs`   `Tour::{new, insert_at, insert_last, remove, remove_activity_at,
  legs, jobs, index, index_last, contains, has_jobs, start, end, end_idx, job_activity_count, total,
  job_count, job_activities, deep_copy}` — a `Vec<Activity>`, a *separately maintained* `HashSet<Job>` and
  the `is_closed` flag;
* `vrp-core/src/models/solution/route.rs`  `Activity::{has_same_job, retrieve_job}`, `Route::deep_copy`;
* `vrp-core/src/construction/heuristics/context.rs` `RouteContext::{new, deep_copy, route_mut, state_mut,
  is_stale}`, `RegistryContext::{new, next_route, get_route, use_route, free_route, deep_copy, deep_slice}`
  and `accept_route_state_with_states` of `construction/enablers/feature_combinator.rs` (stale flag);
* `vrp-core/src/models/solution/registry.rs` `Registry::{new, use_actor, free_actor, all, available, next,
  deep_copy, deep_slice}` — `HashMap<usize, HashSet<Arc<Actor>>>` + `HashMap<Arc<Actor>, usize>` + `Vec`.

Reference side (section "REFERENCE", written from the property statement, not from the code):
a tour is nothing but the list of its job activities and the open/closed flag, every observable is
derived from that list; a registry is the list of registered actors and the set of actors in use.

Jobs and actors are natural numbers (the harness maps them to the `Arc`s the code compares by
address). A job activity carries the job id and the index of the sub-job inside a multi job
(`retrieve_job` maps the sub-job back to its multi job, so `has_same_job` compares job ids).
Hash sets are modelled as duplicate-free lists whose order is irrelevant; every observation sorts.
-/
namespace C14

/-! ## Shared vocabulary -/

/-- an activity as far as the containers care: the two depot markers and job activities -/
inductive Act where
  | start
  | finish
  | job (j s : Nat)
deriving DecidableEq, Repr, Inhabited

/-- `Activity::retrieve_job` (as job id) -/
def Act.jobId? : Act → Option Nat
  | .job j _ => some j
  | _ => none

/-- `Activity::has_same_job` -/
def Act.hasJob (j : Nat) (a : Act) : Bool := a.jobId? == some j

def Act.sub? : Act → Option Nat
  | .job _ s => some s
  | _ => none

/-- ascending order of natural numbers (canonical listing of a hash set) -/
def sortNat (l : List Nat) : List Nat := l.mergeSort (fun a b => decide (a ≤ b))

/-- everything the public API of a tour lets one see; `ix` has one entry per job of the universe:
    `index`, `index_last`, `contains`/`has_job`, sub-job indices of `job_activities` -/
structure TourObs where
  acts : List Act
  jobs : List Nat
  jobCount : Nat
  jac : Nat
  total : Nat
  legs : List (List Act × Nat)
  hasJobs : Bool
  start : Option Act
  end_ : Option Act
  endIdx : Option Nat
  ix : List (Option Nat × Option Nat × Bool × List Nat)
deriving DecidableEq, Repr

/-! ## MIRROR: `Tour` -/

structure Tour where
  acts : List Act
  jobs : List Nat
  closed : Bool
deriving DecidableEq, Repr

/-- `HashSet::insert` -/
def setInsert (j : Nat) (s : List Nat) : List Nat := if s.contains j then s else j :: s

/-- `HashSet::remove` (the new set) -/
def setRemove (j : Nat) (s : List Nat) : List Nat := s.filter (fun x => x != j)

/-- `Vec::insert(i, a)` for `i ≤ len` -/
def vecInsert (l : List α) (i : Nat) (a : α) : List α := l.take i ++ a :: l.drop i

/-- `Tour::new`: `set_start`, then `set_end` when the actor has an end place -/
def Tour.new (closed : Bool) : Tour :=
  { acts := Act.start :: (if closed then [Act.finish] else []), jobs := [], closed := closed }

/-- `Tour::job_activity_count` -/
def Tour.jobActivityCount (t : Tour) : Nat :=
  if t.acts.isEmpty then 0 else t.acts.length - (if t.closed then 2 else 1)

def Tour.total (t : Tour) : Nat := t.acts.length
def Tour.jobCount (t : Tour) : Nat := t.jobs.length

/-- `Tour::insert_at` exactly as written: two asserts, then the job set is updated, then `Vec::insert`
    (which panics for `i > len` — *after* the job set was touched). No check that the index keeps the
    depot ends in place. Second component: did it panic. -/
def Tour.insertAtRaw (t : Tour) (a : Act) (i : Nat) : Tour × Bool :=
  match a.jobId? with
  | none => (t, true)
  | some j =>
    if t.acts.isEmpty then (t, true)
    else if i > t.acts.length then ({ t with jobs := setInsert j t.jobs }, true)
    else ({ t with jobs := setInsert j t.jobs, acts := vecInsert t.acts i a }, false)

/-- `Tour::insert_last` -/
def Tour.insertLastRaw (t : Tour) (a : Act) : Tour × Bool := t.insertAtRaw a (t.jobActivityCount + 1)

/-- `Tour::remove`: `retain` on the activities, `HashSet::remove` on the jobs (its result is returned) -/
def Tour.remove (t : Tour) (j : Nat) : Tour × Bool :=
  ({ t with acts := t.acts.filter (fun a => !a.hasJob j), jobs := setRemove j t.jobs }, t.jobs.contains j)

/-- `Tour::remove_activity_at`: `None` = the `expect` panic (index out of range or job-less activity) -/
def Tour.removeActivityAt (t : Tour) (i : Nat) : Tour × Option Nat :=
  match t.acts[i]? with
  | none => (t, none)
  | some a =>
    match a.jobId? with
    | none => (t, none)
    | some j => ((t.remove j).1, some j)

/-- `slice::windows(n)` for `n ≥ 1` -/
def windows (n : Nat) : List α → List (List α)
  | [] => []
  | a :: l => if (a :: l).length < n then [] else (a :: l).take n :: windows n l

/-- `Tour::legs` exactly as written: window size 1 for a single activity, otherwise 2; the
    single-activity leg of the last activity is chained for an open tour with more than one activity -/
def Tour.legs (t : Tour) : List (List Act × Nat) :=
  let lastIndex := if t.acts.isEmpty then 0 else t.acts.length - 1
  let windowSize := if t.acts.length == 1 then 1 else 2
  let legs := (windows windowSize t.acts).zipIdx
  if !t.closed && lastIndex > 0 then legs ++ [(t.acts.drop lastIndex, lastIndex)] else legs

/-- `Tour::index` (`position`) -/
def Tour.index (t : Tour) (j : Nat) : Option Nat := t.acts.findIdx? (Act.hasJob j)

/-- `Tour::index_last` (`rposition`) -/
def Tour.indexLast (t : Tour) (j : Nat) : Option Nat :=
  (t.acts.reverse.findIdx? (Act.hasJob j)).map (fun k => t.acts.length - 1 - k)

/-- `Tour::contains` / `Tour::has_job` -/
def Tour.contains (t : Tour) (j : Nat) : Bool := t.jobs.contains j

/-- `Tour::job_activities` (sub-job indices) -/
def Tour.jobActivities (t : Tour) (j : Nat) : List Nat := (t.acts.filter (Act.hasJob j)).filterMap Act.sub?

def Tour.observe (nJobs : Nat) (t : Tour) : TourObs :=
  { acts := t.acts
    jobs := sortNat t.jobs
    jobCount := t.jobCount
    jac := t.jobActivityCount
    total := t.total
    legs := t.legs
    hasJobs := !t.jobs.isEmpty
    start := t.acts.head?
    end_ := t.acts.getLast?
    endIdx := if t.acts.length = 0 then none else some (t.acts.length - 1)
    ix := (List.range nJobs).map (fun j => (t.index j, t.indexLast j, t.contains j, t.jobActivities j)) }

/-! ## REFERENCE: a tour is the list of its job activities -/

structure RTour where
  mid : List (Nat × Nat)
  closed : Bool
deriving DecidableEq, Repr

def RTour.new (closed : Bool) : RTour := { mid := [], closed := closed }

/-- the activity sequence: start, the job activities, the end iff closed -/
def RTour.render (r : RTour) : List Act :=
  Act.start :: r.mid.map (fun p => Act.job p.1 p.2) ++ (if r.closed then [Act.finish] else [])

/-- first occurrences -/
def dedup : List Nat → List Nat
  | [] => []
  | a :: l => a :: (dedup l).filter (fun x => x != a)

/-- the job set = the jobs of the activities -/
def RTour.jobSet (r : RTour) : List Nat := dedup (r.mid.map Prod.fst)

/-- insertion position `i` counts activities, the start is position 0: legal positions are
    `1 ..= number of job activities + 1`; anything else would displace a depot end -/
def RTour.insertAt (r : RTour) (j s i : Nat) : Option RTour :=
  if 1 ≤ i ∧ i ≤ r.mid.length + 1 then some { r with mid := vecInsert r.mid (i - 1) (j, s) } else none

def RTour.insertLast (r : RTour) (j s : Nat) : RTour := { r with mid := r.mid ++ [(j, s)] }

/-- removing a job removes all its activities; tells whether the job was there -/
def RTour.remove (r : RTour) (j : Nat) : RTour × Bool :=
  ({ r with mid := r.mid.filter (fun p => p.1 != j) }, r.mid.any (fun p => p.1 == j))

/-- removing by position: only a job activity can be addressed -/
def RTour.removeActivityAt (r : RTour) (i : Nat) : RTour × Option Nat :=
  if i = 0 then (r, none)
  else match r.mid[i - 1]? with
    | none => (r, none)
    | some p => ((r.remove p.1).1, some p.1)

/-- legs: every pair of consecutive activities with the index of its first activity, plus, for an
    open tour, the last activity alone -/
def specLegs (closed : Bool) (acts : List Act) : List (List Act × Nat) :=
  (List.range (acts.length - 1)).map (fun i => ((acts.drop i).take 2, i))
    ++ (if closed then [] else [(acts.drop (acts.length - 1), acts.length - 1)])

def RTour.observe (nJobs : Nat) (r : RTour) : TourObs :=
  { acts := r.render
    jobs := sortNat r.jobSet
    jobCount := r.jobSet.length
    jac := r.mid.length
    total := r.mid.length + 1 + (if r.closed then 1 else 0)
    legs := specLegs r.closed r.render
    hasJobs := !r.mid.isEmpty
    start := some Act.start
    end_ := if r.closed then some Act.finish else
              match r.mid.getLast? with
              | some p => some (Act.job p.1 p.2)
              | none => some Act.start
    endIdx := some (r.mid.length + (if r.closed then 1 else 0))
    ix := (List.range nJobs).map (fun j =>
      ((r.mid.findIdx? (fun p => p.1 == j)).map (· + 1),
       (r.mid.reverse.findIdx? (fun p => p.1 == j)).map (fun k => r.mid.length - k),
       r.mid.any (fun p => p.1 == j),
       (r.mid.filter (fun p => p.1 == j)).map Prod.snd)) }

/-- reads the job activities back from an activity sequence; `none` unless the sequence is
    start, job activities only, end iff closed -/
def parseMid (closed : Bool) (acts : List Act) : Option (List (Nat × Nat)) :=
  match acts with
  | Act.start :: rest =>
    let body := if closed then rest.dropLast else rest
    if closed && rest.getLast? != some Act.finish then none
    else body.mapM (fun a => match a with | Act.job j s => some (j, s) | _ => none)
  | _ => none

/-- SPEC (declarative, on one observation): the observation is that of a well-formed tour -/
def wfObs (nJobs : Nat) (closed : Bool) (o : TourObs) : Bool :=
  match parseMid closed o.acts with
  | none => false
  | some mid => decide (o = RTour.observe nJobs { mid := mid, closed := closed })

/-! ## MIRROR: `Route` / `RouteContext` -/

inductive Kind where
  | tour   -- a bare `Tour`
  | route  -- `Route { actor, tour }`
  | rc     -- `RouteContext`
deriving DecidableEq, Repr

/-- `RouteContext` (for the other kinds `stale`/`st`/`cnt` are unused). `st` is a tour state set by
    the caller, `cnt` a tour state written by a `FeatureState::accept_route_state` (the number of
    job activities it saw) -/
structure RouteCtx where
  kind : Kind
  actor : Nat
  tour : Tour
  stale : Bool
  st : Option Int
  cnt : Option Nat
deriving DecidableEq, Repr

/-- `Tour::new` / `Route { .. }` / `RouteContext::new` (stale) -/
def RouteCtx.new (kind : Kind) (actor : Nat) (closed : Bool) : RouteCtx :=
  { kind := kind, actor := actor, tour := Tour.new closed, stale := true, st := none, cnt := none }

/-- `route_mut()` / `state_mut()`: marks a `RouteContext` stale -/
def RouteCtx.touch (c : RouteCtx) : RouteCtx := { c with stale := true }

/-- `GoalContext::accept_route_state` = `accept_route_state_with_states`: only when stale — clears the
    state, lets the feature states recompute theirs, resets the flag -/
def RouteCtx.accept (c : RouteCtx) : RouteCtx :=
  if c.stale then { c with st := none, cnt := some c.tour.jobActivityCount, stale := false } else c

/-- the empty route prototype kept per actor by `RegistryContext::new` -/
def RouteCtx.proto (actor : Nat) (closed : Bool) : RouteCtx := (RouteCtx.new Kind.rc actor closed).accept

/-! ## MIRROR: `Registry` -/

/-- the fleet as far as the registry cares: actor = position, `group[a]` = its group key -/
abbrev Fleet := List Nat

def assocUpdate (l : List (Nat × β)) (k : Nat) (v : β) : List (Nat × β) :=
  l.map (fun p => if p.1 == k then (p.1, v) else p)

/-- `acc.entry(key).or_default().insert(actor)` -/
def groupsInsert (acc : List (Nat × List Nat)) (g a : Nat) : List (Nat × List Nat) :=
  match acc.lookup g with
  | some s => assocUpdate acc g (setInsert a s)
  | none => acc ++ [(g, [a])]

def groupsFrom (gs : List Nat) (start : Nat) (acc : List (Nat × List Nat)) : List (Nat × List Nat) :=
  match gs with
  | [] => acc
  | g :: rest => groupsFrom rest (start + 1) (groupsInsert acc g start)

/-- `Fleet::groups` -/
def Fleet.groups (f : Fleet) : List (Nat × List Nat) := groupsFrom f 0 []

structure Registry where
  available : List (Nat × List Nat)
  index : List (Nat × Nat)
  all : List Nat
deriving DecidableEq, Repr

/-- `Registry::new` -/
def Registry.new (f : Fleet) : Registry :=
  { available := f.groups
    index := f.groups.flatMap (fun p => p.2.map (fun a => (a, p.1)))
    all := List.range f.length }

/-- `Registry::use_actor` -/
def Registry.useActor (r : Registry) (a : Nat) : Registry × Bool :=
  match r.index.lookup a with
  | none => (r, false)
  | some g =>
    match r.available.lookup g with
    | none => (r, false)
    | some s => ({ r with available := assocUpdate r.available g (setRemove a s) }, s.contains a)

/-- `Registry::free_actor` -/
def Registry.freeActor (r : Registry) (a : Nat) : Registry × Bool :=
  match r.index.lookup a with
  | none => (r, false)
  | some g =>
    match r.available.lookup g with
    | none => (r, false)
    | some s => ({ r with available := assocUpdate r.available g (setInsert a s) }, !s.contains a)

/-- `Registry::available` (enumeration order is that of the hash containers: unspecified) -/
def Registry.availableList (r : Registry) : List Nat := r.available.flatMap Prod.snd

def Registry.isAvail (r : Registry) (a : Nat) : Bool := r.available.any (fun p => p.2.contains a)

/-- `Registry::next` picks one (random) available actor of every group: the admissible results -/
def Registry.nextOk (r : Registry) (picks : List Nat) : Bool :=
  r.available.all (fun p => (picks.filter (fun a => p.2.contains a)).length == (if p.2.isEmpty then 0 else 1))
    && picks.all (fun a => r.isAvail a)

/-- a canonical admissible result -/
def Registry.nextCanon (r : Registry) : List Nat :=
  sortNat (r.available.filterMap (fun p => (sortNat p.2).head?))

/-- `Registry::deep_slice` -/
def Registry.deepSlice (r : Registry) (keep : Nat → Bool) : Registry :=
  { available := r.available.map (fun p => (p.1, p.2.filter keep))
    index := r.index.filter (fun p => keep p.1)
    all := r.all.filter keep }

/-! ## MIRROR: `RegistryContext` -/

structure RegistryCtx where
  registry : Registry
  index : List (Nat × RouteCtx)
deriving DecidableEq, Repr

/-- `RegistryContext::new`: an accepted empty route per actor of `registry.all()` -/
def RegistryCtx.new (closedOf : Nat → Bool) (registry : Registry) : RegistryCtx :=
  { registry := registry, index := registry.all.map (fun a => (a, RouteCtx.proto a (closedOf a))) }

/-- `RegistryContext::get_route`: `use_actor(..).then(|| index.get(actor).map(deep_copy)).flatten()` -/
def RegistryCtx.getRoute (x : RegistryCtx) (a : Nat) : RegistryCtx × Option RouteCtx :=
  let u := x.registry.useActor a
  ({ x with registry := u.1 }, if u.2 then x.index.lookup a else none)

/-- `RegistryContext::use_route` -/
def RegistryCtx.useRoute (x : RegistryCtx) (c : RouteCtx) : RegistryCtx × Bool :=
  let u := x.registry.useActor c.actor
  ({ x with registry := u.1 }, u.2)

/-- `RegistryContext::free_route` -/
def RegistryCtx.freeRoute (x : RegistryCtx) (c : RouteCtx) : RegistryCtx × Bool :=
  let u := x.registry.freeActor c.actor
  ({ x with registry := u.1 }, u.2)

/-- `RegistryContext::deep_slice` -/
def RegistryCtx.deepSlice (x : RegistryCtx) (keep : Nat → Bool) : RegistryCtx :=
  { registry := x.registry.deepSlice keep, index := x.index.filter (fun p => keep p.1) }

/-- `RegistryContext::next_route`: the prototypes of the actors `Registry::next` picked;
    `none` = the `index[&actor]` panic -/
def RegistryCtx.nextRoute (x : RegistryCtx) (picks : List Nat) : Option (List (Nat × RouteCtx)) :=
  picks.mapM (fun a => (x.index.lookup a).map (fun c => (a, c)))

/-! ## REFERENCE: a registry is the registered actors and the set of those in use -/

structure RReg where
  actors : List Nat
  held : List Nat
deriving DecidableEq, Repr

def RReg.new (n : Nat) : RReg := { actors := List.range n, held := [] }

/-- offered exactly when registered and not in use -/
def RReg.avail (r : RReg) (a : Nat) : Bool := r.actors.contains a && !r.held.contains a

def RReg.use (r : RReg) (a : Nat) : RReg × Bool :=
  if r.avail a then ({ r with held := a :: r.held }, true) else (r, false)

def RReg.free (r : RReg) (a : Nat) : RReg × Bool :=
  if r.actors.contains a && r.held.contains a then ({ r with held := r.held.filter (fun x => x != a) }, true)
  else (r, false)

def RReg.slice (r : RReg) (keep : Nat → Bool) : RReg :=
  { actors := r.actors.filter keep, held := r.held.filter keep }

def RReg.availableList (r : RReg) : List Nat := r.actors.filter (fun a => !r.held.contains a)

/-- admissible answers of "one available actor per group" -/
def RReg.nextOk (f : Fleet) (r : RReg) (picks : List Nat) : Bool :=
  picks.all (fun a => r.avail a)
    && r.availableList.all (fun a => (picks.filter (fun b => f[b]? == f[a]?)).length == 1)

/-! ## Observations of handles, operations, outputs -/

inductive Obs where
  | route (kind : Kind) (actor : Nat) (t : TourObs) (stale : Option Bool) (st : Option Int) (cnt : Option Nat)
  | reg (isCtx : Bool) (all avail : List Nat)
deriving DecidableEq, Repr

inductive Out where
  | unit
  | bool (b : Bool)
  | job (j : Nat)
  | panic
  | actors (l : List Nat)
  | protos (l : List (Nat × Obs))
  | inadmissible   -- reference only: the implementation's nondeterministic choice is not allowed
deriving DecidableEq, Repr

inductive Op where
  | newR (k : Kind) (dst actor : Nat)
  | copy (dst h : Nat)
  | drop (h : Nat)
  | insAt (h j s i : Nat)
  | insLast (h j s : Nat)
  | insNoJob (h i : Nat)
  | rem (h j : Nat)
  | remAt (h i : Nat)
  | touch (h : Nat)
  | accept (h : Nat)
  | setState (h : Nat) (v : Int)
  | newReg (dst : Nat)
  | newRctx (dst : Nat)
  | use (h a : Nat)
  | free (h a : Nat)
  | getRoute (h a dst : Nat)
  | freeRoute (h r : Nat)
  | useRoute (h r : Nat)
  | next (h : Nat) (picks : List Nat)
  | slice (dst h : Nat) (keep : List Nat)
deriving DecidableEq, Repr

/-- the handles an operation may write (everything else must keep its observation) -/
def Op.targets : Op → List Nat
  | .newR _ dst _ => [dst]
  | .copy dst _ => [dst]
  | .drop h => [h]
  | .insAt h .. => [h]
  | .insLast h .. => [h]
  | .insNoJob h _ => [h]
  | .rem h _ => [h]
  | .remAt h _ => [h]
  | .touch h => [h]
  | .accept h => [h]
  | .setState h _ => [h]
  | .newReg dst => [dst]
  | .newRctx dst => [dst]
  | .use h _ => [h]
  | .free h _ => [h]
  | .getRoute h _ dst => [h, dst]
  | .freeRoute h rh => [h, rh]
  | .useRoute h _ => [h]
  | .next _ _ => []
  | .slice dst _ _ => [dst]

/-- the world of a case: number of jobs, per actor: closed tour?, group key -/
structure World where
  nJobs : Nat
  closed : List Bool
  group : Fleet

def World.closedOf (w : World) (a : Nat) : Bool := w.closed.getD a true

def RouteCtx.observe (nJobs : Nat) (c : RouteCtx) : Obs :=
  match c.kind with
  | .rc => Obs.route c.kind c.actor (c.tour.observe nJobs) (some c.stale) c.st c.cnt
  | k => Obs.route k c.actor (c.tour.observe nJobs) none none none

def Registry.observe (isCtx : Bool) (r : Registry) : Obs :=
  Obs.reg isCtx r.all (sortNat r.availableList)

/-! ## MIRROR machine: handles ↦ objects -/

inductive Obj where
  | rt (c : RouteCtx)
  | reg (g : Registry)
  | rctx (x : RegistryCtx)
deriving DecidableEq, Repr

def Obj.observe (nJobs : Nat) : Obj → Obs
  | .rt c => c.observe nJobs
  | .reg g => g.observe false
  | .rctx x => x.registry.observe true

abbrev Store (β : Type) := List (Nat × β)

def Store.get (st : Store β) (h : Nat) : Option β := st.lookup h

/-- apply writes: `some v` stores, `none` deletes -/
def Store.write (st : Store β) (ws : List (Nat × Option β)) : Store β :=
  ws.foldl (fun acc w =>
    match w.2 with
    | some v => (w.1, v) :: acc.filter (fun p => p.1 != w.1)
    | none => acc.filter (fun p => p.1 != w.1)) st

/-- tour operation on a route-like handle: through `route_mut()` for a `RouteContext` -/
def RouteCtx.withTour (c : RouteCtx) (t : Tour) : RouteCtx :=
  { c with tour := t, stale := (if c.kind = Kind.rc then true else c.stale) }

def getR (st : Store Obj) (h : Nat) : Except String RouteCtx :=
  match st.get h with
  | some (.rt c) => .ok c
  | _ => .error s!"handle {h} is not a tour/route/route context"

def getRc (st : Store Obj) (h : Nat) : Except String RouteCtx :=
  match st.get h with
  | some (.rt c) => if c.kind = Kind.rc then .ok c else .error s!"handle {h} is not a route context"
  | _ => .error s!"handle {h} is not a route context"

/-- the writes and the result of one operation (mirror side) -/
def Obj.eff (w : World) (st : Store Obj) : Op → Except String (List (Nat × Option Obj) × Out)
  | .newR k dst a => .ok ([(dst, some (.rt (RouteCtx.new k a (w.closedOf a))))], .unit)
  | .copy dst h =>
    match st.get h with
    | some o => .ok ([(dst, some o)], .unit)      -- every `deep_copy` is the identity on values
    | none => .error s!"no handle {h}"
  | .drop h => .ok ([(h, none)], .unit)
  | .insAt h j s i =>
    match getR st h with
    | .error e => .error e
    | .ok c =>
      let r := c.tour.insertAtRaw (Act.job j s) i
      .ok ([(h, some (.rt (c.withTour r.1)))], if r.2 then .panic else .unit)
  | .insLast h j s =>
    match getR st h with
    | .error e => .error e
    | .ok c =>
      let r := c.tour.insertLastRaw (Act.job j s)
      .ok ([(h, some (.rt (c.withTour r.1)))], if r.2 then .panic else .unit)
  | .insNoJob h i =>
    match getR st h with
    | .error e => .error e
    | .ok c =>
      let r := c.tour.insertAtRaw Act.finish i
      .ok ([(h, some (.rt (c.withTour r.1)))], if r.2 then .panic else .unit)
  | .rem h j =>
    match getR st h with
    | .error e => .error e
    | .ok c =>
      let r := c.tour.remove j
      .ok ([(h, some (.rt (c.withTour r.1)))], .bool r.2)
  | .remAt h i =>
    match getR st h with
    | .error e => .error e
    | .ok c =>
      let r := c.tour.removeActivityAt i
      .ok ([(h, some (.rt (c.withTour r.1)))], match r.2 with | some j => .job j | none => .panic)
  | .touch h =>
    match getRc st h with
    | .error e => .error e
    | .ok c => .ok ([(h, some (.rt c.touch))], .unit)
  | .accept h =>
    match getRc st h with
    | .error e => .error e
    | .ok c => .ok ([(h, some (.rt c.accept))], .unit)
  | .setState h v =>
    match getRc st h with
    | .error e => .error e
    | .ok c => .ok ([(h, some (.rt { c.touch with st := some v }))], .unit)
  | .newReg dst => .ok ([(dst, some (.reg (Registry.new w.group)))], .unit)
  | .newRctx dst => .ok ([(dst, some (.rctx (RegistryCtx.new w.closedOf (Registry.new w.group))))], .unit)
  | .use h a =>
    match st.get h with
    | some (.reg g) => let u := g.useActor a; .ok ([(h, some (.reg u.1))], .bool u.2)
    | _ => .error s!"handle {h} is not a registry"
  | .free h a =>
    match st.get h with
    | some (.reg g) => let u := g.freeActor a; .ok ([(h, some (.reg u.1))], .bool u.2)
    | _ => .error s!"handle {h} is not a registry"
  | .getRoute h a dst =>
    match st.get h with
    | some (.rctx x) =>
      let u := x.getRoute a
      match u.2 with
      | some c => .ok ([(h, some (.rctx u.1)), (dst, some (.rt c))], .bool true)
      | none => .ok ([(h, some (.rctx u.1))], .bool false)
    | _ => .error s!"handle {h} is not a registry context"
  | .freeRoute h rh =>
    match st.get h, getRc st rh with
    | some (.rctx x), .ok c => let u := x.freeRoute c; .ok ([(h, some (.rctx u.1)), (rh, none)], .bool u.2)
    | _, _ => .error s!"free_route: bad handles {h} {rh}"
  | .useRoute h rh =>
    match st.get h, getRc st rh with
    | some (.rctx x), .ok c => let u := x.useRoute c; .ok ([(h, some (.rctx u.1))], .bool u.2)
    | _, _ => .error s!"use_route: bad handles {h} {rh}"
  | .next h picks =>
    match st.get h with
    | some (.reg g) => .ok ([], .actors (if g.nextOk picks then picks else g.nextCanon))
    | some (.rctx x) =>
      let ps := if x.registry.nextOk picks then picks else x.registry.nextCanon
      match x.nextRoute ps with
      | some l => .ok ([], .protos (l.map (fun p => (p.1, p.2.observe w.nJobs))))
      | none => .ok ([], .panic)
    | _ => .error s!"handle {h} is not a registry (context)"
  | .slice dst h keep =>
    match st.get h with
    | some (.reg g) => .ok ([(dst, some (.reg (g.deepSlice keep.contains)))], .unit)
    | some (.rctx x) => .ok ([(dst, some (.rctx (x.deepSlice keep.contains)))], .unit)
    | _ => .error s!"handle {h} is not a registry (context)"

def Obj.step (w : World) (st : Store Obj) (op : Op) : Except String (Store Obj × Out) :=
  match Obj.eff w st op with
  | .error e => .error e
  | .ok (ws, out) => .ok (st.write ws, out)

/-! ## REFERENCE machine -/

structure RRoute where
  kind : Kind
  actor : Nat
  tour : RTour
  stale : Bool
  st : Option Int
  cnt : Option Nat
deriving DecidableEq, Repr

def RRoute.new (kind : Kind) (actor : Nat) (closed : Bool) : RRoute :=
  { kind := kind, actor := actor, tour := RTour.new closed, stale := true, st := none, cnt := none }

/-- a route handed out by a registry context: empty, accepted -/
def RRoute.fresh (actor : Nat) (closed : Bool) : RRoute :=
  { kind := Kind.rc, actor := actor, tour := RTour.new closed, stale := false, st := none, cnt := some 0 }

def RRoute.observe (nJobs : Nat) (c : RRoute) : Obs :=
  match c.kind with
  | .rc => Obs.route c.kind c.actor (c.tour.observe nJobs) (some c.stale) c.st c.cnt
  | k => Obs.route k c.actor (c.tour.observe nJobs) none none none

inductive RObj where
  | rt (c : RRoute)
  | reg (isCtx : Bool) (g : RReg)
deriving DecidableEq, Repr

def RObj.observe (nJobs : Nat) : RObj → Obs
  | .rt c => c.observe nJobs
  | .reg isCtx g => Obs.reg isCtx g.actors (sortNat g.availableList)

/-- a mutation of the tour of a route context makes it stale -/
def RRoute.withTour (c : RRoute) (t : RTour) : RRoute :=
  { c with tour := t, stale := (if c.kind = Kind.rc then true else c.stale) }

/-- only a route context has a stale flag / can be given to a registry context -/
def getRRc (st : Store RObj) (h : Nat) : Option RRoute :=
  match st.get h with
  | some (.rt c) => if c.kind = Kind.rc then some c else none
  | _ => none

/-- reference semantics of one operation. `none` = the operation is outside the contract (an insertion
    position that is not between the depot ends): the reference stops there. A documented panic
    (`remove_activity_at` on a depot marker, inserting a job-less activity) leaves everything unchanged. -/
def RObj.eff (w : World) (st : Store RObj) : Op → Option (List (Nat × Option RObj) × Out)
  | .newR k dst a => some ([(dst, some (.rt (RRoute.new k a (w.closedOf a))))], .unit)
  | .copy dst h => (st.get h).map (fun o => ([(dst, some o)], .unit))
  | .drop h => some ([(h, none)], .unit)
  | .insAt h j s i =>
    match st.get h with
    | some (.rt c) => (c.tour.insertAt j s i).map (fun t => ([(h, some (.rt (c.withTour t)))], .unit))
    | _ => none
  | .insLast h j s =>
    match st.get h with
    | some (.rt c) => some ([(h, some (.rt (c.withTour (c.tour.insertLast j s))))], .unit)
    | _ => none
  | .insNoJob h _ =>
    match st.get h with
    | some (.rt c) => some ([(h, some (.rt (c.withTour c.tour)))], .panic)
    | _ => none
  | .rem h j =>
    match st.get h with
    | some (.rt c) => let r := c.tour.remove j; some ([(h, some (.rt (c.withTour r.1)))], .bool r.2)
    | _ => none
  | .remAt h i =>
    match st.get h with
    | some (.rt c) =>
      let r := c.tour.removeActivityAt i
      some ([(h, some (.rt (c.withTour r.1)))], match r.2 with | some j => .job j | none => .panic)
    | _ => none
  | .touch h =>
    match getRRc st h with
    | some c => some ([(h, some (.rt { c with stale := true }))], .unit)
    | none => none
  | .accept h =>
    match getRRc st h with
    | some c =>
      some ([(h, some (.rt (if c.stale then { c with st := none, cnt := some c.tour.mid.length, stale := false } else c)))], .unit)
    | none => none
  | .setState h v =>
    match getRRc st h with
    | some c => some ([(h, some (.rt { c with stale := true, st := some v }))], .unit)
    | none => none
  | .newReg dst => some ([(dst, some (.reg false (RReg.new w.group.length)))], .unit)
  | .newRctx dst => some ([(dst, some (.reg true (RReg.new w.group.length)))], .unit)
  | .use h a =>
    match st.get h with
    | some (.reg false g) => let u := g.use a; some ([(h, some (.reg false u.1))], .bool u.2)
    | _ => none
  | .free h a =>
    match st.get h with
    | some (.reg false g) => let u := g.free a; some ([(h, some (.reg false u.1))], .bool u.2)
    | _ => none
  | .getRoute h a dst =>
    match st.get h with
    | some (.reg true g) =>
      let u := g.use a
      if u.2 then some ([(h, some (.reg true u.1)), (dst, some (.rt (RRoute.fresh a (w.closedOf a))))], .bool true)
      else some ([(h, some (.reg true u.1))], .bool false)
    | _ => none
  | .freeRoute h rh =>
    match st.get h, getRRc st rh with
    | some (.reg true g), some c => let u := g.free c.actor; some ([(h, some (.reg true u.1)), (rh, none)], .bool u.2)
    | _, _ => none
  | .useRoute h rh =>
    match st.get h, getRRc st rh with
    | some (.reg true g), some c => let u := g.use c.actor; some ([(h, some (.reg true u.1))], .bool u.2)
    | _, _ => none
  | .next h picks =>
    match st.get h with
    | some (.reg isCtx g) =>
      if g.nextOk w.group picks then
        some ([], if isCtx then .protos (picks.map (fun a => (a, (RRoute.fresh a (w.closedOf a)).observe w.nJobs)))
                  else .actors picks)
      else some ([], .inadmissible)
    | _ => none
  | .slice dst h keep =>
    match st.get h with
    | some (.reg isCtx g) => some ([(dst, some (.reg isCtx (g.slice keep.contains)))], .unit)
    | _ => none

def RObj.step (w : World) (st : Store RObj) (op : Op) : Option (Store RObj × Out) :=
  (RObj.eff w st op).map (fun p => (st.write p.1, p.2))

end C14
