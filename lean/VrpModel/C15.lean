import VrpModel.C06
/-!
# C15 — parallel insertion evaluation: fold/reduce over any split of the work

Mirrors
* `rosomaxa/src/utils/parallel.rs` `fold_reduce` = rayon `fold(identity, fold_op).reduce(identity, reduce_op)`:
  the input sequence is cut into contiguous chunks (any number, any sizes), every chunk is folded
  left-to-right from the identity, the partial results are combined by the reduce operation in order,
  with any bracketing, and rayon may combine with extra identities (`Split`),
* `vrp-core/src/construction/heuristics/insertions.rs` `InsertionResult::choose_best_result` (`best`),
* `vrp-core/src/construction/heuristics/selectors.rs` `PositionInsertionEvaluator::evaluate_all`,
* the `alternative` pruning of `evaluators.rs::eval_job_insertion_in_route` (`stepPruned`).
-/
namespace C15

/-- how rayon may split and recombine the work -/
inductive Split where
  | leaf : Split                         -- one sequential chunk
  | node : Nat → Split → Split → Split   -- cut at position k, reduce the two results
  | withId : Split → Split               -- reduce with an extra identity element
deriving Repr

def foldReduce {α β : Type} (idn : β) (f : β → α → β) (r : β → β → β) : Split → List α → β
  | .leaf, xs => xs.foldl f idn
  | .node k l rt, xs => r (foldReduce idn f r l (xs.take k)) (foldReduce idn f r rt (xs.drop k))
  | .withId s, xs => r idn (foldReduce idn f r s xs)

/-- `choose_best_result` on the cost of a result (`none` = failure): the left one wins unless the right
    one is strictly cheaper -/
def best {κ : Type} (le : κ → κ → Bool) (a b : Option κ) : Option κ :=
  match a, b with
  | some x, some y => if le x y then some x else some y
  | some x, none => some x
  | none, some y => some y
  | none, none => none

/-- sequential scan: the minimum over all items -/
def minOpt {κ : Type} (le : κ → κ → Bool) (xs : List (Option κ)) : Option κ := xs.foldl (best le) none

/-- an item of the work list as the evaluator sees it: the cost of the best insertion of this job in
    this route evaluated without any alternative (`full`), and the route-level cost the pruning looks at -/
structure Item (κ : Type) where
  full : Option κ
  routeCost : κ

/-- `eval_job_insertion_in_route` with an alternative: return the alternative unevaluated when it is
    cheaper than the route-level cost; otherwise keep the better of the alternative and the
    evaluation (which, given a best-known cost, only reports strictly cheaper insertions) -/
def stepPruned {κ : Type} (le : κ → κ → Bool) (alt : Option κ) (it : Item κ) : Option κ :=
  match alt with
  | none => it.full
  | some a =>
    if le a it.routeCost && !le it.routeCost a then some a       -- pruned
    else
      match it.full with
      | some c => if le a c then some a else some c
      | none => some a

/-- lexicographic `≤` on cost vectors (C06.costLt is the strict part) -/
def costLe (a b : List Int) : Bool := !C06.costLt b a

end C15
