/-!
# C16 — model of the routing-cost providers

Mirrors
* `vrp-core/src/models/problem/costs.rs`: `SimpleTransportCost`, `create_matrix_transport_cost_with_fallback`
  (builder validation), `TimeAgnosticMatrixTransportCost`, `TimeAwareMatrixTransportCost`
  (`interpolate_duration`, `interpolate_distance`, `*_approx`),
* `vrp-pragmatic/src/format/problem/fleet_reader.rs`: `get_profile_index_map`, `create_transport_costs`
  (profile name → index with the positional fallback, error codes → −1), `read_fleet` (vehicle → `Profile`),
* `vrp-pragmatic/src/validation/routing.rs`: E1500, E1501, E1503, E1504, E1505 (the gate in front of the reader),
* `vrp-pragmatic/src/format/coord_index.rs` + `location_fallback.rs`: the index of the location of custom type `unknown`
  and its zero fallback,
* `vrp-scientific/src/common/routing.rs`: `CoordIndex::collect`, `create_transport`, `SingleDataTransportCost`.

Repaired in /repo (0684041 square matrices + error codes length, c805ac8 duplicate timestamps, a68e4cc unknown location
offset, 83519b0 name mixes) and mirrored here: the former deviations D1, D2, D3 and S28 (mixes). What remains outside
the theorems' hypotheses: a set in which *no* matrix name is a fleet profile is mapped by list position (documented
positional behaviour, stream `S28u`), and `to ≥ size` addresses another row (S12a, boundary).
-/
namespace C16

/-! ## numbers -/

/-- `(n as f64).sqrt().round() as usize` (exact for every `n < 2^52`: `√n` is never within an ulp of `k + ½`) -/
def sqrtRound (n : Nat) : Nat :=
  let k := Nat.sqrt n
  if k * k + k < n then k + 1 else k

/-- `t as u64` for an integral `f64`: negative values saturate at 0, large ones at `u64::MAX` -/
def keyOfInt (t : Int) : Nat := min t.toNat (2 ^ 64 - 1)

/-- `t as u64` for any finite `f64`: truncation towards zero, saturating -/
def keyOfRat (t : Rat) : Nat := keyOfInt t.floor

/-! ## `SimpleTransportCost` -/

structure Simple where
  durations : List Int
  distances : List Int
  size : Nat
deriving Repr

/-- `SimpleTransportCost::new` (`none` = `Err("distance-duration lengths don't match")`) -/
def Simple.new (durations distances : List Int) : Option Simple :=
  let size := sqrtRound durations.length
  if sqrtRound distances.length != size then none else some ⟨durations, distances, size⟩

/-- `duration_approx` / `duration`: `durations.get(from * size + to).unwrap_or(0.)` -/
def Simple.duration (s : Simple) (frm to : Nat) : Int := s.durations.getD (frm * s.size + to) 0
def Simple.distance (s : Simple) (frm to : Nat) : Int := s.distances.getD (frm * s.size + to) 0

/-! ## matrix data and the builder -/

/-- `MatrixData` -/
structure MatrixData where
  index : Nat
  timestamp : Option Int
  durations : List Int
  distances : List Int
deriving Repr, DecidableEq

inductive BuildError where
  | empty              -- "no matrix data found"
  | lenMismatch        -- "distance and duration collections have different length"
  | distSize           -- "distance lengths don't match"
  | durSize            -- "duration lengths don't match" (unreachable after the two checks before it)
  | notSquare          -- "matrix is not square"
  | timedInAgnostic    -- "time aware routing" (unreachable through the builder)
  | agnosticProfiles   -- "duplicate profiles can be passed only for time aware routing"
  | missingTimestamp   -- "time-aware routing requires all matrices to have timestamp"
  | singleTimed        -- "should not use time aware matrix routing with single matrix"
  | duplicateTimestamp -- "duplicate timestamps for the same profile"
deriving Repr, DecidableEq

/-- the matrices collected under one profile index, in input order (`collect_group_by_key`) -/
def groupOf (ms : List MatrixData) (p : Nat) : List MatrixData := ms.filter (fun m => m.index == p)

/-- the `u64` key a matrix is sorted and searched by (`timestamp.unwrap() as u64`) -/
def MatrixData.key (m : MatrixData) : Nat := keyOfInt (m.timestamp.getD 0)

/-- `matrices.sort_by(|a, b| (a.timestamp as u64).cmp(&(b.timestamp as u64)))` — a stable sort -/
def sortByKey (g : List MatrixData) : List MatrixData := g.mergeSort (fun a b => decide (a.key ≤ b.key))

/-- `costs.sort_by(|a, b| a.index.cmp(&b.index))` — a stable sort -/
def sortByIndex (ms : List MatrixData) : List MatrixData := ms.mergeSort (fun a b => decide (a.index ≤ b.index))

/-- `(0..).zip(costs.iter().map(|c| &c.index)).any(|(a, &b)| a != b)` negated -/
def indicesAreRange : Nat → List MatrixData → Bool
  | _, [] => true
  | i, m :: rest => m.index == i && indicesAreRange (i + 1) rest

inductive Provider where
  /-- `TimeAgnosticMatrixTransportCost`: position in `mats` = profile index -/
  | agnostic (size : Nat) (mats : List MatrixData)
  /-- `TimeAwareMatrixTransportCost`: the `HashMap` profile → (keys, sorted matrices) is `sortByKey (groupOf ms p)` -/
  | aware (size : Nat) (ms : List MatrixData)
deriving Repr

def Provider.size : Provider → Nat
  | .agnostic s _ => s
  | .aware s _ => s

/-- `TimeAgnosticMatrixTransportCost::new` -/
def newAgnostic (ms : List MatrixData) (size : Nat) : Except BuildError Provider :=
  let sorted := sortByIndex ms
  if sorted.any (fun m => m.timestamp.isSome) then .error .timedInAgnostic
  else if !indicesAreRange 0 sorted then .error .agnosticProfiles
  else .ok (.agnostic size sorted)

/-- `timestamps.windows(2).any(|pair| pair[0] == pair[1])` -/
def adjacentEqual : List Nat → Bool
  | a :: b :: rest => a == b || adjacentEqual (b :: rest)
  | _ => false

/-- `TimeAwareMatrixTransportCost::new` -/
def newAware (ms : List MatrixData) (size : Nat) : Except BuildError Provider :=
  if ms.any (fun m => m.timestamp.isNone) then .error .missingTimestamp
  else if ms.any (fun m => (groupOf ms m.index).length == 1) then .error .singleTimed
  else if ms.any (fun m => adjacentEqual ((sortByKey (groupOf ms m.index)).map MatrixData.key)) then
    .error .duplicateTimestamp
  else .ok (.aware size ms)

/-- `create_matrix_transport_cost_with_fallback` (the checks in the code's order) -/
def build (ms : List MatrixData) : Except BuildError Provider :=
  match ms with
  | [] => .error .empty
  | first :: _ =>
    let size := sqrtRound first.durations.length
    if ms.any (fun m => m.distances.length != m.durations.length) then .error .lenMismatch
    else if ms.any (fun m => sqrtRound m.distances.length != size) then .error .distSize
    else if ms.any (fun m => sqrtRound m.durations.length != size) then .error .durSize
    else if ms.any (fun m => m.durations.length != size * size) then .error .notSquare
    else if ms.any (fun m => m.timestamp.isSome) then newAware ms size
    else newAgnostic ms size

/-! ## queries -/

structure Profile where
  index : Nat
  scale : Rat
deriving Repr

/-- the value of `TransportFallback::{duration, distance}`; `none` = `NoFallback` (panics) -/
abbrev Fallback := Option (Int × Int)

def flatIdx (size frm to : Nat) : Nat := frm * size + to

/-- the contract of `slice::binary_search` on a sorted slice: `ok i` with `keys[i] = k`, or `error i` with the
    insertion point. With equal keys the current standard library returns the last of them; the hypotheses of
    the theorems exclude equal keys. -/
def searchKeys (keys : List Nat) (k : Nat) : Except Nat Nat :=
  if keys.contains k then .ok ((keys.filter (fun x => decide (x ≤ k))).length - 1)
  else .error (keys.filter (fun x => decide (x < k))).length

def durAt (m : MatrixData) (idx : Nat) : Option Rat := (m.durations[idx]?).map (fun v => (v : Rat))
def distAt (m : MatrixData) (idx : Nat) : Option Rat := (m.distances[idx]?).map (fun v => (v : Rat))

/-- the `match timestamps.binary_search(..)` of `interpolate_duration`, before fallback and scale;
    `sorted` are the matrices of the profile sorted by key, `t` the (arrival or departure) time -/
def interpDurationRaw (sorted : List MatrixData) (idx : Nat) (t : Rat) : Option Rat :=
  match searchKeys (sorted.map MatrixData.key) (keyOfRat t) with
  | .ok i => (sorted[i]?).bind (durAt · idx)
  | .error 0 => sorted.head?.bind (durAt · idx)
  | .error i =>
    if i == sorted.length then sorted.getLast?.bind (durAt · idx)
    else
      match sorted[i - 1]?, sorted[i]? with
      | some l, some r =>
        match durAt l idx, durAt r idx with
        | some lv, some rv =>
          -- ratio = (timestamp - left.timestamp) / (right.timestamp - left.timestamp)
          let ratio := (t - ((l.timestamp.getD 0 : Int) : Rat)) /
            (((r.timestamp.getD 0 : Int) : Rat) - ((l.timestamp.getD 0 : Int) : Rat))
          some (lv + ratio * (rv - lv))
        | _, _ => none
      | _, _ => none

/-- the `match` of `interpolate_distance`, before the fallback -/
def interpDistanceRaw (sorted : List MatrixData) (idx : Nat) (t : Rat) : Option Rat :=
  match searchKeys (sorted.map MatrixData.key) (keyOfRat t) with
  | .ok i => (sorted[i]?).bind (distAt · idx)
  | .error 0 => sorted.head?.bind (distAt · idx)
  | .error i =>
    if i == sorted.length then sorted.getLast?.bind (distAt · idx)
    else (sorted[i - 1]?).bind (distAt · idx)

/-- `.unwrap_or_else(|| fallback(..))`: `none` when the fallback panics -/
def orFallback (v : Option Rat) (fb : Option Int) : Option Rat :=
  match v with
  | some x => some x
  | none => fb.map (fun f => (f : Rat))

/-- `TransportCost::duration` at time `t` for a vehicle with profile `p` -/
def Provider.duration (pr : Provider) (fb : Fallback) (p : Profile) (frm to : Nat) (t : Rat) : Option Rat :=
  match pr with
  | .agnostic size mats =>
    match mats[p.index]? with
    | none => none                                           -- `.get(profile.index).unwrap()`
    | some m => (orFallback (durAt m (flatIdx size frm to)) (fb.map (·.1))).map (· * p.scale)
  | .aware size ms =>
    match groupOf ms p.index with
    | [] => none                                             -- `self.costs.get(&profile.index).unwrap()`
    | g => (orFallback (interpDurationRaw (sortByKey g) (flatIdx size frm to) t) (fb.map (·.1))).map (· * p.scale)

/-- `TransportCost::distance` at time `t` for a vehicle with profile `p` (never scaled) -/
def Provider.distance (pr : Provider) (fb : Fallback) (p : Profile) (frm to : Nat) (t : Rat) : Option Rat :=
  match pr with
  | .agnostic size mats =>
    match mats[p.index]? with
    | none => none
    | some m => orFallback (distAt m (flatIdx size frm to)) (fb.map (·.2))
  | .aware size ms =>
    match groupOf ms p.index with
    | [] => none
    | g => orFallback (interpDistanceRaw (sortByKey g) (flatIdx size frm to) t) (fb.map (·.2))

/-- `duration_approx` / `distance_approx`: the time-aware provider evaluates at `Departure(0.)` -/
def Provider.durationApprox (pr : Provider) (fb : Fallback) (p : Profile) (frm to : Nat) : Option Rat :=
  pr.duration fb p frm to 0
def Provider.distanceApprox (pr : Provider) (fb : Fallback) (p : Profile) (frm to : Nat) : Option Rat :=
  pr.distance fb p frm to 0

/-! ## the pragmatic reader (`fleet_reader.rs`) and the routing validation in front of it -/

/-- `format::problem::Matrix` with the timestamp already parsed (`parse_time`, whole seconds) -/
structure ApiMatrix where
  profile : Option String
  timestamp : Option Int
  travelTimes : List Int
  distances : List Int
  errorCodes : Option (List Int)
deriving Repr, DecidableEq

/-- `get_profile_index_map`: first occurrence of a name gets the next free index -/
def profileIndexMap : List String → List (String × Nat) → List (String × Nat)
  | [], acc => acc
  | n :: rest, acc =>
    if (acc.lookup n).isSome then profileIndexMap rest acc else profileIndexMap rest (acc ++ [(n, acc.length)])

def profileIndex (profiles : List String) (name : String) : Option Nat := (profileIndexMap profiles []).lookup name

inductive ReaderError where
  | mixedNames        -- "all matrices should have profile set or none of them"
  | timedUnnamed      -- "when timestamp is set, all matrices should have profile set"
  | notEnough         -- "not enough routing matrices specified for fleet profiles defined"
  | errorCodesLength  -- "error codes and distances have different length"
  | invalidIndex      -- "invalid matrix index: {i}"
  | profileCount      -- "amount of fleet profiles does not match matrix profiles"
  | unknownName       -- variant `strict` only: "matrix profile '..' is not defined in fleet profiles"
  | mixedKnownNames   -- "some matrix profiles are not defined in fleet profiles"
  | build (e : BuildError)
deriving Repr, DecidableEq

/-- the `for (i, error) in error_codes.iter().enumerate()` loop -/
def applyErrorCodes (tt dist : List Int) : Nat → List Int → Option (List Int × List Int)
  | _, [] => some ([], [])
  | i, e :: rest =>
    if e > 0 then (applyErrorCodes tt dist (i + 1) rest).map (fun (a, b) => ((-1 : Int) :: a, (-1 : Int) :: b))
    else
      match tt[i]?, dist[i]? with
      | some a, some b => (applyErrorCodes tt dist (i + 1) rest).map (fun (x, y) => (a :: x, b :: y))
      | _, _ => none

/-- one element of the `matrix_data` iterator: **an unknown name falls back to the list position** (S28) -/
def toMatrixData (profiles : List String) (idx : Nat) (m : ApiMatrix) : Option MatrixData :=
  let profile := ((m.profile.bind (profileIndex profiles)).getD idx)
  match m.errorCodes with
  | some codes => (applyErrorCodes m.travelTimes m.distances 0 codes).map
      (fun (d, x) => ⟨profile, m.timestamp, d, x⟩)
  | none => some ⟨profile, m.timestamp, m.travelTimes, m.distances⟩

def toMatrixDataAll (profiles : List String) : Nat → List ApiMatrix → Option (List MatrixData)
  | _, [] => some []
  | i, m :: rest =>
    match toMatrixData profiles i m, toMatrixDataAll profiles (i + 1) rest with
    | some d, some ds => some (d :: ds)
    | _, _ => none

/-- one matrix with the length check of the error codes in front (`error_codes.len() != capacity`) -/
def codesLengthBad (m : ApiMatrix) : Bool :=
  match m.errorCodes with
  | some codes => codes.length != m.distances.length
  | none => false

def toMatrixDataE (profiles : List String) (idx : Nat) (m : ApiMatrix) : Except ReaderError MatrixData :=
  if codesLengthBad m then .error .errorCodesLength
  else
    match toMatrixData profiles idx m with
    | some d => .ok d
    | none => .error .invalidIndex

/-- `.collect::<Result<Vec<_>, GenericError>>()`: matrices in order, the first error wins -/
def toMatrixDataAllE (profiles : List String) : Nat → List ApiMatrix → Except ReaderError (List MatrixData)
  | _, [] => .ok []
  | i, m :: rest =>
    match toMatrixDataE profiles i m with
    | .error e => .error e
    | .ok d =>
      match toMatrixDataAllE profiles (i + 1) rest with
      | .error e => .error e
      | .ok ds => .ok (d :: ds)

def distinctCount (xs : List Nat) : Nat := xs.eraseDups.length

/-- every named matrix refers to a fleet profile (the hypothesis S28 is about) -/
def namesKnown (profiles : List String) (ms : List ApiMatrix) : Bool :=
  ms.all (fun m => match m.profile with
    | none => true
    | some n => profiles.contains n)

/-- which `create_transport_costs` is modelled: `noMix` is the code as it stands (since 83519b0: fleet profile names
    and other names must not be mixed; a set in which *no* name is a fleet profile is mapped by list position like
    unnamed matrices — documented behaviour, pinned by the repository's `fleet_reader_test` positive case01).
    `positional` is the code before that commit (any name that is no fleet profile is mapped by its list position, S28;
    kept as the regression variant the mutant `C16-q` restores), `strict` the rejected alternative `fixes/S28.patch`. -/
inductive ReaderMode where
  | positional
  | strict
  | noMix
deriving Repr, DecidableEq

/-- number of matrices whose name is a fleet profile -/
def knownCount (profiles : List String) (ms : List ApiMatrix) : Nat :=
  (ms.filter (fun m => match m.profile with
    | some n => profiles.contains n
    | none => false)).length

/-- `create_transport_costs` (without a custom location: `create_matrix_transport_cost`) -/
def createTransportCosts (mode : ReaderMode) (profiles : List String) (ms : List ApiMatrix) :
    Except ReaderError Provider :=
  if !ms.all (fun m => m.profile.isSome) && !ms.all (fun m => m.profile.isNone) then .error .mixedNames
  else if ms.any (fun m => m.profile.isNone) && ms.any (fun m => m.timestamp.isSome) then .error .timedUnnamed
  else if mode == .strict && !namesKnown profiles ms then .error .unknownName
  else
    let np := (profileIndexMap profiles []).length
    if np > ms.length then .error .notEnough
    else
      match toMatrixDataAllE profiles 0 ms with
      | .error e => .error e
      | .ok data =>
        if np != distinctCount (data.map (·.index)) then .error .profileCount
        else if mode == .noMix && knownCount profiles ms != 0 && knownCount profiles ms != ms.length then
          .error .mixedKnownNames
        else
          match build data with
          | .error e => .error (.build e)
          | .ok p => .ok p

/-- which variant of the reader `/repo` currently has (used by the driver only; the theorems cover all three) -/
def readerMode : ReaderMode := .noMix

/-- a vehicle type as far as routing is concerned: `profile.matrix`, `profile.scale` -/
structure ApiVehicle where
  matrix : String
  scale : Option Rat
deriving Repr

/-- `read_fleet`: `Profile::new(index, vehicle.profile.scale)`; `none` = the `unwrap` fails (excluded by E1505) -/
def vehicleProfile (profiles : List String) (v : ApiVehicle) : Option Profile :=
  (profileIndex profiles v.matrix).map (fun i => ⟨i, v.scale.getD 1⟩)

def hasDuplicates : List String → Bool
  | [] => false
  | x :: rest => rest.contains x || hasDuplicates rest

/-- routing validation for a problem whose locations are all index references; `maxIndex` is
    `CoordIndex::max_matrix_index`. Returns the error codes in the order of `validate_routing`. -/
def validateRouting (profiles : List String) (vehicles : List ApiVehicle) (maxIndex : Nat) (ms : List ApiMatrix) :
    List String :=
  (if hasDuplicates profiles then ["E1500"] else []) ++
  (if profiles.isEmpty then ["E1501"] else []) ++
  (if ms.isEmpty then ["E1503"] else []) ++
  (match ms with
   | [] => []
   | m :: _ =>
     let size := sqrtRound m.distances.length
     -- every matrix must hold exactly size * size distances (checked on the API matrix, before error codes apply)
     if maxIndex + 1 == size && ms.all (fun x => x.distances.length == size * size) then [] else ["E1504"]) ++
  (if vehicles.any (fun v => !profiles.contains v.matrix) then ["E1505"] else [])

/-- `CoordIndex::new`: the index given to the location of custom type `unknown` — `(max_matrix_index + 1)²`, the
    first value behind every flat index of the matrix (`max_matrix_index` = the largest referenced index) -/
def customIndex (locs : List Nat) : Nat := (locs.foldl max 0 + 1) * (locs.foldl max 0 + 1)

/-- `UnknownLocationFallback` for a pair with the unknown location on one side: zero duration and distance -/
def unknownFallback : Fallback := some (0, 0)

/-! ## scientific formats: `CoordIndex` + `SingleDataTransportCost` -/

/-- `CoordIndex::collect` over a list of points: first appearance defines the index -/
def collectPoints : List (Int × Int) → List (Int × Int) → List (Int × Int)
  | [], acc => acc
  | p :: rest, acc => if acc.contains p then collectPoints rest acc else collectPoints rest (acc ++ [p])

/-- squared Euclidean distance `x * x + y * y` of `create_transport` -/
def sqDist (a b : Int × Int) : Nat := ((a.1 - b.1) * (a.1 - b.1) + (a.2 - b.2) * (a.2 - b.2)).toNat

/-- `create_transport(is_rounded = true)`: `((x*x + y*y).sqrt()).round()` for every ordered pair, row-major -/
def euclidRounded (pts : List (Int × Int)) : List Nat :=
  pts.flatMap (fun a => pts.map (fun b => sqrtRound (sqDist a b)))

/-! # Independent specification -/

/-- the data a user supplied for profile `p`: all matrices carrying that profile index -/
def supplied (ms : List MatrixData) (p : Nat) : List MatrixData := ms.filter (fun m => m.index == p)

/-- the entry of matrix `m` for the pair `(from, to)` of an `n × n` row-major matrix -/
def entryDur (m : MatrixData) (n frm to : Nat) : Option Int := m.durations[frm * n + to]?
def entryDist (m : MatrixData) (n frm to : Nat) : Option Int := m.distances[frm * n + to]?

/-- keep the candidate with the greater key among those below `k` -/
def stepLeft (k : Nat) (best : Option MatrixData) (m : MatrixData) : Option MatrixData :=
  if m.key < k then
    match best with
    | none => some m
    | some b => if b.key < m.key then some m else some b
  else best

/-- keep the candidate with the smaller key among those above `k` -/
def stepRight (k : Nat) (best : Option MatrixData) (m : MatrixData) : Option MatrixData :=
  if k < m.key then
    match best with
    | none => some m
    | some b => if m.key < b.key then some m else some b
  else best

/-- the supplied matrix with the greatest key below `k` (`none` if there is none) -/
def specLeft (ms : List MatrixData) (k : Nat) : Option MatrixData := ms.foldl (stepLeft k) none

/-- the supplied matrix with the least key above `k` -/
def specRight (ms : List MatrixData) (k : Nat) : Option MatrixData := ms.foldl (stepRight k) none

/-- the supplied matrix valid exactly at key `k` -/
def specAt (ms : List MatrixData) (k : Nat) : Option MatrixData := ms.find? (fun m => m.key == k)

/-- the straight line through `(t₀, v₀)` and `(t₁, v₁)` evaluated at `t` -/
def lineThrough (t0 v0 t1 v1 t : Rat) : Rat := (v0 * (t1 - t) + v1 * (t - t0)) / (t1 - t0)

/-- SPEC of a time-dependent duration before scaling: value at a matrix timestamp, first / last matrix outside the
    covered span, the straight line between the bracketing matrices otherwise -/
def specAwareDur (ms : List MatrixData) (n frm to : Nat) (t : Rat) : Option Rat :=
  let k := keyOfRat t
  match specAt ms k with
  | some m => (entryDur m n frm to).map (fun v => (v : Rat))
  | none =>
    match specLeft ms k, specRight ms k with
    | none, some r => (entryDur r n frm to).map (fun v => (v : Rat))        -- before the first
    | some l, none => (entryDur l n frm to).map (fun v => (v : Rat))        -- after the last
    | some l, some r =>
      match entryDur l n frm to, entryDur r n frm to with
      | some lv, some rv => some (lineThrough (l.timestamp.getD 0 : Int) lv (r.timestamp.getD 0 : Int) rv t)
      | _, _ => none
    | none, none => none

/-- SPEC of a time-dependent distance: as above, but the left bracketing matrix in between -/
def specAwareDist (ms : List MatrixData) (n frm to : Nat) (t : Rat) : Option Rat :=
  let k := keyOfRat t
  match specAt ms k with
  | some m => (entryDist m n frm to).map (fun v => (v : Rat))
  | none =>
    match specLeft ms k, specRight ms k with
    | none, some r => (entryDist r n frm to).map (fun v => (v : Rat))
    | some l, _ => (entryDist l n frm to).map (fun v => (v : Rat))
    | none, none => none

/-- SPEC of a query against the matrices `g` supplied for one profile (`n × n`, either a single untimed matrix or
    several timed ones): durations times the scale, distances unscaled -/
def specGroupDuration (g : List MatrixData) (n : Nat) (scale : Rat) (frm to : Nat) (t : Rat) : Option Rat :=
  match g with
  | [] => none
  | [m] => if m.timestamp.isNone then (entryDur m n frm to).map (fun v => (v : Rat) * scale) else none
  | g => if g.all (fun m => m.timestamp.isSome) then (specAwareDur g n frm to t).map (· * scale) else none

def specGroupDistance (g : List MatrixData) (n : Nat) (frm to : Nat) (t : Rat) : Option Rat :=
  match g with
  | [] => none
  | [m] => if m.timestamp.isNone then (entryDist m n frm to).map (fun v => (v : Rat)) else none
  | g => if g.all (fun m => m.timestamp.isSome) then specAwareDist g n frm to t else none

/-- SPEC of a query against a set `ms` for a vehicle with profile `p` -/
def specDuration (ms : List MatrixData) (n : Nat) (p : Profile) (frm to : Nat) (t : Rat) : Option Rat :=
  specGroupDuration (supplied ms p.index) n p.scale frm to t

def specDistance (ms : List MatrixData) (n : Nat) (p : Profile) (frm to : Nat) (t : Rat) : Option Rat :=
  specGroupDistance (supplied ms p.index) n frm to t

/-- `xs` has no two equal elements -/
def allDistinct : List Nat → Bool
  | [] => true
  | x :: rest => !rest.contains x && allDistinct rest

/-- SPEC: a matrix set is **inconsistent** when it is empty, a matrix is not `n × n` for the common `n`
    (durations or distances), timed and untimed matrices are mixed, or two matrices claim the same
    profile at the same time (for untimed sets: the same profile twice). -/
def inconsistent (ms : List MatrixData) : Bool :=
  match ms with
  | [] => true
  | first :: _ =>
    let n := Nat.sqrt first.durations.length
    ms.any (fun m => m.durations.length != n * n || m.distances.length != n * n) ||
    (ms.any (fun m => m.timestamp.isSome) && ms.any (fun m => m.timestamp.isNone)) ||
    ms.any (fun m => ((supplied ms m.index).filter (fun m' => m'.timestamp == m.timestamp)).length != 1)

/-- SPEC: a matrix set a provider must be built from: `n × n` matrices throughout, and either no timestamps with the
    profile indices `0 .. k-1` once each, or timestamps everywhere with at least two matrices per profile and no two
    of them at the same `u64` key -/
def wellFormed (ms : List MatrixData) (n : Nat) : Bool :=
  !ms.isEmpty &&
  ms.all (fun m => m.durations.length == n * n && m.distances.length == n * n) &&
  ((ms.all (fun m => m.timestamp.isNone) &&
      (List.range ms.length).all (fun i => (supplied ms i).length == 1)) ||
   (ms.all (fun m => m.timestamp.isSome) &&
      ms.all (fun m => (supplied ms m.index).length != 1 &&
        ((supplied ms m.index).filter (fun x => x.key == m.key)).length == 1)))

/-- SPEC for the reader: the matrices **named** `name` (for a set of unnamed matrices: the one at the position
    of the profile in `fleet.profiles`), as matrix data with unreachable entries replaced by −1 -/
def unreachableApplied (m : ApiMatrix) : List Int × List Int :=
  match m.errorCodes with
  | none => (m.travelTimes, m.distances)
  | some codes =>
    ((List.range codes.length).map (fun i => if codes.getD i 0 > 0 then -1 else m.travelTimes.getD i 0),
     (List.range codes.length).map (fun i => if codes.getD i 0 > 0 then -1 else m.distances.getD i 0))

/-- a matrix of the API as routing data for profile index `idx` -/
def asSupplied (idx : Nat) (m : ApiMatrix) : MatrixData :=
  ⟨idx, m.timestamp, (unreachableApplied m).1, (unreachableApplied m).2⟩

def namedFor (profiles : List String) (ms : List ApiMatrix) (name : String) : List MatrixData :=
  let idx := (profileIndex profiles name).getD 0
  if ms.all (fun m => m.profile.isNone) then
    match profileIndex profiles name with
    | some i => (ms[i]?).toList.map (asSupplied idx)
    | none => []
  else
    (ms.filter (fun m => m.profile == some name)).map (asSupplied idx)

/-- SPEC of a query through `read_pragmatic` for a vehicle routed on `v.matrix` -/
def specReaderDuration (profiles : List String) (ms : List ApiMatrix) (n : Nat) (v : ApiVehicle)
    (frm to : Nat) (t : Rat) : Option Rat :=
  specGroupDuration (namedFor profiles ms v.matrix) n (v.scale.getD 1) frm to t

def specReaderDistance (profiles : List String) (ms : List ApiMatrix) (n : Nat) (v : ApiVehicle)
    (frm to : Nat) (t : Rat) : Option Rat :=
  specGroupDistance (namedFor profiles ms v.matrix) n frm to t

end C16
