/-!
# C17 — models of the embedded optimisation / clustering algorithms

Mirrors (vrp-core):
* `src/algorithms/lkh/mod.rs`   `make_edge`, `make_edge_set` (a `BTreeSet<(usize,usize)>`),
* `src/algorithms/lkh/tour.rs`  `Tour::new` (edge set of the closed tour), `Tour::try_path`
  (edge-set surgery `edges − broken + joined`, successor walk from the first node of the path,
  Hamiltonian-cycle validation),
* `src/algorithms/lkh/kopt.rs`  `KOpt::optimize` (the `while let Some(p) = improve(last)` loop; `improve`
  itself — the neighbour search over a `HashMap` — is abstracted by its contract),
* `src/algorithms/clustering/dbscan.rs`  `create_clusters` (line by line: growing `neighbors` vector with an
  index, the `neighbors_index` set, the `HashMap` of point types as an association list),
* `src/algorithms/clustering/kmedoids.rs` `assign_points_to_medoids`, `update_medoids`, the outer loop of
  `KMedoids::calculate` with its two return paths, `create_hierarchical_kmedoids` (scan over tiers with
  `create_kmedoids(.., 2, ..)` as a parameter).

Nodes and points are `Nat`, costs and distances are `Int` (the harness uses integer valued `f64`, for which
`+ - < total_cmp` are exact).  The **independent specifications** (Bool valued, evaluated by the driver on the
implementation's own output) are in the `Spec` sections.
-/
namespace C17

/-- no element occurs twice -/
def nodupB : List Nat → Bool
  | [] => true
  | x :: xs => !xs.contains x && nodupB xs

/-! ## LKH -/
namespace Lkh

abbrev Edge := Nat × Nat

/-- `make_edge` -/
def mkEdge (i j : Nat) : Edge := if i < j then (i, j) else (j, i)

/-- the order of `BTreeSet<(usize, usize)>` -/
def edgeLt (a b : Edge) : Bool := a.1 < b.1 || (a.1 == b.1 && a.2 < b.2)

/-- position-preserving insert into a sorted list -/
def insSorted (e : Edge) : List Edge → List Edge
  | [] => [e]
  | x :: xs => if edgeLt e x then e :: x :: xs else x :: insSorted e xs

/-- `BTreeSet::insert` on the sorted duplicate-free list of the set's elements -/
def ins (e : Edge) (s : List Edge) : List Edge := if s.contains e then s else insSorted e s

/-- `iter.collect::<BTreeSet<_>>()` -/
def mkSet (es : List Edge) : List Edge := es.foldl (fun s e => ins e s) []

/-- `path.windows(2)` -/
def windows2 : List Nat → List (Nat × Nat)
  | a :: b :: r => (a, b) :: windows2 (b :: r)
  | _ => []

/-- `path.windows(2) ++ path.last().zip(path.first())`: the directed legs of the closed tour -/
def tourPairs (path : List Nat) : List (Nat × Nat) :=
  windows2 path ++ (match path.getLast?, path.head? with
    | some l, some f => [(l, f)]
    | _, _ => [])

/-- the legs of the closed tour as normalised edges (with repetitions, in tour order) -/
def closedEdges (path : List Nat) : List Edge := (tourPairs path).map (fun p => mkEdge p.1 p.2)

/-- `Tour::new(path).edges` -/
def tourEdges (path : List Nat) : List Edge := mkSet (closedEdges path)

def touches (n : Nat) (e : Edge) : Bool := e.1 == n || e.2 == n
def other (n : Nat) (e : Edge) : Nat := if e.1 == n then e.2 else e.1

/-- the `successors: HashMap<Node, Node>` as an association list (one entry per key) -/
abbrev SuccMap := List (Nat × Nat)

/-- `HashMap::insert` (overwrites the value of an existing key) -/
def smInsert (m : SuccMap) (k v : Nat) : SuccMap :=
  if m.any (fun kv => kv.1 == k) then m.map (fun kv => if kv.1 == k then (k, v) else kv) else m ++ [(k, v)]

/-- `HashMap::get` -/
def smGet (m : SuccMap) (k : Nat) : Option Nat := (m.find? (fun kv => kv.1 == k)).map (·.2)

/-- the `while !edges.is_empty()` loop of `try_path`: take the first edge (in set order) that touches the
    current node, record the successor, remove the edge, move on.  `fuel` = number of edges (every
    iteration removes one). -/
def walk : Nat → List Edge → Nat → SuccMap → SuccMap
  | 0, _, _, m => m
  | f + 1, es, node, m =>
    match es.find? (touches node) with
    | none => m
    | some e => walk f (es.erase e) (other node e) (smInsert m node (other node e))

/-- `std::iter::successors(Some(start), …)` with the `visited` set: `acc` is both the produced prefix and
    the visited set.  With `fuel = n` the result has length `n` iff the real iterator yields exactly `n`
    nodes (a longer real sequence gives `n + 1` here), which is all `try_path` looks at. -/
def follow (m : SuccMap) : Nat → Nat → List Nat → List Nat
  | 0, _, acc => acc
  | f + 1, node, acc =>
    match smGet m node with
    | none => acc
    | some next => if acc.contains next then acc else follow m f next (acc ++ [next])

/-- the surgered edge set `self.edges.difference(broken).chain(joined).collect::<BTreeSet>()` -/
def surgery (path : List Nat) (broken joined : List Edge) : List Edge :=
  mkSet ((tourEdges path).filter (fun e => !broken.contains e) ++ joined)

/-- `Tour::new(path).try_path(broken, joined)` (both arguments already normalised edge sets) -/
def tryPath (path : List Nat) (broken joined : List Edge) : Option (List Nat) :=
  let n := path.length
  let edges := surgery path broken joined
  if edges.length < n then none
  else match path.head? with
    | none => none
    | some start =>
      let m := walk edges.length edges start []
      if m.length != n then none
      else
        let t := follow m n start [start]
        if t.length == n then some t else none

/-- the hook `verif_try_path(path, broken, joined)`: both edge lists go through `make_edge_set` -/
def tryPathHook (path : List Nat) (broken joined : List (Nat × Nat)) : Option (List Nat) :=
  tryPath path (mkSet (broken.map (fun p => mkEdge p.1 p.2))) (mkSet (joined.map (fun p => mkEdge p.1 p.2)))

/-- `KOpt::optimize`: `solutions = [path]; while let Some(p) = improve(solutions.last()) { solutions = [p] }`;
    the returned vector is `[result]`.  `none` = the loop did not finish within `fuel` rounds. -/
def optimize (improve : List Nat → Option (List Nat)) : Nat → List Nat → Option (List Nat)
  | 0, _ => none
  | f + 1, p =>
    match improve p with
    | none => some p
    | some q => optimize improve f q

/-! ### Spec (LKH) -/

/-- cost of the closed tour `p₀ → p₁ → … → pₙ₋₁ → p₀` -/
def closedCost (c : Nat → Nat → Int) (p : List Nat) : Int := ((tourPairs p).map (fun e => c e.1 e.2)).sum

def edgeSum (c : Nat → Nat → Int) (es : List Edge) : Int := (es.map (fun e => c e.1 e.2)).sum

/-- `out` is a rearrangement of `inp` -/
def isPermOf (out inp : List Nat) : Bool :=
  out.length == inp.length && inp.all (fun x => out.count x == inp.count x) && out.all (fun x => inp.contains x)

def sameStart (out inp : List Nat) : Bool := out.head? == inp.head?

/-- every leg of the open path `out` is an edge of the surgered set -/
def legsIn (out : List Nat) (es : List Edge) : Bool := (windows2 out).all (fun p => es.contains (mkEdge p.1 p.2))

/-- the closed tour `out` uses exactly the edges `es` (as multisets) -/
def usesExactly (out : List Nat) (es : List Edge) : Bool :=
  let ce := closedEdges out
  ce.length == es.length && es.all (fun e => ce.count e == es.count e) && ce.all (fun e => es.contains e)

/-- no loops, and no node of the path has more than two incident edges in `es` (a k-opt move built from an
    alternating chain of broken and joined edges keeps every degree at exactly two) -/
def degOk (path : List Nat) (es : List Edge) : Bool :=
  es.all (fun e => e.1 < e.2) && path.all (fun v => (es.filter (touches v)).length ≤ 2)

/-- side conditions of the exact gain accounting of a k-opt move on `path` -/
def moveOk (path : List Nat) (broken joined : List Edge) : Bool :=
  let te := tourEdges path
  path.length ≥ 3 && broken.all (fun e => te.contains e) &&
    joined.all (fun e => !(te.contains e) || broken.contains e)

end Lkh

/-! ## DBSCAN -/
namespace Dbscan

inductive PT | noise | clustered deriving DecidableEq, Repr

/-- `point_types: HashMap<&T, PointType>`; `insert` = cons (the newest entry shadows older ones) -/
abbrev Types := List (Nat × PT)
def getT (ts : Types) (p : Nat) : Option PT := (ts.find? (fun e => e.1 == p)).map (·.2)

/-- the `while index < neighbors.len()` loop. `nbs` = `neighbors`, `nbIdx` = `neighbors_index`,
    `cl` = `cluster`. `none` = out of fuel (never happens with `fuelBound`, see `fuel_sufficient`). -/
def expand (nb : Nat → List Nat) (minPts : Nat) :
    Nat → List Nat → Nat → List Nat → Types → List Nat → Option (Types × List Nat)
  | 0, _, _, _, _, _ => none
  | fuel + 1, nbs, idx, nbIdx, ts, cl =>
    match nbs[idx]? with
    | none => some (ts, cl)
    | some p =>
      let pt := getT ts p
      let grown : List Nat × List Nat :=
        if pt.isNone then
          let other := nb p
          if minPts ≤ other.length then (nbs ++ other.filter (fun q => !nbIdx.contains q), nbIdx ++ other)
          else (nbs, nbIdx)
        else (nbs, nbIdx)
      let upd : Types × List Nat :=
        if pt = some .clustered then (ts, cl) else ((p, .clustered) :: ts, cl ++ [p])
      expand nb minPts fuel grown.1 (idx + 1) grown.2 upd.1 upd.2

structure St where
  types : Types
  clusters : List (List Nat)

/-- body of `for point in points` -/
def visit (nb : Nat → List Nat) (minPts fuel : Nat) (s : St) (p : Nat) : Option St :=
  if (getT s.types p).isSome then some s
  else
    let nbs := nb p
    if nbs.length < minPts then some { s with types := (p, .noise) :: s.types }
    else
      match expand nb minPts fuel nbs 0 nbs ((p, .clustered) :: s.types) [p] with
      | none => none
      | some r => some { types := r.1, clusters := s.clusters ++ [r.2] }

def run (nb : Nat → List Nat) (minPts fuel : Nat) : St → List Nat → Option St
  | s, [] => some s
  | s, p :: ps =>
    match visit nb minPts fuel s p with
    | none => none
    | some s' => run nb minPts fuel s' ps

/-- `create_clusters(points, min_points, neighborhood_fn)` -/
def createClusters (nb : Nat → List Nat) (minPts fuel : Nat) (points : List Nat) : Option (List (List Nat)) :=
  (run nb minPts fuel { types := [], clusters := [] } points).map (·.clusters)

/-- enough fuel for every cluster expansion when all neighbourhoods stay inside `univ` -/
def fuelBound (nb : Nat → List Nat) (univ : List Nat) : Nat := (univ.map (fun q => (nb q).length)).sum + 1

/-! ### Spec (DBSCAN) -/

def core (nb : Nat → List Nat) (minPts : Nat) (p : Nat) : Bool := minPts ≤ (nb p).length

/-- append the elements of `xs` that are not yet present -/
def addNew (acc xs : List Nat) : List Nat := xs.foldl (fun a x => if a.contains x then a else a ++ [x]) acc

/-- one round of the closure: add the neighbours of every core point found so far -/
def reachStep (nb : Nat → List Nat) (minPts : Nat) (s : List Nat) : List Nat :=
  s.foldl (fun a p => if core nb minPts p then addNew a (nb p) else a) s

def reachSet (nb : Nat → List Nat) (minPts : Nat) : Nat → List Nat → List Nat
  | 0, s => s
  | r + 1, s => reachSet nb minPts r (reachStep nb minPts s)

/-- pairwise disjoint clusters, no point twice -/
def specDisjoint (cs : List (List Nat)) : Bool := nodupB cs.flatten

/-- every cluster is grown from a core point of the input -/
def specSeedCore (nb : Nat → List Nat) (minPts : Nat) (points : List Nat) (cs : List (List Nat)) : Bool :=
  cs.all (fun c => match c.head? with
    | none => false
    | some s => core nb minPts s && points.contains s)

/-- members are density-reachable from the seed (`rounds` ≥ number of points reaches the fixpoint) -/
def specReachable (nb : Nat → List Nat) (minPts rounds : Nat) (cs : List (List Nat)) : Bool :=
  cs.all (fun c => match c.head? with
    | none => false
    | some s => let r := reachSet nb minPts rounds [s]; c.all (fun q => r.contains q))

/-- no core point of the input is left out; and the neighbours of every clustered core point are clustered -/
def specNoCoreLeft (nb : Nat → List Nat) (minPts : Nat) (points : List Nat) (cs : List (List Nat)) : Bool :=
  let all := cs.flatten
  points.all (fun p => !core nb minPts p || all.contains p) &&
    all.all (fun p => !core nb minPts p || (nb p).all (fun q => all.contains q))

end Dbscan

/-! ## k-medoids -/
namespace KMed

/-- `HashMap<P, Vec<P>>` as an association list in insertion order of the keys -/
abbrev Clusters := List (Nat × List Nat)

/-- `medoids.iter().min_by(|m1, m2| d(point, m1).total_cmp(&d(point, m2)))`: the FIRST minimal element -/
def nearest (d : Nat → Nat → Int) (p : Nat) : List Nat → Option Nat
  | [] => none
  | m :: ms => some (ms.foldl (fun best m' => if d p m' < d p best then m' else best) m)

/-- `clusters.entry(m).or_default().push(p)` -/
def pushTo (cl : Clusters) (m p : Nat) : Clusters :=
  if cl.any (fun kv => kv.1 == m) then cl.map (fun kv => if kv.1 == m then (kv.1, kv.2 ++ [p]) else kv)
  else cl ++ [(m, [p])]

/-- `assign_points_to_medoids` (the fold over the data slice; rayon's fold/reduce over a slice keeps the
    slice order inside every value vector). `none` = the `expect("cannot find nearest medoid")` panic. -/
def assignFrom (d : Nat → Nat → Int) (medoids : List Nat) : Clusters → List Nat → Option Clusters
  | cl, [] => some cl
  | cl, p :: ps =>
    match nearest d p medoids with
    | none => none
    | some m => assignFrom d medoids (pushTo cl m p) ps

def assign (d : Nat → Nat → Int) (data medoids : List Nat) : Option Clusters := assignFrom d medoids [] data

/-- cost of `p` as the medoid of `pts`: `points.iter().map(|point| d(point, p)).sum()` -/
def costOf (d : Nat → Nat → Int) (pts : List Nat) (p : Nat) : Int := (pts.map (fun x => d x p)).sum

/-- `points.iter().min_by(cost)`: first minimal -/
def medoidOf (d : Nat → Nat → Int) (pts : List Nat) : Option Nat :=
  match pts with
  | [] => none
  | p :: ps => some (ps.foldl (fun best q => if costOf d pts q < costOf d pts best then q else best) p)

/-- `update_medoids` in the association list's order (the real order is the `HashMap`'s iteration order:
    see `ord` in `calcLoop`) -/
def updateMedoids (d : Nat → Nat → Int) (cl : Clusters) : List Nat := cl.filterMap (fun kv => medoidOf d kv.2)

/-- the `for _ in 0..max_iterations` loop of `KMedoids::calculate` and the final assignment after it.
    `ord it l` is the order in which the `HashMap` of iteration `it` happened to yield the new medoids. -/
def calcLoop (d : Nat → Nat → Int) (data : List Nat) (ord : Nat → List Nat → List Nat) :
    Nat → List Nat → Option Clusters
  | 0, medoids => assign d data medoids
  | it + 1, medoids =>
    match assign d data medoids with
    | none => none
    | some cl =>
      let new := ord it (updateMedoids d cl)
      if new == medoids then some cl else calcLoop d data ord it new

/-- `create_kmedoids` given the outcome of `initialize_medoids` (traced, not modelled) -/
def createKMedoids (d : Nat → Nat → Int) (data : List Nat) (init : Option (List Nat))
    (ord : Nat → List Nat → List Nat) : Option Clusters :=
  if data.isEmpty then some []
  else match init with
    | none => some []
    | some ms => calcLoop d data ord 200 ms

/-- `HashMap::insert` -/
def cmInsert (cl : Clusters) (k : Nat) (v : List Nat) : Clusters :=
  if cl.any (fun kv => kv.1 == k) then cl.map (fun kv => if kv.1 == k then (k, v) else kv) else cl ++ [(k, v)]

/-- `HashMap::extend` -/
def cmExtend (cl : Clusters) (new : Clusters) : Clusters := new.foldl (fun a kv => cmInsert a kv.1 kv.2) cl

/-- `medoid.clone().or_else(|| cluster_data.first().cloned())` -/
def keyOf (medoid : Option Nat) (data : List Nat) : Option Nat :=
  match medoid with
  | some m => some m
  | none => data.head?

/-- one pass of the `scan` closure of `create_hierarchical_kmedoids` over `current_clusters`;
    `split data` stands for `create_kmedoids(&data, 2, distance_fn)`.
    Returns `(current_tier_clusters, next_tier_clusters)`. -/
def hierStep (split : List Nat → Clusters) :
    List (Option Nat × List Nat) → Clusters × List (Option Nat × List Nat) → Clusters × List (Option Nat × List Nat)
  | [], acc => acc
  | (medoid, data) :: rest, (tier, next) =>
    if data.length < 2 then
      match keyOf medoid data with
      | none => hierStep split rest (tier, next)
      | some key => hierStep split rest (cmInsert tier key data, next ++ [(medoid, data)])
    else
      let nc := split data
      hierStep split rest (cmExtend tier nc, next ++ nc.map (fun kv => (some kv.1, kv.2)))

/-- `(0..max_tiers).scan(..).take_while(any cluster.len() > 2).collect()`; `split i data` stands for the result
    of the call `create_kmedoids(&data, 2, distance_fn)` made while building tier `i` (the calls are not a
    function of the data alone: start medoids and hash-map orders are traced, not modelled) -/
def hier (split : Nat → List Nat → Clusters) : Nat → Nat → List (Option Nat × List Nat) → List Clusters
  | 0, _, _ => []
  | t + 1, i, cur =>
    let r := hierStep (split i) cur ([], [])
    if r.1.isEmpty then []
    else if r.1.any (fun kv => kv.2.length > 2) then r.1 :: hier split t (i + 1) r.2
    else []

/-- `create_hierarchical_kmedoids(points, max_tiers, d)` -/
def createHier (split : Nat → List Nat → Clusters) (points : List Nat) (maxTiers : Nat) : List Clusters :=
  if points.isEmpty then [] else hier split maxTiers 0 [(none, points)]

/-! ### Spec (k-medoids) -/

/-- the clusters are a partition of `data` (as multisets) with pairwise different keys and no empty cluster -/
def specPartition (data : List Nat) (cl : Clusters) : Bool :=
  let all := cl.flatMap (·.2)
  all.length == data.length && data.all (fun x => all.count x == data.count x) &&
    all.all (fun x => data.contains x) &&
    nodupB (cl.map (·.1)) &&
    cl.all (fun kv => !kv.2.isEmpty)

/-- no point is closer to another cluster's medoid than to its own -/
def specNearest (d : Nat → Nat → Int) (cl : Clusters) : Bool :=
  cl.all (fun kv => kv.2.all (fun p => cl.all (fun kv' => d p kv.1 ≤ d p kv'.1)))

/-- medoids are data points -/
def specKeysInData (data : List Nat) (cl : Clusters) : Bool := cl.all (fun kv => data.contains kv.1)

/-- every medoid belongs to its own cluster (needs `d x x = 0 < d x y`) -/
def specKeyInOwn (cl : Clusters) : Bool := cl.all (fun kv => kv.2.contains kv.1)

/-- `child` lies inside `parent` -/
def inside (child parent : List Nat) : Bool := child.all (fun x => parent.contains x)

/-- per-split contract of one tier against the clusters of the previous tier (`parents`): every cluster lies
    inside one parent, and inside each parent the sibling clusters satisfy the nearest-medoid rule, are at
    most two, and have medoids taken from the parent unless the parent was propagated unsplit -/
def specTier (d : Nat → Nat → Int) (parents : List (List Nat)) (tier : Clusters) : Bool :=
  tier.all (fun kv => parents.any (fun par => inside kv.2 par)) &&
  parents.all (fun par =>
    let sibs := tier.filter (fun kv => inside kv.2 par)
    specNearest d sibs && sibs.length ≤ 2 && specPartition par sibs)

/-- all tiers of a hierarchy -/
def specHier (d : Nat → Nat → Int) (points : List Nat) : List (List Nat) → List Clusters → Bool
  | _, [] => true
  | parents, tier :: rest =>
    specPartition points tier && specTier d parents tier && specHier d points (tier.map (·.2)) rest

end KMed
end C17
