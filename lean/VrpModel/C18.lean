/-!
# C18 — model of the adaptive operator selection and of the termination arithmetic

Mirrors (rosomaxa crate)
* `algorithms/rl/slot_machine.rs`   `SlotMachine::{new, update, sample}`,
* `utils/random.rs`                 `random_argmax`, `DefaultRandom::weighted` (random source = explicit oracle),
* `hyper/dynamic_selective.rs`      `get_relative_distance`, `estimate_distance_reward`,
                                    `estimate_reward_perf_multiplier`,
* `termination/max_generation.rs`   `MaxGeneration::{is_termination, estimate}`,
* `termination/mod.rs`              `CompositeTermination::{is_termination, estimate}`,
* `termination/target_proximity.rs` + `algorithms/math/distance.rs` `relative_distance`,
* `termination/min_variation.rs`    `update_and_check` (sample mode ring buffer, period mode window), `check_threshold`,
* `algorithms/math/statistics.rs`   `get_mean_slice`, `get_variance_mean`, `get_cv`,
* `algorithms/math/remedian.rs`     `Remedian::{new, add_observation, approx_median}`,
* `utils/noise.rs`                  `Noise::generate`,
* `utils/iterators.rs`              `SelectionSamplingIterator`, `create_range_sampling_iter`.

The Rust code computes in `f64`; the model computes in exact rationals (core `Rat`, no Mathlib). What the
model cannot exhibit: rounding, overflow to `±∞`, `NaN`. A square root is never taken in the model: the two
places where the code takes one (`get_cv`, `relative_distance`) are only used in comparisons, which the model
decides on the squares (with the sign analysis written out).

The section `F64` (decode a binary64 pattern into a rational, encode a rational as the nearest binary64) is
used by the driver only: the harness prints every float as its bit pattern.
-/
namespace C18

/-! ### small helpers (kept as `if`s over the core order of `Rat` so that proofs can `split`) -/

def absR (x : Rat) : Rat := if x < 0 then -x else x
/-- `f64::max` on non-NaN values -/
def maxR (a b : Rat) : Rat := if a ≤ b then b else a
/-- `f64::min` on non-NaN values -/
def minR (a b : Rat) : Rat := if a ≤ b then a else b

/-! ### binary64 patterns <-> rationals (driver glue) -/
namespace F64

def pow2 (k : Int) : Rat := if 0 ≤ k then ((2 ^ k.toNat : Nat) : Rat) else 1 / ((2 ^ (-k).toNat : Nat) : Rat)

/-- value of a finite binary64 pattern; `none` for `±∞` and NaN -/
def toRat? (b : UInt64) : Option Rat :=
  let n : Nat := b.toNat
  let neg : Bool := decide (n / 2 ^ 63 = 1)
  let e : Nat := (n / 2 ^ 52) % 2048
  let m : Nat := n % 2 ^ 52
  if e = 2047 then none
  else
    let mag : Rat := if e = 0 then (m : Rat) * pow2 (-1074) else ((2 ^ 52 + m : Nat) : Rat) * pow2 ((e : Int) - 1075)
    some (if neg then -mag else mag)

def isNaN (b : UInt64) : Bool := (b.toNat / 2 ^ 52) % 2048 = 2047 && b.toNat % 2 ^ 52 ≠ 0
def isFinite (b : UInt64) : Bool := (b.toNat / 2 ^ 52) % 2048 ≠ 2047

/-- round a non-negative rational to the nearest natural, ties to even -/
def roundHalfEven (x : Rat) : Nat :=
  let n := x.num.toNat
  let d := x.den
  let fl := n / d
  let r2 := 2 * (n % d)
  if r2 < d then fl else if d < r2 then fl + 1 else if fl % 2 = 0 then fl else fl + 1

/-- nearest binary64 (ties to even) of a rational and whether the rational is represented exactly;
    overflow gives the pattern of `±∞` (never exact) -/
def ofRat (q : Rat) : UInt64 × Bool :=
  if q = 0 then (0, true)
  else
    let neg := decide (q < 0)
    let a := if q < 0 then -q else q
    let e0 : Int := (Nat.log2 a.num.toNat : Int) - (Nat.log2 a.den : Int)
    let e : Int := if pow2 e0 ≤ a then e0 else e0 - 1
    let eq : Int := if e < -1022 then -1022 else e
    let scaled := a / pow2 (eq - 52)
    let m := roundHalfEven scaled
    let exact := scaled.den = 1
    let body : Nat := (eq + 1022).toNat * 2 ^ 52 + m
    let sign : Nat := if neg then 2 ^ 63 else 0
    if body ≥ 2047 * 2 ^ 52 then (UInt64.ofNat (sign + 2047 * 2 ^ 52), false)
    else (UInt64.ofNat (sign + body), exact)

def isExact (q : Rat) : Bool := (ofRat q).2
def allExact (qs : List Rat) : Bool := qs.all isExact

/-- the integer whose order is `f64::total_cmp` on the bit patterns -/
def totalKey (b : UInt64) : Int :=
  if b.toNat < 2 ^ 63 then (b.toNat : Int) else -((b.toNat : Int) - 2 ^ 63) - 1

end F64

/-! ### `SlotMachine` (slot_machine.rs) -/

structure Slot where
  n : Nat
  alpha : Rat
  beta : Rat
  mu : Rat
  v : Rat
deriving Repr

/-- `SlotMachine::new(prior_mean, …)` -/
def Slot.init (prior : Rat) : Slot := { n := 0, alpha := 1, beta := 10, mu := prior, v := 10 / (1 + 1) }

/-- `SlotMachine::update` (`n = 1.`, `v = self.n as Float`; `mu` uses the incremented `n`) -/
def Slot.update (s : Slot) (r : Rat) : Slot :=
  let v : Rat := s.n
  let alpha := s.alpha + 1 / 2
  let beta := s.beta + (1 * v / (v + 1)) * ((r - s.mu) * (r - s.mu)) / 2
  { n := s.n + 1, alpha := alpha, beta := beta, v := beta / (alpha + 1),
    mu := s.mu + (r - s.mu) / ((s.n + 1 : Nat) : Rat) }

/-- the state after a reward history -/
def Slot.run (prior : Rat) (rs : List Rat) : Slot := rs.foldl Slot.update (Slot.init prior)

/-- what `SlotMachine::sample` hands to the sampler: `gamma(shape, scale)`, then `normal(mean, sqrt variance)` -/
structure SampleCall where
  shape : Rat
  scale : Rat
  mean : Rat
  variance : Rat
deriving Repr

/-- `SlotMachine::sample`; `g` is what `sampler.gamma(alpha, 1/beta)` returned (random oracle).
    The guard replaces a zero precision (and any precision of an untried slot) by `0.001`. -/
def Slot.sample (s : Slot) (g : Rat) : SampleCall :=
  let precision : Rat := if g = 0 ∨ s.n = 0 then 1 / 1000 else g
  { shape := s.alpha, scale := 1 / s.beta, mean := s.mu, variance := 1 / precision }

/-- intermediate values of `update` in the evaluation order of the Rust expression, per updated field
    (`alpha`, `beta`, `mu`, `v`); the driver uses them to know where `f64` arithmetic was exact -/
def Slot.updateTrace (s : Slot) (r : Rat) : List Rat × List Rat × List Rat × List Rat :=
  let v : Rat := s.n
  let t2 := v + 1
  let t3 := v / t2
  let t4 := r - s.mu
  let t5 := t4 * t4
  let t6 := t3 * t5
  let t7 := t6 / 2
  let s' := s.update r
  ([s'.alpha], [t2, t3, t4, t5, t6, t7, s'.beta], [t4, t4 / ((s.n + 1 : Nat) : Rat), s'.mu], [s'.alpha + 1, s'.v])

/-- SPEC: `x` lies in the hull of the values of `rs` -/
def inHull (rs : List Rat) (x : Rat) : Bool := rs.any (fun r => decide (r ≤ x)) && rs.any (fun r => decide (x ≤ r))

/-- SPEC: arithmetic mean -/
def meanOf (rs : List Rat) : Rat := rs.sum / (rs.length : Rat)

/-- SPEC: sum of squared deviations from the arithmetic mean -/
def sqDev (rs : List Rat) : Rat := (rs.map (fun r => (r - meanOf rs) * (r - meanOf rs))).sum

/-! ### `random_argmax`, `weighted` (random.rs) -/

/-- fold state of `Iterator::max_by` inside `random_argmax`: current best `(idx, key)` and the closure's `count` -/
structure AmState where
  idx : Nat
  key : Int
  count : Nat
deriving Repr

/-- one comparison `compare(best, new)` of `random_argmax`; `draw i` is the raw random number used at element `i`,
    `gen_range(0..=count)` is `draw i % (count + 1)`. `max_by` keeps the new element unless the result is `Greater`. -/
def amStep (draw : Nat → Nat) (st : AmState) (i : Nat) (k : Int) : AmState :=
  match compare st.key k with
  | .eq =>
    let c := st.count + 1
    if draw i % (c + 1) = 0 then { idx := i, key := k, count := c } else { st with count := c }
  | .lt => { idx := i, key := k, count := 0 }
  | .gt => st

def amFold (draw : Nat → Nat) : AmState → Nat → List Int → AmState
  | st, _, [] => st
  | st, i, k :: ks => amFold draw (amStep draw st i k) (i + 1) ks

/-- `random_argmax(values, random)` on the `total_cmp` keys of the values -/
def randomArgmax (draw : Nat → Nat) : List Int → Option Nat
  | [] => none
  | k :: ks => some (amFold draw { idx := 0, key := k, count := 0 } 1 ks).idx

/-- SPEC: the indices of the maximal elements -/
def argmaxSet (ks : List Int) : List Nat :=
  (List.range ks.length).filter (fun i => ks.all (fun k => decide (k ≤ ks.getD i 0)))

/-- key of `-ln(u) / weight`: `none` = `+∞` (weight 0) -/
def wKey (draw : Nat → Rat) (i w : Nat) : Option Rat := if w = 0 then none else some (draw i / (w : Rat))

/-- `a > b` for keys (`partial_cmp == Greater`) -/
def keyGt : Option Rat → Option Rat → Bool
  | none, some _ => true
  | some a, some b => decide (b < a)
  | _, none => false

/-- `Iterator::min_by`: the new element wins only when the current best is strictly greater -/
def wFold (draw : Nat → Rat) : Nat × Option Rat → Nat → List Nat → Nat
  | best, _, [] => best.1
  | best, i, w :: ws =>
    let k := wKey draw i w
    wFold draw (if keyGt best.2 k then (i, k) else best) (i + 1) ws

/-- `DefaultRandom::weighted(weights)`; `draw i` = the exponential draw `-ln(uniform_real(0,1))` for index `i`
    (a positive number). `none` = the `unwrap()` of an empty `min_by` (panic). -/
def weighted (draw : Nat → Rat) : List Nat → Option Nat
  | [] => none
  | w :: ws => some (wFold draw (0, wKey draw 0 w) 1 ws)

/-- SPEC: indices that can be returned: positive weights, or index 0 when every weight is zero -/
def weightedSupport (ws : List Nat) : List Nat :=
  let pos := (List.range ws.length).filter (fun i => ws.getD i 0 > 0)
  if pos.isEmpty then (if ws.isEmpty then [] else [0]) else pos

/-! ### reward arithmetic (dynamic_selective.rs) -/

/-- lexicographic minimisation order on fitness vectors (the harness objective) -/
def lexOrder : List Rat → List Rat → Ordering
  | a :: as, b :: bs => if a < b then .lt else if b < a then .gt else lexOrder as bs
  | _, _ => .eq

/-- first index where the zipped fitness values differ -/
def firstDiff : List Rat → List Rat → Option Nat
  | a :: as, b :: bs => if a ≠ b then some 0 else (firstDiff as bs).map (· + 1)
  | _, _ => none

/-- `|a - b| / max(|a|, |b|)` -/
def relChange (a b : Rat) : Rat := absR (a - b) / maxR (absR a) (absR b)

/-- `get_relative_distance(objective, a, b)`, `ord = objective.total_order(a, b)` -/
def relDistance (ord : Ordering) (a b : List Rat) : Rat :=
  match ord with
  | .eq => 0
  | _ =>
    let sign : Rat := if ord = .lt then 1 else -1
    match firstDiff a b with
    | none => 0
    | some idx =>
      let amplifier : Rat := ((a.length - idx : Nat) : Rat)
      relChange (a.getD idx 0) (b.getD idx 0) * sign * amplifier

/-- `estimate_distance_reward`: `best = heuristic_ctx.ranked().next()`; `total_cmp(&0.)` on non-zero or `+0.` values -/
def distanceReward (order : List Rat → List Rat → Ordering) (best : Option (List Rat)) (initial new : List Rat) : Rat :=
  match best with
  | none => 0
  | some bestKnown =>
    let dI := relDistance (order new initial) new initial
    let dB := relDistance (order new bestKnown) new bestKnown
    if 0 < dI ∧ 0 < dB then (dI + 1) + (dB + 1) * 2
    else if 0 < dI then (dI + 1) * (1 / 20)
    else 0

/-- `estimate_reward_perf_multiplier` (`ratio` = `improvement_1000_ratio`) -/
def perfMultiplier (median : Option Nat) (duration : Nat) (ratio : Rat) (hasImprovement : Bool) : Rat :=
  let medianRatio : Rat := match median with
    | none => 1
    | some m => if m = 0 then 1 else (duration : Rat) / (m : Rat)
  let clamped := minR (maxR medianRatio (1 / 2)) 2
  let m : Rat := if clamped < 3 / 4 then 3 / 2 else if clamped < 1 then 5 / 4 else if 3 / 2 < clamped then 3 / 4 else 1
  let i : Rat := if hasImprovement ∧ ratio < 1 / 20 then 2 else if hasImprovement ∧ 3 / 20 < ratio then 3 / 4 else 1
  m * i

/-- intermediates of `get_relative_distance` / `estimate_distance_reward` for the exactness bookkeeping -/
def relDistanceTrace (ord : Ordering) (a b : List Rat) : List Rat :=
  match ord, firstDiff a b with
  | .eq, _ => []
  | _, none => []
  | _, some idx =>
    let x := a.getD idx 0
    let y := b.getD idx 0
    [x - y, relChange x y, relDistance ord a b]

def distanceRewardTrace (order : List Rat → List Rat → Ordering) (best : Option (List Rat)) (initial new : List Rat) : List Rat :=
  match best with
  | none => []
  | some bestKnown =>
    let dI := relDistance (order new initial) new initial
    let dB := relDistance (order new bestKnown) new bestKnown
    relDistanceTrace (order new initial) new initial ++ relDistanceTrace (order new bestKnown) new bestKnown ++
    (if 0 < dI ∧ 0 < dB then [dI + 1, dB + 1, (dB + 1) * 2, (dI + 1) + (dB + 1) * 2]
     else if 0 < dI then [dI + 1, 1 / 20, (dI + 1) * (1 / 20)]
     else [])

/-! ### termination estimates -/

/-- `MaxGeneration::estimate`: `(generation / limit).min(1.)`; for `limit = 0` the `f64` quotient is `+∞` or NaN and
    `f64::min` returns `1.` in both cases -/
def maxGenEstimate (limit generation : Nat) : Rat :=
  if limit = 0 then 1 else minR ((generation : Rat) / (limit : Rat)) 1

/-- `MaxGeneration::is_termination` -/
def maxGenStop (limit generation : Nat) : Bool := decide (limit ≤ generation)

/-- `CompositeTermination::estimate`: `max_by(total_cmp)` of the parts, `0.` when there is none -/
def compositeEstimate : List Rat → Rat
  | [] => 0
  | e :: es => es.foldl maxR e

/-- `CompositeTermination::is_termination` (`any`) -/
def compositeStop (parts : List Bool) : Bool := parts.any id

/-! ### `relative_distance` (distance.rs) and `TargetProximity` -/

/-- the sum under the square root of `relative_distance(a, b)` -/
def relDistSq : List Rat → List Rat → Rat
  | a :: as, b :: bs =>
    let divider := maxR (absR a) (absR b)
    let change := if divider = 0 then 0 else absR (a - b) / divider
    change * change + relDistSq as bs
  | _, _ => 0

/-- `TargetProximity::is_termination`: `sqrt(sum) < threshold`, decided on the squares -/
def targetStop (target : List Rat) (threshold : Rat) (best : Option (List Rat)) : Bool :=
  match best with
  | none => false
  | some fitness => decide (0 < threshold) && decide (relDistSq target fitness < threshold * threshold)

/-! ### statistics.rs and `MinVariation` -/

/-- `get_mean_slice` -/
def meanSlice (vs : List Rat) : Rat := if vs.isEmpty then 0 else vs.sum / (vs.length : Rat)

/-- `get_variance_mean` (the two accumulators of the fold written as sums) -/
def varianceMean (vs : List Rat) : Rat × Rat :=
  let mean := meanSlice vs
  let first := (vs.map (fun v => (v - mean) * (v - mean))).sum
  let second := (vs.map (fun v => v - mean)).sum
  ((first - second * second / (vs.length : Rat)) / (vs.length : Rat), mean)

/-- `get_cv(values) > threshold`: `get_cv = sqrt(variance) / mean`, `0` when `mean == 0`; the comparison is decided
    on the squares, by the sign of the mean and of the threshold -/
def cvGt (vs : List Rat) (th : Rat) : Bool :=
  let vm := varianceMean vs
  let var := vm.1
  let mean := vm.2
  if mean = 0 then decide (th < 0)
  else if 0 < mean then (if th < 0 then true else decide (th * th * (mean * mean) < var))
  else (if th < 0 then decide (var < th * th * (mean * mean)) else false)

/-- the values of objective `idx` over the rows (rows shorter than `idx` contribute nothing, as in `collect_group_by`) -/
def column (rows : List (List Rat)) (idx : Nat) : List Rat := rows.filterMap (fun r => r[idx]?)

def maxLen (rows : List (List Rat)) : Nat := rows.foldl (fun m r => max m r.length) 0

/-- `MinVariation::check_threshold` -/
def checkThreshold (rows : List (List Rat)) (th : Rat) : Bool :=
  (List.range (maxLen rows)).all (fun idx => !cvGt (column rows idx) th)

/-- sample mode of `update_and_check`: state = the ring buffer (`none` before the first call) -/
def sampleStep (sample : Nat) (th : Rat) (buf : Option (List (List Rat))) (generation : Nat) (fitness : List Rat) :
    Option (List (List Rat)) × Bool :=
  let values := buf.getD (List.replicate sample (List.replicate fitness.length 0))
  let values := values.set (generation % sample) fitness
  (some values, if generation < sample - 1 then false else checkThreshold values th)

/-- the `position` up to which the store is drained: `p` = number of trailing samples not older than `earliest`
    (`rev().position(time < earliest)`), with the three `match` arms of the code -/
def periodPosition (vals : List (Nat × List Rat)) (earliest : Nat) : Nat :=
  match vals.reverse.findIdx? (fun p => decide (p.1 < earliest)) with
  | some p => if p < 2 ∧ vals.length < 3 then 0 else if p < 2 then vals.length - 2 else vals.length - p
  | none => 0

/-- period mode of `update_and_check`; `period` and the times in milliseconds; `decimate` stands for the random
    thinning applied when more than 1000 samples are stored (shuffle, keep every tenth, sort by time) -/
def periodStep (decimate : List (Nat × List Rat) → List (Nat × List Rat)) (period : Nat) (th : Rat)
    (vals : List (Nat × List Rat)) (elapsed : Nat) (fitness : List Rat) : List (Nat × List Rat) × Bool :=
  let vals := vals ++ [(elapsed, fitness)]
  let vals := if vals.length > 1000 then decimate vals else vals
  if period > elapsed ∨ vals.length < 2 then (vals, false)
  else
    let vals := vals.drop (periodPosition vals (elapsed - period))
    (vals, checkThreshold (vals.map (·.2)) th)

/-- the `(is_global, selection_phase)` filter of `MinVariation::is_termination` -/
def mvFilter (isGlobal exploitation result : Bool) : Bool := if isGlobal then result else if exploitation then result else false

/-- SPEC (sample mode): at generation `g` of a run observed at every generation `0, 1, 2, …` the criterion looks at
    the fitness of the last `sample` generations and is silent before that many exist -/
def sampleWindow (sample : Nat) (hist : List (List Rat)) : List (List Rat) := hist.drop (hist.length - sample)

def sampleSpec (sample : Nat) (th : Rat) (hist : List (List Rat)) : Bool :=
  decide (sample ≤ hist.length) && checkThreshold (sampleWindow sample hist) th

/-- SPEC (period mode): `hist` = every recorded `(time, fitness)` including the current one (last). The window is
    the samples not older than `period`, extended to the two most recent ones when fewer than two are inside; the
    criterion is silent while less than `period` has elapsed or fewer than two samples exist -/
def periodWindow (period : Nat) (hist : List (Nat × List Rat)) (elapsed : Nat) : List (Nat × List Rat) :=
  let inside := hist.filter (fun p => decide (elapsed - period ≤ p.1))
  if inside.length < 2 then hist.drop (hist.length - 2) else inside

def periodSpec (period : Nat) (th : Rat) (hist : List (Nat × List Rat)) (elapsed : Nat) : Bool :=
  if elapsed < period ∨ hist.length < 2 then false
  else checkThreshold ((periodWindow period hist elapsed).map (·.2)) th

/-- SPEC: "the coefficient of variation of `vs` is not above `th`" for a non-negative threshold, with the
    `mean = 0 ⇒ cv = 0` convention: population variance `≤ (th · mean)²` when the mean is positive; a negative mean
    gives a non-positive coefficient -/
def cvLeSpec (vs : List Rat) (th : Rat) : Bool :=
  let n : Rat := vs.length
  let mean := vs.sum / n
  let var := (vs.map (fun v => v * v)).sum / n - mean * mean
  if vs.isEmpty then true else if mean ≤ 0 then true else decide (var ≤ th * th * (mean * mean))

/-! ### `Remedian` (remedian.rs) over `Nat` observations -/

structure Remedian where
  base : Nat
  exponent : Nat
  buffers : List (List Nat)
  count : Nat
  isFull : Bool
deriving Repr

def Remedian.new (base exponent : Nat) : Remedian :=
  { base := base, exponent := exponent, buffers := List.replicate exponent [], count := 0, isFull := false }

def sortNat (l : List Nat) : List Nat := l.mergeSort (fun a b => decide (a ≤ b))

/-- the `try_for_each` loop of `add_observation`, started at the first of the given buffers: a buffer that reached
    `base` elements is sorted; unless it is the last one its median moves up and it is cleared; returns the buffers
    and whether the last one became full -/
def cascade (base : Nat) : List (List Nat) → List (List Nat) × Bool
  | [] => ([], false)
  | [b] => if b.length = base then ([sortNat b], true) else ([b], false)
  | b :: b2 :: rest =>
    if b.length = base then
      let m := (sortNat b).getD (base / 2) 0
      let r := cascade base ((b2 ++ [m]) :: rest)
      ([] :: r.1, r.2)
    else (b :: b2 :: rest, false)
termination_by l => l.length

/-- `add_observation` (the model needs `exponent ≥ 1`: the code indexes `buffers[0]`) -/
def Remedian.add (r : Remedian) (x : Nat) : Remedian × Bool :=
  if r.isFull then (r, false)
  else
    match r.buffers with
    | [] => ({ r with count := r.count + 1 }, true)
    | b :: rest =>
      let c := cascade r.base ((b ++ [x]) :: rest)
      ({ r with count := r.count + 1, buffers := c.1, isFull := c.2 }, true)

/-- every stored value with its weight `base ^ level` -/
def weightedMedians (base : Nat) : Nat → List (List Nat) → List (Nat × Nat)
  | _, [] => []
  | lvl, b :: rest => b.map (fun m => (m, base ^ lvl)) ++ weightedMedians base (lvl + 1) rest

/-- the `try_fold` of `approx_median` -/
def pickMedian (half : Nat) : Nat → List (Nat × Nat) → Option Nat
  | _, [] => none
  | running, (m, w) :: rest => if running + w ≥ half then some m else pickMedian half (running + w) rest

/-- `approx_median` -/
def Remedian.approxMedian (r : Remedian) : Option Nat :=
  if r.isFull then some ((r.buffers.getD (r.exponent - 1) []).getD (r.base / 2) 0)
  else
    let wm := (weightedMedians r.base 0 r.buffers).mergeSort (fun a b => decide (a.1 ≤ b.1))
    pickMedian (r.count / 2) 0 wm

/-- weighted number of observations the buffers stand for -/
def weightSum (base : Nat) : Nat → List (List Nat) → Nat
  | _, [] => 0
  | lvl, b :: rest => b.length * base ^ lvl + weightSum base (lvl + 1) rest

/-! ### noise.rs, iterators.rs (random source scripted through the public `Random` trait) -/

/-- `Noise::generate(value)`; `hit` = `random.is_hit(probability)`, `u` = `random.uniform_real(range)` -/
def noiseGenerate (isAddition hit : Bool) (u value : Rat) : Rat :=
  if hit then (if value = 0 then u else value * u + (if isAddition then value else 0)) else value

/-- `SelectionSamplingIterator` over `0 .. size` (a range iterator) asking for `amount` items; `hits` = the random
    outcomes of the successive `is_hit(needed / left)` calls (`true` when exhausted); a probability `≥ 1` is always a
    hit (`gen_bool(p.clamp(0, 1))`). Returns the selected items. -/
def selectionSampling (size : Nat) : (fuel processed needed : Nat) → List Bool → List Nat
  | 0, _, _, _ => []
  | fuel + 1, processed, needed, hits =>
    if needed ≠ 0 ∧ size > processed then
      -- the inner iterator is `0..size`, so `next` is `Some(processed)` here
      let hit := if size - processed ≤ needed then true else hits.headD true
      if hit then processed :: selectionSampling size fuel (processed + 1) (needed - 1) hits.tail
      else selectionSampling size fuel (processed + 1) needed hits.tail
    else []

/-- `create_range_sampling_iter(0..size, sample_size, random)`: `(offset, taken items)`;
    `pick` = what `uniform_int(0, sample_count as i32)` returned -/
def rangeSamplingMax (size sampleSize : Nat) : Nat :=
  -- `(size / sample_size).max(1.) - 1.` truncated by `as i32`
  let q := size / sampleSize
  (if q < 1 then 1 else q) - 1

def rangeSampling (size sampleSize pick : Nat) : List Nat :=
  ((List.range size).drop (pick * sampleSize)).take sampleSize

end C18
