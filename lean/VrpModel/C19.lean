import VrpModel.Generated.C19Constants
/-!
# C19 — model of the coordinate layer of the growing self-organising map

Mirrors
* `rosomaxa/src/algorithms/gsom/network.rs`  `Network::{find, insert, remove, remap, get_mut}` over the
  `HashMap<Coordinate, Node>` (here an association list, newest entry first), `update` (growth
  condition), `grow_nodes` (target coordinates), `train_batch`, `retrain`, `store_batch`, `smooth`, `compact`,
* `rosomaxa/src/algorithms/gsom/state.rs`  `get_network_shape`,
* `rosomaxa/src/algorithms/gsom/contraction.rs`  `contract_graph`, `get_offset` (Rust's truncating `/` and `%`
  are `Int.tdiv` / `Int.tmod`),
* `rosomaxa/src/algorithms/gsom/node.rs`  `Node::{is_boundary, neighbours}` (main directions only),
* `rosomaxa/src/population/elitism.rs`  `add_with_iter` (size bound only: node storages and the elite),
* `rosomaxa/src/population/rosomaxa.rs`  `Rosomaxa::{add_all, update_phase}` (phase machine, elite filter).

Everything that depends on `f64` values (which node is the best matching unit, whether the accumulated error
exceeds the growing threshold, what de-duplication keeps in a storage, `get_keep_size`) is an *input* of the
model (`Hit`, `Stats`), so the theorems hold for every outcome of those computations.
-/
namespace C19

/-- `Coordinate(i32, i32)`; `i32` overflow is out of model -/
abbrev Coord := Int × Int

/-- what the model keeps of a `Node` -/
structure Node where
  /-- `node.coordinate` -/
  coord : Coord
  /-- `node.storage.size()` -/
  held : Nat
  /-- `node.weights.len()` -/
  wdim : Nat
deriving Repr, DecidableEq

/-- `NodeHashMap`: key ↦ node. The hash map has at most one entry per key; here that is the invariant
    `(keys net).Nodup`, which every operation below is proved to keep. -/
abbrev Net := List (Coord × Node)

def keys (net : Net) : List Coord := net.map (·.1)

/-- `Network::find` / `HashMap::get` -/
def find : Net → Coord → Option Node
  | [], _ => none
  | (k, n) :: rest, c => if k = c then some n else find rest c

/-- `Network::remove` / `HashMap::remove` -/
def remove (net : Net) (c : Coord) : Net := net.filter (fun e => decide (e.1 ≠ c))

/-- `HashMap::insert`: an existing entry under the same key is replaced -/
def insertKV (net : Net) (c : Coord) (n : Node) : Net := (c, n) :: remove net c

/-- `Network::insert` → `create_node(context, coord, weights, 0.)`: fresh empty storage, weights of the data dimension -/
def netInsert (dim : Nat) (net : Net) (c : Coord) : Net := insertKV net c ⟨c, 0, dim⟩

/-- `Network::remap`: drain all entries, modify each node (the closure sees the old key), re-insert every node
    under ITS OWN `node.coordinate` (`extend` = repeated `insert`) -/
def remap (net : Net) (f : Coord → Node → Node) : Net :=
  (net.map (fun e => f e.1 e.2)).foldl (fun acc n => insertKV acc n.coord n) []

def i32Max : Int := 2147483647
def i32Min : Int := -2147483648

/-- `get_network_shape`: fold over the KEYS starting from `((MAX, MIN), (MAX, MIN))` -/
def shape (net : Net) : (Int × Int) × (Int × Int) :=
  (keys net).foldl
    (fun s c => ((min s.1.1 c.1, max s.1.2 c.1), (min s.2.1 c.2, max s.2.2 c.2)))
    ((i32Max, i32Min), (i32Max, i32Min))

/-! ## contraction -/

/-- the `extra` of `get_offset`; `l = min.abs()`, `r = max.abs()`; the `v = 0` arm is `unreachable!()` -/
def extra (v l r : Int) : Int :=
  if v > 0 then (if r > l then -1 else 0)
  else if v < 0 then (if r ≤ l then 1 else 0)
  else 0

/-- `get_offset(v, (mn, mx), d) = -v / d + extra` (unary minus binds tighter than `/`) -/
def getOffset (v mn mx d : Int) : Int :=
  Int.tdiv (-v) d + extra v (Int.natAbs mn) (Int.natAbs mx)

/-- the same with the `unreachable!()` arm made explicit (what the hook shows point-wise) -/
def getOffset? (v mn mx d : Int) : Option Int :=
  if v = 0 then none else some (getOffset v mn mx d)

/-- `(x_decim, y_decim)`: the wider axis gets `decim_min`, a square map `decim_max` on both axes -/
def decimation (sh : (Int × Int) × (Int × Int)) (dmin dmax : Int) : Int × Int :=
  let dx := sh.1.2 - sh.1.1
  let dy := sh.2.2 - sh.2.1
  if dx > dy then (dmin, dmax) else if dx < dy then (dmax, dmin) else (dmax, dmax)

/-- the removal test `coord.0 % x_decim == 0 || coord.1 % y_decim == 0` -/
def isRemoved (xd yd : Int) (c : Coord) : Bool :=
  Int.tmod c.1 xd == 0 || Int.tmod c.2 yd == 0

/-- new coordinate of a surviving node -/
def shift (sh : (Int × Int) × (Int × Int)) (xd yd : Int) (c : Coord) : Coord :=
  (c.1 + getOffset c.1 sh.1.1 sh.1.2 xd, c.2 + getOffset c.2 sh.2.1 sh.2.2 yd)

/-- `contract_graph` on the coordinate layer. `removed` is computed from `node.coordinate` (as the code does),
    removal and remap work on keys. The re-training with the drained data that follows in the code
    (`train_on_data(.., false)`) is `trainBatch … false` below and does not change coordinates. -/
def contract (net : Net) (dmin dmax : Int) (guard : Nat) : Net :=
  let sh := shape net
  let d := decimation sh dmin dmax
  let removed := (net.map (·.2.coord)).filter (isRemoved d.1 d.2)
  if net.length - removed.length < guard then net
  else
    let net1 := removed.foldl remove net
    remap net1 (fun c n => { n with coord := shift sh d.1 d.2 c })

/-- `Network::compact` -/
def compact (net : Net) : Net := contract net Gen.decimMin Gen.decimMax Gen.guardMin

/-! ## training -/

/-- offsets of `neighbours(network, 1)` with `|x| + |y| < 2`, in iteration order -/
def mainDirs : List Coord := [(-1, 0), (0, -1), (0, 1), (1, 0)]

def addC (c o : Coord) : Coord := (c.1 + o.1, c.2 + o.2)

/-- `Node::is_boundary` -/
def isBoundary (net : Net) (c : Coord) : Bool :=
  mainDirs.any (fun o => (find net (addC c o)).isNone)

/-- coordinates returned by `grow_nodes`: the main-direction neighbours which are NOT in the map -/
def growTargets (net : Net) (c : Coord) : List Coord :=
  (mainDirs.map (addC c)).filter (fun t => (find net t).isNone)

/-- the float-dependent facts about one trained input -/
structure Hit where
  /-- `find_bmu(input).coordinate` -/
  bmu : Coord
  /-- `node.error >= growing_threshold` after adding this input's error -/
  exceeds : Bool
  /-- number of items the storage holds after sort + dedup of (old content ++ [input]), before truncation -/
  kept : Nat
deriving Repr

/-- `Network::update`: the only branch that changes the coordinate layer is growth -/
def update (dim : Nat) (net : Net) (h : Hit) (isNew : Bool) : Net :=
  match find net h.bmu with
  | none => net  -- `expect("invalid coordinate")`: not reachable, the unit was found in this very map
  | some node =>
    if h.exceeds && (isBoundary net node.coord && isNew) then
      (growTargets net node.coord).foldl (netInsert dim) net
    else net  -- distribute_error / adjust_weights: weights and errors only

def modify (net : Net) (c : Coord) (f : Node → Node) : Net :=
  net.map (fun e => if e.1 = c then (e.1, f e.2) else e)

/-- `Elitism::add_with_iter` seen from outside: whatever sort + dedup keep, the result is truncated to `cap` -/
def storeAdd (cap : Nat) (n : Node) (kept : Nat) : Node := { n with held := min cap kept }

/-- one element of `train_batch`: `update`, then `storage.add(input)` on the unit -/
def trainStep (cap dim : Nat) (isNew : Bool) (net : Net) (h : Hit) : Net :=
  modify (update dim net h isNew) h.bmu (fun n => storeAdd cap n h.kept)

/-- `train_on_data` + `train_batch` -/
def trainBatch (cap dim : Nat) (isNew : Bool) (net : Net) (hits : List Hit) : Net :=
  hits.foldl (trainStep cap dim isNew) net

/-- `storage.drain(0..)` on every node -/
def drainAll (net : Net) : Net := net.map (fun e => (e.1, { e.2 with held := 0 }))

/-- one round of `retrain` -/
def retrainOnce (cap dim : Nat) (allowGrowth : Bool) (net : Net) (hits : List Hit) : Net :=
  trainBatch cap dim allowGrowth (drainAll net) hits

/-- `store_batch` (new input, growth allowed) -/
def storeBatch (cap dim : Nat) (net : Net) (hits : List Hit) : Net := trainBatch cap dim true net hits

/-- `smooth` (`allow_growth = false`), one list of hits per round -/
def smooth (cap dim : Nat) (net : Net) (rounds : List (List Hit)) : Net :=
  rounds.foldl (retrainOnce cap dim false) net

/-- `compact` followed by the re-introduction of the drained data -/
def compactAndRetrain (cap dim : Nat) (net : Net) (hits : List Hit) : Net :=
  trainBatch cap dim false (compact net) hits

/-! ## a new network -/

/-- `create_initial_nodes`: sample `i` becomes the node at `(i % g, i / g)` with `g = ⌈√n⌉` -/
def initialCoords (n g : Nat) : List Coord :=
  (List.range n).map (fun i => (((i % g : Nat) : Int), ((i / g : Nat) : Int)))

/-- the initial nodes; `held c` = how many of the initial inputs were assigned to the node at `c` -/
def initialNet (dim n g : Nat) (held : Coord → Nat) : Net :=
  (initialCoords n g).map (fun c => (c, ⟨c, held c, dim⟩))

/-- `node.storage.resize(config.node_size)` on every node -/
def resizeAll (size : Nat) (net : Net) : Net :=
  net.map (fun e => (e.1, { e.2 with held := min e.2.held size }))

/-- `Network::new` after the initial nodes exist: re-balancing rounds WITH growth under the temporary capacity
    `data_size`, then every storage is cut to `node_size` -/
def newNetwork (dataSize nodeSize dim n g : Nat) (held : Coord → Nat) (rounds : List (List Hit)) : Net :=
  resizeAll nodeSize (rounds.foldl (retrainOnce dataSize dim true) (initialNet dim n g held))

/-- the public operations on a network -/
inductive Op where
  | store (hits : List Hit)
  | smooth (rounds : List (List Hit))
  | compact (hits : List Hit)

def applyOp (cap dim : Nat) (net : Net) : Op → Net
  | .store hits => storeBatch cap dim net hits
  | .smooth rounds => smooth cap dim net rounds
  | .compact hits => compactAndRetrain cap dim net hits

/-! ## storages and the elite (size bound only) -/

/-- `Elitism::add_with_iter`: extend, sort + dedup (`norm`, float-dependent), truncate -/
def elitismAdd (norm : List Int → List Int) (cap : Nat) (xs new : List Int) : List Int :=
  (norm (xs ++ new)).take cap

/-- `Rosomaxa::add_all`: only individuals not worse than the best known one are offered to the elite
    (`total_order(individual, best_known) != Greater`), all of them while the elite is empty -/
def eliteCandidates (elite offered : List Int) : List Int :=
  match elite.head? with
  | none => offered
  | some best => offered.filter (fun f => decide (f ≤ best))

/-- the elite part of `Rosomaxa::add_all` on fitness values; `Elitism::add_all` returns early on an empty offer -/
def popAddElite (norm : List Int → List Int) (cap : Nat) (elite offered : List Int) : List Int :=
  if (eliteCandidates elite offered).isEmpty then elite
  else elitismAdd norm cap elite (eliteCandidates elite offered)

/-! ## phases -/

inductive Phase where
  /-- `Initial { solutions }`, only the number of collected individuals matters -/
  | initial (known : Nat)
  | exploration
  | exploitation
deriving Repr, DecidableEq

/-- the statistics `update_phase` reads; termination estimate in 1/1024, a slow speed's ratio in 1/16 -/
structure Stats where
  te : Int
  slow : Option Int
deriving Repr

/-- effective exploration ratio in 1/1024 for a configured ratio in 1/64:
    `Unknown | Moderate => ratio`, `Slow { ratio: r } => ratio * r` -/
def effRatio (er64 : Int) (s : Stats) : Int :=
  match s.slow with
  | none => er64 * 16
  | some r => er64 * r

/-- `Rosomaxa::add_all`: in the initial phase every offered individual is remembered -/
def addAll : Phase → Nat → Phase
  | .initial k, n => .initial (k + n)
  | p, _ => p

/-- `Rosomaxa::update_phase` -/
def updatePhase (initialSize : Nat) (er64 : Int) : Phase → Stats → Phase
  | .initial known, s =>
    if s.te > effRatio er64 s then .exploitation
    else if known ≥ initialSize then .exploration
    else .initial known
  | .exploration, s => if s.te < effRatio er64 s then .exploration else .exploitation
  | .exploitation, _ => .exploitation

def rank : Phase → Nat
  | .initial _ => 0
  | .exploration => 1
  | .exploitation => 2

/-- phases after `add_all` and after `on_generation` along a run of ticks `(number added, statistics)` -/
def runPhases (initialSize : Nat) (er64 : Int) : Phase → List (Nat × Stats) → List (Phase × Phase)
  | _, [] => []
  | p, (n, s) :: rest =>
    let p1 := addAll p n
    let p2 := updatePhase initialSize er64 p1 s
    (p1, p2) :: runPhases initialSize er64 p2 rest

/-! ## SPECIFICATION (independent of the folds above; `Bool`-valued so the driver can evaluate it on the
implementation's output) -/

/-- a map is well formed: coordinates unique, every node knows the coordinate it is stored under, nodes hold at most
    `cap` items and have weights of dimension `dim` -/
def wfB (cap dim : Nat) (net : Net) : Bool :=
  decide (keys net).Nodup && decide (net.map (·.2.coord)).Nodup &&
    net.all (fun e => decide (e.2.coord = e.1) && decide (e.2.held ≤ cap) && decide (e.2.wdim = dim))

/-- lookup specification: the node found under `c` is exactly the entry stored with key `c` -/
def findSpecB (net : Net) (c : Coord) (r : Option Node) : Bool :=
  match r with
  | none => !(keys net).contains c
  | some n => net.contains (c, n)

def listMin (l : List Int) (d : Int) : Int := l.foldl min d
def listMax (l : List Int) (d : Int) : Int := l.foldl max d

/-- extent of a non-empty coordinate set -/
def extent (ks : List Coord) : (Int × Int) × (Int × Int) :=
  match ks with
  | [] => ((0, 0), (0, 0))
  | c :: rest => ((listMin (rest.map (·.1)) c.1, listMax (rest.map (·.1)) c.1),
                  (listMin (rest.map (·.2)) c.2, listMax (rest.map (·.2)) c.2))

/-- how many of the columns `1..v` survive a decimation by `d` (are not multiples of `d`) -/
def survivorsUpTo (v d : Nat) : Nat :=
  ((List.range v).filter (fun k => decide ((k + 1) % d ≠ 0))).length

/-- SPEC of the new position of a surviving column `v ≠ 0`: the centre column `0` is deleted, the surviving columns on each
    side are renumbered consecutively `1, 2, 3, …` away from the centre, and the side with the larger extent (`r > l`: the
    positive side, otherwise the negative side) is pulled in by one so that position `0` is occupied again -/
def specPos (v : Int) (l r : Int) (d : Nat) : Int :=
  if v > 0 then (survivorsUpTo v.toNat d : Int) - (if r > l then 1 else 0)
  else if v < 0 then -(survivorsUpTo (-v).toNat d : Int) + (if r ≤ l then 1 else 0)
  else 0

/-- SPEC of compaction on a coordinate set: decimate the wider axis by `dmin` and the other by `dmax` (both by `dmax` for a
    square map): drop every row/column whose index is a multiple of the step, renumber the rest by `specPos`; do nothing
    when fewer than `guard` nodes would be left -/
def specContract (ks : List Coord) (dmin dmax : Nat) (guard : Nat) : List Coord :=
  let e := extent ks
  let w := e.1.2 - e.1.1
  let h := e.2.2 - e.2.1
  let xd := if w > h then dmin else dmax
  let yd := if h > w then dmin else dmax
  let keep := ks.filter (fun c => decide (c.1 % (xd : Int) ≠ 0) && decide (c.2 % (yd : Int) ≠ 0))
  if keep.length < guard then ks
  else keep.map (fun c => (specPos c.1 (Int.natAbs e.1.1) (Int.natAbs e.1.2) xd,
                           specPos c.2 (Int.natAbs e.2.1) (Int.natAbs e.2.2) yd))

/-- `a ⊆ b` and `b ⊆ a` as lists of coordinates -/
def sameSetB (a b : List Coord) : Bool := a.all (b.contains ·) && b.all (a.contains ·)

/-- every coordinate of `post` that is not in `pre` has a main-direction neighbour in `post` (grown next to a node) -/
def grownAdjacentB (pre post : List Coord) : Bool :=
  post.all (fun c => pre.contains c || mainDirs.any (fun o => post.contains (addC c o)))

/-- the ranks of a phase sequence never decrease -/
def monotoneB : List Nat → Bool
  | a :: b :: rest => decide (a ≤ b) && monotoneB (b :: rest)
  | _ => true

end C19
