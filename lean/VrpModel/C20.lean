import VrpModel.C06
/-!
# C20 — insertion cost estimates vs true objective changes (additive objectives)

SPEC side: the objective values recomputed from the bare tours before and after the insertion
(`fitnessOf`), independent of the estimators in `C06` (`estimateLeg`, `estimateCostActivity`,
route-level constants), which are the MODEL of `FeatureObjective::estimate`.
Mirrors `fitness` of `minimize_unassigned.rs`, `fleet_usage.rs` (minimize tours),
`transport.rs` (`DistanceObjective`, `CostObjective` via `InsertionContext::get_total_cost`).
-/
namespace C20
open Route C06

/-- total duration of a tour: departure of the last activity minus departure of the start -/
def totalDuration (t : Nat → Nat → Int) (v : Veh) (jobs : List Act) : Int :=
  (after t (v.full jobs) v.startLoc v.dep).2 - v.dep

/-- SPEC: objective value of the transport layer for a solution consisting of this one tour
    (an empty tour is not part of the solution: value 0) -/
def transportFitness (c : Ctx) (jobs : List Act) : Int :=
  if jobs.isEmpty then 0
  else
    let dist := totalDist c.m.d (c.veh.full jobs) c.veh.startLoc
    match c.obj with
    | .distance => dist
    | .cost => c.costs.fixed + dist * c.costs.perDist + totalDuration c.m.t c.veh jobs * c.costs.perTime

/-- SPEC: fitness vector [unassigned, tours, transport] with `u` unassigned jobs -/
def fitnessOf (c : Ctx) (jobs : List Act) (u : Int) : List Int :=
  [u, if jobs.isEmpty then 0 else 1, transportFitness c jobs]

/-- MODEL of `MaximizeTotalValueObjective::estimate` (route level): minus the value of the job -/
def valueQuote (v : Int) : Int := -v

/-- SPEC: objective value of the maximize-value layer: minus the total value of the served jobs
    (`vals` = values of the jobs in the tour, in tour order) -/
def valueFitness (vals : List Int) : Int := -(vals.sum)

/-- waiting anywhere in the tour -/
def hasWaiting (t : Nat → Nat → Int) (v : Veh) (jobs : List Act) : Bool :=
  let sc := sched t (v.full jobs) v.startLoc v.dep
  ((v.full jobs).zip sc).any (fun (a, p) => decide (p.1 < a.s))

end C20
