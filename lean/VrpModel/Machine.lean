/-!
# Abstract search machine over the `SolutionContext` bookkeeping (shared by C02, C04, C01, C07)

Mirrors the elementary mutations through which every search operator changes a solution
(`vrp-core/src/construction/heuristics/{context,insertions}.rs`, `solver/search/utils/removal.rs`):
`apply_insertion_success` (into an existing route / a fresh route obtained from the registry),
`JobRemovalTracker::try_remove_job` (refuses locked jobs, job goes back to `required`),
`try_remove_route` / `keep_routes` (whole route dropped, actor freed), `finalize_unassigned`
(`required` -> `unassigned`), `prepare_insertion_ctx` (`unassigned` -> `required`), conditional jobs
(`required` <-> `ignored`), `remove_empty_routes`. Which job, which route, which operator, which random number
or thread decided it is irrelevant: the machine is nondeterministic in its operation sequence.
-/
namespace Machine

abbrev Job := Nat
abbrev Actor := Nat

structure Route where
  actor : Actor
  jobs : List Job
deriving Repr

structure Ctx where
  required : List Job
  ignored : List Job
  unassigned : List Job
  locked : List Job
  routes : List Route
  available : List Actor
deriving Repr

def Ctx.assigned (c : Ctx) : List Job := c.routes.flatMap (·.jobs)
def Ctx.allJobs (c : Ctx) : List Job := c.required ++ c.ignored ++ c.unassigned ++ c.assigned
def Ctx.used (c : Ctx) : List Actor := c.routes.map (·.actor)

inductive Op
  | insert (j : Job) (r : Nat)            -- evaluator-accepted insertion into existing route r
  | insertNew (j : Job) (a : Actor)       -- ... into a fresh route of an available actor
  | remove (j : Job) (r : Nat)            -- ruin: job back to required
  | dropRoute (r : Nat)                   -- remove whole route, free actor
  | finalize                              -- required -> unassigned
  | prepare                               -- unassigned -> required
  | ignore (j : Job)                      -- conditional job demoted
  | promote (j : Job)                     -- conditional job promoted

def modifyAt (l : List Route) (i : Nat) (f : Route → Route) : List Route :=
  l.zipIdx.map (fun (r, k) => if k = i then f r else r)

def step (c : Ctx) : Op → Option Ctx
  | .insert j r =>
      if j ∈ c.required ∧ r < c.routes.length then
        some { c with required := c.required.erase j,
                      routes := c.routes.modify r (fun rt => { rt with jobs := j :: rt.jobs }) }
      else none
  | .insertNew j a =>
      if j ∈ c.required ∧ a ∈ c.available then
        some { c with required := c.required.erase j, available := c.available.erase a,
                      routes := c.routes ++ [{ actor := a, jobs := [j] }] }
      else none
  | .remove j r =>
      match c.routes[r]? with
      | some rt =>
        if j ∈ rt.jobs ∧ j ∉ c.locked then
          some { c with required := j :: c.required,
                        routes := c.routes.modify r (fun rt => { rt with jobs := rt.jobs.erase j }) }
        else none
      | none => none
  | .dropRoute r =>
      match c.routes[r]? with
      | some rt =>
        if rt.jobs.all (fun j => j ∉ c.locked) then
          some { c with required := rt.jobs ++ c.required, routes := c.routes.eraseIdx r,
                        available := rt.actor :: c.available }
        else none
      | none => none
  | .finalize => some { c with unassigned := c.required ++ c.unassigned, required := [] }
  | .prepare => some { c with required := c.unassigned ++ c.required, unassigned := [] }
  | .ignore j => if j ∈ c.required then some { c with required := c.required.erase j, ignored := j :: c.ignored } else none
  | .promote j => if j ∈ c.ignored then some { c with ignored := c.ignored.erase j, required := j :: c.required } else none


/-- `remove_empty_routes`: routes without jobs are dropped and their actors freed -/
def dropEmpty (c : Ctx) : Ctx :=
  { c with routes := c.routes.filter (fun r => !r.jobs.isEmpty),
           available := (c.routes.filter (fun r => r.jobs.isEmpty)).map (·.actor) ++ c.available }

/-- every reachable state of the machine -/
def run (c : Ctx) : List Op → Option Ctx
  | [] => some c
  | op :: ops => (step c op).bind (fun c' => run c' ops)

end Machine
