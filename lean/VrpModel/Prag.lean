/-!
# Pragmatic problems and solutions in simplified integer form

The data the solver-level specifications (`VrpModel/Spec.lean`) talk about: exactly the `SProblem` of
`harness/src/pragen.rs` (index locations, integer matrices per profile, integer times in seconds) and the
integer form of a pragmatic solution document (`pragen::simplify_solution`).
-/
namespace Prag

structure Profile where
  name : String
  dur : List Int
  dist : List Int
deriving Repr

structure Place where
  loc : Nat
  dur : Int
  tws : List (Int × Int)        -- empty = no time restriction
  tag : Option String
  /-- shared reload resource this (reload) place draws on -/
  resource : Option String := none
deriving Repr

structure Task where
  kind : String                 -- pickup | delivery | service | replacement
  places : List Place
  demand : List Int             -- empty = none
  order : Option Int
deriving Repr

structure Job where
  id : String
  tasks : List Task
  skillsAll : List String
  skillsOne : List String
  skillsNone : List String
  group : Option String
  compat : Option String
  value : Option Int
deriving Repr

structure BreakPlace where
  dur : Int
  loc : Option Nat
  tag : Option String
deriving Repr

structure Break where
  offset : Bool
  time : Int × Int
  places : List BreakPlace
  policy : Option String
deriving Repr

structure ShiftEnd where
  earliest : Option Int
  latest : Int
  loc : Nat
deriving Repr

structure Shift where
  startEarliest : Int
  startLatest : Option Int
  startLoc : Nat
  endAt : Option ShiftEnd
  breaks : List Break
  reloads : List Place
deriving Repr

structure VehicleType where
  typeId : String
  ids : List String
  profile : Nat
  scale : Option (Int × Int)    -- numerator, denominator
  fixed : Int
  cd : Int
  ct : Int
  shifts : List Shift
  capacity : List Int
  skills : List String
  maxDistance : Option Int
  maxDuration : Option Int
  tourSize : Option Nat
deriving Repr

structure Relation where
  kind : String                 -- any | sequence | strict
  jobs : List String
  vehicleId : String
  shiftIndex : Option Nat
deriving Repr

structure Problem where
  n : Nat
  profiles : List Profile
  jobs : List Job
  vehicles : List VehicleType
  relations : List Relation
  /-- objective type names, flattened (only used to know whether `tour-order` is an objective) -/
  objectives : List String
  /-- shared reload resources: id and total capacity -/
  resources : List (String × List Int) := []
deriving Repr

/-! ## solution -/

/-- one commute leg of a clustered activity: the other end, the distance, the time interval -/
structure CommuteLeg where
  loc : Nat
  dist : Int
  start : Int
  stop : Int
deriving Repr

structure Activity where
  jobId : String
  type : String
  tag : Option String
  loc : Option Nat              -- only present in stops with several activities
  time : Option (Int × Int)     -- idem
  /-- vicinity clustering: how the activity was reached from / left towards the parking place -/
  fwd : Option CommuteLeg := none
  bwd : Option CommuteLeg := none
deriving Repr

structure Stop where
  loc : Option Nat              -- none = transit stop
  arrival : Int
  departure : Int
  distance : Int
  load : List Int
  activities : List Activity
deriving Repr

structure Stat where
  cost : Int
  distance : Int
  duration : Int
  driving : Int
  serving : Int
  waiting : Int
  breakTime : Int
  commuting : Int
  parking : Int
deriving Repr, BEq

structure Tour where
  vehicleId : String
  typeId : String
  shiftIndex : Nat
  stops : List Stop
  stat : Stat
deriving Repr

structure Unassigned where
  jobId : String
  reasons : List String
deriving Repr

structure Solution where
  stat : Stat
  tours : List Tour
  unassigned : List Unassigned
deriving Repr

def reserved (id : String) : Bool :=
  id == "departure" || id == "arrival" || id == "break" || id == "reload" || id == "recharge"

def Problem.findJob (p : Problem) (id : String) : Option Job := p.jobs.find? (·.id == id)
def Problem.findType (p : Problem) (vehicleId : String) : Option VehicleType :=
  p.vehicles.find? (fun vt => vt.ids.contains vehicleId)

/-- scaled travel duration between two locations for a vehicle type; `none` when the scaled value is
    not an integer (the harness only generates scales that keep it integral) or the entry is missing -/
def VehicleType.travel (p : Problem) (vt : VehicleType) (a b : Nat) : Option Int :=
  match p.profiles[vt.profile]? with
  | none => none
  | some pr =>
    match pr.dur[a * p.n + b]? with
    | none => none
    | some d =>
      match vt.scale with
      | none => some d
      | some (num, den) => if den ≠ 0 && (d * num) % den == 0 then some (d * num / den) else none

def VehicleType.distance (p : Problem) (vt : VehicleType) (a b : Nat) : Option Int :=
  match p.profiles[vt.profile]? with
  | none => none
  | some pr => pr.dist[a * p.n + b]?

end Prag
