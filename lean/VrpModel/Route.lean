/-!
# Shared route model: activities, schedule simulation (SPEC), cached summaries (MODEL of the code)

Mirrors
* `vrp-core/src/construction/enablers/schedule_update.rs`: `update_schedules` (forward pass),
  `update_states` (backward pass: latest arrival, future waiting), `update_statistics`,
* `vrp-core/src/models/problem/costs.rs`: `SimpleActivityCost::{estimate_departure, estimate_arrival}`,
* `vrp-core/src/construction/features/capacity.rs`: `recalculate_states` (single interval).

Times, durations and distances are `Int` (the generators keep every `f64` integral and small, so `f64`
arithmetic coincides with exact arithmetic). The only "infinite" value of the code that is modelled is the
missing shift end of an open tour (`Float::MAX`), represented by the absence of an end.
-/
namespace Route

/-- routing matrix, row-major `n × n` -/
structure Mat where
  n : Nat
  dur : List Int
  dist : List Int

def Mat.t (m : Mat) (i j : Nat) : Int := m.dur.getD (i * m.n + j) 0
def Mat.d (m : Mat) (i j : Nat) : Int := m.dist.getD (i * m.n + j) 0

/-- an activity as the schedule sees it: location, the time window actually used, service duration -/
structure Act where
  loc : Nat
  s : Int
  e : Int
  dur : Int
deriving Repr, BEq, DecidableEq

/-- `SimpleActivityCost::estimate_departure` -/
def depOf (a : Act) (arr : Int) : Int := max arr a.s + a.dur

/-- `SimpleActivityCost::estimate_arrival` -/
def estArrival (a : Act) (dep : Int) : Int := min a.e (dep - a.dur)

/-! ## SPEC: step-by-step simulation of a sequence of activities -/

/-- feasibility of serving `acts` in order when the vehicle leaves location `l` at time `t`:
    every arrival is not later than the end of the window used -/
def feas (t : Nat → Nat → Int) : List Act → Nat → Int → Bool
  | [], _, _ => true
  | a :: rest, l, dep =>
    decide (dep + t l a.loc ≤ a.e) && feas t rest a.loc (depOf a (dep + t l a.loc))

/-- (location, departure) after serving `acts` starting from `(l, dep)` — `update_schedules` -/
def after (t : Nat → Nat → Int) : List Act → Nat → Int → Nat × Int
  | [], l, dep => (l, dep)
  | a :: rest, l, dep => after t rest a.loc (depOf a (dep + t l a.loc))

/-- arrival/departure of every activity — `update_schedules` as a list -/
def sched (t : Nat → Nat → Int) : List Act → Nat → Int → List (Int × Int)
  | [], _, _ => []
  | a :: rest, l, dep =>
    let arr := dep + t l a.loc
    (arr, depOf a arr) :: sched t rest a.loc (depOf a arr)

/-! ## MODEL of the cached backward pass (`update_states`) -/

/-- latest arrival at the head activity such that the whole suffix stays in its windows; the last
    activity is only bound by its own window end (for the arrival activity that is the shift end) -/
def latestArr (t : Nat → Nat → Int) : List Act → Int
  | [] => 0
  | [a] => a.e
  | a :: b :: rest => min a.e (latestArr t (b :: rest) - t a.loc b.loc - a.dur)

/-- the whole cache: latest arrival of every activity of the list -/
def latestArrs (t : Nat → Nat → Int) : List Act → List Int
  | [] => []
  | a :: rest => latestArr t (a :: rest) :: latestArrs t rest

/-- future waiting time (sum of waiting at this and all later activities), given the arrivals -/
def futureWaiting : List Act → List (Int × Int) → List Int
  | a :: rest, (arr, _) :: ss =>
    let tail := futureWaiting rest ss
    (tail.headD 0 + max (a.s - arr) 0) :: tail
  | _, _ => []

/-- total distance along the sequence starting at `l` — `update_statistics` -/
def totalDist (d : Nat → Nat → Int) : List Act → Nat → Int
  | [], _ => 0
  | a :: rest, l => d l a.loc + totalDist d rest a.loc

/-! ## Vehicle / tour -/

structure Veh where
  startLoc : Nat
  /-- earliest departure (start activity's window start) -/
  earliest : Int
  /-- current departure of the start activity -/
  dep : Int
  /-- closed tour: end location and latest arrival; open tour: none -/
  endAt : Option (Nat × Int)
deriving Repr

/-- the arrival activity of a closed tour as the evaluator sees it (`[0, shift end]`, no service) -/
def Veh.endActs (v : Veh) : List Act :=
  match v.endAt with
  | some (loc, latest) => [{ loc := loc, s := 0, e := latest, dur := 0 }]
  | none => []

/-- job activities followed by the arrival activity (if any) -/
def Veh.full (v : Veh) (jobs : List Act) : List Act := jobs ++ v.endActs

/-- SPEC: the tour is time-feasible -/
def tourFeas (t : Nat → Nat → Int) (v : Veh) (jobs : List Act) : Bool :=
  feas t (v.full jobs) v.startLoc v.dep

def insertAt (acts : List α) (i : Nat) (x : α) : List α := acts.take i ++ x :: acts.drop i

/-! ## Loads

All load vectors of one case have the same length (the number of capacity dimensions); the harness pads
with zeros. Operations are component-wise, as `SingleDimLoad` / `MultiDimLoad` in `load.rs`. -/

/-- demand of an activity: static/dynamic pickup/delivery, one entry per capacity dimension -/
structure Dem where
  sp : List Int
  dp : List Int
  sd : List Int
  dd : List Int
deriving Repr, BEq

def vadd (a b : List Int) : List Int := List.zipWith (· + ·) a b
def vsub (a b : List Int) : List Int := List.zipWith (· - ·) a b
def vmax (a b : List Int) : List Int := List.zipWith max a b
/-- `is_not_empty`: some component differs from zero -/
def vNotEmpty (a : List Int) : Bool := a.any (· != 0)
/-- `capacity.can_fit(load)`: every component of the load is within the capacity -/
def vfits (cap load : List Int) : Bool := (List.zipWith (fun c l => decide (l ≤ c)) cap load).all id

/-- `Demand::change` = pickups − deliveries -/
def Dem.change (x : Dem) : List Int := vsub (vadd x.sp x.dp) (vadd x.sd x.dd)

/-- load after each activity, starting from `start` — the `current` fold of `recalculate_states` -/
def loadsAfter (start : List Int) : List Dem → List (List Int)
  | [] => []
  | x :: rest => vadd start x.change :: loadsAfter (vadd start x.change) rest

/-- static deliveries are on board at departure (`start_delivery`) -/
def startLoad (zero : List Int) (ds : List Dem) : List Int := ds.foldl (fun acc x => vadd acc x.sd) zero

/-- SPEC: load profile of one interval: at departure, then after every activity -/
def loadProfile (zero : List Int) (ds : List Dem) : List (List Int) :=
  startLoad zero ds :: loadsAfter (startLoad zero ds) ds

/-- SPEC: every load within capacity -/
def capOk (cap : List Int) (ds : List Dem) : Bool :=
  (loadProfile (cap.map (fun _ => 0)) ds).all (vfits cap)

/-- running maximum from the left starting from `m` — `max_past` (the fold starts from the zero load) -/
def runMax (m : List Int) : List (List Int) → List (List Int)
  | [] => []
  | l :: rest => vmax m l :: runMax (vmax m l) rest

/-- running maximum from the right — `max_future` -/
def maxFuture : List (List Int) → List (List Int)
  | [] => []
  | [l] => [l]
  | l :: b :: rest =>
    match maxFuture (b :: rest) with
    | [] => [l]
    | m :: tail => vmax l m :: m :: tail

end Route
