import VrpModel.Prag
/-!
# Solver-level specifications on returned solutions (independent of the solver's code)

`partition` (C02), `feasible` (C01), `replay` (C03): every function returns the list of violated rules
(empty = the property holds for this solution). They are written from the documentation of the pragmatic
format and from the property statements, over the reported solution document and the problem only.
-/
namespace Spec
open Prag

def isJobType (t : String) : Bool := t == "pickup" || t == "delivery" || t == "service" || t == "replacement"

/-- activities of a tour in visiting order, each with its stop index -/
def Tour.acts (t : Tour) : List (Nat × Activity) :=
  t.stops.zipIdx.flatMap (fun (s, i) => s.activities.map (fun a => (i, a)))

def Tour.jobActs (t : Tour) : List Activity := (Tour.acts t).map (·.2) |>.filter (fun a => isJobType a.type)

def count {α : Type} (p : α → Bool) (l : List α) : Nat := (l.filter p).length

/-! ## C02 — every job is accounted for exactly once -/

def partition (p : Problem) (s : Solution) : List String := Id.run do
  let mut errs : List String := []
  -- tours: existing vehicle and shift, at least one job, no (vehicle, shift) twice
  for t in s.tours do
    match p.findType t.vehicleId with
    | none => errs := s!"tour names unknown vehicle {t.vehicleId}" :: errs
    | some vt =>
      if vt.typeId != t.typeId then errs := s!"tour {t.vehicleId}: wrong type id {t.typeId}" :: errs
      if t.shiftIndex ≥ vt.shifts.length then errs := s!"tour {t.vehicleId}: unknown shift {t.shiftIndex}" :: errs
    if (Tour.jobActs t).isEmpty then errs := s!"tour {t.vehicleId}/{t.shiftIndex} serves no job" :: errs
    if count (fun (u : Tour) => u.vehicleId == t.vehicleId && u.shiftIndex == t.shiftIndex) s.tours != 1 then
      errs := s!"vehicle shift {t.vehicleId}/{t.shiftIndex} drives more than one tour" :: errs
    -- only known ids appear
    for (_, a) in Tour.acts t do
      if isJobType a.type then
        if (p.findJob a.jobId).isNone then errs := s!"unknown job id {a.jobId} in tour {t.vehicleId}" :: errs
      else if !(reserved a.type && a.jobId == a.type) then
        errs := s!"activity with unexpected type/id {a.type}/{a.jobId}" :: errs
    -- breaks / reloads correspond to distinct ones defined for that very shift
    match (p.findType t.vehicleId).bind (fun vt => vt.shifts[t.shiftIndex]?) with
    | none => pure ()
    | some sh =>
      let nb := count (fun (x : Nat × Activity) => x.2.type == "break") (Tour.acts t)
      let nr := count (fun (x : Nat × Activity) => x.2.type == "reload") (Tour.acts t)
      if nb > sh.breaks.length then errs := s!"tour {t.vehicleId}: {nb} breaks, shift defines {sh.breaks.length}" :: errs
      if nr > sh.reloads.length then errs := s!"tour {t.vehicleId}: {nr} reloads, shift defines {sh.reloads.length}" :: errs
      -- ... DISTINCT ones: of the reloads defined with one tag at one location no more are used than are defined
      let used := (Tour.acts t).filter (fun x => x.2.type == "reload") |>.map (fun x =>
        (x.2.tag, x.2.loc.orElse (fun _ => (t.stops[x.1]?).bind (·.loc))))
      for u in used.eraseDups do
        let nUsed := count (fun y => y == u) used
        let nDef := count (fun (r : Place) => r.tag == u.1 && some r.loc == u.2) sh.reloads
        if u.2.isSome && nUsed > nDef then
          errs := s!"tour {t.vehicleId}: the reload {u.1} at {u.2} is used {nUsed} times, the shift defines {nDef}" :: errs
      if count (fun (x : Nat × Activity) => x.2.type == "departure") (Tour.acts t) != 1 then
        errs := s!"tour {t.vehicleId}: not exactly one departure" :: errs
      let na := count (fun (x : Nat × Activity) => x.2.type == "arrival") (Tour.acts t)
      if na != (if sh.endAt.isSome then 1 else 0) then errs := s!"tour {t.vehicleId}: {na} arrival activities" :: errs
  -- every plan job: completely in exactly one tour, or exactly once unassigned with a reason
  for j in p.jobs do
    let toursWith := s.tours.filter (fun t => (Tour.jobActs t).any (fun a => a.jobId == j.id))
    let nUn := count (fun (u : Unassigned) => u.jobId == j.id) s.unassigned
    match toursWith with
    | [] =>
      if nUn != 1 then errs := s!"job {j.id} is neither assigned nor listed exactly once as unassigned ({nUn})" :: errs
    | [t] =>
      if nUn != 0 then errs := s!"job {j.id} is both assigned and unassigned" :: errs
      let acts := (Tour.jobActs t).filter (fun a => a.jobId == j.id)
      for kind in ["pickup", "delivery", "service", "replacement"] do
        let want := count (fun (tk : Task) => tk.kind == kind) j.tasks
        let got := count (fun (a : Activity) => a.type == kind) acts
        if want != got then errs := s!"job {j.id}: {got} {kind} activities, {want} tasks" :: errs
      -- tasks of the same kind must be distinguishable by tag and each used once
      let tags := acts.map (fun a => (a.type, a.tag))
      if j.tasks.length > 1 && tags.eraseDups.length != tags.length && (j.tasks.all (fun tk => tk.places.all (fun pl => pl.tag.isSome))) then
        errs := s!"job {j.id}: a task is served twice" :: errs
      -- pickups before deliveries
      let lastPickup := (acts.zipIdx.filter (fun x => x.1.type == "pickup")).map (·.2) |>.foldl max 0
      let firstDelivery := (acts.zipIdx.filter (fun x => x.1.type == "delivery")).map (·.2) |>.foldl min acts.length
      if acts.any (fun a => a.type == "pickup") && acts.any (fun a => a.type == "delivery") && lastPickup > firstDelivery then
        errs := s!"job {j.id}: a delivery before a pickup" :: errs
    | _ => errs := s!"job {j.id} is split over {toursWith.length} tours" :: errs
  -- unassigned entries: plan jobs only (vehicle-bound breaks/reloads are reported as violations), with reasons
  for u in s.unassigned do
    if (p.findJob u.jobId).isNone then errs := s!"unassigned entry for unknown job {u.jobId}" :: errs
    if u.reasons.isEmpty then errs := s!"unassigned job {u.jobId} has no reason" :: errs
  return errs.reverse

/-! ## shared: the place and window an activity used -/

structure Served where
  stopIdx : Nat
  act : Activity
  loc : Nat
  /-- arrival at the activity: stop arrival for the first activity of a stop, previous activity's end otherwise -/
  arr : Int
  start : Int
  fin : Int
deriving Repr

/-- activities with their timing made explicit (single-activity stops omit it) -/
def served (t : Tour) : List Served := Id.run do
  let mut out : List Served := []
  for (s, i) in t.stops.zipIdx do
    let mut prevEnd := s.arrival
    let single := s.activities.length == 1
    for a in s.activities do
      let loc := (a.loc <|> s.loc).getD 0
      let (st, en) := match a.time with
        | some (x, y) => (x, y)
        | none => if single then (s.arrival, s.departure) else (prevEnd, prevEnd)
      out := ⟨i, a, loc, prevEnd, st, en⟩ :: out
      prevEnd := en
  return out.reverse

def taskOf (j : Job) (a : Activity) : Option Task :=
  -- by kind, then by tag when the job has several tasks of that kind
  let cands := j.tasks.filter (fun tk => tk.kind == a.type)
  match cands with
  | [tk] => some tk
  | _ => cands.find? (fun tk => tk.places.any (fun pl => pl.tag == a.tag))

/-- is there a place of the task at this location whose duration and some window explain the
    observed arrival / service start / end ? (service starts at max(arrival, window start); arrival is not
    after the window end) -/
def placeExplains (tk : Task) (sv : Served) (single : Bool) : Bool :=
  tk.places.any (fun pl =>
    pl.loc == sv.loc && (pl.tag == sv.act.tag || sv.act.tag.isNone && pl.tag.isNone) &&
    (if pl.tws.isEmpty then
      (if single then sv.fin - sv.arr == pl.dur else sv.start == sv.arr && sv.fin - sv.start == pl.dur)
     else pl.tws.any (fun w =>
      decide (sv.arr ≤ w.2) &&
      (if single then sv.fin == max sv.arr w.1 + pl.dur
       else sv.start == max sv.arr w.1 && sv.fin - sv.start == pl.dur))))

/-- does the place explain location and timing of the activity, whatever the tags say ? -/
def placeFits (pl : Place) (sv : Served) (single : Bool) : Bool :=
  pl.loc == sv.loc &&
  (if pl.tws.isEmpty then
    (if single then sv.fin - sv.arr == pl.dur else sv.start == sv.arr && sv.fin - sv.start == pl.dur)
   else pl.tws.any (fun w =>
    decide (sv.arr ≤ w.2) &&
    (if single then sv.fin == max sv.arr w.1 + pl.dur
     else sv.start == max sv.arr w.1 && sv.fin - sv.start == pl.dur)))

/-- C03, tag clause: the tag reported with an activity is the tag of the place that was actually used - among the places
    of the job's tasks of this kind that explain the activity's location and timing, one carries exactly the reported
    tag (no tag reported = an untagged place). Nothing is demanded when no place explains the activity at all: that is
    a matter of feasibility (C01), not of reporting. -/
def tagOk (j : Job) (sv : Served) (single : Bool) : Bool :=
  let cands := ((j.tasks.filter (fun tk => tk.kind == sv.act.type)).flatMap (·.places)).filter (fun pl => placeFits pl sv single)
  cands.isEmpty || cands.any (fun pl => pl.tag == sv.act.tag)

/-! ## C01 — hard constraints -/

def subset (a b : List String) : Bool := a.all b.contains

def vle (a b : List Int) : Bool := (List.zipWith (fun x y => decide (x ≤ y)) a b).all id
def vadd (a b : List Int) : List Int := List.zipWith (· + ·) a b
def vsub (a b : List Int) : List Int := List.zipWith (· - ·) a b
def vzero (n : Nat) : List Int := List.replicate n 0
def padTo (n : Nat) (v : List Int) : List Int := v ++ List.replicate (n - v.length) 0

/-- demand of an activity as (static pickup, static delivery, dynamic change) vectors -/
def demandOf (dims : Nat) (j : Job) (tk : Task) : List Int × List Int × List Int :=
  let d := padTo dims tk.demand
  let z := vzero dims
  let multi := j.tasks.length > 1
  if tk.kind == "pickup" then (if multi then (z, z, d) else (d, z, z))
  else if tk.kind == "delivery" then (if multi then (z, z, d.map (fun x => -x)) else (z, d, z))
  else if tk.kind == "replacement" then (d, d, z)
  else (z, z, z)

def feasible (p : Problem) (s : Solution) : List String := Id.run do
  let mut errs : List String := []
  let hardOrder := !(p.objectives.contains "tour-order")
  -- goods taken from every shared reload resource, over all tours
  let mut drawn : List (String × List Int) := []
  for t in s.tours do
    let some vt := p.findType t.vehicleId | continue
    let some sh := vt.shifts[t.shiftIndex]? | continue
    let name := s!"{t.vehicleId}/{t.shiftIndex}"
    let sv := served t
    -- shift window and depot ends
    match t.stops.head? with
    | none => errs := s!"{name}: no stops" :: errs
    | some s0 =>
      if s0.loc != some sh.startLoc then errs := s!"{name}: does not start at the shift start location" :: errs
      -- the vehicle leaves when its departure activity ends; the first stop may go on (a break or a job at the depot)
      let dep0 := (sv.head?.map (·.fin)).getD s0.departure
      if dep0 < sh.startEarliest then errs := s!"{name}: departs at {dep0} before earliest {sh.startEarliest}" :: errs
      match sh.startLatest with
      | some l => if (sv.head?.map (·.fin)).getD s0.departure > l then
                    errs := s!"{name}: departs after latest {l}" :: errs
      | none => pure ()
    match sh.endAt, t.stops.getLast? with
    | some e, some sl =>
      if sl.loc != some e.loc then errs := s!"{name}: does not end at the shift end location" :: errs
      if sl.arrival > e.latest then errs := s!"{name}: arrives at {sl.arrival} after shift end {e.latest}" :: errs
    | _, _ => pure ()
    -- optional breaks: a taken break is one the shift defines - duration and location of one of its places, begun inside its
    -- time window (service starts at max(arrival, window start), the arrival is not after the window end); an offset window
    -- counts from the departure of the tour
    let dep0 := (sv.head?.map (·.fin)).getD ((t.stops.head?.map (·.departure)).getD 0)
    for x in sv do
      if x.act.type == "break" && !sh.breaks.isEmpty then
        let single := (t.stops[x.stopIdx]?.map (·.activities.length)).getD 0 == 1
        let ok := sh.breaks.any (fun b =>
          let w : Int × Int := if b.offset then (dep0 + b.time.1, dep0 + b.time.2) else b.time
          b.places.any (fun bp =>
            (match bp.loc with | some l => l == x.loc | none => true) &&
            decide (x.arr ≤ w.2) &&
            (if single && bp.loc.isSome then decide (max x.arr w.1 + bp.dur == x.fin)
             else decide (x.start == max x.arr w.1) && decide (x.fin - x.start == bp.dur))))
        if !ok then
          errs := s!"{name}: break at stop {x.stopIdx} (arrival {x.arr}, {x.start}-{x.fin}) fits no break of the shift" :: errs
    -- reachability and time windows of jobs
    let dims := vt.capacity.length
    for x in sv do
      if isJobType x.act.type then
        let some j := p.findJob x.act.jobId | continue
        match taskOf j x.act with
        | none => errs := s!"{name}: activity of {j.id} matches no task" :: errs
        | some tk =>
          let single := (t.stops[x.stopIdx]?.map (·.activities.length)).getD 0 == 1
          if !placeExplains tk x single then
            errs := s!"{name}: {j.id} {x.act.type} at stop {x.stopIdx} (arrival {x.arr}, service {x.start}-{x.fin}) fits no place/time window of the task" :: errs
        -- skills
        if !subset j.skillsAll vt.skills then errs := s!"{name}: {j.id} needs all of {j.skillsAll}" :: errs
        if !j.skillsOne.isEmpty && !j.skillsOne.any vt.skills.contains then errs := s!"{name}: {j.id} needs one of {j.skillsOne}" :: errs
        if j.skillsNone.any vt.skills.contains then errs := s!"{name}: {j.id} forbids {j.skillsNone}" :: errs
    -- legs: no unreachable (negative) entry
    for (a, b) in t.stops.zip (t.stops.drop 1) do
      match a.loc, b.loc with
      | some la, some lb =>
        match vt.travel p la lb, vt.distance p la lb with
        | some d, some ds => if d < 0 || ds < 0 then errs := s!"{name}: unreachable leg {la}->{lb}" :: errs
        | _, _ => pure ()
      | _, _ => pure ()
    -- capacity per reload interval: static deliveries on board from the interval start, static pickups until its end
    let jobSv := sv.filter (fun x => isJobType x.act.type || x.act.type == "reload")
    let mut interval : List Served := []
    let mut intervals : List (List Served) := []
    -- the shared resource (if any) of the reload that opens each interval: the reload place is told by its tag
    let mut opener : List (Option String) := [none]
    for x in jobSv do
      if x.act.type == "reload" then
        intervals := interval.reverse :: intervals
        interval := []
        let candidates := sh.reloads.filter (fun r => r.tag == x.act.tag && r.loc == x.loc)
        -- told apart only when every candidate agrees on the resource
        let res := match candidates.map (·.resource) |>.eraseDups with
          | [r] => r
          | _ => none
        opener := res :: opener
      else interval := x :: interval
    intervals := (interval.reverse :: intervals).reverse
    let openers := opener.reverse
    let mut carried := vzero dims      -- dynamic load carried over a reload
    let mut ivIdx := 0
    for iv in intervals do
      -- what this interval loads at its start comes out of the reload's shared resource
      match openers.getD ivIdx none with
      | some r =>
        let loaded := (iv.filterMap (fun x => do
          let j ← p.findJob x.act.jobId
          let tk ← taskOf j x.act
          pure (demandOf dims j tk))).foldl (fun acc d => vadd acc d.2.1) (vzero dims)
        drawn := match drawn.find? (·.1 == r) with
          | some _ => drawn.map (fun e => if e.1 == r then (e.1, vadd e.2 loaded) else e)
          | none => (r, loaded) :: drawn
      | none => pure ()
      ivIdx := ivIdx + 1
      let dems := iv.filterMap (fun x => do
        let j ← p.findJob x.act.jobId
        let tk ← taskOf j x.act
        pure (demandOf dims j tk))
      let startLoad := dems.foldl (fun acc d => vadd acc d.2.1) carried
      let mut load := startLoad
      if !vle load vt.capacity then errs := s!"{name}: load {load} at interval start exceeds capacity {vt.capacity}" :: errs
      for d in dems do
        load := vadd (vsub (vadd load d.1) d.2.1) d.2.2
        if !vle load vt.capacity then errs := s!"{name}: load {load} exceeds capacity {vt.capacity}" :: errs
        if !vle (vzero dims) load then errs := s!"{name}: negative load {load}" :: errs
      -- static pickups are unloaded at the end of the interval
      carried := dems.foldl (fun acc d => vsub acc d.1) load
    -- limits
    let jobCount := (Tour.jobActs t).length
    match vt.tourSize with
    | some k => if jobCount > k then errs := s!"{name}: {jobCount} job activities exceed tour size {k}" :: errs
    | none => pure ()
    match t.stops.head?, t.stops.getLast? with
    | some a, some b =>
      match vt.maxDuration with
      | some m =>
        let dep0 := (sv.head?.map (·.fin)).getD a.departure
        if b.arrival - dep0 > m then
          errs := s!"{name}: duration {b.arrival - dep0} exceeds limit {m}" :: errs
      | none => pure ()
      match vt.maxDistance with
      | some m => if b.distance > m then errs := s!"{name}: distance {b.distance} exceeds limit {m}" :: errs
      | none => pure ()
    | _, _ => pure ()
    -- compatibility: one class per tour
    let classes := ((Tour.jobActs t).filterMap (fun a => (p.findJob a.jobId).bind (·.compat))).eraseDups
    if classes.length > 1 then errs := s!"{name}: incompatible classes {classes} in one tour" :: errs
    -- order: non-decreasing where it is a hard rule; activities without order come last
    if hardOrder then
      let orders := (Tour.jobActs t).map (fun a => ((p.findJob a.jobId).bind (fun j => (taskOf j a).bind (·.order))))
      let keyed := orders.map (fun o => match o with | some k => k | none => 1000000000)
      if !(keyed.zip (keyed.drop 1)).all (fun (a, b) => decide (a ≤ b)) then
        errs := s!"{name}: task order not respected {orders}" :: errs
  -- shared reload resources: what all tours draw together stays within the resource
  for (r, total) in drawn do
    match p.resources.find? (·.1 == r) with
    | some (_, cap) => if !vle total cap then errs := s!"shared resource {r}: {total} drawn, capacity {cap}" :: errs
    | none => errs := s!"shared resource {r} is not defined" :: errs
  -- groups: one tour per group
  let groups := (p.jobs.filterMap (·.group)).eraseDups
  for g in groups do
    let toursOf := s.tours.filter (fun t => (Tour.jobActs t).any (fun a => ((p.findJob a.jobId).bind (·.group)) == some g))
    if toursOf.length > 1 then errs := s!"group {g} is served by {toursOf.length} tours" :: errs
  -- relations: jobs on the named vehicle shift, order / contiguity
  for r in p.relations do
    let planIds := r.jobs.filter (fun id => !reserved id)
    let others := s.tours.filter (fun t => !(t.vehicleId == r.vehicleId && t.shiftIndex == r.shiftIndex.getD 0))
    for t in others do
      if (Tour.jobActs t).any (fun a => planIds.contains a.jobId) then
        errs := s!"relation for {r.vehicleId}: a job is served by {t.vehicleId}/{t.shiftIndex}" :: errs
    match s.tours.find? (fun t => t.vehicleId == r.vehicleId && t.shiftIndex == r.shiftIndex.getD 0) with
    | none => pure ()
    | some t =>
      let ids := (Tour.acts t).map (·.2.jobId)
      -- positions of the relation's ids, matched greedily in tour order
      let rec positions (want : List String) (have_ : List (String × Nat)) : Option (List Nat) :=
        match want with
        | [] => some []
        | w :: ws =>
          match have_.dropWhile (fun x => x.1 != w) with
          | [] => none
          | (_, i) :: rest => (positions ws rest).map (i :: ·)
      if r.kind == "sequence" || r.kind == "strict" then
        match positions r.jobs ids.zipIdx with
        | none =>
          -- jobs of the relation that are assigned at all must keep their relative order; a relation job that
          -- the solver left unassigned is reported by the partition/unassigned lists, not here
          let present := r.jobs.filter (fun id => ids.contains id)
          if (positions present ids.zipIdx).isNone then
            -- told apart: the customer jobs keep their order and only a listed reload / break is not where the relation
            -- puts it (the solver drops and re-inserts such markers on its own, known finding S45)
            let plan := present.filter (fun id => !reserved id || id == "departure" || id == "arrival")
            if (positions plan ids.zipIdx).isSome then
              errs := s!"{r.kind} relation for {r.vehicleId}: a listed reload/break is not at its place" :: errs
            else
              errs := s!"{r.kind} relation for {r.vehicleId}: order not kept" :: errs
        | some ps =>
          if r.kind == "strict" && !(ps.zip (ps.drop 1)).all (fun (a, b) => b == a + 1) then
            errs := s!"strict relation for {r.vehicleId}: jobs are not contiguous" :: errs
          if r.jobs.head? == some "departure" && ps.head? != some 0 then
            errs := s!"relation for {r.vehicleId}: not anchored at departure" :: errs
  return errs.reverse

/-! ## C03 — reported numbers are reproducible -/

def near (a b : Int) : Bool := decide (a - b ≤ 1 ∧ b - a ≤ 1)

/-- vicinity clustering: every reported commute leg is the routing data of the clustering profile (`prof`, unscaled) between
    the parking place and the activity, in the direction travelled: forward = other end -> activity, backward = activity ->
    other end; its time interval lasts exactly the matrix duration -/
def commuteReplay (p : Problem) (prof : Nat) (s : Solution) : List String := Id.run do
  let mut errs : List String := []
  let some pr := p.profiles[prof]? | return ["clustering profile is not defined"]
  for t in s.tours do
    -- the vehicle moves from stop to stop (the crew walks inside a stop): cumulative stop distances are the matrix
    -- distances between consecutive stops (vehicles of the clustering profile; distances are not scaled)
    match p.findType t.vehicleId with
    | some vt =>
      if vt.profile == prof then
        for (a, b) in t.stops.zip (t.stops.drop 1) do
          match a.loc, b.loc with
          | some la, some lb =>
            match pr.dist[la * p.n + lb]? with
            | some ds =>
              if !near (b.distance - a.distance) ds then
                errs := s!"{t.vehicleId}: stop at {lb} reports distance {b.distance}, the stop before ({la}) {a.distance}, routing data {la}->{lb}: {ds}" :: errs
            | none => pure ()
          | _, _ => pure ()
    | none => pure ()
    for st in t.stops do
      for a in st.activities do
        let some here := (a.loc.orElse (fun _ => st.loc)) | continue
        match a.fwd with
        | some l =>
          if l.loc != here || l.dist != 0 || l.start != l.stop then
            match pr.dur[l.loc * p.n + here]?, pr.dist[l.loc * p.n + here]? with
            | some d, some ds =>
              if !(near (l.stop - l.start) d && near l.dist ds) then
                errs := s!"{t.vehicleId}: {a.jobId} forward commute {l.loc}->{here} reports {l.dist} / {l.stop - l.start}s, routing data {ds} / {d}s" :: errs
            | _, _ => errs := s!"{t.vehicleId}: {a.jobId} forward commute has no matrix entry" :: errs
        | none => pure ()
        match a.bwd with
        | some l =>
          if l.loc != here || l.dist != 0 || l.start != l.stop then
            match pr.dur[here * p.n + l.loc]?, pr.dist[here * p.n + l.loc]? with
            | some d, some ds =>
              if !(near (l.stop - l.start) d && near l.dist ds) then
                errs := s!"{t.vehicleId}: {a.jobId} backward commute {here}->{l.loc} reports {l.dist} / {l.stop - l.start}s, routing data {ds} / {d}s" :: errs
            | _, _ => errs := s!"{t.vehicleId}: {a.jobId} backward commute has no matrix entry" :: errs
        | none => pure ()
  return errs.reverse


def replay (p : Problem) (s : Solution) : List String := Id.run do
  let mut errs : List String := []
  let mut sum : Stat := ⟨0, 0, 0, 0, 0, 0, 0, 0, 0⟩
  for t in s.tours do
    let some vt := p.findType t.vehicleId | continue
    let name := s!"{t.vehicleId}/{t.shiftIndex}"
    let sv := served t
    let dims := vt.capacity.length
    -- arrival = previous departure + travel; cumulative distance
    let mut dist : Int := 0
    let mut driving : Int := 0
    for (a, b) in t.stops.zip (t.stops.drop 1) do
      match a.loc, b.loc with
      | some la, some lb =>
        match vt.travel p la lb, vt.distance p la lb with
        | some d, some ds =>
          if !near b.arrival (a.departure + d) then
            errs := s!"{name}: arrival {b.arrival} at stop loc {lb} is not departure {a.departure} + travel {d}" :: errs
          dist := dist + ds
          driving := driving + d
          if !near b.distance dist then errs := s!"{name}: stop distance {b.distance}, recomputed {dist}" :: errs
        | _, _ => errs := s!"{name}: leg {la}->{lb} has no (integral) matrix entry" :: errs
      | _, _ => pure ()
    -- activities inside a stop are sequential and end at the stop departure
    for (st, i) in t.stops.zipIdx do
      let inStop := sv.filter (fun x => x.stopIdx == i)
      if st.activities.length > 1 then
        if !(inStop.all (fun x => decide (x.arr ≤ x.start ∧ x.start ≤ x.fin))) then
          errs := s!"{name}: activity times at stop {i} are not sequential" :: errs
        if (inStop.getLast?.map (·.fin)) != some st.departure then
          errs := s!"{name}: stop {i} departure is not the end of its last activity" :: errs
      if st.arrival > st.departure then errs := s!"{name}: stop {i} departs before it arrives" :: errs
    -- the reported tag is the tag of the place used
    for x in sv do
      if isJobType x.act.type then
        let some j := p.findJob x.act.jobId | continue
        let single := (t.stops[x.stopIdx]?.map (·.activities.length)).getD 0 == 1
        if !tagOk j x single then
          errs := s!"{name}: {j.id} {x.act.type} at stop {x.stopIdx} reports tag {x.act.tag}, which no place explaining it carries" :: errs
    -- timing split
    let serving := (sv.filter (fun x => isJobType x.act.type || x.act.type == "reload")).foldl (fun acc x =>
      acc + (match (p.findJob x.act.jobId).bind (fun j => taskOf j x.act) with
        | some tk => (tk.places.find? (fun pl => pl.loc == x.loc && (pl.tag == x.act.tag || x.act.tag.isNone))).map (·.dur) |>.getD (x.fin - x.start)
        | none => x.fin - x.start)) 0
    match t.stops.head?, t.stops.getLast? with
    | some a, some b =>
      -- the tour lasts from the end of the departure activity (the first stop may go on: a break or a job at the depot)
      let duration := b.departure - (sv.head?.map (·.fin)).getD a.departure
      if !near t.stat.duration duration then errs := s!"{name}: statistic duration {t.stat.duration}, recomputed {duration}" :: errs
      if !near t.stat.distance dist then errs := s!"{name}: statistic distance {t.stat.distance}, recomputed {dist}" :: errs
      if !near t.stat.driving driving then errs := s!"{name}: driving {t.stat.driving}, recomputed {driving}" :: errs
      if t.stat.driving + t.stat.serving + t.stat.waiting + t.stat.breakTime + t.stat.commuting + t.stat.parking != t.stat.duration then
        errs := s!"{name}: driving+serving+waiting+break does not add up to duration" :: errs
      if (sv.all (fun x => x.act.type != "break")) && !near t.stat.serving serving then
        errs := s!"{name}: serving {t.stat.serving}, recomputed {serving}" :: errs
      let cost := vt.fixed + dist * vt.cd + duration * vt.ct
      if t.stat.cost - cost > (t.stops.length : Int) || cost - t.stat.cost > (t.stops.length : Int) then
        errs := s!"{name}: cost {t.stat.cost}, recomputed {cost}" :: errs
    | _, _ => pure ()
    -- load per stop (per reload interval): load after the last activity of the stop
    let loads := Id.run do
      let mut out : List (Nat × List Int) := []
      -- intervals delimited by reload activities
      let jobSv := sv.filter (fun x => isJobType x.act.type || x.act.type == "reload")
      let mut idxs : List (List Served) := []
      let mut cur : List Served := []
      for x in jobSv do
        if x.act.type == "reload" then
          idxs := (x :: cur).reverse :: idxs
          cur := []
        else cur := x :: cur
      idxs := (cur.reverse :: idxs).reverse
      let mut carried := vzero dims
      let mut first := true
      for iv in idxs do
        let dem (x : Served) : List Int × List Int × List Int :=
          match (p.findJob x.act.jobId).bind (fun j => (taskOf j x.act).map (fun tk => demandOf dims j tk)) with
          | some d => d
          | none => (vzero dims, vzero dims, vzero dims)
        let startLoad := iv.foldl (fun acc x => vadd acc (dem x).2.1) carried
        let mut load := startLoad
        if first then out := (0, load) :: out
        first := false
        for x in iv do
          if x.act.type == "reload" then
            -- at the reload: static pickups of this interval are unloaded, next interval's deliveries are loaded by its own start
            pure ()
          else
            let d := dem x
            load := vadd (vsub (vadd load d.1) d.2.1) d.2.2
            out := (x.stopIdx, load) :: out
        carried := iv.foldl (fun acc x => vsub acc (dem x).1) load
      return out.reverse
    for (st, i) in t.stops.zipIdx do
      -- the last computed load for this stop, if the stop has job activities and no reload
      let here := loads.filter (fun x => x.1 == i)
      let hasReload := st.activities.any (fun a => a.type == "reload")
      let isEnd := st.activities.any (fun a => a.type == "arrival")
      match here.getLast? with
      | some (_, l) =>
        if !hasReload && !isEnd && padTo dims st.load != l then
          errs := s!"{name}: stop {i} reports load {st.load}, recomputed {l}" :: errs
      | none => pure ()
    sum := ⟨sum.cost + t.stat.cost, sum.distance + t.stat.distance, sum.duration + t.stat.duration, sum.driving + t.stat.driving,
            sum.serving + t.stat.serving, sum.waiting + t.stat.waiting, sum.breakTime + t.stat.breakTime,
            sum.commuting + t.stat.commuting, sum.parking + t.stat.parking⟩
  if !(s.stat == sum) then errs := "overall statistic is not the sum of the tours" :: errs
  return errs.reverse

end Spec
