import VrpProofs.C06
import VrpProofs.C06Cap
/-!
# C01 — tours stay feasible under every sequence of search steps (time windows and shift, capacity)

SPEC: `Route.tourFeas` (step-by-step simulation of a tour: every arrival within the window used, arrival at
the end within the shift) and `C06Cap.capOk1` (load profile within capacity).
Steps of the abstract tour machine: insertion accepted by the evaluator model (`C06.evalTime = ok`),
removal of an activity, dropping a route, taking a fresh vehicle. Which operator, random number or thread
chose them does not matter: the theorem is for EVERY operation sequence.

* insertions are sound unconditionally (C06: `evalTime_sound`, `cap_sound1`);
* removals keep time feasibility **under the triangle inequality** (`Metric`); without it the statement is
  false (`removal_breaks_feasibility_without_metric`) — this is the reproduced deviation S7, carried as a
  known finding with a crafted non-metric corpus instance; the proof-backed campaign uses metric matrices;
* removals of static demand keep capacity feasibility unconditionally.
The operator bodies themselves are traced (solver campaign + `Spec.feasible` on every returned solution).
-/
set_option linter.unusedSimpArgs false
set_option linter.unnecessarySimpa false

namespace C01
open Route C06

variable (t : Nat → Nat → Int)

/-- triangle inequality for travel times -/
def Metric : Prop := ∀ a b c, t a c ≤ t a b + t b c

/-- feasibility of a sequence depends only on the arrival time at its head, monotonically -/
theorem feas_head_arrival_mono (b : Act) (r : List Act) (l1 l2 : Nat) (d1 d2 : Int)
    (h : feas t (b :: r) l1 d1 = true) (hle : d2 + t l2 b.loc ≤ d1 + t l1 b.loc) :
    feas t (b :: r) l2 d2 = true := by
  rw [C06.feas_cons, Bool.and_eq_true, decide_eq_true_eq] at h ⊢
  refine ⟨by omega, C06.feas_mono t r b.loc _ _ ?_ h.2⟩
  unfold depOf; omega

/-- **removing an activity keeps the tour time-feasible when travel times obey the triangle inequality** -/
theorem remove_keeps_time_feasible (hm : Metric t) (pre rest : List Act) (x : Act) (l : Nat) (dep : Int)
    (hx : 0 ≤ x.dur) (h : feas t (pre ++ x :: rest) l dep = true) :
    feas t (pre ++ rest) l dep = true := by
  rw [C06.feas_append, Bool.and_eq_true] at h ⊢
  refine ⟨h.1, ?_⟩
  cases rest with
  | nil => exact C06.feas_nil t _ _
  | cons b r =>
    have h2 := h.2
    rw [C06.feas_cons, Bool.and_eq_true, decide_eq_true_eq] at h2
    apply feas_head_arrival_mono t b r x.loc _ _ _ h2.2
    have := hm (after t pre l dep).1 x.loc b.loc
    unfold depOf; omega

/-- **without the triangle inequality removal can make a feasible tour infeasible** (deviation S7):
    depot 0, C is reachable in time only through A -/
theorem removal_breaks_feasibility_without_metric :
    ∃ (t : Nat → Nat → Int) (a c : Act),
      feas t [a, c] 0 0 = true ∧ feas t [c] 0 0 = false := by
  refine ⟨fun x y => if x = y then 0 else if x = 0 ∧ y = 2 then 10 else 1,
          { loc := 1, s := 0, e := 100, dur := 0 }, { loc := 2, s := 0, e := 5, dur := 0 }, ?_, ?_⟩ <;> decide

/-! ### the tour machine -/

structure TourS where
  veh : Veh
  jobs : List Act

inductive TOp where
  | insert (r p : Nat) (x : Act)   -- accepted by the evaluator model
  | remove (r p : Nat)             -- ruin / local search removes the p-th job activity
  | drop (r : Nat)                 -- whole route removed
  | fresh (v : Veh)                -- a vehicle from the registry starts an (empty) tour

def tstep (s : List TourS) : TOp → Option (List TourS)
  | .insert r p x =>
    match s[r]? with
    | some tr =>
      if p ≤ tr.jobs.length ∧ evalTime t tr.veh tr.jobs p x = .ok then
        some (s.set r { tr with jobs := insertAt tr.jobs p x })
      else none
    | none => none
  | .remove r p =>
    match s[r]? with
    | some tr => if p < tr.jobs.length then some (s.set r { tr with jobs := tr.jobs.eraseIdx p }) else none
    | none => none
  | .drop r => some (s.eraseIdx r)
  | .fresh v => if tourFeas t v [] = true then some (s ++ [⟨v, []⟩]) else none

def trun (s : List TourS) : List TOp → Option (List TourS)
  | [] => some s
  | op :: ops => (tstep t s op).bind (fun s' => trun s' ops)

def AllFeasible (s : List TourS) : Prop := ∀ tr ∈ s, tourFeas t tr.veh tr.jobs = true ∧ ∀ a ∈ tr.jobs, 0 ≤ a.dur

theorem eraseIdx_split (l : List Act) (p : Nat) (hp : p < l.length) :
    ∃ x, l = l.take p ++ x :: l.drop (p + 1) ∧ l.eraseIdx p = l.take p ++ l.drop (p + 1) := by
  refine ⟨l[p], ?_, ?_⟩
  · have := List.getElem_cons_drop_succ_eq_drop hp
    rw [this, List.take_append_drop]
  · exact List.eraseIdx_eq_take_drop_succ l p

theorem mem_set {α : Type} (l : List α) (i : Nat) (x y : α) (h : y ∈ l.set i x) : y = x ∨ y ∈ l := by
  induction l generalizing i with
  | nil => simp at h
  | cons a r ih =>
    cases i with
    | zero => simp at h; rcases h with h | h <;> simp [h]
    | succ i =>
      simp only [List.set_cons_succ, List.mem_cons] at h
      rcases h with h | h
      · right; simp [h]
      · rcases ih i h with h1 | h1
        · left; exact h1
        · right; simp [h1]

/-- one step keeps every tour feasible -/
theorem tstep_feasible (hm : Metric t) (s s' : List TourS) (op : TOp) (hx : ∀ r p x, op = .insert r p x → 0 ≤ x.dur)
    (h : AllFeasible t s) (hs : tstep t s op = some s') : AllFeasible t s' := by
  cases op with
  | insert r p x =>
    simp only [tstep] at hs
    cases hr : s[r]? with
    | none => simp [hr] at hs
    | some tr =>
      simp only [hr] at hs
      split at hs
      · rename_i hc
        cases hs
        intro y hy
        rcases mem_set _ _ _ _ hy with rfl | hy
        · have htr := h tr (List.mem_of_getElem? hr)
          refine ⟨C06.evalTime_sound t tr.veh tr.jobs p x hc.1 htr.1 hc.2, ?_⟩
          intro a ha
          unfold insertAt at ha
          rcases List.mem_append.mp ha with h1 | h1
          · exact htr.2 a (List.mem_of_mem_take h1)
          · rcases List.mem_cons.mp h1 with rfl | h2
            · exact hx r p a rfl
            · exact htr.2 a (List.mem_of_mem_drop h2)
        · exact h y hy
      · cases hs
  | remove r p =>
    simp only [tstep] at hs
    cases hr : s[r]? with
    | none => simp [hr] at hs
    | some tr =>
      simp only [hr] at hs
      split at hs
      · rename_i hp
        cases hs
        intro y hy
        rcases mem_set _ _ _ _ hy with rfl | hy
        · have htr := h tr (List.mem_of_getElem? hr)
          obtain ⟨x, hsplit, herase⟩ := eraseIdx_split tr.jobs p hp
          constructor
          · simp only
            rw [herase]
            have hfe := htr.1
            unfold tourFeas Veh.full at hfe ⊢
            rw [hsplit] at hfe
            rw [List.append_assoc, List.cons_append] at hfe
            rw [List.append_assoc]
            apply remove_keeps_time_feasible t hm _ _ x _ _ _ hfe
            exact htr.2 x (by rw [hsplit]; simp)
          · intro a ha
            simp only at ha
            exact htr.2 a (List.mem_of_mem_eraseIdx ha)
        · exact h y hy
      · cases hs
  | drop r =>
    simp only [tstep] at hs
    cases hs
    intro y hy
    exact h y (List.mem_of_mem_eraseIdx hy)
  | fresh v =>
    simp only [tstep] at hs
    split at hs
    · rename_i hf
      cases hs
      intro y hy
      rcases List.mem_append.mp hy with h1 | h1
      · exact h y h1
      · simp at h1; subst h1
        exact ⟨hf, by simp⟩
    · cases hs

/-- **C01 (model, time windows + shift)**: with metric travel times every state reachable from
    feasible tours by ANY sequence of evaluator-accepted insertions, removals, route drops and fresh tours
    consists of feasible tours -/
theorem machine_preserves_feasible (hm : Metric t) (ops : List TOp)
    (hx : ∀ op ∈ ops, ∀ r p x, op = .insert r p x → 0 ≤ x.dur) :
    ∀ s s', AllFeasible t s → trun t s ops = some s' → AllFeasible t s' := by
  induction ops with
  | nil => intro s s' h hr; simp [trun] at hr; subst hr; exact h
  | cons op ops ih =>
    intro s s' h hr
    simp only [trun] at hr
    cases hs : tstep t s op with
    | none => simp [hs] at hr
    | some s1 =>
      simp [hs] at hr
      exact ih (fun o ho => hx o (List.mem_cons_of_mem _ ho)) s1 s'
        (tstep_feasible t hm s s1 op (hx op (by simp)) h hs) hr

/-! ### capacity under removal of static demand -/

open C06Cap in
/-- removing an activity with static demand only (single-task pickup / delivery / replacement) never raises
    any load of the profile -/
theorem remove_keeps_capacity_static (cap : Int) (ds : List Dem1) (p : Nat) (x : Dem1)
    (hdp : x.dp = 0) (hdd : x.dd = 0) (hsp : 0 ≤ x.sp) (hsd : 0 ≤ x.sd)
    (h : capOk1 cap (insertAt1 ds p x)) : capOk1 cap ds := by
  intro l hl
  -- every load of `ds` is dominated by the corresponding load of the tour with `x`
  rw [loads1_split ds p] at hl
  have hins : loads1 (insertAt1 ds p x) =
      ((startLoad1 ds + x.sd) :: after1 (startLoad1 ds + x.sd) (ds.take p)) ++
        (startLoad1 ds + x.sd + total (ds.take p) + x.change) ::
          after1 (startLoad1 ds + x.sd + total (ds.take p) + x.change) (ds.drop p) := by
    unfold loads1
    rw [startLoad1_insert]
    unfold insertAt1
    rw [after1_append]
    simp [after1]
  rcases List.mem_append.mp hl with h1 | h1
  · -- before the pivot: + sd
    have : l + x.sd ∈ loads1 (insertAt1 ds p x) := by
      rw [hins]
      apply List.mem_append_left
      rcases List.mem_cons.mp h1 with rfl | h2
      · simp
      · rw [after1_shift]
        exact List.mem_cons_of_mem _ (List.mem_map.mpr ⟨l, h2, rfl⟩)
    have := h _ this
    omega
  · -- after the pivot: + sp
    have e : startLoad1 ds + x.sd + total (ds.take p) + x.change = startLoad1 ds + total (ds.take p) + x.sp := by
      unfold Dem1.change; omega
    have : l + x.sp ∈ loads1 (insertAt1 ds p x) := by
      rw [hins, e]
      apply List.mem_append_right
      rw [after1_shift]
      exact List.mem_cons_of_mem _ (List.mem_map.mpr ⟨l, h1, rfl⟩)
    have := h _ this
    omega

/-! ### non-vacuity -/
def exT : Nat → Nat → Int := fun a b => if a = b then 0 else 5
example : Metric exT := by intro a b c; unfold exT; split <;> split <;> split <;> omega
example : (trun exT [] [.fresh { startLoc := 0, earliest := 0, dep := 0, endAt := some (0, 60) },
    .insert 0 0 { loc := 1, s := 0, e := 20, dur := 2 }, .insert 0 1 { loc := 2, s := 0, e := 30, dur := 1 },
    .remove 0 0]).map (fun s => s.map (fun tr => tr.jobs.map (·.loc))) = some [[2]] := by decide

end C01
