import VrpModel.C01Reach

/-!
# An accepted insertion adds no unreachable leg (C01, reachability)
-/

namespace VrpProofs.C01Reach
open VrpModel.C01Reach

theorem legsOk_cons_cons (d : Nat → Nat → Int) (a b : Nat) (rest : List Nat) :
    legsOk d (a :: b :: rest) = (decide (0 ≤ d a b) && legsOk d (b :: rest)) := rfl

/-- a tour splits at any activity into the part up to it and the part from it on -/
theorem legsOk_split (d : Nat → Nat → Int) (pre : List Nat) (x : Nat) (post : List Nat) :
    legsOk d (pre ++ x :: post) = (legsOk d (pre ++ [x]) && legsOk d (x :: post)) := by
  induction pre with
  | nil => simp [legsOk]
  | cons a pre ih =>
    cases pre with
    | nil => simp [legsOk]
    | cons b pre =>
      simp only [List.cons_append, legsOk_cons_cons] at ih ⊢
      rw [ih]; simp [Bool.and_assoc]

/-- **an accepted insertion keeps every leg reachable**: `target` put between `prev` and whatever follows it, anywhere in a tour
of any length -/
theorem insert_keeps_legsOk (d : Nat → Nat → Int) (pre : List Nat) (prev target : Nat) (post : List Nat)
    (h : legsOk d (pre ++ prev :: post) = true) (ha : accept d prev target post.head? = true) :
    legsOk d (pre ++ prev :: target :: post) = true := by
  rw [legsOk_split] at h ⊢
  simp only [Bool.and_eq_true] at h ⊢
  refine ⟨h.1, ?_⟩
  unfold accept at ha
  cases post with
  | nil => simp [legsOk] at ha ⊢; exact ha
  | cons n post =>
    simp only [List.head?_cons, Bool.and_eq_true, decide_eq_true_eq] at ha
    have h2 := h.2
    simp only [legsOk_cons_cons, Bool.and_eq_true, decide_eq_true_eq] at h2 ⊢
    exact ⟨ha.1, ha.2, h2.2⟩

/-- any number of accepted insertions, starting from a tour without unreachable legs -/
inductive Reach (d : Nat → Nat → Int) : List Nat → Prop
  | base (t : List Nat) : legsOk d t = true → Reach d t
  | insert (pre : List Nat) (prev target : Nat) (post : List Nat) :
      Reach d (pre ++ prev :: post) → accept d prev target post.head? = true → Reach d (pre ++ prev :: target :: post)

theorem reach_legsOk (d : Nat → Nat → Int) (t : List Nat) (h : Reach d t) : legsOk d t = true := by
  induction h with
  | base t h => exact h
  | insert pre prev target post _ ha ih => exact insert_keeps_legsOk d pre prev target post ih ha

/-- the one-way data of the demonstration of C01-r6: nothing is reachable FROM place 1, place 1 is reachable from everywhere -/
def deadEnd : Nat → Nat → Int := fun a b => if a = 1 ∧ b ≠ 1 then -1 else 10

/-- **the constraint asked in the wrong direction lets an unreachable leg through** (closed tour 2 → 0 → 2, dead end 1 inserted after 0) -/
theorem swapped_lets_unreachable_through :
    legsOk deadEnd [2, 0, 2] = true ∧ acceptSwapped deadEnd 0 1 (some 2) = true ∧ legsOk deadEnd [2, 0, 1, 2] = false := by
  decide

/-- the constraint as shipped refuses the same insertion -/
example : accept deadEnd 0 1 (some 2) = false := by decide
/-- ... and is not vacuous: the dead end may END an open tour -/
example : accept deadEnd 0 1 none = true ∧ legsOk deadEnd [2, 0, 1] = true := by decide

end VrpProofs.C01Reach
