import VrpModel.C01Reload

/-!
# The repaired clean-up of trivial reloads keeps every shared resource within its capacity (S62)
-/

namespace VrpProofs.C01Reload
open VrpModel.C01Reload

theorem drawn_append (r : Nat) (xs ys : List Iv) : drawn r (xs ++ ys) = drawn r xs + drawn r ys := by
  induction xs with
  | nil => simp [drawn]
  | cons x xs ih => simp [drawn, ih]; omega

/-- what the merged solution draws: the deliveries of `b` leave `b`'s resource and arrive at `a`'s -/
theorem drawn_merge (r : Nat) (l rest : List Iv) (a b : Iv) :
    drawn r (l ++ mergeIv a b :: rest)
      = drawn r (l ++ a :: b :: rest)
        - (if b.res = some r then b.deliv else 0) + (if a.res = some r then b.deliv else 0) := by
  simp only [drawn_append, drawn, mergeIv]
  by_cases ha : a.res = some r <;> by_cases hb : b.res = some r <;> simp [ha, hb] <;> omega

/-- **S62, the repaired rule.** If no resource is overdrawn, the deliveries of the right interval are not negative and the
clause `mergeOk` holds, then no resource is overdrawn after the reload between the two intervals is dropped - wherever the two
intervals stand among the intervals of all tours. -/
theorem merge_keeps_within (cap : Nat → Int) (l rest : List Iv) (a b : Iv)
    (h : Within cap (l ++ a :: b :: rest)) (hb : 0 ≤ b.deliv)
    (hok : mergeOk cap (l ++ a :: b :: rest) a b = true) :
    Within cap (l ++ mergeIv a b :: rest) := by
  intro r
  have hr := h r
  rw [drawn_merge]
  unfold mergeOk at hok
  by_cases ha : a.res = some r
  · simp only [ha, decide_eq_true_eq] at hok
    by_cases hbr : b.res = some r <;> simp [ha, hbr] <;> omega
  · by_cases hbr : b.res = some r <;> simp [ha, hbr] <;> omega

/-- the clause is not vacuous: a merge that fits is allowed ... -/
example : mergeOk (fun _ => 6) [⟨some 0, 5⟩, ⟨none, 1⟩] ⟨some 0, 5⟩ ⟨none, 1⟩ = true := by decide
/-- ... and the witness of S62 (5 of 5 units drawn, one more unit behind a plain reload) is refused -/
example : mergeOk (fun _ => 5) [⟨some 0, 5⟩, ⟨none, 1⟩] ⟨some 0, 5⟩ ⟨none, 1⟩ = false := by decide

/-- **S62, the rule before the repair** allowed a merge that overdraws: the witness found on the unchanged tree. -/
theorem broken_rule_overdraws :
    ∃ (cap : Nat → Int) (a b : Iv),
      Within cap [a, b] ∧ 0 ≤ b.deliv ∧ mergeOkBroken cap [a, b] a b = true ∧ ¬ Within cap [mergeIv a b] := by
  refine ⟨fun _ => 5, ⟨some 0, 5⟩, ⟨none, 1⟩, ?_, by decide, rfl, ?_⟩
  · intro r
    by_cases h : r = 0
    · subst h; decide
    · have : (some 0 : Option Nat) ≠ some r := by simp; omega
      simp [drawn, this]
  · intro h
    have := h 0
    simp [drawn, mergeIv] at this

/-- merging into an interval that is loaded at the depot or at a plain reload never adds to any resource -/
theorem merge_into_plain (cap : Nat → Int) (l rest : List Iv) (a b : Iv)
    (h : Within cap (l ++ a :: b :: rest)) (hb : 0 ≤ b.deliv) (ha : a.res = none) :
    Within cap (l ++ mergeIv a b :: rest) :=
  merge_keeps_within cap l rest a b h hb (by simp [mergeOk, ha])

/-- **The clause of the code implies the rule.** What the repaired code evaluates (`clause`) allows a merge only if `mergeOk`
does, provided the amount stored for a clean (not stale) tour is there and is not more than what is really left of the resource -
the invariant of `update_resource_consumption` (capacity minus the demand of all tours) and of `prevent_resource_consumption`
(zero). -/
theorem clause_sound (cap : Nat → Int) (all : List Iv) (stale : Bool) (avail : Option Int) (a b : Iv)
    (hb : 0 ≤ b.deliv) (hall : ∀ r, drawn r all ≤ cap r)
    (hst : ∀ r, a.res = some r → stale = false → ∃ v, avail = some v ∧ v ≤ cap r - drawn r all)
    (hc : clause stale avail a b = true) : mergeOk cap all a b = true := by
  unfold clause at hc
  unfold mergeOk
  cases hres : a.res with
  | none => rfl
  | some r =>
    simp only [hres] at hc
    cases stale with
    | true =>
      simp at hc
      have := hall r
      simp; omega
    | false =>
      obtain ⟨v, hv, hle⟩ := hst r hres rfl
      simp [hv] at hc
      simp; omega

/-- the clause and the rule together: the code's decision keeps every shared resource within its capacity -/
theorem clause_keeps_within (cap : Nat → Int) (l rest : List Iv) (stale : Bool) (avail : Option Int) (a b : Iv)
    (h : Within cap (l ++ a :: b :: rest)) (hb : 0 ≤ b.deliv)
    (hst : ∀ r, a.res = some r → stale = false → ∃ v, avail = some v ∧ v ≤ cap r - drawn r (l ++ a :: b :: rest))
    (hc : clause stale avail a b = true) :
    Within cap (l ++ mergeIv a b :: rest) :=
  merge_keeps_within cap l rest a b h hb (clause_sound cap _ stale avail a b hb h hst hc)

/-- not vacuous: a clean tour with one unit left takes one unit; a stale tour takes nothing -/
example : clause false (some 1) ⟨some 0, 5⟩ ⟨none, 1⟩ = true ∧ clause true (some 1) ⟨some 0, 5⟩ ⟨none, 1⟩ = false := by decide

/-- the state lookup of the old code (`none` whatever was stored) on a clean tour: the clause holds although nothing is left -/
example : clause false none ⟨some 0, 5⟩ ⟨none, 1⟩ = true := by decide

/-! ### any number of clean-up steps -/

/-- one clean-up step somewhere in the solution: a reload between two neighbouring intervals is dropped under the rule -/
inductive Step (cap : Nat → Int) : List Iv → List Iv → Prop
  | drop (l rest : List Iv) (a b : Iv) (hb : 0 ≤ b.deliv)
      (hok : mergeOk cap (l ++ a :: b :: rest) a b = true) :
      Step cap (l ++ a :: b :: rest) (l ++ mergeIv a b :: rest)

/-- any number of steps -/
inductive Steps (cap : Nat → Int) : List Iv → List Iv → Prop
  | refl (ivs : List Iv) : Steps cap ivs ivs
  | tail {x y z : List Iv} : Steps cap x y → Step cap y z → Steps cap x z

theorem step_keeps_within (cap : Nat → Int) {x y : List Iv} (h : Step cap x y) (hw : Within cap x) : Within cap y := by
  cases h with
  | drop l rest a b hb hok => exact merge_keeps_within cap l rest a b hw hb hok

/-- **every solution reachable by clean-up steps under the rule keeps every shared resource within its capacity** - any number
of steps, tours, intervals and resources -/
theorem steps_keep_within (cap : Nat → Int) {x y : List Iv} (h : Steps cap x y) (hw : Within cap x) : Within cap y := by
  induction h with
  | refl => exact hw
  | tail _ hstep ih => exact step_keeps_within cap hstep ih

/-- total of all deliveries -/
def total : List Iv → Int
  | [] => 0
  | iv :: rest => iv.deliv + total rest

theorem total_append (xs ys : List Iv) : total (xs ++ ys) = total xs + total ys := by
  induction xs with
  | nil => simp [total]
  | cons x xs ih => simp [total, ih]; omega

/-- a clean-up step loses no delivery: what is served stays served (the C02 side of the step) -/
theorem step_keeps_total (cap : Nat → Int) {x y : List Iv} (h : Step cap x y) : total y = total x := by
  cases h with
  | drop l rest a b hb hok => simp [total_append, total, mergeIv]; omega

theorem steps_keep_total (cap : Nat → Int) {x y : List Iv} (h : Steps cap x y) : total y = total x := by
  induction h with
  | refl => rfl
  | tail _ hstep ih => rw [step_keeps_total cap hstep, ih]

/-- every step removes exactly one interval: the clean-up terminates after at most `length - 1` steps -/
theorem step_length (cap : Nat → Int) {x y : List Iv} (h : Step cap x y) : y.length + 1 = x.length := by
  cases h with
  | drop l rest a b hb hok => simp; omega

/-- not vacuous: a step exists (one unit left of res0, one unit moves) -/
example : Step (fun _ => 6) ([] ++ ⟨some 0, 5⟩ :: ⟨none, 1⟩ :: []) ([] ++ mergeIv ⟨some 0, 5⟩ ⟨none, 1⟩ :: []) :=
  Step.drop [] [] ⟨some 0, 5⟩ ⟨none, 1⟩ (by decide) (by decide)

end VrpProofs.C01Reload
