import VrpProofs.Machine
/-!
# C02 — every job is accounted for exactly once (abstract search machine)

For EVERY operation sequence of the machine (every operator, random stream, thread schedule — they only
decide which elementary steps happen): the four places a job can live partition the plan's jobs, the
vehicle registry matches the routes, locked jobs are never unassigned by a removal, and after
finalisation + `Solution::from` every job is either assigned or reported unassigned, exactly as often as it
occurs in the plan; no route without jobs is handed over.
What ties it to the code: the operation-sequence correspondence of C04 and the `partition` oracle
(`VrpModel/Spec.lean`) on every returned solution of the solver campaign.
-/
set_option linter.unusedSimpArgs false
set_option linter.unnecessarySimpa false
set_option linter.unusedVariables false

namespace Machine

/-! ### registry: available ⊎ used = fleet -/

def ucnt (a : Actor) (rs : List Route) : Nat := (rs.map (·.actor)).count a

def RegPart (fleet : List Actor) (c : Ctx) : Prop := ∀ a, c.available.count a + ucnt a c.routes = fleet.count a

theorem ucnt_modify (a : Actor) (rs : List Route) (r : Nat) (f : Route → Route) (hf : ∀ x, (f x).actor = x.actor) :
    ucnt a (rs.modify r f) = ucnt a rs := by
  induction rs generalizing r with
  | nil => simp [ucnt]
  | cons x rs ih =>
    cases r with
    | zero => simp [ucnt, List.modify, hf]
    | succ r =>
      have := ih r
      simp only [ucnt, List.modify_succ_cons, List.map_cons, List.count_cons] at this ⊢
      omega

theorem ucnt_eraseIdx (a : Actor) (rs : List Route) (r : Nat) (rt : Route) (h : rs[r]? = some rt) :
    ucnt a (rs.eraseIdx r) + (if rt.actor = a then 1 else 0) = ucnt a rs := by
  induction rs generalizing r with
  | nil => simp at h
  | cons x rs ih =>
    cases r with
    | zero =>
      simp at h; subst h
      simp only [ucnt, List.eraseIdx_cons_zero, List.map_cons, List.count_cons]
      by_cases e : x.actor = a <;> simp [e]
    | succ r =>
      have := ih r (by simpa using h)
      simp only [ucnt, List.eraseIdx_cons_succ, List.map_cons, List.count_cons] at this ⊢
      omega

theorem count_erase_actor (a b : Actor) (l : List Actor) (h : b ∈ l) :
    (l.erase b).count a + (if b = a then 1 else 0) = l.count a := count_erase_mem a b l h

/-- every step keeps `available ⊎ used = fleet` -/
theorem step_reg (fleet : List Actor) (c c' : Ctx) (op : Op) (h : RegPart fleet c) (hs : step c op = some c') :
    RegPart fleet c' := by
  intro a
  have ha := h a
  cases op with
  | insert j r =>
    simp only [step] at hs
    split at hs
    · cases hs
      simp only
      rw [ucnt_modify a c.routes r (fun rt => { rt with jobs := j :: rt.jobs }) (fun _ => rfl)]
      exact ha
    · cases hs
  | insertNew j b =>
    simp only [step] at hs
    split at hs
    · rename_i hc
      cases hs
      have h2 := count_erase_actor a b c.available hc.2
      simp only [ucnt, List.map_append, List.map_cons, List.map_nil, List.count_append, List.count_cons,
        List.count_nil] at ha ⊢
      by_cases e : b = a
      · subst e; simp at h2 ⊢; omega
      · have : (b == a) = false := by simp [e]
        simp [e, this] at h2 ⊢; omega
    · cases hs
  | remove j r =>
    simp only [step] at hs
    split at hs
    · split at hs
      · cases hs
        simp only
        rw [ucnt_modify a c.routes r (fun rt => { rt with jobs := rt.jobs.erase j }) (fun _ => rfl)]
        exact ha
      · cases hs
    · cases hs
  | dropRoute r =>
    simp only [step] at hs
    split at hs
    · rename_i rt hr
      split at hs
      · cases hs
        have h1 := ucnt_eraseIdx a c.routes r rt hr
        simp only [List.count_cons]
        by_cases e : rt.actor = a
        · simp [e] at h1 ⊢; omega
        · have : (rt.actor == a) = false := by simp [e]
          simp [e, this] at h1 ⊢; omega
      · cases hs
    · cases hs
  | finalize => simp only [step] at hs; cases hs; exact ha
  | prepare => simp only [step] at hs; cases hs; exact ha
  | ignore j =>
    simp only [step] at hs
    split at hs
    · cases hs; exact ha
    · cases hs
  | promote j =>
    simp only [step] at hs
    split at hs
    · cases hs; exact ha
    · cases hs

theorem run_reg (fleet : List Actor) (ops : List Op) :
    ∀ c c', RegPart fleet c → run c ops = some c' → RegPart fleet c' := by
  induction ops with
  | nil => intro c c' h hr; simp [run] at hr; subst hr; exact h
  | cons op ops ih =>
    intro c c' h hr
    simp only [run] at hr
    cases hs : step c op with
    | none => simp [hs] at hr
    | some c1 => simp [hs] at hr; exact ih c1 c' (step_reg fleet c c1 op h hs) hr

/-- **no vehicle drives two tours, and a vehicle is offered exactly when it drives none** (for a fleet
    without duplicates) -/
theorem registry_matches_routes (fleet : List Actor) (c : Ctx) (h : RegPart fleet c) (hnd : fleet.Nodup)
    (a : Actor) (ha : a ∈ fleet) :
    (a ∈ c.available ↔ ucnt a c.routes = 0) ∧ ucnt a c.routes ≤ 1 := by
  have h1 := h a
  have h2 : fleet.count a = 1 := by rw [List.Nodup.count hnd]; simp [ha]
  constructor
  · constructor
    · intro hm
      have : 0 < c.available.count a := List.count_pos_iff.mpr hm
      omega
    · intro hz
      have : 0 < c.available.count a := by omega
      exact List.count_pos_iff.mp this
  · omega

/-! ### hand-over: finalisation, job-less routes, the reported solution -/

theorem finalize_no_required (c c' : Ctx) (h : step c .finalize = some c') : c'.required = [] := by
  simp only [step] at h; cases h; rfl

theorem dropEmpty_part (all : List Job) (c : Ctx) (h : Part all c) : Part all (dropEmpty c) := by
  intro x
  have hx := h x
  simp only [Ctx.allJobs, Ctx.assigned, List.count_append, dropEmpty] at hx ⊢
  have : ∀ rs : List Route, ((rs.filter (fun r => !r.jobs.isEmpty)).flatMap (·.jobs)).count x
      = (rs.flatMap (·.jobs)).count x := by
    intro rs
    induction rs with
    | nil => rfl
    | cons r rs ih =>
      by_cases he : r.jobs.isEmpty = true
      · have : r.jobs = [] := List.isEmpty_iff.mp he
        simp [List.filter_cons, he, ih, this]
      · simp [List.filter_cons, he, ih, List.count_append]
  rw [this]; exact hx

/-- **no job-less tour is handed over** -/
theorem dropEmpty_no_empty_route (c : Ctx) : ∀ r ∈ (dropEmpty c).routes, r.jobs ≠ [] := by
  intro r hr
  simp only [dropEmpty, List.mem_filter] at hr
  intro he
  simp [he] at hr

/-- what `Solution::from` reports as unassigned: `unassigned` together with `required` -/
def reported (c : Ctx) : List Job := c.unassigned ++ c.required

/-- **C02 (model)**: in every state reachable from a partition, each plan job is assigned or reported
    unassigned or a parked conditional job, exactly as often as it occurs in the plan — so for a plan without
    duplicate ids: completely in exactly one of these places -/
theorem reachable_solution_partition (all : List Job) (ops : List Op) (c c' : Ctx)
    (h : Part all c) (hr : run c ops = some c') (x : Job) :
    c'.assigned.count x + (reported c').count x + c'.ignored.count x = all.count x := by
  have := run_part all ops c c' h hr x
  simp only [Ctx.allJobs, List.count_append, reported] at this ⊢
  omega

theorem exactly_one_place (all : List Job) (hnd : all.Nodup) (c : Ctx) (h : Part all c) (x : Job) (hx : x ∈ all) :
    c.assigned.count x + (reported c).count x + c.ignored.count x = 1 := by
  have h1 := h x
  have h2 : all.count x = 1 := by rw [List.Nodup.count hnd]; simp [hx]
  simp only [Ctx.allJobs, List.count_append, reported] at h1 ⊢
  omega

theorem no_foreign_job (all : List Job) (c : Ctx) (h : Part all c) (x : Job) (hx : x ∉ all) :
    x ∉ c.assigned ∧ x ∉ reported c := by
  have h1 := h x
  have h2 : all.count x = 0 := List.count_eq_zero.mpr hx
  simp only [Ctx.allJobs, List.count_append, reported] at h1 ⊢
  constructor
  · intro hm; have : 0 < c.assigned.count x := List.count_pos_iff.mpr hm; omega
  · intro hm
    have : 0 < (c.unassigned ++ c.required).count x := List.count_pos_iff.mpr hm
    simp only [List.count_append] at this
    omega

/-! ### locked jobs are not removed -/

/-- a removal step (job or whole route) never lowers the assignment count of a locked job -/
theorem step_locked_stays (c c' : Ctx) (op : Op) (x : Job) (hl : x ∈ c.locked) (hs : step c op = some c') :
    cnt x c.routes ≤ cnt x c'.routes := by
  cases op with
  | insert j r =>
    simp only [step] at hs
    split at hs
    · rename_i hc; cases hs
      have := cnt_modify_cons x j c.routes r hc.2
      simp only; omega
    · cases hs
  | insertNew j a =>
    simp only [step] at hs
    split at hs
    · cases hs; simp only [cnt_append]; omega
    · cases hs
  | remove j r =>
    simp only [step] at hs
    split at hs
    · rename_i rt hr
      split at hs
      · rename_i hc
        cases hs
        have h1 := cnt_modify_erase x j c.routes r rt hr hc.1
        have hne : j ≠ x := fun e => hc.2 (e ▸ hl)
        simp only [hne, if_false] at h1
        simp only; omega
      · cases hs
    · cases hs
  | dropRoute r =>
    simp only [step] at hs
    split at hs
    · rename_i rt hr
      split at hs
      · rename_i hall
        cases hs
        have h1 := cnt_eraseIdx x c.routes r rt hr
        have hz : rt.jobs.count x = 0 := by
          apply List.count_eq_zero.mpr
          intro hm
          have := List.all_eq_true.mp hall x hm
          simp at this
          exact this hl
        simp only; omega
      · cases hs
    · cases hs
  | finalize => simp only [step] at hs; cases hs; exact Nat.le_refl _
  | prepare => simp only [step] at hs; cases hs; exact Nat.le_refl _
  | ignore j =>
    simp only [step] at hs
    split at hs
    · cases hs; exact Nat.le_refl _
    · cases hs
  | promote j =>
    simp only [step] at hs
    split at hs
    · cases hs; exact Nat.le_refl _
    · cases hs

/-! ### non-vacuity -/
def ex0 : Ctx := { required := [1, 2, 3], ignored := [], unassigned := [], locked := [2], routes := [], available := [7, 8] }
example : Part [1, 2, 3] ex0 := by intro x; simp [ex0, Ctx.allJobs, Ctx.assigned]
example : (run ex0 [.insertNew 2 7, .insertNew 1 8, .remove 1 1, .finalize]).map (fun c => (c.assigned, reported c))
    = some ([2], [1, 3]) := by decide
-- the locked job cannot be removed
example : run ex0 [.insertNew 2 7, .remove 2 0] = none := by decide

end Machine
