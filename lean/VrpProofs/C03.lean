import VrpModel.C03
/-!
# C03 — reported statistics are what a replay from the visiting order gives

For tours of any length (model of the writer's fold vs the SPEC quantities of `VrpModel/Route.lean`):
duration telescopes to `last departure - first departure`; driving + serving + waiting + break = duration;
distance is the sum of the leg distances in visiting order; cost = fixed + distance*c_d + duration*c_t.
Out of model: commute/parking (clustering), reserved times inserted as breaks, the `as i64` truncation of
non-integral values (integer data), f64.
-/
set_option linter.unusedSimpArgs false

namespace C03
open Route

variable (t d : Nat → Nat → Int) (cd ct : Int)

def acts (ws : List WAct) : List Act := ws.map (·.act)

theorem foldLeg_duration (ws : List WAct) (l : Nat) (dep : Int) (st : WStat) :
    (foldLeg t d cd ct l dep st ws).duration = st.duration + ((after t (acts ws) l dep).2 - dep) := by
  induction ws generalizing l dep st with
  | nil => simp [foldLeg, acts, after]
  | cons a r ih =>
    simp only [foldLeg, acts, List.map_cons, after]
    rw [ih]
    simp only [acts, depOf]
    omega

theorem foldLeg_distance (ws : List WAct) (l : Nat) (dep : Int) (st : WStat) :
    (foldLeg t d cd ct l dep st ws).distance = st.distance + totalDist d (acts ws) l := by
  induction ws generalizing l dep st with
  | nil => simp [foldLeg, acts, totalDist]
  | cons a r ih =>
    simp only [foldLeg, acts, List.map_cons, totalDist]
    rw [ih]
    simp only [acts]
    omega

/-- the four time buckets always add up to the duration -/
theorem foldLeg_timing_split (ws : List WAct) (l : Nat) (dep : Int) (st : WStat)
    (h : st.driving + st.serving + st.waiting + st.breakT = st.duration) :
    let r := foldLeg t d cd ct l dep st ws
    r.driving + r.serving + r.waiting + r.breakT = r.duration := by
  induction ws generalizing l dep st with
  | nil => simpa [foldLeg] using h
  | cons a r ih =>
    simp only [foldLeg]
    apply ih
    simp only
    split <;> omega

/-- cost accumulates distance*c_d + duration*c_t -/
theorem foldLeg_cost (ws : List WAct) (l : Nat) (dep : Int) (st : WStat) :
    (foldLeg t d cd ct l dep st ws).cost
      = st.cost + totalDist d (acts ws) l * cd + ((after t (acts ws) l dep).2 - dep) * ct := by
  induction ws generalizing l dep st with
  | nil => simp [foldLeg, acts, totalDist, after]
  | cons a r ih =>
    simp only [foldLeg, acts, List.map_cons, totalDist, after]
    rw [ih]
    simp only [acts, depOf]
    have e1 : (d l a.act.loc + totalDist d (List.map (fun x => x.act) r) a.act.loc) * cd
        = d l a.act.loc * cd + totalDist d (List.map (fun x => x.act) r) a.act.loc * cd := Int.add_mul _ _ _
    generalize totalDist d (List.map (fun x => x.act) r) a.act.loc = D at *
    generalize (after t (List.map (fun x => x.act) r) a.act.loc (max (dep + t l a.act.loc) a.act.s + a.act.dur)).2 = E
    rw [e1]
    have e2 : (E - dep) * ct = (E - (max (dep + t l a.act.loc) a.act.s + a.act.dur)) * ct
        + (a.act.dur * ct + t l a.act.loc * ct + (max (dep + t l a.act.loc) a.act.s - (dep + t l a.act.loc)) * ct) := by
      rw [← Int.add_mul, ← Int.add_mul, ← Int.add_mul]
      congr 1
      omega
    rw [e2]
    omega

/-- **C03 (model)**: the statistic the writer reports for a tour is the replay of its visiting order:
    `duration = last departure - first departure`, `distance = sum of leg distances`,
    `driving + serving + waiting + break = duration`, `cost = fixed + distance*c_d + duration*c_t` -/
theorem tourStat_is_replay (fixed : Int) (startLoc : Nat) (dep : Int) (ws : List WAct) :
    let st := tourStat t d fixed cd ct startLoc dep ws
    st.duration = (after t (acts ws) startLoc dep).2 - dep ∧
    st.distance = totalDist d (acts ws) startLoc ∧
    st.driving + st.serving + st.waiting + st.breakT = st.duration ∧
    st.cost = fixed + st.distance * cd + st.duration * ct := by
  simp only [tourStat]
  have h1 := foldLeg_duration t d cd ct ws startLoc dep WStat.zero
  have h2 := foldLeg_distance t d cd ct ws startLoc dep WStat.zero
  have h3 := foldLeg_timing_split t d cd ct ws startLoc dep WStat.zero (by simp [WStat.zero])
  have h4 := foldLeg_cost t d cd ct ws startLoc dep WStat.zero
  have z1 : WStat.zero.duration = 0 := rfl
  have z2 : WStat.zero.distance = 0 := rfl
  have z3 : WStat.zero.cost = 0 := rfl
  rw [z1] at h1
  rw [z2] at h2
  rw [z3] at h4
  refine ⟨by omega, by omega, h3, ?_⟩
  rw [h4, h1, h2]
  simp only [Int.zero_add]
  omega

/-- the overall statistic is the component-wise sum of the tours -/
theorem overall_is_sum (sts : List WStat) :
    (sts.foldl addStat WStat.zero).cost = (sts.map (·.cost)).sum ∧
    (sts.foldl addStat WStat.zero).distance = (sts.map (·.distance)).sum ∧
    (sts.foldl addStat WStat.zero).duration = (sts.map (·.duration)).sum := by
  have key : ∀ (acc : WStat) (l : List WStat),
      (l.foldl addStat acc).cost = acc.cost + (l.map (·.cost)).sum ∧
      (l.foldl addStat acc).distance = acc.distance + (l.map (·.distance)).sum ∧
      (l.foldl addStat acc).duration = acc.duration + (l.map (·.duration)).sum := by
    intro acc l
    induction l generalizing acc with
    | nil => simp
    | cons x r ih =>
      simp only [List.foldl_cons, List.map_cons, List.sum_cons]
      have := ih (addStat acc x)
      simp only [addStat] at this ⊢
      omega
  have := key WStat.zero sts
  simp only [WStat.zero] at this ⊢
  omega

/-! ### non-vacuity: a tour with waiting and a break -/
example :
    tourStat (fun a b => if a = b then 0 else 5) (fun a b => if a = b then 0 else 7) 10 2 3 0 0
      [⟨{ loc := 1, s := 10, e := 20, dur := 2 }, false⟩, ⟨{ loc := 1, s := 0, e := 50, dur := 4 }, true⟩,
       ⟨{ loc := 0, s := 0, e := 99, dur := 0 }, false⟩]
    == { cost := 10 + 14 * 2 + 21 * 3, distance := 14, duration := 21, driving := 10, serving := 2, waiting := 5, breakT := 4 } := by
  decide

end C03
