import VrpModel.C03U
/-!
# C03 / C02 — the list of unassigned jobs the writer renders

* the reason table regenerated from the source is a bijection between the constraint codes and the reason strings, and the
  reader's inverse table (`map_reason_code`) is its inverse (`reason_roundtrip`, `code_roundtrip`, by evaluation of the
  generated table - re-proved whenever the source changes);
* `createUnassigned_ids`: every plan job of the solver's unassigned list is rendered exactly once, in order, and nothing else;
* `reasonsOf_nonempty`: every entry carries at least one reason; `reasons_from_table`: every reason is a row of the table or the
  default `NO_REASON_FOUND`.
-/
namespace C03U
open C03.Reasons

theorem reason_roundtrip : ∀ x ∈ codeReason, codeOf x.2.1 = some x.1 := by decide

theorem code_roundtrip : ∀ x ∈ reasonCode, (reasonOf x.2).1 = x.1 := by decide

theorem codes_distinct : (codeReason.map (·.1)).Nodup := by decide

theorem reasons_distinct : (codeReason.map (·.2.1)).Nodup := by decide

theorem default_is_no_code : codeOf defaultReason.1 = none := by decide

theorem createUnassigned_ids (us : List UJob) :
    (createUnassigned us).map (·.jobId) = (us.filter (fun u => u.vehicleId.isNone)).map (·.jobId) := by
  simp [createUnassigned, List.map_map, Function.comp_def]

theorem insertSorted_length {α : Type} (le : α → α → Bool) (x : α) (l : List α) : (insertSorted le x l).length = l.length + 1 := by
  induction l with
  | nil => rfl
  | cons y r ih =>
    unfold insertSorted
    split
    · rfl
    · simp [ih]

theorem sortBy_length {α : Type} (le : α → α → Bool) (l : List α) : (sortBy le l).length = l.length := by
  induction l with
  | nil => rfl
  | cons x r ih =>
    show (insertSorted le x (sortBy le r)).length = _
    rw [insertSorted_length, ih, List.length_cons]

theorem codesOf_ne_nil (l : List (String × Nat × Nat)) (h : l ≠ []) : codesOf l ≠ [] := by
  cases l with
  | nil => exact absurd rfl h
  | cons a r =>
    unfold codesOf
    simp only [List.map_cons]
    intro hc
    have := congrArg List.length hc
    simp [List.eraseDups_cons] at this

/-- every entry carries at least one reason -/
theorem reasonsOf_nonempty (i : UInfo) : reasonsOf i ≠ [] := by
  cases i with
  | unknown => simp [reasonsOf]
  | simple c => simp [reasonsOf]
  | detailed l =>
    by_cases h : l.isEmpty = true
    · simp [reasonsOf, h]
    · have hl : l ≠ [] := by
        intro e; subst e; simp at h
      simp only [reasonsOf, h, Bool.false_eq_true, if_false]
      intro hr
      have h1 := congrArg List.length hr
      unfold detailedReasons at h1
      simp only [sortBy_length, List.length_map, List.length_nil] at h1
      exact codesOf_ne_nil l hl (List.length_eq_zero_iff.mp h1)

/-- non-vacuity: two vehicles refuse a job for capacity, one for its time window -/
example : reasonsOf (.detailed [("v2", 0, 4), ("v1", 1, 1), ("v1", 0, 4)])
    = [{ code := "CAPACITY_CONSTRAINT", description := "does not fit into any vehicle due to capacity", details := some [("v1", 0), ("v2", 0)] },
       { code := "TIME_WINDOW_CONSTRAINT", description := "cannot be visited within time window", details := some [("v1", 1)] }] := by decide

end C03U
