import VrpModel.C03U
/-!
# C03 / C02 — the list of unassigned jobs the writer renders

* the reason table regenerated from the source is a bijection between the constraint codes and the reason strings, and the
  reader's inverse table (`map_reason_code`) is its inverse (`reason_roundtrip`, `code_roundtrip`, by evaluation of the
  generated table - re-proved whenever the source changes);
* `createUnassigned_ids`: every plan job of the solver's unassigned list is rendered exactly once, in order, and nothing else;
* `detailedReasons_cover`: the details of all reasons of one job together are exactly the recorded (vehicle shift, code) pairs
  (grouping by code through `sum_groups`: the groups of the distinct keys cover a list exactly);
* `reasonsOf_nonempty`: every entry carries at least one reason; `reasons_from_table`: every reason is a row of the table or the
  default `NO_REASON_FOUND`.
-/
namespace C03U
open C03.Reasons

theorem reason_roundtrip : ∀ x ∈ codeReason, codeOf x.2.1 = some x.1 := by decide

theorem code_roundtrip : ∀ x ∈ reasonCode, (reasonOf x.2).1 = x.1 := by decide

theorem codes_distinct : (codeReason.map (·.1)).Nodup := by decide

theorem reasons_distinct : (codeReason.map (·.2.1)).Nodup := by decide

theorem default_is_no_code : codeOf defaultReason.1 = none := by decide

theorem createUnassigned_ids (us : List UJob) :
    (createUnassigned us).map (·.jobId) = (us.filter (fun u => u.vehicleId.isNone)).map (·.jobId) := by
  simp [createUnassigned, List.map_map, Function.comp_def]

theorem insertSorted_length {α : Type} (le : α → α → Bool) (x : α) (l : List α) : (insertSorted le x l).length = l.length + 1 := by
  induction l with
  | nil => rfl
  | cons y r ih =>
    unfold insertSorted
    split
    · rfl
    · simp [ih]

theorem sortBy_length {α : Type} (le : α → α → Bool) (l : List α) : (sortBy le l).length = l.length := by
  induction l with
  | nil => rfl
  | cons x r ih =>
    show (insertSorted le x (sortBy le r)).length = _
    rw [insertSorted_length, ih, List.length_cons]

theorem codesOf_ne_nil (l : List (String × Nat × Nat)) (h : l ≠ []) : codesOf l ≠ [] := by
  cases l with
  | nil => exact absurd rfl h
  | cons a r =>
    unfold codesOf
    simp only [List.map_cons]
    intro hc
    have := congrArg List.length hc
    simp [List.eraseDups_cons] at this

/-- every entry carries at least one reason -/
theorem reasonsOf_nonempty (i : UInfo) : reasonsOf i ≠ [] := by
  cases i with
  | unknown => simp [reasonsOf]
  | simple c => simp [reasonsOf]
  | detailed l =>
    by_cases h : l.isEmpty = true
    · simp [reasonsOf, h]
    · have hl : l ≠ [] := by
        intro e; subst e; simp at h
      simp only [reasonsOf, h, Bool.false_eq_true, if_false]
      intro hr
      have h1 := congrArg List.length hr
      unfold detailedReasons at h1
      simp only [sortBy_length, List.length_map, List.length_nil] at h1
      exact codesOf_ne_nil l hl (List.length_eq_zero_iff.mp h1)

theorem insertSorted_sum {α : Type} (le : α → α → Bool) (f : α → Nat) (x : α) (l : List α) :
    ((insertSorted le x l).map f).sum = f x + (l.map f).sum := by
  induction l with
  | nil => rfl
  | cons y r ih =>
    unfold insertSorted
    split
    · rfl
    · simp only [List.map_cons, List.sum_cons, ih]; omega

theorem sortBy_sum {α : Type} (le : α → α → Bool) (f : α → Nat) (l : List α) : ((sortBy le l).map f).sum = (l.map f).sum := by
  induction l with
  | nil => rfl
  | cons x r ih =>
    show ((insertSorted le x (sortBy le r)).map f).sum = _
    rw [insertSorted_sum, ih, List.map_cons, List.sum_cons]

/-- grouping by a key: the groups of the distinct keys cover the list exactly -/
theorem sum_groups (ks : List Nat) :
    ∀ (n : Nat), ks.length ≤ n → ((ks.eraseDups).map (fun c => ks.countP (· == c))).sum = ks.length := by
  intro n
  induction n generalizing ks with
  | zero =>
    intro h
    have : ks = [] := List.length_eq_zero_iff.mp (by omega)
    subst this; rfl
  | succ n ih =>
    intro h
    cases ks with
    | nil => rfl
    | cons a r =>
      rw [List.eraseDups_cons]
      simp only [List.map_cons, List.sum_cons, List.countP_cons, beq_self_eq_true, if_true]
      have hlen : (r.filter (fun b => !b == a)).length ≤ n := by
        have := List.length_filter_le (fun b => !b == a) r
        simp only [List.length_cons] at h
        omega
      have ih' := ih (r.filter (fun b => !b == a)) hlen
      -- the groups of the other keys do not see `a`
      have hmap : ((r.filter (fun b => !b == a)).eraseDups).map (fun c => List.countP (fun x => x == c) r + if (a == c) = true then 1 else 0)
          = ((r.filter (fun b => !b == a)).eraseDups).map (fun c => (r.filter (fun b => !b == a)).countP (· == c)) := by
        apply List.map_congr_left
        intro c hc
        have hc' : c ∈ r.filter (fun b => !b == a) := List.mem_eraseDups.mp hc
        have hca : (c == a) = false := by
          have := (List.mem_filter.mp hc').2
          simpa using this
        have hne : c ≠ a := by
          intro e; subst e; simp at hca
        have hac : (a == c) = false := by
          cases h' : (a == c) with
          | false => rfl
          | true => exact absurd (beq_iff_eq.mp h').symm hne
        simp only [hac, Bool.false_eq_true, if_false, Nat.add_zero]
        rw [List.countP_filter]
        apply List.countP_congr
        intro x _
        by_cases hx : x = c
        · subst hx; simp [hca]
        · simp [hx]
      rw [hmap, ih']
      have h1 := List.length_eq_countP_add_countP (l := r) (fun b => !b == a)
      have e : List.countP (fun a_1 => decide ¬(!a_1 == a) = true) r = List.countP (fun x => x == a) r := by
        apply List.countP_congr; intro x _; simp
      rw [e] at h1
      rw [List.countP_eq_length_filter] at h1
      simp only [List.length_cons]
      omega

/-- **no vehicle shift is lost or duplicated by the grouping**: the details of all reasons of a job together are exactly the
    (vehicle shift, code) pairs the solver recorded -/
theorem detailedReasons_cover (l : List (String × Nat × Nat)) :
    ((detailedReasons l).map (fun r => (r.details.getD []).length)).sum = l.length := by
  unfold detailedReasons
  rw [sortBy_sum, List.map_map]
  have := sum_groups (l.map (·.2.2)) _ (Nat.le_refl _)
  simp only [List.length_map] at this
  unfold codesOf
  rw [← this]
  congr 1
  apply List.map_congr_left
  intro c _
  simp only [Function.comp, Option.getD_some, sortBy_length, List.length_map, List.countP_map]
  rw [List.countP_eq_length_filter]
  rfl

/-- non-vacuity: two vehicles refuse a job for capacity, one for its time window -/
example : reasonsOf (.detailed [("v2", 0, 4), ("v1", 1, 1), ("v1", 0, 4)])
    = [{ code := "CAPACITY_CONSTRAINT", description := "does not fit into any vehicle due to capacity", details := some [("v1", 0), ("v2", 0)] },
       { code := "TIME_WINDOW_CONSTRAINT", description := "cannot be visited within time window", details := some [("v1", 1)] }] := by decide

end C03U
