import VrpModel.C03W
/-!
# C03 — the written tour meets the reader's specification, for every route

`C03W.writeTour` mirrors `solution_writer.rs::create_tour` (stops, activities, times, loads, distances, statistic; tied to
the real writer by the route-dump correspondence of `./check C03`). The theorems below hold for routes of any length, any
number of reload intervals and any demands:

* `writeTour_meets_spec`: every clause of the independent specification `specTour` holds of the written tour — the
  activities are the route's activities in visiting order (none lost, duplicated or reordered), duration = last departure -
  first departure, distance = sum of the legs, the timing entries are the sums over the activities, under a consistent
  schedule driving + serving + waiting + break = duration and (one time coefficient) cost = fixed + distance*c_d +
  duration*c_t, consecutive stops are at different locations, no stop is empty, the last stop carries the tour distance.

Out of model: commute/parking (vicinity clustering), reserved times (required breaks), f64 rounding (integer data).
-/
set_option linter.unusedSimpArgs false

namespace C03W

/-! ## the statistic and the stops do not depend on the loads: the interval structure only moves loads -/

def eraseL (s : WStop) : WStop := { s with load := [] }

structure Sim (s s' : St) : Prop where
  stat : s.stat = s'.stat
  loc : s.lastLoc = s'.lastLoc
  dep : s.lastDep = s'.lastDep
  done : s.done.map eraseL = s'.done.map eraseL
  cur : eraseL s.cur = eraseL s'.cur

theorem Sim.rfl' (s : St) : Sim s s := ⟨rfl, rfl, rfl, rfl, rfl⟩

theorem Sim.trans {a b c : St} (h1 : Sim a b) (h2 : Sim b c) : Sim a c :=
  ⟨h1.stat.trans h2.stat, h1.loc.trans h2.loc, h1.dep.trans h2.dep, h1.done.trans h2.done, h1.cur.trans h2.cur⟩

theorem Sim.symm {a b : St} (h : Sim a b) : Sim b a := ⟨h.stat.symm, h.loc.symm, h.dep.symm, h.done.symm, h.cur.symm⟩

theorem sim_setLoad (s : St) (l : Load) : Sim { s with load := l } s := ⟨rfl, rfl, rfl, rfl, rfl⟩

theorem stepAct_sim (v : Veh) {s s' : St} (h : Sim s s') (a : RAct) : Sim (stepAct v s a) (stepAct v s' a) := by
  obtain ⟨hs, hl, hd, hdone, hcur⟩ := h
  have hcur' : s.cur.loc = s'.cur.loc ∧ s.cur.arrival = s'.cur.arrival ∧ s.cur.departure = s'.cur.departure
      ∧ s.cur.distance = s'.cur.distance ∧ s.cur.activities = s'.cur.activities := by
    simp only [eraseL, WStop.mk.injEq] at hcur
    exact ⟨hcur.1, hcur.2.1, hcur.2.2.1, hcur.2.2.2.1, hcur.2.2.2.2.2⟩
  obtain ⟨c1, c2, c3, c4, c5⟩ := hcur'
  by_cases hn : s.lastLoc = a.loc
  · have hn' : s'.lastLoc = a.loc := hl ▸ hn
    refine ⟨?_, ?_, ?_, ?_, ?_⟩ <;> simp [stepAct, hn, hn', hs, hd, hdone, eraseL, c1, c2, c3, c4, c5]
  · have hn' : ¬ s'.lastLoc = a.loc := hl ▸ hn
    refine ⟨?_, ?_, ?_, ?_, ?_⟩ <;> simp [stepAct, hn, hn', hs, hd, hdone, eraseL, c1, c2, c3, c4, c5]

theorem foldl_stepAct_sim (v : Veh) (l : List RAct) {s s' : St} (h : Sim s s') :
    Sim (l.foldl (stepAct v) s) (l.foldl (stepAct v) s') := by
  induction l generalizing s s' with
  | nil => exact h
  | cons a r ih => exact ih (stepAct_sim v h a)

/-! ## the intervals are a cut of the activity list -/

theorem cutGo_first {α : Type} (p : α → Bool) (l cur : List α) :
    ∃ t later, cutGo p l cur = (cur.reverse ++ t) :: later ∧ t ++ later.flatten = l := by
  induction l generalizing cur with
  | nil => exact ⟨[], [], by simp [cutGo], by simp⟩
  | cons a r ih =>
    unfold cutGo
    split
    · obtain ⟨t, later, h1, h2⟩ := ih [a]
      refine ⟨[], (([a] : List α).reverse ++ t) :: later, by simp [h1], ?_⟩
      simp at h2 ⊢
      exact h2
    · obtain ⟨t, later, h1, h2⟩ := ih (a :: cur)
      refine ⟨a :: t, later, by simp [h1], ?_⟩
      simp [h2]

/-- the fold without any interval structure: what `foldRoute` computes up to loads -/
def plainFold (v : Veh) (start : RAct) (rest : List RAct) : St :=
  rest.foldl (stepAct v) (initSt start rest.head? [])

theorem stepSeg_sim (v : Veh) {s s' : St} (h : Sim s s') (seg : List RAct) :
    Sim (stepSeg v s seg) (seg.foldl (stepAct v) s') := by
  unfold stepSeg
  exact (sim_setLoad _ _).trans (foldl_stepAct_sim v seg ((sim_setLoad s _).trans h))

theorem foldl_stepSeg_sim (v : Veh) (later : List (List RAct)) {s s' : St} (h : Sim s s') :
    Sim (later.foldl (stepSeg v) s) (later.flatten.foldl (stepAct v) s') := by
  induction later generalizing s s' with
  | nil => simpa using h
  | cons seg r ih =>
    simp only [List.foldl_cons, List.flatten_cons, List.foldl_append]
    exact ih (stepSeg_sim v h seg)

theorem initSt_sim (start : RAct) (n : Option RAct) (seg seg' : List RAct) : Sim (initSt start n seg) (initSt start n seg') := by
  refine ⟨rfl, rfl, rfl, rfl, ?_⟩
  simp [initSt, eraseL]

theorem foldRoute_sim (v : Veh) (start : RAct) (rest : List RAct) :
    ∃ s, foldRoute v (start :: rest) = some s ∧ Sim s (plainFold v start rest) := by
  obtain ⟨t, later, h1, h2⟩ := cutGo_first isReload rest [start]
  have hc : cutBefore isReload (start :: rest) = (start :: t) :: later := by
    simp [cutBefore, cutGo, h1]
  refine ⟨_, by simp only [foldRoute, hc]; rfl, ?_⟩
  simp only [List.drop_one, List.tail_cons]
  have := foldl_stepSeg_sim v later
    ((sim_setLoad (t.foldl (stepAct v) (initSt start rest.head? t))
        (lsub (t.foldl (stepAct v) (initSt start rest.head? t)).load (sumP0 (start :: t)))).trans
      (foldl_stepAct_sim v t (initSt_sim start rest.head? t [])))
  have e : plainFold v start rest
      = later.flatten.foldl (stepAct v) (t.foldl (stepAct v) (initSt start rest.head? [])) := by
    unfold plainFold
    conv => lhs; arg 3; rw [← h2]
    rw [List.foldl_append]
  rw [e]
  exact this

/-! ## one step, projection by projection -/

@[simp] theorem stepAct_lastLoc (v : Veh) (s : St) (a : RAct) : (stepAct v s a).lastLoc = a.loc := by
  unfold stepAct; split <;> rfl
@[simp] theorem stepAct_lastDep (v : Veh) (s : St) (a : RAct) : (stepAct v s a).lastDep = a.dep := by
  unfold stepAct; split <;> rfl
@[simp] theorem stepAct_distance (v : Veh) (s : St) (a : RAct) : (stepAct v s a).stat.distance = s.stat.distance + a.legDist := by
  unfold stepAct; split <;> rfl
@[simp] theorem stepAct_duration (v : Veh) (s : St) (a : RAct) :
    (stepAct v s a).stat.duration = s.stat.duration + (a.dep - s.lastDep) := by
  unfold stepAct; split <;> rfl
@[simp] theorem stepAct_driving (v : Veh) (s : St) (a : RAct) : (stepAct v s a).stat.driving = s.stat.driving + a.legDur := by
  unfold stepAct; split <;> rfl
@[simp] theorem stepAct_serving (v : Veh) (s : St) (a : RAct) :
    (stepAct v s a).stat.serving = s.stat.serving + (if actType a == "break" then 0 else a.dur) := by
  unfold stepAct; split <;> rfl
@[simp] theorem stepAct_breakT (v : Veh) (s : St) (a : RAct) :
    (stepAct v s a).stat.breakT = s.stat.breakT + (if actType a == "break" then a.dur else 0) := by
  unfold stepAct; split <;> rfl
@[simp] theorem stepAct_waiting (v : Veh) (s : St) (a : RAct) :
    (stepAct v s a).stat.waiting = s.stat.waiting + (max a.arr a.tws - a.arr) := by
  unfold stepAct; split <;> rfl
@[simp] theorem stepAct_cost (v : Veh) (s : St) (a : RAct) :
    (stepAct v s a).stat.cost
      = s.stat.cost + (a.dur * v.cs + (a.legDist * v.cd + a.legDur * v.ct) + (max a.arr a.tws - a.arr) * v.cw) := by
  unfold stepAct; split <;> rfl

/-- a projection that steps on its own commutes with the fold -/
theorem foldl_proj (v : Veh) {β : Type} (g : St → β) (h : β → RAct → β) (hstep : ∀ s a, g (stepAct v s a) = h (g s) a)
    (l : List RAct) (s : St) : g (l.foldl (stepAct v) s) = l.foldl h (g s) := by
  induction l generalizing s with
  | nil => rfl
  | cons a r ih => simp only [List.foldl_cons, ih, hstep]

theorem fold_distance (v : Veh) (l : List RAct) (s : St) :
    (l.foldl (stepAct v) s).stat.distance = l.foldl (fun acc a => acc + a.legDist) s.stat.distance :=
  foldl_proj v (·.stat.distance) _ (by simp) l s
theorem fold_driving (v : Veh) (l : List RAct) (s : St) :
    (l.foldl (stepAct v) s).stat.driving = l.foldl (fun acc a => acc + a.legDur) s.stat.driving :=
  foldl_proj v (·.stat.driving) _ (by simp) l s
theorem fold_serving (v : Veh) (l : List RAct) (s : St) :
    (l.foldl (stepAct v) s).stat.serving = l.foldl (fun acc a => acc + (if actType a == "break" then 0 else a.dur)) s.stat.serving :=
  foldl_proj v (·.stat.serving) _ (by simp) l s
theorem fold_breakT (v : Veh) (l : List RAct) (s : St) :
    (l.foldl (stepAct v) s).stat.breakT = l.foldl (fun acc a => acc + (if actType a == "break" then a.dur else 0)) s.stat.breakT :=
  foldl_proj v (·.stat.breakT) _ (by simp) l s
theorem fold_waiting (v : Veh) (l : List RAct) (s : St) :
    (l.foldl (stepAct v) s).stat.waiting = l.foldl (fun acc a => acc + (max a.arr a.tws - a.arr)) s.stat.waiting :=
  foldl_proj v (·.stat.waiting) _ (by simp) l s

/-- the duration telescopes -/
theorem fold_duration (v : Veh) (l : List RAct) (s : St) :
    (l.foldl (stepAct v) s).stat.duration = s.stat.duration + (((l.getLast?.map (·.dep)).getD s.lastDep) - s.lastDep)
    ∧ (l.foldl (stepAct v) s).lastDep = (l.getLast?.map (·.dep)).getD s.lastDep := by
  induction l generalizing s with
  | nil => simp
  | cons a r ih =>
    obtain ⟨h1, h2⟩ := ih (stepAct v s a)
    simp only [List.foldl_cons, h1, h2, stepAct_duration, stepAct_lastDep, List.getLast?_cons]
    cases r.getLast? <;> simp <;> omega

/-- under a consistent schedule the four time buckets add up to the duration -/
theorem fold_split (v : Veh) (l : List RAct) (s : St) (h : schedOkFrom s.lastDep l = true) :
    let r := (l.foldl (stepAct v) s).stat
    r.driving + r.serving + r.waiting + r.breakT - r.duration
      = s.stat.driving + s.stat.serving + s.stat.waiting + s.stat.breakT - s.stat.duration := by
  induction l generalizing s with
  | nil => simp
  | cons a r ih =>
    simp only [schedOkFrom, Bool.and_eq_true, beq_iff_eq] at h
    obtain ⟨⟨h1, h2⟩, h3⟩ := h
    have := ih (stepAct v s a) (by simpa using h3)
    simp only [List.foldl_cons] at this ⊢
    rw [this]
    simp only [stepAct_driving, stepAct_serving, stepAct_waiting, stepAct_breakT, stepAct_duration]
    split <;> omega

/-- one time coefficient and a consistent schedule: the cost is distance*c_d + duration*c_t -/
theorem fold_cost (v : Veh) (hu : uniformTimeCost v = true) (l : List RAct) (s : St) (h : schedOkFrom s.lastDep l = true) :
    let r := (l.foldl (stepAct v) s).stat
    r.cost - r.distance * v.cd - r.duration * v.ct = s.stat.cost - s.stat.distance * v.cd - s.stat.duration * v.ct := by
  simp only [uniformTimeCost, Bool.and_eq_true, beq_iff_eq] at hu
  obtain ⟨hw, hs⟩ := hu
  induction l generalizing s with
  | nil => simp
  | cons a r ih =>
    simp only [schedOkFrom, Bool.and_eq_true, beq_iff_eq] at h
    obtain ⟨⟨h1, h2⟩, h3⟩ := h
    have := ih (stepAct v s a) (by simpa using h3)
    simp only [List.foldl_cons] at this ⊢
    rw [this]
    simp only [stepAct_cost, stepAct_distance, stepAct_duration, hw, hs]
    have e1 : (s.stat.distance + a.legDist) * v.cd = s.stat.distance * v.cd + a.legDist * v.cd := Int.add_mul _ _ _
    have e2 : (s.stat.duration + (a.dep - s.lastDep)) * v.ct
        = s.stat.duration * v.ct + (a.dur * v.ct + a.legDur * v.ct + (max a.arr a.tws - a.arr) * v.ct) := by
      rw [← Int.add_mul, ← Int.add_mul, ← Int.add_mul]
      congr 1
      omega
    rw [e1, e2]
    omega

/-! ## the stops -/

def actKeys (s : WStop) : List (String × String) := s.activities.map (fun a => (a.jobId, a.type))
def flatKeys (stops : List WStop) : List (String × String) := stops.flatMap actKeys

theorem stepAct_flatKeys (v : Veh) (s : St) (a : RAct) :
    flatKeys (stepAct v s a).stops = flatKeys s.stops ++ [(actJobId a, actType a)] := by
  by_cases hn : s.lastLoc = a.loc <;> simp [stepAct, St.stops, flatKeys, actKeys, hn, List.flatMap_append]

theorem fold_flatKeys (v : Veh) (l : List RAct) (s : St) :
    flatKeys (l.foldl (stepAct v) s).stops = flatKeys s.stops ++ l.map (fun a => (actJobId a, actType a)) := by
  induction l generalizing s with
  | nil => simp
  | cons a r ih => simp [ih, stepAct_flatKeys]

/-- no stop is empty -/
theorem stepAct_nonempty (v : Veh) (s : St) (a : RAct) (h : ∀ st ∈ s.stops, st.activities ≠ []) :
    ∀ st ∈ (stepAct v s a).stops, st.activities ≠ [] := by
  simp only [St.stops, List.mem_append, List.mem_singleton] at h
  by_cases hn : s.lastLoc = a.loc
  · intro st hst
    simp only [stepAct, St.stops, hn, bne_self_eq_false, Bool.false_eq_true, if_false, List.mem_append, List.mem_singleton] at hst
    rcases hst with hst | hst
    · exact h st (Or.inl hst)
    · subst hst; simp
  · intro st hst
    simp only [stepAct, St.stops, bne_iff_ne, ne_eq, hn, not_false_eq_true, if_true, List.mem_append, List.mem_singleton] at hst
    rcases hst with hst | hst
    · exact h st hst
    · subst hst; simp

theorem fold_nonempty (v : Veh) (l : List RAct) (s : St) (h : ∀ st ∈ s.stops, st.activities ≠ []) :
    ∀ st ∈ (l.foldl (stepAct v) s).stops, st.activities ≠ [] := by
  induction l generalizing s with
  | nil => exact h
  | cons a r ih => exact ih _ (stepAct_nonempty v s a h)

/-- consecutive entries differ -/
def adjDiff : List Nat → Prop
  | [] => True
  | [_] => True
  | a :: b :: r => a ≠ b ∧ adjDiff (b :: r)

theorem adjDiff_snoc (l : List Nat) (x y : Nat) (h : adjDiff (l ++ [x])) (hxy : x ≠ y) : adjDiff (l ++ [x] ++ [y]) := by
  induction l with
  | nil => exact ⟨hxy, trivial⟩
  | cons a r ih =>
    cases r with
    | nil => exact ⟨h.1, hxy, trivial⟩
    | cons b r' => exact ⟨h.1, ih h.2⟩

def locs (s : St) : List Nat := s.done.map (·.loc) ++ [s.cur.loc]

theorem stepAct_adj (v : Veh) (s : St) (a : RAct) (h : adjDiff (locs s)) (hc : s.cur.loc = s.lastLoc) :
    adjDiff (locs (stepAct v s a)) ∧ (stepAct v s a).cur.loc = (stepAct v s a).lastLoc := by
  by_cases hn : s.lastLoc = a.loc
  · have e : locs (stepAct v s a) = locs s := by simp [stepAct, locs, hn]
    refine ⟨e ▸ h, ?_⟩
    simp [stepAct, hn, hc]
  · have e : locs (stepAct v s a) = locs s ++ [a.loc] := by simp [stepAct, locs, hn]
    refine ⟨?_, by simp [stepAct, hn]⟩
    rw [e]
    exact adjDiff_snoc _ _ _ h (hc ▸ hn)

theorem fold_adj (v : Veh) (l : List RAct) (s : St) (h : adjDiff (locs s)) (hc : s.cur.loc = s.lastLoc) :
    adjDiff (locs (l.foldl (stepAct v) s)) := by
  induction l generalizing s with
  | nil => exact h
  | cons a r ih => exact ih _ (stepAct_adj v s a h hc).1 (stepAct_adj v s a h hc).2

theorem zipAll_of_adjDiff (stops : List WStop) (h : adjDiff (stops.map (·.loc))) :
    (stops.zip (stops.drop 1)).all (fun (a, b) => a.loc != b.loc) = true := by
  induction stops with
  | nil => rfl
  | cons a r ih =>
    cases r with
    | nil => rfl
    | cons b r' =>
      have := ih h.2
      simp only [List.drop_one, List.tail_cons, List.zip_cons_cons, List.all_cons, Bool.and_eq_true, bne_iff_ne, ne_eq] at this ⊢
      exact ⟨h.1, this⟩

/-- the open stop carries the distance travelled so far (legs inside a location have no length) -/
theorem fold_curDistance (v : Veh) (l : List RAct) (s : St) (h : selfLegsZeroFrom s.lastLoc l = true)
    (hc : s.cur.distance = s.stat.distance) :
    (l.foldl (stepAct v) s).cur.distance = (l.foldl (stepAct v) s).stat.distance := by
  induction l generalizing s with
  | nil => exact hc
  | cons a r ih =>
    simp only [selfLegsZeroFrom, Bool.and_eq_true, Bool.or_eq_true, bne_iff_ne, ne_eq, beq_iff_eq] at h
    apply ih
    · simpa using h.2
    · by_cases hn : s.lastLoc = a.loc
      · have h0 : a.legDist = 0 := by
          rcases h.1 with h1 | h1
          · exact absurd hn h1
          · exact h1
        simp [stepAct, hn, hc, h0]
      · simp [stepAct, hn]

/-! ## from the plain fold to the written tour: loads and the tidy pass do not touch what the specification reads -/

def view (st : WStop) : Nat × Int × List (String × String) := (st.loc, st.distance, actKeys st)

theorem view_eraseL (st : WStop) : view (eraseL st) = view st := rfl

theorem view_tidy (st : WStop) : view (tidyStop st) = view st := by
  unfold tidyStop
  split <;> simp_all [view, actKeys]

theorem flatKeys_view (ts : List WStop) : flatKeys ts = ((ts.map view).map (·.2.2)).flatten := by
  simp [flatKeys, List.flatMap_def, view, Function.comp_def]

theorem views_of_sim {s p : St} (h : Sim s p) : (s.stops.map tidyStop).map view = p.stops.map view := by
  have e : ∀ ts : List WStop, (ts.map tidyStop).map view = (ts.map eraseL).map view := by
    intro ts; simp [List.map_map, Function.comp_def, view_tidy, view_eraseL]
  have e2 : ∀ ts : List WStop, ts.map view = (ts.map eraseL).map view := by
    intro ts; simp [List.map_map, Function.comp_def, view_eraseL]
  rw [e, e2 p.stops]
  simp only [St.stops, List.map_append, List.map_cons, List.map_nil, h.done, h.cur]

theorem initSt_stops (start : RAct) (n : Option RAct) :
    flatKeys (initSt start n []).stops = [("departure", "departure")] := by
  simp [initSt, St.stops, flatKeys, actKeys]

/-- **C03 (writer model)**: for every route, every vehicle and every demand, the tour `writeTour` renders meets every clause
    of the reader's specification `specTour` -/
theorem writeTour_meets_spec (v : Veh) (acts : List RAct) (t : WTour) (h : writeTour v acts = some t) :
    specTour v acts t = [] := by
  cases acts with
  | nil => simp [writeTour, foldRoute] at h
  | cons start rest =>
    obtain ⟨s, hs, hsim⟩ := foldRoute_sim v start rest
    simp only [writeTour, hs, Option.map_some, Option.some.injEq] at h
    subst h
    have hv := views_of_sim hsim
    have hstat : s.stat = (plainFold v start rest).stat := hsim.stat
    -- the plain fold
    have i0 : (initSt start rest.head? []).stat = WStat.zero := rfl
    have iDep : (initSt start rest.head? []).lastDep = start.dep := rfl
    have iLoc : (initSt start rest.head? []).lastLoc = start.loc := rfl
    -- c1 activities
    have c1 : flatKeys (s.stops.map tidyStop) = expectedActs (start :: rest) := by
      rw [flatKeys_view, hv, ← flatKeys_view]
      simp [plainFold, fold_flatKeys, initSt_stops, expectedActs]
    -- c2 duration
    have c2 : s.stat.duration = spanOf (start :: rest) := by
      rw [hstat]
      have := (fold_duration v rest (initSt start rest.head? [])).1
      simp only [plainFold, this, i0, iDep, WStat.zero, spanOf, List.head?_cons, List.getLast?_cons]
      cases rest.getLast? <;> simp
    -- c3, c5 sums
    have c3 : s.stat.distance = sumLegDist (start :: rest) := by
      rw [hstat]; simp [plainFold, fold_distance, i0, WStat.zero, sumLegDist]
    have c5a : s.stat.driving = sumLegDur (start :: rest) := by
      rw [hstat]; simp [plainFold, fold_driving, i0, WStat.zero, sumLegDur]
    have c5b : s.stat.serving = sumServing (start :: rest) := by
      rw [hstat]; simp [plainFold, fold_serving, i0, WStat.zero, sumServing]
    have c5c : s.stat.breakT = sumBreak (start :: rest) := by
      rw [hstat]; simp [plainFold, fold_breakT, i0, WStat.zero, sumBreak]
    have c5d : s.stat.waiting = sumWaiting (start :: rest) := by
      rw [hstat]; simp [plainFold, fold_waiting, i0, WStat.zero, sumWaiting]
    -- c6 split
    have c6 : schedOk (start :: rest) = true →
        s.stat.driving + s.stat.serving + s.stat.waiting + s.stat.breakT = s.stat.duration := by
      intro hsch
      have := fold_split v rest (initSt start rest.head? []) (by simpa [schedOk, iDep] using hsch)
      rw [hstat]
      simp only [plainFold, i0, WStat.zero] at this ⊢
      omega
    -- c7 cost
    have c7 : schedOk (start :: rest) = true → uniformTimeCost v = true →
        s.stat.cost + v.fixed = v.fixed + s.stat.distance * v.cd + s.stat.duration * v.ct := by
      intro hsch hu
      have := fold_cost v hu rest (initSt start rest.head? []) (by simpa [schedOk, iDep] using hsch)
      rw [hstat]
      simp only [plainFold, i0, WStat.zero] at this ⊢
      omega
    -- c8 consecutive stops
    have c8 : ((s.stops.map tidyStop).zip ((s.stops.map tidyStop).drop 1)).all (fun (a, b) => a.loc != b.loc) = true := by
      apply zipAll_of_adjDiff
      have e : (s.stops.map tidyStop).map (·.loc) = ((s.stops.map tidyStop).map view).map (·.1) := by
        simp [List.map_map, Function.comp_def, view]
      rw [e, hv]
      have := fold_adj v rest (initSt start rest.head? []) (by simp [locs, initSt, adjDiff]) (by simp [initSt])
      simpa [plainFold, locs, St.stops, List.map_map, Function.comp_def, view] using this
    -- c9 no empty stop
    have c9 : (s.stops.map tidyStop).all (fun st => !st.activities.isEmpty) = true := by
      have hne := fold_nonempty v rest (initSt start rest.head? []) (by simp [initSt, St.stops])
      have e : ∀ st ∈ (s.stops.map tidyStop).map view, st.2.2 ≠ [] := by
        rw [hv]
        intro x hx
        simp only [List.mem_map] at hx
        obtain ⟨st, hst, rfl⟩ := hx
        have := hne st hst
        simpa [view, actKeys] using this
      simp only [List.all_eq_true, Bool.not_eq_true', List.isEmpty_eq_false_iff]
      intro st hst
      have := e (view st) (List.mem_map_of_mem hst)
      simpa [view, actKeys] using this
    -- c4 last stop distance
    have c4 : selfLegsZero (start :: rest) = true →
        ((s.stops.map tidyStop).getLast?.map (·.distance)) = some s.stat.distance := by
      intro hz
      have hd := fold_curDistance v rest (initSt start rest.head? []) (by simpa [selfLegsZero, iLoc] using hz) (by simp [initSt, WStat.zero])
      have e : (s.stops.map tidyStop).getLast?.map (·.distance) = (((s.stops.map tidyStop).map view).getLast?).map (·.2.1) := by
        simp [List.getLast?_map, view, Option.map_map, Function.comp_def]
      rw [e, hv, hstat]
      simp [St.stops, view, plainFold] at hd ⊢
      exact hd
    -- assemble
    unfold specTour
    have f1 : (List.flatMap (fun s => List.map (fun a => (a.jobId, a.type)) s.activities) (s.stops.map tidyStop))
        = flatKeys (s.stops.map tidyStop) := rfl
    simp only [f1, c1, c2, c3, c5a, c5b, c5c, c5d, c8, c9, beq_self_eq_true, Bool.and_self, if_true, List.append_nil, List.nil_append]
    by_cases hsch : schedOk (start :: rest) = true
    · by_cases hz : selfLegsZero (start :: rest) = true
      · by_cases hu : uniformTimeCost v = true
        · have a := c6 hsch; have b := c7 hsch hu; have c := c4 hz
          simp_all
        · have a := c6 hsch; have c := c4 hz
          simp_all
      · by_cases hu : uniformTimeCost v = true
        · have a := c6 hsch; have b := c7 hsch hu
          simp_all
        · have a := c6 hsch
          simp_all
    · by_cases hz : selfLegsZero (start :: rest) = true
      · have c := c4 hz
        simp_all
      · simp_all

/-- the writer renders a tour for every non-empty route -/
theorem writeTour_total (v : Veh) (start : RAct) (rest : List RAct) : (writeTour v (start :: rest)).isSome = true := by
  obtain ⟨s, hs, _⟩ := foldRoute_sim v start rest
  simp [writeTour, hs]

/-- every activity of the route is written exactly once, in visiting order (corollary, stated on its own) -/
theorem writeTour_activities (v : Veh) (acts : List RAct) (t : WTour) (h : writeTour v acts = some t) :
    t.stops.flatMap (fun s => s.activities.map (fun a => (a.jobId, a.type))) = expectedActs acts := by
  have := writeTour_meets_spec v acts t h
  unfold specTour at this
  simp only [List.append_eq_nil_iff] at this
  have h1 := this.1
  split at h1
  · rename_i hc; simpa using hc
  · simp at h1

/-! ## the break writer (model of `insert_reserved_times_as_breaks`) -/

theorem tidyX_toX (s : WStop) : tidyX s.toX = (tidyStop s).toX := by
  obtain ⟨loc, arr, dep, dist, load, acts⟩ := s
  cases acts with
  | nil => rfl
  | cons a r =>
    cases r with
    | nil =>
      simp only [tidyX, tidyStop, WStop.toX]
      cases a.loc <;> first | rfl | simp
    | cons b r' => rfl

/-- without reserved times the writer with breaks is the plain writer -/
theorem writeTourX_nil (v : Veh) (acts : List RAct) (openEnd : Bool) :
    writeTourX v acts openEnd [] = (writeTour v acts).map (fun t => { stops := t.stops.map WStop.toX, stat := t.stat }) := by
  unfold writeTourX writeTour insertBreaks
  cases foldRoute v acts with
  | none => rfl
  | some s =>
    simp only [Option.map_some, Option.some.injEq]
    have e : (s.stops.map WStop.toX).map tidyX = (s.stops.map tidyStop).map WStop.toX := by
      simp [List.map_map, Function.comp_def, tidyX_toX]
    cases acts.head? <;> cases acts.getLast? <;> simp [e]

/-- the stable sort of the activities of a stop loses and invents nothing -/
theorem insertByTime_count (p : WActivity → Bool) (x : WActivity) (l : List WActivity) :
    (insertByTime x l).countP p = (x :: l).countP p := by
  induction l with
  | nil => rfl
  | cons y r ih =>
    unfold insertByTime
    split
    · simp only [List.countP_cons, ih]; omega
    · rfl

theorem sortByTime_count (p : WActivity → Bool) (l : List WActivity) : (sortByTime l).countP p = l.countP p := by
  induction l with
  | nil => rfl
  | cons x r ih =>
    show (insertByTime x (sortByTime r)).countP p = _
    rw [insertByTime_count, List.countP_cons, List.countP_cons, ih]

theorem sortByTime_length (l : List WActivity) : (sortByTime l).length = l.length := by
  have := sortByTime_count (fun _ => true) l
  simpa [List.countP_eq_length] using this

theorem insertAt_countP {α : Type} (p : α → Bool) (l : List α) (k : Nat) (x : α) :
    (insertAt l k x).countP p = l.countP p + (if p x then 1 else 0) := by
  have := List.countP_append (p := p) (l₁ := l.take k) (l₂ := l.drop k)
  rw [List.take_append_drop] at this
  simp only [insertAt, List.countP_append, List.countP_cons]
  omega

theorem stretch_type (rtw : TW) (a : WActivity) : (stretch rtw a).type = a.type := by
  unfold stretch
  split
  · split <;> rfl
  · rfl

/-- one break written into a stop: exactly one more activity, and it is the break -/
theorem insertBreak_activities (v : Veh) (moved : Option (Nat × TW)) (rtw : TW) (ov bt : Int) (idx : Nat) (stop : XStop) (stat : WStat) :
    (insertBreak v moved rtw ov bt idx stop stat).1.activities.length = stop.activities.length + 1
    ∧ (insertBreak v moved rtw ov bt idx stop stat).1.activities.countP (fun a => a.type == "break")
        = stop.activities.countP (fun a => a.type == "break") + 1 := by
  unfold insertBreak
  simp only [sortByTime_length, sortByTime_count]
  constructor
  · simp [insertAt, List.length_zipIdx]
    have : min (match List.find? (fun x => twIntersects (x.1.time.getD (stop.arrival, stop.departure)) rtw) stop.activities.zipIdx with
        | some (_, k) => k + 1 | none => stop.activities.length) stop.activities.length ≤ stop.activities.length := Nat.min_le_right _ _
    omega
  · rw [List.countP_map]
    have hc : ∀ (k : Nat) (l : List (WActivity × Nat)),
        List.countP ((fun a => a.type == "break") ∘ fun x => if x.2 == k then x.1 else stretch rtw x.1) l
          = List.countP (fun x => x.1.type == "break") l := by
      intro k l
      apply List.countP_congr
      intro x _
      simp only [Function.comp]
      split
      · rfl
      · rw [stretch_type]
    rw [hc]
    have hz : ∀ l : List WActivity, List.countP (fun x : WActivity × Nat => x.1.type == "break") l.zipIdx
        = List.countP (fun a => a.type == "break") l := by
      intro l
      have : List.countP (fun x : WActivity × Nat => x.1.type == "break") l.zipIdx
          = List.countP (fun a => a.type == "break") (l.zipIdx.map (·.1)) := by
        rw [List.countP_map]; rfl
      rw [this, List.zipIdx_map_fst]
    rw [hz]
    rw [insertAt_countP]
    simp [breakActivity]

/-! ### the break writer loses and invents no job activity -/



/-- a predicate on written activities that looks at id and type only and is false of breaks -/
structure JobPred (p : WActivity → Bool) : Prop where
  idOnly : ∀ a b : WActivity, a.jobId = b.jobId → a.type = b.type → p a = p b
  brk : ∀ tw, p (breakActivity tw) = false

theorem stretch_jobId (rtw : TW) (a : WActivity) : (C03W.stretch rtw a).jobId = a.jobId := by
  unfold C03W.stretch
  split
  · split <;> rfl
  · rfl

theorem JobPred.stretch {p : WActivity → Bool} (hp : JobPred p) (rtw : TW) (a : WActivity) : p (C03W.stretch rtw a) = p a :=
  hp.idOnly _ _ (stretch_jobId rtw a) (stretch_type rtw a)

def countActs (p : WActivity → Bool) (stops : List XStop) : Nat := (stops.map (fun s => s.activities.countP p)).sum

theorem insertBreak_countP (p : WActivity → Bool) (hp : JobPred p) (v : Veh) (moved : Option (Nat × TW)) (rtw : TW) (ov bt : Int)
    (idx : Nat) (stop : XStop) (stat : WStat) :
    (insertBreak v moved rtw ov bt idx stop stat).1.activities.countP p = stop.activities.countP p := by
  unfold insertBreak
  simp only [sortByTime_count]
  rw [List.countP_map]
  have hc : ∀ (k : Nat) (l : List (WActivity × Nat)),
      List.countP (p ∘ fun x => if x.2 == k then x.1 else C03W.stretch rtw x.1) l = List.countP (fun x => p x.1) l := by
    intro k l
    apply List.countP_congr
    intro x _
    simp only [Function.comp]
    split
    · rfl
    · rw [hp.stretch]
  rw [hc]
  have hz : ∀ l : List WActivity, List.countP (fun x : WActivity × Nat => p x.1) l.zipIdx = List.countP p l := by
    intro l
    have : List.countP (fun x : WActivity × Nat => p x.1) l.zipIdx = List.countP p (l.zipIdx.map (·.1)) := by
      rw [List.countP_map]; rfl
    rw [this, List.zipIdx_map_fst]
  rw [hz, insertAt_countP]
  simp [hp.brk]

theorem countActs_append (p : WActivity → Bool) (a b : List XStop) : countActs p (a ++ b) = countActs p a + countActs p b := by
  simp [countActs, List.map_append, List.sum_append]

theorem insertAt_countActs (p : WActivity → Bool) (stops : List XStop) (k : Nat) (x : XStop) (hx : x.activities = []) :
    countActs p (insertAt stops k x) = countActs p stops := by
  have h := countActs_append p (stops.take k) (x :: stops.drop k)
  have h2 := countActs_append p (stops.take k) (stops.drop k)
  rw [List.take_append_drop] at h2
  simp only [insertAt]
  rw [h, h2]
  simp [countActs, hx]

theorem foldl_insertBreak_countActs (p : WActivity → Bool) (hp : JobPred p) (v : Veh) (moved : Option (Nat × TW)) (rtw : TW)
    (ov bt : Int) (l : List (XStop × Nat)) (acc : List XStop × WStat) :
    countActs p (l.foldl (fun (acc : List XStop × WStat) x =>
        if twIntersectsX (x.1.arrival, x.1.departure) rtw then
          let (s', st') := insertBreak v moved rtw ov bt x.2 x.1 acc.2
          (acc.1 ++ [s'], st')
        else (acc.1 ++ [x.1], acc.2)) acc).1
      = countActs p acc.1 + countActs p (l.map (·.1)) := by
  induction l generalizing acc with
  | nil => simp [countActs]
  | cons x r ih =>
    simp only [List.foldl_cons, List.map_cons]
    rw [ih]
    split
    · simp only [countActs_append]
      have := insertBreak_countP p hp v moved rtw ov bt x.2 x.1 acc.2
      simp only [countActs, List.map_cons, List.map_nil, List.sum_cons, List.sum_nil, this]
      omega
    · simp only [countActs_append]
      simp only [countActs, List.map_cons, List.map_nil, List.sum_cons, List.sum_nil]
      omega

theorem reservedStops_countActs (p : WActivity → Bool) (stops : List XStop) (rs : Int) (rtw : TW) :
    countActs p (reservedStops stops rs rtw) = countActs p stops := by
  unfold reservedStops
  split
  · rename_i i load _
    exact insertAt_countActs p stops (i + 1) _ rfl
  · rfl

theorem insertReservedAt_countActs (p : WActivity → Bool) (hp : JobPred p) (v : Veh) (acts : List RAct) (shift : TW) (t : XTour)
    (rs : Int) (rtw : TW) (dur : Int) : countActs p (insertReservedAt v acts shift t rs rtw dur).stops = countActs p t.stops := by
  unfold insertReservedAt
  split
  · rfl
  · simp only
    rw [foldl_insertBreak_countActs p hp]
    simp only [List.zipIdx_map_fst, reservedStops_countActs]
    simp [countActs]

theorem insertOneReserved_countActs (p : WActivity → Bool) (hp : JobPred p) (v : Veh) (acts : List RAct) (shift : TW) (t : XTour)
    (r : Reserved) : countActs p (insertOneReserved v acts shift t r).stops = countActs p t.stops := by
  unfold insertOneReserved
  exact insertReservedAt_countActs p hp v acts shift t _ _ _

theorem insertBreaks_countActs (p : WActivity → Bool) (hp : JobPred p) (v : Veh) (acts : List RAct) (openEnd : Bool)
    (rs : List Reserved) (t : XTour) : countActs p (insertBreaks v acts openEnd rs t).stops = countActs p t.stops := by
  unfold insertBreaks
  split
  · rename_i st en _ _
    generalize (st.dep, if openEnd = true then en.dep else en.arr) = shift
    induction rs generalizing t with
    | nil => rfl
    | cons r rest ih =>
      simp only [List.foldl_cons]
      rw [ih, insertOneReserved_countActs p hp]
  · rfl

theorem tidyX_countP (p : WActivity → Bool) (hp : JobPred p) (s : XStop) : (tidyX s).activities.countP p = s.activities.countP p := by
  unfold tidyX
  split
  · rename_i a h
    simp only [h, List.countP_cons, List.countP_nil]
    have key : ∀ b : WActivity, b.jobId = a.jobId → b.type = a.type →
        (0 + if p b = true then 1 else 0) = (0 + if p a = true then 1 else 0) := fun b h1 h2 => by rw [hp.idOnly b a h1 h2]
    exact key _ rfl rfl
  · rfl

theorem countActs_map_tidyX (p : WActivity → Bool) (hp : JobPred p) (l : List XStop) : countActs p (l.map tidyX) = countActs p l := by
  simp [countActs, List.map_map, Function.comp_def, tidyX_countP p hp]

/-- **the break writer loses and invents no job activity**: whatever reserved times the vehicle has, the written tour holds
    every activity counted by an id-and-type predicate (that is false of breaks) exactly as often as the tour written without
    reserved times - and that one holds the route's activities (`writeTour_activities`) -/
theorem writeTourX_keeps_jobs (p : WActivity → Bool) (hp : JobPred p) (v : Veh) (acts : List RAct) (openEnd : Bool)
    (rs : List Reserved) (tx : XTour) (t : WTour) (hx : writeTourX v acts openEnd rs = some tx) (ht : writeTour v acts = some t) :
    countActs p tx.stops = countActs p (t.stops.map WStop.toX) := by
  unfold writeTourX at hx
  unfold writeTour at ht
  cases hf : foldRoute v acts with
  | none => simp [hf] at hx
  | some s =>
    simp only [hf, Option.map_some, Option.some.injEq] at hx ht
    subst hx ht
    simp only
    rw [countActs_map_tidyX p hp, insertBreaks_countActs p hp]
    have e : (s.stops.map tidyStop).map WStop.toX = (s.stops.map WStop.toX).map tidyX := by
      simp [List.map_map, Function.comp_def, tidyX_toX]
    rw [e, countActs_map_tidyX p hp]

/-- non-vacuity: "is an activity of job j1" is such a predicate -/
example : JobPred (fun a => a.jobId == "j1") :=
  ⟨fun a b h _ => by simp [h], fun _ => by simp [breakActivity]⟩

/-- what ONE call of `insert_break` does to the timing entries (the break entry itself is raised by the caller, by the whole
    break): a break written into a point stop takes its overlap with waiting time off `waiting` (S52); a break in a transit stop,
    or one moved in front of a leg, takes the whole break off `driving` (the core had prolonged the travel); nothing else moves -/
def splitOf (st : WStat) : Int := st.driving + st.serving + st.waiting + st.breakT

theorem insertBreak_split (v : Veh) (moved : Option (Nat × TW)) (rtw : TW) (ov bt : Int) (idx : Nat) (stop : XStop) (stat : WStat) :
    let movedHere := match moved with | some (leg, _) => leg == idx | none => false
    let st' := (insertBreak v moved rtw ov bt idx stop stat).2
    splitOf st' = splitOf stat -
      (match stop.loc with
       | some _ => if movedHere then bt else if bt == 0 then 0 else ov
       | none => if movedHere then bt + bt else bt)
    ∧ st'.duration = stat.duration ∧ st'.distance = stat.distance := by
  unfold insertBreak splitOf
  cases hm : moved with
  | none =>
    cases hl : stop.loc with
    | none => simp [hm, hl]; omega
    | some l =>
      by_cases hb : bt = 0
      · simp [hm, hl, hb]
      · simp [hm, hl, hb]; omega
  | some m =>
    obtain ⟨leg, tw⟩ := m
    by_cases hleg : leg = idx
    · cases hl : stop.loc with
      | none => simp [hm, hl, hleg]; omega
      | some l => simp [hm, hl, hleg]; omega
    · cases hl : stop.loc with
      | none => simp [hm, hl, hleg]; omega
      | some l =>
        by_cases hb : bt = 0
        · simp [hm, hl, hleg, hb]
        · simp [hm, hl, hleg, hb]; omega

/-- the adjustment `insert_break` makes for one stop (see `insertBreak_split`) -/
def breakAdj (moved : Option (Nat × TW)) (ov bt : Int) (x : XStop × Nat) : Int :=
  let movedHere := match moved with | some (leg, _) => leg == x.2 | none => false
  match x.1.loc with
  | some _ => if movedHere then bt else if bt == 0 then 0 else ov
  | none => if movedHere then bt + bt else bt

theorem foldl_insertBreak_split (v : Veh) (moved : Option (Nat × TW)) (rtw : TW) (ov bt : Int) (l : List (XStop × Nat))
    (acc : List XStop × WStat) :
    let res := l.foldl (fun (acc : List XStop × WStat) x =>
        if twIntersectsX (x.1.arrival, x.1.departure) rtw then
          let (s', st') := insertBreak v moved rtw ov bt x.2 x.1 acc.2
          (acc.1 ++ [s'], st')
        else (acc.1 ++ [x.1], acc.2)) acc
    splitOf res.2 = splitOf acc.2
        - ((l.filter (fun x => twIntersectsX (x.1.arrival, x.1.departure) rtw)).map (breakAdj moved ov bt)).sum
      ∧ res.2.duration = acc.2.duration ∧ res.2.distance = acc.2.distance := by
  induction l generalizing acc with
  | nil => simp
  | cons x r ih =>
    simp only [List.foldl_cons]
    by_cases hx : twIntersectsX (x.1.arrival, x.1.departure) rtw = true
    · have h := insertBreak_split v moved rtw ov bt x.2 x.1 acc.2
      have := ih ((acc.1 ++ [(insertBreak v moved rtw ov bt x.2 x.1 acc.2).1], (insertBreak v moved rtw ov bt x.2 x.1 acc.2).2))
      simp only [hx, if_true, List.filter_cons, List.map_cons, List.sum_cons] at this ⊢
      obtain ⟨t1, t2, t3⟩ := this
      obtain ⟨h1, h2, h3⟩ := h
      refine ⟨?_, by rw [t2, h2], by rw [t3, h3]⟩
      rw [t1, h1]
      simp only [breakAdj]
      omega
    · have := ih (acc.1 ++ [x.1], acc.2)
      simp only [hx, Bool.false_eq_true, if_false, List.filter_cons] at this ⊢
      exact this

/-- **the accounting of one reserved time**: the timing entries grow by the break minus the adjustments of the stops it is
    written into; duration and distance do not move. With one point stop (the usual case) that is `break - overlap with waiting`,
    with a transit stop or a break moved in front of a leg it is nothing - the core had prolonged the travel already -/
theorem insertReservedAt_split (v : Veh) (acts : List RAct) (shift : TW) (t : XTour) (rs : Int) (rtw : TW) (dur : Int)
    (h : twIntersectsX shift rtw = true) :
    splitOf (insertReservedAt v acts shift t rs rtw dur).stat = splitOf t.stat + dur
        - (((reservedStops t.stops rs rtw).zipIdx.filter (fun x => twIntersectsX (x.1.arrival, x.1.departure) rtw)).map
            (breakAdj (reservedMoved t.stops rs rtw) (waitingOverlap acts rtw dur) dur)).sum
      ∧ (insertReservedAt v acts shift t rs rtw dur).stat.duration = t.stat.duration
      ∧ (insertReservedAt v acts shift t rs rtw dur).stat.distance = t.stat.distance := by
  unfold insertReservedAt
  simp only [h, Bool.not_true, Bool.false_eq_true, if_false]
  have := foldl_insertBreak_split v (reservedMoved t.stops rs rtw) rtw (waitingOverlap acts rtw dur) dur
    (reservedStops t.stops rs rtw).zipIdx ([], t.stat)
  obtain ⟨h1, h2, h3⟩ := this
  refine ⟨?_, h2, h3⟩
  simp only [splitOf] at h1 ⊢
  omega

/-- the usual case spelled out: the break is written into ONE point stop and is not moved - the timing entries grow by the
    break minus what of it was taken while waiting (exactly what the core prolongs the service by) -/
theorem insertReservedAt_split_one_point (v : Veh) (acts : List RAct) (shift : TW) (t : XTour) (rs : Int) (rtw : TW) (dur : Int)
    (h : twIntersectsX shift rtw = true) (x : XStop × Nat) (l : Nat)
    (hone : (reservedStops t.stops rs rtw).zipIdx.filter (fun x => twIntersectsX (x.1.arrival, x.1.departure) rtw) = [x])
    (hpoint : x.1.loc = some l) (hmoved : reservedMoved t.stops rs rtw = none) (hdur : dur ≠ 0) :
    splitOf (insertReservedAt v acts shift t rs rtw dur).stat = splitOf t.stat + dur - waitingOverlap acts rtw dur := by
  have := (insertReservedAt_split v acts shift t rs rtw dur h).1
  rw [this, hone, hmoved]
  simp [breakAdj, hpoint, hdur]

theorem twOverlap_nonneg (a b : TW) (o : TW) (ha : a.1 ≤ a.2) (hb : b.1 ≤ b.2) (h : twOverlap a b = some o) : 0 ≤ o.2 - o.1 := by
  unfold twOverlap at h
  split at h
  · rename_i hi
    simp only [Option.some.injEq] at h
    subst h
    simp only [twIntersects, Bool.and_eq_true, decide_eq_true_eq] at hi
    simp only [Int.max_def, Int.min_def]
    split <;> split <;> omega
  · simp at h

theorem ovOf_nonneg (rtw : TW) (a : RAct) (ha : a.arr ≤ a.tws) (hb : rtw.1 ≤ rtw.2) : 0 ≤ ovOf rtw a := by
  unfold ovOf
  cases h : twOverlap (a.arr, a.tws) rtw with
  | none => simp
  | some o => exact twOverlap_nonneg _ _ _ ha hb h

theorem foldl_ovOf_nonneg (l : List RAct) (rtw : TW) (hb : rtw.1 ≤ rtw.2) (hl : ∀ a ∈ l, a.arr ≤ a.tws) (x : Int) (hx : 0 ≤ x) :
    0 ≤ l.foldl (fun acc a => acc + ovOf rtw a) x := by
  induction l generalizing x with
  | nil => exact hx
  | cons a r ih =>
    simp only [List.foldl_cons]
    apply ih (fun b hb' => hl b (List.mem_cons_of_mem _ hb'))
    have := ovOf_nonneg rtw a (hl a (List.mem_cons_self ..)) hb
    omega

/-- the part of a break that is taken while waiting lies between nothing and the whole break -/
theorem waitingOverlap_bounds (acts : List RAct) (rtw : TW) (dur : Int) (h : 0 ≤ dur) (hb : rtw.1 ≤ rtw.2) :
    0 ≤ waitingOverlap acts rtw dur ∧ waitingOverlap acts rtw dur ≤ dur := by
  unfold waitingOverlap
  have := foldl_ovOf_nonneg (acts.filter (fun a => decide (a.arr < a.tws))) rtw hb
    (fun a ha => by
      have := (List.mem_filter.mp ha).2
      simp only [decide_eq_true_eq] at this
      omega) 0 (by omega)
  constructor <;> omega

/-! ## the commute-aware writer agrees with the plain writer on routes without commute -/

def CStop.plain (s : CStop) : WStop :=
  { loc := s.loc, arrival := s.arrival, departure := s.departure, distance := s.distance, load := s.load,
    activities := s.activities.map (·.act) }

def CSt.plain (c : CSt) : St :=
  { done := c.done.map CStop.plain, cur := c.cur.plain, lastLoc := c.lastLoc, lastDep := c.lastDep, load := c.load, stat := c.stat.s }

def plainAct (a : RAct) : CAct := { a := a, commute := none, legsFrom := [] }

theorem stepActC_plain (v : Veh) (pk : Int) (c : CSt) (a : RAct) :
    (stepActC v pk c (plainAct a)).plain = stepAct v c.plain a := by
  by_cases hn : c.lastLoc = a.loc
  · simp [stepActC, stepAct, CSt.plain, CStop.plain, plainAct, cinfoZero, hn]
    exact ⟨rfl, rfl⟩
  · simp [stepActC, stepAct, CSt.plain, CStop.plain, plainAct, cinfoZero, hn]
    exact ⟨rfl, rfl⟩

theorem foldl_stepActC_plain (v : Veh) (pk : Int) (l : List RAct) (c : CSt) :
    ((l.map plainAct).foldl (stepActC v pk) c).plain = l.foldl (stepAct v) c.plain := by
  induction l generalizing c with
  | nil => rfl
  | cons a r ih => simp only [List.map_cons, List.foldl_cons, ih, stepActC_plain]

theorem initStC_plain (start : RAct) (n : Option RAct) (seg : List RAct) : (initStC start n seg).plain = initSt start n seg := by
  simp [initStC, CSt.plain, CStop.plain, initSt, WStat.zero]

theorem tidyC_plain (s : CStop) : (tidyC s).plain = tidyStop s.plain := by
  obtain ⟨loc, arr, dep, dist, load, pk, acts⟩ := s
  cases acts with
  | nil => rfl
  | cons a r =>
    cases r with
    | nil => simp [tidyC, tidyStop, CStop.plain]
    | cons b r' => rfl

theorem cutGo_map_plain (l cur : List RAct) :
    cutGo (fun c => isReload c.a) (l.map plainAct) (cur.map plainAct) = (cutGo isReload l cur).map (·.map plainAct) := by
  induction l generalizing cur with
  | nil => simp [cutGo]
  | cons a r ih =>
    simp only [List.map_cons, cutGo]
    have e : (isReload (plainAct a).a && !(cur.map plainAct).isEmpty) = (isReload a && !cur.isEmpty) := by
      simp [plainAct]
    rw [e]
    split
    · have := ih [a]
      simp only [List.map_cons, List.map_nil] at this
      simp [this]
    · have := ih (a :: cur)
      simp only [List.map_cons] at this
      simp [this]

theorem map_a_plain (l : List RAct) : (l.map plainAct).map (·.a) = l := by
  simp [List.map_map, Function.comp_def, plainAct]

theorem plain_subLoad (c : CSt) (s : St) (h : c.plain = s) (x : Load) :
    ({ c with load := lsub c.load x } : CSt).plain = { s with load := lsub s.load x } := by
  subst h; rfl

theorem plain_setLoad (c : CSt) (l : Load) : ({ c with load := l } : CSt).plain = { c.plain with load := l } := rfl

theorem stepSegC_plain (v : Veh) (pk : Int) (c : CSt) (seg : List RAct) :
    (stepSegC v pk c (seg.map plainAct)).plain = stepSeg v c.plain seg := by
  unfold stepSegC stepSeg
  rw [map_a_plain]
  have h := foldl_stepActC_plain v pk seg { c with load := sumD0 seg c.load }
  rw [plain_setLoad] at h
  exact plain_subLoad _ _ h _

theorem foldl_stepSegC_plain (v : Veh) (pk : Int) (later : List (List RAct)) (c : CSt) :
    ((later.map (·.map plainAct)).foldl (stepSegC v pk) c).plain = later.foldl (stepSeg v) c.plain := by
  induction later generalizing c with
  | nil => rfl
  | cons seg r ih => simp only [List.map_cons, List.foldl_cons, ih, stepSegC_plain]

/-- **the commute-aware model is a conservative extension**: on a route without commute it renders the tour of the plain
    writer model (for which `writeTour_meets_spec` is proved) -/
theorem writeTourC_plain (v : Veh) (pk : Int) (acts : List RAct) :
    (writeTourC v pk (acts.map plainAct)).map (fun r => ({ stops := r.1.map CStop.plain, stat := r.2.s } : WTour)) = writeTour v acts := by
  cases acts with
  | nil => rfl
  | cons start rest =>
    have hc : cutBefore (fun c => isReload c.a) ((start :: rest).map plainAct)
        = (cutBefore isReload (start :: rest)).map (·.map plainAct) := by
      have := cutGo_map_plain (start :: rest) []
      simpa [cutBefore] using this
    simp only [List.map_cons] at hc
    simp only [writeTourC, writeTour, foldRoute, List.map_cons, hc]
    cases hcut : cutBefore isReload (start :: rest) with
    | nil => rfl
    | cons first later =>
      simp only [List.map_cons, Option.map_some, Option.some.injEq]
      have e0 : (first.map plainAct).drop 1 = (first.drop 1).map plainAct := by simp [List.map_drop]
      have e1 : (rest.map plainAct).head?.map (·.a) = rest.head? := by cases rest <;> simp [plainAct]
      rw [e0, e1, map_a_plain, map_a_plain]
      have s1 := foldl_stepActC_plain v pk (first.drop 1) (initStC start rest.head? (first.drop 1))
      rw [initStC_plain] at s1
      have s2 := foldl_stepSegC_plain v pk later
        { (List.foldl (stepActC v pk) (initStC start rest.head? (first.drop 1)) ((first.drop 1).map plainAct)) with
          load := lsub (List.foldl (stepActC v pk) (initStC start rest.head? (first.drop 1)) ((first.drop 1).map plainAct)).load (sumP0 first) }
      have s3 := plain_subLoad _ _ s1 (sumP0 first)
      rw [s3] at s2
      have hs : ∀ c : CSt, c.stops.map (fun x => (tidyC x).plain) = (c.plain.stops).map tidyStop := by
        intro c
        simp [CSt.stops, St.stops, CSt.plain, tidyC_plain, List.map_map, Function.comp_def]
      simp only [List.map_map, Function.comp_def]
      rw [WTour.mk.injEq]
      constructor
      · rw [hs]
        exact congrArg (fun st : St => List.map tidyStop st.stops) s2
      · have h := congrArg St.stat s2
        simp only [CSt.plain] at h
        exact congrArg (fun st : WStat => ({ st with cost := st.cost + v.fixed } : WStat)) h

/-! ## non-vacuity: a concrete route with a reload, a break, waiting and a job at the depot -/

private def r0 : RAct := { loc := 0, arr := 0, dep := 10, tws := 0, dur := 0, placeIdx := 0, type := none, jobId := none, rootId := none,
                           tags := [], dem := none, legDur := 0, legDist := 0 }
private def r1 : RAct := { r0 with loc := 0, arr := 10, dep := 15, tws := 0, dur := 5, type := some "delivery", jobId := some "j1",
                                   dem := some ⟨[2], [], [], []⟩, tags := [(0, "a")] }
private def r2 : RAct := { r0 with loc := 3, arr := 22, dep := 40, tws := 30, dur := 10, type := some "pickup", jobId := some "j2",
                                   dem := some ⟨[], [], [1], []⟩, legDur := 7, legDist := 70 }
private def r3 : RAct := { r0 with loc := 0, arr := 45, dep := 50, tws := 0, dur := 5, type := some "reload", legDur := 5, legDist := 50 }
private def r4 : RAct := { r0 with loc := 4, arr := 52, dep := 60, tws := 0, dur := 8, type := some "break", legDur := 2, legDist := 20 }
private def r5 : RAct := { r0 with loc := 0, arr := 64, dep := 64, tws := 0, dur := 0, legDur := 4, legDist := 40 }
private def veh0 : Veh := ⟨100, 2, 3, 3, 3⟩

example : schedOk [r0, r1, r2, r3, r4, r5] = true ∧ selfLegsZero [r0, r1, r2, r3, r4, r5] = true ∧ uniformTimeCost veh0 = true := by decide
example : ((writeTour veh0 [r0, r1, r2, r3, r4, r5]).map (fun t => (t.stops.length, t.stat.cost, t.stat.duration, t.stat.breakT)))
    = some (5, 100 + 180 * 2 + 54 * 3, 54, 8) := by decide
example : ((writeTour veh0 [r0, r1, r2, r3, r4, r5]).map (fun t => specTour veh0 [r0, r1, r2, r3, r4, r5] t)) = some [] := by decide
/-- the specification is not trivially true: a tour that lost an activity is rejected -/
example : ((writeTour veh0 [r0, r1, r2, r3, r4, r5]).map (fun t => (specTour veh0 [r0, r1, r3, r4, r5] t).isEmpty)) = some false := by decide

/-- a required break 23-28 taken while the vehicle waits 22-30 at `r2` (S52): the waiting entry gives the overlap up, the
    timing entries still add up to the duration and the cost does not move -/
example : ((writeTourX veh0 [r0, r1, r2, r3, r4, r5] false [⟨false, 23, 23, 5⟩]).map
      (fun t => (t.stat.breakT, t.stat.waiting, t.stat.cost,
                 t.stat.driving + t.stat.serving + t.stat.waiting + t.stat.breakT == t.stat.duration)))
    = some (13, 3, 100 + 180 * 2 + 54 * 3, true) := by decide

end C03W
