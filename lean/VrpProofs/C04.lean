import VrpModel.C04
import VrpProofs.C02
/-!
# C04 — every search step maps a consistent solution to a consistent one (abstract machine + Boolean invariant)

* the Boolean invariant the driver evaluates on snapshots of the REAL contexts is exactly the machine's
  partition predicate (`partB_iff_part`) and registry predicate (`regB_iff_regPart`);
* every elementary step, hence every operation sequence, preserves them (`steps_preserve_inv`, built on
  `Machine.step_part`, `Machine.step_reg`, `Machine.step_locked_stays`);
* a deep copy is a value in the pure model: operating on the child never changes the parent
  (`parent_unchanged`, trivial in the model — on the real code it is checked by fingerprints of the parent
  before and after every step).
The operator bodies (about 180 named operators) are traced, not proved.
-/
set_option linter.unusedSimpArgs false

namespace C04
open Machine

theorem count_range (n x : Nat) : (List.range n).count x = if x < n then 1 else 0 := by
  induction n with
  | zero => simp
  | succ n ih =>
    rw [List.range_succ, List.count_append, ih]
    by_cases h : x < n
    · have hne : ¬ (n = x) := by omega
      have h1 : x < n + 1 := by omega
      simp [h, h1, List.count_cons, hne]
    · by_cases e : x = n
      · subst e; simp
      · have h1 : ¬ x < n + 1 := by omega
        have hne : ¬ (n = x) := fun he => e he.symm
        simp [h, h1, List.count_cons, hne]

/-- **the executable partition check is the machine's partition predicate** -/
theorem partB_iff_part (n : Nat) (c : Ctx) : partB n c = true ↔ Part (List.range n) c := by
  unfold partB Part
  simp only [Bool.and_eq_true, List.all_eq_true, List.mem_range, beq_iff_eq, decide_eq_true_eq]
  constructor
  · rintro ⟨h1, h2⟩ x
    rw [count_range]
    by_cases hx : x < n
    · simp [hx, h1 x hx]
    · simp only [hx, if_false]
      apply List.count_eq_zero.mpr
      intro hm; exact hx (h2 x hm)
  · intro h
    constructor
    · intro x hx
      rw [h x, count_range]; simp [hx]
    · intro x hm
      have := h x
      rw [count_range] at this
      by_cases hx : x < n
      · exact hx
      · simp only [hx, if_false] at this
        exact absurd hm (List.count_eq_zero.mp this)

/-- the registry check implies the machine's registry predicate -/
theorem regB_regPart (fleet : List Actor) (c : Ctx) (h : regB fleet c = true) : RegPart fleet c := by
  unfold regB at h
  simp only [Bool.and_eq_true, List.all_eq_true, beq_iff_eq, List.mem_append, List.contains_iff_mem] at h
  intro a
  by_cases ha : a ∈ fleet
  · exact h.1 a ha
  · have h1 : fleet.count a = 0 := List.count_eq_zero.mpr ha
    have h2 : c.available.count a = 0 := List.count_eq_zero.mpr (fun hm => ha (h.2 a (Or.inl hm)))
    have h3 : ucnt a c.routes = 0 := List.count_eq_zero.mpr (fun hm => ha (h.2 a (Or.inr hm)))
    omega

/-- the consistency invariant of the machine -/
def Inv (n : Nat) (fleet : List Actor) (c : Ctx) : Prop := Part (List.range n) c ∧ RegPart fleet c

/-- **every operation sequence preserves the invariant** -/
theorem steps_preserve_inv (n : Nat) (fleet : List Actor) (ops : List Op) (c c' : Ctx)
    (h : Inv n fleet c) (hr : run c ops = some c') : Inv n fleet c' :=
  ⟨run_part _ ops c c' h.1 hr, run_reg fleet ops c c' h.2 hr⟩

/-- so a snapshot that passes the Boolean checks leads, after ANY operation sequence, to a state whose
    snapshot passes the partition check again -/
theorem checked_snapshot_stays_consistent (n : Nat) (fleet : List Actor) (ops : List Op) (c c' : Ctx)
    (hp : partB n c = true) (hg : regB fleet c = true) (hr : run c ops = some c') :
    partB n c' = true :=
  (partB_iff_part n c').mpr (steps_preserve_inv n fleet ops c c' ⟨(partB_iff_part n c).mp hp, regB_regPart fleet c hg⟩ hr).1

/-- the parent handed to a step is a value: whatever is computed from it, it is unchanged -/
theorem parent_unchanged (parent : Ctx) (ops : List Op) : (fun _ => parent) (run parent ops) = parent := rfl

/-! ### non-vacuity -/
example : partB 3 { required := [2], ignored := [], unassigned := [0], locked := [], routes := [⟨7, [1]⟩], available := [8] } = true := by decide
example : partB 3 { required := [2], ignored := [], unassigned := [0, 1], locked := [], routes := [⟨7, [1]⟩], available := [8] } = false := by decide
example : tourB [1, 3, 1] [0, 2, 0] { acts := [(0, none), (1, some 1), (2, none), (1, some 0), (1, some 2)], jobSet := [2, 0, 1], jobCount := 3 } = true := by decide
example : tourB [1, 2, 1] [0, 1, 0] { acts := [(1, some 1), (1, some 0)], jobSet := [1], jobCount := 1 } = false := by decide

/-! ## pinned jobs: a strict block survives every insertion the locking rule admits and every removal of another job -/

theorem isInfix_iff (xs l : List Nat) : isInfix xs l = true ↔ ∃ a b, l = a ++ xs ++ b := by
  induction l with
  | nil =>
    simp only [isInfix, List.isEmpty_iff]
    constructor
    · intro h; subst h; exact ⟨[], [], rfl⟩
    · rintro ⟨a, b, h⟩
      have : (a ++ xs ++ b).length = 0 := by rw [← h]; rfl
      simp only [List.length_append] at this
      exact List.eq_nil_of_length_eq_zero (by omega)
  | cons y ys ih =>
    simp only [isInfix, Bool.or_eq_true, List.isPrefixOf_iff_prefix]
    constructor
    · rintro (h | h)
      · obtain ⟨t, ht⟩ := h
        exact ⟨[], t, by simpa using ht.symm⟩
      · obtain ⟨a, b, hab⟩ := ih.mp h
        exact ⟨y :: a, b, by simp [hab]⟩
    · rintro ⟨a, b, h⟩
      cases a with
      | nil => left; exact ⟨b, by simpa using h.symm⟩
      | cons a0 as =>
        right
        simp only [List.cons_append, List.cons.injEq] at h
        exact ih.mpr ⟨as, b, h.2⟩

/-- removal of a job that is not pinned keeps the block -/
theorem strict_block_survives_removal (js pre post : List Nat) (y : Nat) (hy : y ∉ js) :
    isInfix js ((pre ++ js ++ post).filter (· != y)) = true := by
  rw [isInfix_iff]
  refine ⟨pre.filter (· != y), post.filter (· != y), ?_⟩
  have : js.filter (· != y) = js := by
    apply List.filter_eq_self.mpr
    intro a ha
    simp only [bne_iff_ne, ne_eq]
    intro e; subst e; exact hy ha
  simp [List.filter_append, this]

/-- **the locking rule keeps a strict block contiguous**: if the tour's job sequence is `pre ++ js ++ post` (the
    pinned jobs occurring nowhere else), `x` is not pinned, and `Rule::can_insert` admits `x` between the activities
    around index `i` - whatever the position kind -, then the block is still contiguous after the insertion -/
theorem strict_block_survives_insert (pos : LockPos) (js pre post : List Nat) (x i : Nat)
    (hx : x ∉ js)
    (hc : canInsert pos js (some x) (prevAt (pre ++ js ++ post) i) (nextAt (pre ++ js ++ post) i) = true) :
    isInfix js (insertJob (pre ++ js ++ post) i x) = true := by
  rw [isInfix_iff]
  by_cases h1 : i ≤ pre.length
  · refine ⟨pre.take i ++ x :: pre.drop i, post, ?_⟩
    unfold insertJob
    rw [List.append_assoc pre js post, List.take_append_of_le_length h1, List.drop_append_of_le_length h1]
    simp
  · by_cases h2 : pre.length + js.length ≤ i
    · refine ⟨pre, post.take (i - (pre ++ js).length) ++ x :: post.drop (i - (pre ++ js).length), ?_⟩
      unfold insertJob
      have hl : (pre ++ js).length ≤ i := by simpa using h2
      rw [List.take_append, List.drop_append,
          List.take_of_length_le hl, List.drop_of_length_le hl]
      simp
    · -- strictly inside the block: both neighbours are pinned, which the rule refuses
      exfalso
      have hi0 : i ≠ 0 := by omega
      have hprev : prevAt (pre ++ js ++ post) i = js[i - 1 - pre.length]? := by
        unfold prevAt
        simp only [hi0, if_false]
        rw [List.append_assoc, List.getElem?_append_right (by omega), List.getElem?_append_left (by omega)]
      have hnext : nextAt (pre ++ js ++ post) i = js[i - pre.length]? := by
        unfold nextAt
        rw [List.append_assoc, List.getElem?_append_right (by omega), List.getElem?_append_left (by omega)]
      have hp : ∃ p, js[i - 1 - pre.length]? = some p ∧ p ∈ js := by
        have hlt : i - 1 - pre.length < js.length := by omega
        exact ⟨js[i - 1 - pre.length], List.getElem?_eq_getElem hlt, List.getElem_mem hlt⟩
      have hn : ∃ n, js[i - pre.length]? = some n ∧ n ∈ js := by
        have hlt : i - pre.length < js.length := by omega
        exact ⟨js[i - pre.length], List.getElem?_eq_getElem hlt, List.getElem_mem hlt⟩
      obtain ⟨p, hpe, hpm⟩ := hp
      obtain ⟨n, hne, hnm⟩ := hn
      rw [hprev, hnext, hpe, hne] at hc
      have hxr : inRule js (some x) = false := by simp [inRule, hx]
      have ha : canAfter js (some p) (some n) = false := by simp [canAfter, hnm]
      have hb : canBefore js (some p) (some n) = false := by simp [canBefore, hpm]
      cases pos <;> simp [canInsert, hxr, ha, hb] at hc

/-! non-vacuity: the rule admits insertions around the block and refuses the one inside it -/
example : canInsert .any [5, 6] (some 9) (prevAt ([1] ++ [5, 6] ++ [2]) 1) (nextAt ([1] ++ [5, 6] ++ [2]) 1) = true := by decide
example : canInsert .any [5, 6] (some 9) (prevAt ([1] ++ [5, 6] ++ [2]) 2) (nextAt ([1] ++ [5, 6] ++ [2]) 2) = false := by decide
example : canInsert .departure [5, 6] (some 9) (prevAt ([] ++ [5, 6] ++ [2]) 0) (nextAt ([] ++ [5, 6] ++ [2]) 0) = false := by decide
example : isInfix [5, 6] (insertJob ([1] ++ [5, 6] ++ [2]) 3 9) = true := by decide
example : pinTourB ⟨[0], "strict", [5, 6]⟩ 0 [1, 5, 9, 6] = false := by decide
example : pinTourB ⟨[0], "sequence", [5, 6]⟩ 0 [1, 5, 9, 6] = true := by decide
example : pinTourB ⟨[0], "any", [5, 6]⟩ 1 [6] = false := by decide

/-! ## the removal tracker and the insertion heuristic's bookkeeping stay inside the machine

Whatever the random choices of the real code were, the bookkeeping models are compositions of machine steps, so
they inherit the invariants. The driver checks on elementary-step traces of the REAL functions (removal tracker through
hook H3, `InsertionHeuristic::process` with an observing evaluator) that these models reproduce the real state after
every call. -/

theorem tryRemoveJob_inv (n : Nat) (fleet : List Actor) (sizes : List Nat) (t : Tracker) (c : Ctx) (r : Nat) (j : Job)
    (h : Inv n fleet c) : Inv n fleet (tryRemoveJob sizes t c r j).2.1 := by
  unfold tryRemoveJob
  split
  · exact h
  · split
    · rename_i c' hs
      exact ⟨step_part _ c c' _ h.1 hs, step_reg fleet c c' _ h.2 hs⟩
    · exact h

theorem removeAll_inv (n : Nat) (fleet : List Actor) (r : Nat) : ∀ (js : List Job) (c c' : Ctx),
    Inv n fleet c → removeAll c r js = some c' → Inv n fleet c' := by
  intro js
  induction js with
  | nil => intro c c' h hs; simp only [removeAll, Option.some.injEq] at hs; subst hs; exact h
  | cons j js ih =>
    intro c c' h hs
    simp only [removeAll] at hs
    cases hst : step c (.remove j r) with
    | none => simp [hst] at hs
    | some c1 =>
      simp only [hst, Option.bind_some] at hs
      exact ih c1 c' ⟨step_part _ c c1 _ h.1 hst, step_reg fleet c c1 _ h.2 hst⟩ hs

theorem tryRemoveRoute_inv (n : Nat) (fleet : List Actor) (sizes : List Nat) (t t' : Tracker) (c c' : Ctx) (r : Nat)
    (whole : Bool) (removed : List Job) (ok : Bool)
    (h : Inv n fleet c) (hs : tryRemoveRoute sizes t c r whole removed = some (t', c', ok)) : Inv n fleet c' := by
  unfold tryRemoveRoute at hs
  split at hs
  · split at hs
    · simp only [Option.some.injEq, Prod.mk.injEq] at hs; rw [← hs.2.1]; exact h
    · simp at hs
  · split at hs
    · simp at hs
    · rename_i rt hrt
      simp only at hs
      split at hs
      · split at hs
        · cases hd : step c (.dropRoute r) with
          | none => simp [hd] at hs
          | some c1 =>
            simp only [hd, Option.map_some, Option.some.injEq, Prod.mk.injEq] at hs
            rw [← hs.2.1]
            exact ⟨step_part _ c c1 _ h.1 hd, step_reg fleet c c1 _ h.2 hd⟩
        · simp at hs
      · split at hs
        · simp at hs
        · split at hs
          · cases hd : removeAll c r removed with
            | none => simp [hd] at hs
            | some c1 =>
              simp only [hd, Option.map_some, Option.some.injEq, Prod.mk.injEq] at hs
              rw [← hs.2.1]
              exact removeAll_inv n fleet r removed c c1 h hd
          · simp at hs

theorem applyResult_inv (n : Nat) (fleet : List Actor) (c c' : Ctx) (e : EvalResult)
    (h : Inv n fleet c) (hs : applyResult c e = some c') : Inv n fleet c' := by
  cases e with
  | success j a =>
    simp only [applyResult] at hs
    split at hs <;> exact ⟨step_part _ c c' _ h.1 hs, step_reg fleet c c' _ h.2 hs⟩
  | failure =>
    simp only [applyResult] at hs
    exact ⟨step_part _ c c' _ h.1 hs, step_reg fleet c c' _ h.2 hs⟩

theorem applyResults_inv (n : Nat) (fleet : List Actor) : ∀ (es : List EvalResult) (c c' : Ctx),
    Inv n fleet c → applyResults c es = some c' → Inv n fleet c' := by
  intro es
  induction es with
  | nil => intro c c' h hs; simp only [applyResults, Option.some.injEq] at hs; subst hs; exact h
  | cons e es ih =>
    intro c c' h hs
    simp only [applyResults] at hs
    cases hst : applyResult c e with
    | none => simp [hst] at hs
    | some c1 =>
      simp only [hst, Option.bind_some] at hs
      exact ih c1 c' (applyResult_inv n fleet c c1 e h hst) hs

theorem ucnt_filter_split (a : Actor) (p : Route → Bool) : ∀ rs : List Route,
    ucnt a (rs.filter p) + ucnt a (rs.filter (fun r => !p r)) = ucnt a rs := by
  intro rs
  induction rs with
  | nil => simp [ucnt]
  | cons x xs ih =>
    unfold ucnt at *
    by_cases hp : p x = true
    · simp only [List.filter_cons, hp, if_true, Bool.not_true, List.map_cons, List.count_cons]
      simp only [Bool.false_eq_true, if_false]
      omega
    · have hp' : p x = false := by simpa using hp
      simp only [List.filter_cons, hp', Bool.not_false, if_true, List.map_cons, List.count_cons]
      simp only [Bool.false_eq_true, if_false]
      omega

/-- `remove_empty_routes` keeps the registry consistent: the actors of dropped routes are offered again -/
theorem dropEmpty_reg (fleet : List Actor) (c : Ctx) (h : RegPart fleet c) : RegPart fleet (dropEmpty c) := by
  intro a
  have hs := ucnt_filter_split a (fun r => !r.jobs.isEmpty) c.routes
  have h0 := h a
  unfold dropEmpty
  simp only [List.count_append]
  have e1 : ((c.routes.filter (fun r => r.jobs.isEmpty)).map (·.actor)).count a
      = ucnt a (c.routes.filter (fun r => !(!r.jobs.isEmpty))) := by
    unfold ucnt
    congr 2
    apply List.filter_congr
    intro x _
    simp
  rw [e1]
  omega

theorem processWith_inv (n : Nat) (fleet : List Actor) (c c' : Ctx) (results : List EvalResult)
    (h : Inv n fleet c) (hs : processWith c results = some c') : Inv n fleet c' := by
  unfold processWith at hs
  cases h1 : step c .prepare with
  | none => simp [h1] at hs
  | some c1 =>
    simp only [h1, Option.bind_some] at hs
    have i1 : Inv n fleet c1 := ⟨step_part _ c c1 _ h.1 h1, step_reg fleet c c1 _ h.2 h1⟩
    cases h2 : applyResults c1 results with
    | none => simp [h2] at hs
    | some c2 =>
      simp only [h2, Option.bind_some] at hs
      have i2 := applyResults_inv n fleet results c1 c2 i1 h2
      cases h3 : step c2 .finalize with
      | none => simp [h3] at hs
      | some c3 =>
        simp only [h3, Option.map_some, Option.some.injEq] at hs
        subst hs
        exact ⟨dropEmpty_part _ c3 (step_part _ c2 c3 _ i2.1 h3), dropEmpty_reg fleet c3 (step_reg fleet c2 c3 _ i2.2 h3)⟩

/-- **hand-over of the insertion heuristic**: nothing pending and no job-less route, whatever the evaluator answered -/
theorem processWith_finalized (c c' : Ctx) (results : List EvalResult) (hs : processWith c results = some c') :
    c'.required = [] ∧ ∀ r ∈ c'.routes, r.jobs ≠ [] := by
  unfold processWith at hs
  cases h1 : step c .prepare with
  | none => simp [h1] at hs
  | some c1 =>
    simp only [h1, Option.bind_some] at hs
    cases h2 : applyResults c1 results with
    | none => simp [h2] at hs
    | some c2 =>
      simp only [h2, Option.bind_some] at hs
      cases h3 : step c2 .finalize with
      | none => simp [h3] at hs
      | some c3 =>
        simp only [h3, Option.map_some, Option.some.injEq] at hs
        subst hs
        refine ⟨?_, dropEmpty_no_empty_route c3⟩
        have := finalize_no_required c2 c3 h3
        simpa [dropEmpty] using this

/-- a locked job is never taken out of its route by the tracker -/
theorem tryRemoveJob_locked_refused (sizes : List Nat) (t : Tracker) (c : Ctx) (r : Nat) (j : Job) (hl : j ∈ c.locked) :
    (tryRemoveJob sizes t c r j).2.2 = false := by
  unfold tryRemoveJob
  split
  · rfl
  · have : step c (.remove j r) = none := by
      simp only [step]
      split
      · rename_i rt _
        have : ¬ (j ∈ rt.jobs ∧ j ∉ c.locked) := fun hh => hh.2 hl
        simp [this]
      · rfl
    simp [this]

/-! non-vacuity -/
example : (tryRemoveJob [1, 1, 1] ⟨2, 1⟩ { ex0 with routes := [⟨7, [1, 2]⟩], required := [3], available := [8] } 0 1).2.2 = true := by decide
example : (tryRemoveJob [1, 1, 1] ⟨2, 1⟩ { ex0 with routes := [⟨7, [1, 2]⟩], required := [3], available := [8] } 0 2).2.2 = false := by decide
example : (tryRemoveRoute [1, 1, 1] ⟨5, 1⟩ { ex0 with locked := [], routes := [⟨7, [1, 2]⟩], required := [3], available := [8] } 0 false [1]).isNone = true := by decide
example : (processWith { ex0 with locked := [] } [.success 1 7, .success 2 7, .failure]).isSome = true := by decide

/-! ## the pin oracle and the locking rule meet

`pinTourB` (the Boolean the driver evaluates on real tours) for a strict pin says: the pinned jobs occur in the tour
exactly as listed (`occ == jobs`) and as one block. The next theorems show that this verdict is stable under exactly the
moves the real code can make on such a tour: an insertion `Rule::can_insert` admits, and the removal of a job that is not
pinned. -/

theorem filter_eq_of_block (js pre post : List Nat)
    (h : (pre ++ js ++ post).filter js.contains = js) :
    pre.filter js.contains = [] ∧ post.filter js.contains = [] := by
  have hjs : js.filter js.contains = js := by
    apply List.filter_eq_self.mpr
    intro a ha; simpa using ha
  rw [List.filter_append, List.filter_append, hjs] at h
  have hlen := congrArg List.length h
  simp only [List.length_append] at hlen
  constructor
  · exact List.eq_nil_of_length_eq_zero (by omega)
  · exact List.eq_nil_of_length_eq_zero (by omega)

theorem filter_insertJob_outside (js acts : List Nat) (i x : Nat) (hx : x ∉ js) :
    (insertJob acts i x).filter js.contains = acts.filter js.contains := by
  unfold insertJob
  have hxc : js.contains x = false := by simpa using hx
  rw [List.filter_append, List.filter_cons]
  simp only [hxc, Bool.false_eq_true, if_false]
  rw [← List.filter_append, List.take_append_drop]

/-- **a strict pin that holds keeps holding under every insertion the locking rule admits** -/
theorem pinTourB_strict_insert (pos : LockPos) (pin : Pin) (actor : Nat) (acts : List Nat) (x i : Nat)
    (hs : pin.order = "strict") (ha : pin.actors.contains actor = true)
    (hx : x ∉ pin.jobs)
    (hpin : pinTourB pin actor acts = true)
    (hocc : acts.filter pin.jobs.contains ≠ [])
    (hc : canInsert pos pin.jobs (some x) (prevAt acts i) (nextAt acts i) = true) :
    pinTourB pin actor (insertJob acts i x) = true := by
  unfold pinTourB at hpin ⊢
  have hany : (pin.order == "any") = false := by rw [hs]; decide
  have hseq : (pin.order == "sequence") = false := by rw [hs]; decide
  simp only [ha, Bool.not_true, Bool.false_eq_true, if_false, hany, hseq] at hpin ⊢
  rw [filter_insertJob_outside pin.jobs acts i x hx]
  have hemp : (acts.filter pin.jobs.contains).isEmpty = false := by
    cases h : acts.filter pin.jobs.contains with
    | nil => exact absurd h hocc
    | cons _ _ => rfl
  simp only [hemp, Bool.false_or, Bool.and_eq_true, beq_iff_eq] at hpin ⊢
  obtain ⟨hoccEq, hinf⟩ := hpin
  refine ⟨hoccEq, ?_⟩
  obtain ⟨pre, post, hacts⟩ := (isInfix_iff pin.jobs acts).mp hinf
  subst hacts
  exact strict_block_survives_insert pos pin.jobs pre post x i hx hc

/-- ... and under the removal of any job that is not pinned -/
theorem pinTourB_strict_removal (pin : Pin) (actor : Nat) (acts : List Nat) (y : Nat)
    (hs : pin.order = "strict") (ha : pin.actors.contains actor = true)
    (hy : y ∉ pin.jobs)
    (hpin : pinTourB pin actor acts = true)
    (hocc : acts.filter pin.jobs.contains ≠ []) :
    pinTourB pin actor (acts.filter (· != y)) = true := by
  unfold pinTourB at hpin ⊢
  have hany : (pin.order == "any") = false := by rw [hs]; decide
  have hseq : (pin.order == "sequence") = false := by rw [hs]; decide
  simp only [ha, Bool.not_true, Bool.false_eq_true, if_false, hany, hseq] at hpin ⊢
  have hemp : (acts.filter pin.jobs.contains).isEmpty = false := by
    cases h : acts.filter pin.jobs.contains with
    | nil => exact absurd h hocc
    | cons _ _ => rfl
  simp only [hemp, Bool.false_or, Bool.and_eq_true, beq_iff_eq] at hpin
  obtain ⟨hoccEq, hinf⟩ := hpin
  obtain ⟨pre, post, hacts⟩ := (isInfix_iff pin.jobs acts).mp hinf
  subst hacts
  have hfc : ((pre ++ pin.jobs ++ post).filter (· != y)).filter pin.jobs.contains
      = (pre ++ pin.jobs ++ post).filter pin.jobs.contains := by
    rw [List.filter_filter]
    apply List.filter_congr
    intro a _
    by_cases hm : pin.jobs.contains a = true
    · have : a ≠ y := fun e => hy (by subst e; simpa using hm)
      simp [hm, this]
    · have hm' : a ∉ pin.jobs := by simpa using hm
      simp [hm']
  rw [hfc, hoccEq]
  have hb := strict_block_survives_removal pin.jobs pre post y hy
  have hemp2 : pin.jobs.isEmpty = false := by rw [← hoccEq]; exact hemp
  simp only [hemp2, Bool.false_or, Bool.and_eq_true, beq_iff_eq]
  exact ⟨trivial, hb⟩

end C04
