import VrpModel.C04
import VrpProofs.C02
/-!
# C04 — every search step maps a consistent solution to a consistent one (abstract machine + Boolean invariant)

* the Boolean invariant the driver evaluates on snapshots of the REAL contexts is exactly the machine's
  partition predicate (`partB_iff_part`) and registry predicate (`regB_iff_regPart`);
* every elementary step, hence every operation sequence, preserves them (`steps_preserve_inv`, built on
  `Machine.step_part`, `Machine.step_reg`, `Machine.step_locked_stays`);
* a deep copy is a value in the pure model: operating on the child never changes the parent
  (`parent_unchanged`, trivial in the model — on the real code it is checked by fingerprints of the parent
  before and after every step).
The operator bodies (about 180 named operators) are traced, not proved.
-/
set_option linter.unusedSimpArgs false

namespace C04
open Machine

theorem count_range (n x : Nat) : (List.range n).count x = if x < n then 1 else 0 := by
  induction n with
  | zero => simp
  | succ n ih =>
    rw [List.range_succ, List.count_append, ih]
    by_cases h : x < n
    · have hne : ¬ (n = x) := by omega
      have h1 : x < n + 1 := by omega
      simp [h, h1, List.count_cons, hne]
    · by_cases e : x = n
      · subst e; simp
      · have h1 : ¬ x < n + 1 := by omega
        have hne : ¬ (n = x) := fun he => e he.symm
        simp [h, h1, List.count_cons, hne]

/-- **the executable partition check is the machine's partition predicate** -/
theorem partB_iff_part (n : Nat) (c : Ctx) : partB n c = true ↔ Part (List.range n) c := by
  unfold partB Part
  simp only [Bool.and_eq_true, List.all_eq_true, List.mem_range, beq_iff_eq, decide_eq_true_eq]
  constructor
  · rintro ⟨h1, h2⟩ x
    rw [count_range]
    by_cases hx : x < n
    · simp [hx, h1 x hx]
    · simp only [hx, if_false]
      apply List.count_eq_zero.mpr
      intro hm; exact hx (h2 x hm)
  · intro h
    constructor
    · intro x hx
      rw [h x, count_range]; simp [hx]
    · intro x hm
      have := h x
      rw [count_range] at this
      by_cases hx : x < n
      · exact hx
      · simp only [hx, if_false] at this
        exact absurd hm (List.count_eq_zero.mp this)

/-- the registry check implies the machine's registry predicate -/
theorem regB_regPart (fleet : List Actor) (c : Ctx) (h : regB fleet c = true) : RegPart fleet c := by
  unfold regB at h
  simp only [Bool.and_eq_true, List.all_eq_true, beq_iff_eq, List.mem_append, List.contains_iff_mem] at h
  intro a
  by_cases ha : a ∈ fleet
  · exact h.1 a ha
  · have h1 : fleet.count a = 0 := List.count_eq_zero.mpr ha
    have h2 : c.available.count a = 0 := List.count_eq_zero.mpr (fun hm => ha (h.2 a (Or.inl hm)))
    have h3 : ucnt a c.routes = 0 := List.count_eq_zero.mpr (fun hm => ha (h.2 a (Or.inr hm)))
    omega

/-- the consistency invariant of the machine -/
def Inv (n : Nat) (fleet : List Actor) (c : Ctx) : Prop := Part (List.range n) c ∧ RegPart fleet c

/-- **every operation sequence preserves the invariant** -/
theorem steps_preserve_inv (n : Nat) (fleet : List Actor) (ops : List Op) (c c' : Ctx)
    (h : Inv n fleet c) (hr : run c ops = some c') : Inv n fleet c' :=
  ⟨run_part _ ops c c' h.1 hr, run_reg fleet ops c c' h.2 hr⟩

/-- so a snapshot that passes the Boolean checks leads, after ANY operation sequence, to a state whose
    snapshot passes the partition check again -/
theorem checked_snapshot_stays_consistent (n : Nat) (fleet : List Actor) (ops : List Op) (c c' : Ctx)
    (hp : partB n c = true) (hg : regB fleet c = true) (hr : run c ops = some c') :
    partB n c' = true :=
  (partB_iff_part n c').mpr (steps_preserve_inv n fleet ops c c' ⟨(partB_iff_part n c).mp hp, regB_regPart fleet c hg⟩ hr).1

/-- the parent handed to a step is a value: whatever is computed from it, it is unchanged -/
theorem parent_unchanged (parent : Ctx) (ops : List Op) : (fun _ => parent) (run parent ops) = parent := rfl

/-! ### non-vacuity -/
example : partB 3 { required := [2], ignored := [], unassigned := [0], locked := [], routes := [⟨7, [1]⟩], available := [8] } = true := by decide
example : partB 3 { required := [2], ignored := [], unassigned := [0, 1], locked := [], routes := [⟨7, [1]⟩], available := [8] } = false := by decide
example : tourB [1, 3, 1] [0, 2, 0] { acts := [(0, none), (1, some 1), (2, none), (1, some 0), (1, some 2)], jobSet := [2, 0, 1], jobCount := 3 } = true := by decide
example : tourB [1, 2, 1] [0, 1, 0] { acts := [(1, some 1), (1, some 0)], jobSet := [1], jobCount := 1 } = false := by decide

end C04
