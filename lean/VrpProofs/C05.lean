import VrpModel.C05
/-!
# C05 — the stale-flag protocol keeps every non-stale cache equal to recomputation

For ANY tour type, cache type and `recompute` function: if every tour mutation goes through
`route_mut` (which marks the route stale), then in every reachable state each route that is not marked
stale carries exactly `recompute tour`, and after `accept_solution_state` all routes do. Hence any
quantity computed from the caches at hand-over is a function of the tours only.
What ties this to the code: the correspondence (cached values of the real code == `C05.recompute` of the
bare tour after every insertion) and the metamorphic oracle (real digest == real digest after stripping
and recomputing).
-/
set_option linter.unusedSimpArgs false

namespace C05

variable {τ κ : Type} (rc : τ → κ)

def Valid (r : RouteSt τ κ) : Prop := r.cache = rc r.tour
def Inv (s : List (RouteSt τ κ)) : Prop := ∀ r ∈ s, r.stale = false → Valid rc r

theorem mem_modify {α : Type} (l : List α) (i : Nat) (f : α → α) (x : α) (h : x ∈ l.modify i f) :
    x ∈ l ∨ ∃ y ∈ l, x = f y := by
  induction l generalizing i with
  | nil => simp at h
  | cons a r ih =>
    cases i with
    | zero =>
      simp [List.modify] at h
      rcases h with rfl | h
      · right; exact ⟨a, by simp, rfl⟩
      · left; simp [h]
    | succ i =>
      simp only [List.modify_succ_cons, List.mem_cons] at h
      rcases h with rfl | h
      · left; simp
      · rcases ih i h with h1 | ⟨y, hy, rfl⟩
        · left; simp [h1]
        · right; exact ⟨y, by simp [hy], rfl⟩

/-- every operation preserves the invariant -/
theorem step_inv (s : List (RouteSt τ κ)) (op : Op τ) (h : Inv rc s) : Inv rc (step rc s op) := by
  intro r hr hs
  cases op with
  | mutate i f =>
    rcases mem_modify _ _ _ _ hr with h1 | ⟨y, _, rfl⟩
    · exact h r h1 hs
    · simp at hs
  | acceptInsertion i =>
    rcases mem_modify _ _ _ _ hr with h1 | ⟨y, _, rfl⟩
    · exact h r h1 hs
    · simp [Valid]
  | acceptRoute i =>
    rcases mem_modify _ _ _ _ hr with h1 | ⟨y, hy, rfl⟩
    · exact h r h1 hs
    · by_cases hst : y.stale = true
      · simp [hst, Valid]
      · simp only [hst] at hs ⊢
        exact h y hy (by simpa using hst)
  | acceptSolution =>
    simp only [step, List.mem_map] at hr
    obtain ⟨y, hy, rfl⟩ := hr
    by_cases hst : y.stale = true
    · simp [hst, Valid]
    · simp only [hst] at hs ⊢
      exact h y hy (by simpa using hst)

/-- **every reachable state**: after any operation sequence the invariant holds -/
theorem run_inv (s : List (RouteSt τ κ)) (ops : List (Op τ)) (h : Inv rc s) :
    Inv rc (ops.foldl (step rc) s) := by
  induction ops generalizing s with
  | nil => exact h
  | cons op ops ih => exact ih _ (step_inv rc s op h)

/-- **at hand-over** (`accept_solution_state` ran last): every cache equals recomputation and no
    route is stale -/
theorem handover_all_valid (s : List (RouteSt τ κ)) (h : Inv rc s) :
    ∀ r ∈ step rc s .acceptSolution, Valid rc r ∧ r.stale = false := by
  intro r hr
  simp only [step, List.mem_map] at hr
  obtain ⟨y, hy, rfl⟩ := hr
  by_cases hst : y.stale = true
  · simp [hst, Valid]
  · simp only [hst]
    exact ⟨h y hy (by simpa using hst), by simpa using hst⟩

/-- after `accept_insertion` the touched route is valid whatever its flag says (this is what the
    evaluator relies on between two insertions of a construction run) -/
theorem acceptInsertion_valid (s : List (RouteSt τ κ)) (i : Nat) (r : RouteSt τ κ)
    (hr : (step rc s (.acceptInsertion i))[i]? = some r) : Valid rc r := by
  simp only [step] at hr
  rw [List.getElem?_modify_eq] at hr
  cases hs : s[i]? with
  | none => simp [hs] at hr
  | some y => simp [hs] at hr; subst hr; simp [Valid]

/-- **objective values are a function of the tours only**: any quantity computed from the caches of
    a handed-over solution equals the same quantity computed from recomputed caches, so two solutions
    with identical tours get identical values -/
theorem fitness_function_of_tours {φ : Type} (fit : List κ → φ) (s s' : List (RouteSt τ κ))
    (h : ∀ r ∈ s, Valid rc r) (h' : ∀ r ∈ s', Valid rc r)
    (htours : s.map (·.tour) = s'.map (·.tour)) :
    fit (s.map (·.cache)) = fit (s'.map (·.cache)) := by
  have e : ∀ (l : List (RouteSt τ κ)), (∀ r ∈ l, Valid rc r) → l.map (·.cache) = (l.map (·.tour)).map rc := by
    intro l hl
    induction l with
    | nil => rfl
    | cons a r ih =>
      simp only [List.map_cons]
      rw [hl a (by simp), ih (fun x hx => hl x (List.mem_cons_of_mem _ hx))]
  rw [e s h, e s' h', htours]

/-- `recompute` is a function: recomputing twice changes nothing (idempotence of `accept_route_state`) -/
theorem recompute_idempotent (s : List (RouteSt τ κ)) :
    step rc (step rc s .acceptSolution) .acceptSolution = step rc s .acceptSolution := by
  simp only [step, List.map_map]
  apply List.map_congr_left
  intro r _
  by_cases hst : r.stale = true <;> simp [hst]

/-- non-vacuity: a route mutated without `route_mut` (flag not set) breaks `Inv`, one mutated through
    `mutate` does not -/
example : Inv (fun (t : List Nat) => t.length)
    (step (fun (t : List Nat) => t.length) [⟨[1, 2], 2, false⟩] (.mutate 0 (fun t => 7 :: t))) := by
  intro r hr hs; simp [step, List.modify] at hr; subst hr; simp at hs
example : ¬ Inv (fun (t : List Nat) => t.length) [⟨[7, 1, 2], 2, false⟩] := by
  intro h; have := h ⟨[7, 1, 2], 2, false⟩ (by simp) rfl; simp [Valid] at this

end C05
