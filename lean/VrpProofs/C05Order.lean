/-!
# C05 — one pass over the features recomputes every cached value, provided the features are ordered by dependency

`accept_solution_state` (and `accept_route_state`) of the goal runs the state update of every feature once, in the order the
features were given (`feature_combinator.rs`). A feature reads cached values other features wrote (work balance reads the
maximum load written by capacity and the tour duration written by transport; compactness, groups, … likewise). The hand-over
property C05 - "cached = recomputed from the bare tours" - therefore needs an ORDER condition, which is what two genuine
defects were about (S40: a feature read a value that was refreshed only later; S41: balance features listed before transport).

Abstract model: a store `Nat → Int`; keys below `base` are the bare tour data (never written); a feature writes ONE key from
the values of the keys it reads. Theorem `pass_independent_of_stale`: if every feature reads only base keys or keys written
by EARLIER features of the list, the store after one pass does not depend on the cached values before the pass - two stores
that agree on the bare data end up agreeing on every written key. (Recomputation is the pass from cleared caches, so this is
"one pass = recomputation".) `wrong_order_depends_on_stale` is the S41 shape: with the reader first the result does depend
on the stale value.
-/
namespace C05Order

abbrev Store := Nat → Int

structure Feature where
  reads : List Nat
  writes : Nat
  f : Store → Int

/-- the value a feature computes depends on the keys it declares to read only -/
def DependsOnly (ft : Feature) : Prop := ∀ g h : Store, (∀ k ∈ ft.reads, g k = h k) → ft.f g = ft.f h

def upd (s : Store) (k : Nat) (v : Int) : Store := fun k' => if k' = k then v else s k'

def apply (s : Store) (ft : Feature) : Store := upd s ft.writes (ft.f s)

/-- one pass of `accept_solution_state`: every feature once, in list order -/
def pass (fs : List Feature) (s : Store) : Store := fs.foldl apply s

/-- dependency order: a feature reads bare data (`k < base`) or keys written by features BEFORE it; nothing writes bare data -/
def Ordered (base : Nat) : List Nat → List Feature → Prop
  | _, [] => True
  | done, ft :: rest => (∀ k ∈ ft.reads, k < base ∨ k ∈ done) ∧ base ≤ ft.writes ∧ Ordered base (ft.writes :: done) rest

theorem upd_same (s : Store) (k : Nat) (v : Int) : upd s k v k = v := by simp [upd]
theorem upd_other (s : Store) (k k' : Nat) (v : Int) (h : k' ≠ k) : upd s k v k' = s k' := by simp [upd, h]

/-- invariant of the pass: the two stores agree on the bare data and on every key written so far -/
theorem pass_agree (base : Nat) (fs : List Feature) (done : List Nat) (s1 s2 : Store)
    (hdep : ∀ ft ∈ fs, DependsOnly ft) (hord : Ordered base done fs)
    (hagree : ∀ k, k < base ∨ k ∈ done → s1 k = s2 k) :
    ∀ k, (k < base ∨ k ∈ done ∨ k ∈ fs.map (·.writes)) → pass fs s1 k = pass fs s2 k := by
  induction fs generalizing done s1 s2 with
  | nil =>
    intro k hk
    simp only [pass, List.foldl_nil, List.map_nil, List.not_mem_nil, or_false] at hk ⊢
    exact hagree k hk
  | cons ft rest ih =>
    obtain ⟨hreads, hw, hrest⟩ := hord
    have hval : ft.f s1 = ft.f s2 := hdep ft (by simp) s1 s2 (fun k hk => hagree k (hreads k hk))
    have hagree' : ∀ k, k < base ∨ k ∈ ft.writes :: done → apply s1 ft k = apply s2 ft k := by
      intro k hk
      unfold apply
      by_cases hkw : k = ft.writes
      · subst hkw; rw [upd_same, upd_same, hval]
      · rw [upd_other _ _ _ _ hkw, upd_other _ _ _ _ hkw]
        apply hagree
        rcases hk with hk | hk
        · exact Or.inl hk
        · simp only [List.mem_cons] at hk
          rcases hk with hk | hk
          · exact absurd hk hkw
          · exact Or.inr hk
    intro k hk
    have := ih (ft.writes :: done) (apply s1 ft) (apply s2 ft) (fun g hg => hdep g (by simp [hg])) hrest hagree' k
    simp only [pass, List.foldl_cons] at this ⊢
    apply this
    rcases hk with hk | hk | hk
    · exact Or.inl hk
    · exact Or.inr (Or.inl (by simp [hk]))
    · simp only [List.map_cons, List.mem_cons] at hk
      rcases hk with hk | hk
      · exact Or.inr (Or.inl (by simp [hk]))
      · exact Or.inr (Or.inr hk)

/-- **one pass = recomputation**: with the features in dependency order, what the pass leaves in the written keys is a
    function of the bare data alone - whatever stale values the caches held before -/
theorem pass_independent_of_stale (base : Nat) (fs : List Feature) (s1 s2 : Store)
    (hdep : ∀ ft ∈ fs, DependsOnly ft) (hord : Ordered base [] fs)
    (hbare : ∀ k, k < base → s1 k = s2 k) :
    ∀ k, (k < base ∨ k ∈ fs.map (·.writes)) → pass fs s1 k = pass fs s2 k := by
  intro k hk
  apply pass_agree base fs [] s1 s2 hdep hord (fun k hk => by
    rcases hk with hk | hk
    · exact hbare k hk
    · simp at hk) k
  rcases hk with hk | hk
  · exact Or.inl hk
  · exact Or.inr (Or.inr hk)

/-- the pass is idempotent on the written keys (a second `accept_solution_state` changes nothing) -/
theorem pass_idempotent (base : Nat) (fs : List Feature) (s : Store)
    (hdep : ∀ ft ∈ fs, DependsOnly ft) (hord : Ordered base [] fs)
    (hbase : ∀ k, k < base → pass fs s k = s k) :
    ∀ k, (k < base ∨ k ∈ fs.map (·.writes)) → pass fs (pass fs s) k = pass fs s k :=
  pass_independent_of_stale base fs (pass fs s) s hdep hord hbase

/-! ## the S41 shape: a reader listed before the writer it depends on -/

/-- key 0: bare tour data; key 1: total duration (written by "transport" from key 0); key 2: balance (written by
    "work balance" from key 1) -/
def transportF : Feature := { reads := [0], writes := 1, f := fun s => 2 * s 0 }
def balanceF : Feature := { reads := [1], writes := 2, f := fun s => s 1 + 7 }

theorem transport_dep : DependsOnly transportF := by
  intro g h hk; simp only [transportF] at hk ⊢; rw [hk 0 (by simp)]
theorem balance_dep : DependsOnly balanceF := by
  intro g h hk; simp only [balanceF] at hk ⊢; rw [hk 1 (by simp)]

/-- right order: hypotheses of the theorem hold (non-vacuity) -/
example : Ordered 1 [] [transportF, balanceF] := by
  simp [Ordered, transportF, balanceF]

def fresh : Store := fun k => if k = 0 then 5 else 0
def stale : Store := fun k => if k = 0 then 5 else 100

-- right order: the stale caches do not matter
example : pass [transportF, balanceF] fresh 2 = 17 ∧ pass [transportF, balanceF] stale 2 = 17 := by decide

/-- wrong order (balance before transport, as before the repair of S41): the result depends on the stale value -/
theorem wrong_order_depends_on_stale :
    pass [balanceF, transportF] fresh 2 ≠ pass [balanceF, transportF] stale 2 ∧ ¬ Ordered 1 [] [balanceF, transportF] := by
  constructor
  · decide
  · simp [Ordered, balanceF, transportF]

end C05Order
