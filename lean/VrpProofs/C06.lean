import VrpModel.C06
/-!
# C06 — insertion evaluation agrees with brute-force simulation (time-window part and scan)

`Route.feas` / `Route.tourFeas` is the SPEC (step-by-step simulation); `C06.evalTime` is the MODEL of
`TransportConstraint::evaluate_activity`, which decides in O(1) from the cached latest arrival
(`Route.latestArr`, the model of `update_states`). Everything is for tours of any length.
-/
set_option linter.unusedSimpArgs false
set_option linter.unnecessarySimpa false

namespace C06
open Route

variable (t : Nat → Nat → Int)

/-! ### equation lemmas -/

theorem feas_nil (l : Nat) (dep : Int) : feas t [] l dep = true := by rw [feas]
theorem feas_cons (a : Act) (r : List Act) (l : Nat) (dep : Int) :
    feas t (a :: r) l dep = (decide (dep + t l a.loc ≤ a.e) && feas t r a.loc (depOf a (dep + t l a.loc))) := by
  rw [feas]
theorem after_nil (l : Nat) (dep : Int) : after t [] l dep = (l, dep) := by rw [after]
theorem after_cons (a : Act) (r : List Act) (l : Nat) (dep : Int) :
    after t (a :: r) l dep = after t r a.loc (depOf a (dep + t l a.loc)) := by rw [after]
theorem latestArr_one (a : Act) : latestArr t [a] = a.e := by rw [latestArr]
theorem latestArr_cc (a b : Act) (r : List Act) :
    latestArr t (a :: b :: r) = min a.e (latestArr t (b :: r) - t a.loc b.loc - a.dur) := by rw [latestArr]

theorem feas_append (xs ys : List Act) (l : Nat) (dep : Int) :
    feas t (xs ++ ys) l dep =
      (feas t xs l dep && feas t ys (after t xs l dep).1 (after t xs l dep).2) := by
  induction xs generalizing l dep with
  | nil => simp [feas_nil, after_nil]
  | cons a xs ih => simp [feas_cons, after_cons, ih, Bool.and_assoc]

/-! ### the cached latest arrival is exact on a feasible tour -/

/-- **If the suffix is feasible for its current arrival (from `l0` at `dep0`), then it is feasible
    when reached from `l` at `dep` iff the arrival at its head is not later than the cached latest
    arrival.** (No triangle inequality, no sign condition on durations.) -/
theorem feas_iff_latestArr (a : Act) (r : List Act) (l l0 : Nat) (dep dep0 : Int)
    (h0 : feas t (a :: r) l0 dep0 = true) :
    feas t (a :: r) l dep = true ↔ dep + t l a.loc ≤ latestArr t (a :: r) := by
  induction r generalizing a l l0 dep dep0 with
  | nil =>
    simp [feas_cons, feas_nil, latestArr_one]
  | cons b r ih =>
    rw [feas_cons, Bool.and_eq_true, decide_eq_true_eq] at h0 ⊢
    rw [latestArr_cc]
    have ih' := ih b a.loc a.loc (depOf a (dep + t l a.loc)) (depOf a (dep0 + t l0 a.loc)) h0.2
    have ih0 := ih b a.loc a.loc (depOf a (dep0 + t l0 a.loc)) (depOf a (dep0 + t l0 a.loc)) h0.2
    rw [ih']
    have h00 := ih0.mp h0.2
    unfold depOf at *
    omega

/-- feasibility is monotone: leaving earlier never hurts (needed to move between departures) -/
theorem feas_mono (acts : List Act) (l : Nat) (dep dep' : Int) (hle : dep' ≤ dep)
    (h : feas t acts l dep = true) : feas t acts l dep' = true := by
  induction acts generalizing l dep dep' with
  | nil => simp [feas_nil]
  | cons a r ih =>
    rw [feas_cons, Bool.and_eq_true, decide_eq_true_eq] at h ⊢
    refine ⟨by omega, ih a.loc _ _ ?_ h.2⟩
    unfold depOf; omega

/-! ### `evaluate_activity` -/

/-- what the evaluator accepts, spelled out (the `.ok` branch) -/
theorem evalTimeCore_ok_next (p : Nat × Int) (nx x : Act) (rest' : List Act) :
    evalTimeCore t p (nx :: rest') x = .ok ↔
      (p.2 + t p.1 nx.loc ≤ latestArr t (nx :: rest') ∧ x.s ≤ latestArr t (nx :: rest') ∧
       p.2 + t p.1 x.loc ≤ min x.e (latestArr t (nx :: rest') - t x.loc nx.loc - x.dur) ∧
       depOf x (p.2 + t p.1 x.loc) + t x.loc nx.loc ≤ latestArr t (nx :: rest')) := by
  unfold evalTimeCore
  simp only
  constructor
  · intro h
    split at h
    · cases h
    · split at h
      · cases h
      · split at h
        · cases h
        · split at h
          · cases h
          · refine ⟨?_, ?_, ?_, ?_⟩ <;> omega
  · rintro ⟨h1, h2, h3, h4⟩
    rw [if_neg (by omega), if_neg (by omega), if_neg (by omega), if_neg (by omega)]

theorem evalTimeCore_ok_open (p : Nat × Int) (x : Act) :
    evalTimeCore t p [] x = .ok ↔ (p.2 + t p.1 x.loc ≤ x.e ∧ x.s ≤ x.e) := by
  unfold evalTimeCore
  simp only
  constructor
  · intro h
    split at h
    · cases h
    · split at h
      · cases h
      · constructor <;> omega
  · rintro ⟨h1, h2⟩
    rw [if_neg (by omega), if_neg (by omega)]

theorem evalTime_ok_iff (v : Veh) (jobs : List Act) (i : Nat) (x : Act) :
    evalTime t v jobs i x = .ok ↔
      ((tooLate v (prevStart v (jobs.take i)) || nextLate v ((v.full jobs).drop i)) = false ∧
       tooLate v x.s = false ∧
       evalTimeCore t (after t (jobs.take i) v.startLoc v.dep) ((v.full jobs).drop i) x = .ok) := by
  unfold evalTime
  simp only
  constructor
  · intro h
    split at h
    · cases h
    · split at h
      · cases h
      · rename_i h1 h2
        exact ⟨by simpa using h1, by simpa using h2, h⟩
  · rintro ⟨h1, h2, h3⟩
    rw [if_neg (by simp [h1]), if_neg (by simp [h2])]
    exact h3

/-- splitting the tour at the insertion point -/
theorem full_insertAt (v : Veh) (jobs : List Act) (i : Nat) (x : Act) (hi : i ≤ jobs.length) :
    v.full (insertAt jobs i x) = jobs.take i ++ x :: (v.full jobs).drop i := by
  unfold Veh.full insertAt
  rw [List.drop_append_of_le_length hi]
  simp [List.append_assoc]

theorem full_split (v : Veh) (jobs : List Act) (i : Nat) (hi : i ≤ jobs.length) :
    v.full jobs = jobs.take i ++ (v.full jobs).drop i := by
  unfold Veh.full
  rw [List.drop_append_of_le_length hi, ← List.append_assoc, List.take_append_drop]

/-- **C06 soundness (time)**: on a feasible tour, whatever position the evaluator accepts gives a tour
    that the step-by-step simulation finds feasible — closed and open tours, any length, waiting and
    tight windows included. -/
theorem evalTime_sound (v : Veh) (jobs : List Act) (i : Nat) (x : Act) (hi : i ≤ jobs.length)
    (hbase : tourFeas t v jobs = true) (h : evalTime t v jobs i x = .ok) :
    tourFeas t v (insertAt jobs i x) = true := by
  unfold tourFeas at *
  rw [full_insertAt v jobs i x hi, feas_append]
  rw [full_split v jobs i hi, feas_append, Bool.and_eq_true] at hbase
  obtain ⟨hpre, hsuf⟩ := hbase
  rw [Bool.and_eq_true]
  refine ⟨hpre, ?_⟩
  obtain ⟨_, _, hcore⟩ := (evalTime_ok_iff t v jobs i x).mp h
  cases hrest : (v.full jobs).drop i with
  | nil =>
    rw [hrest] at hcore
    have := (evalTimeCore_ok_open t _ x).mp hcore
    simp only [feas_cons, feas_nil, Bool.and_true, decide_eq_true_eq]
    exact this.1
  | cons nx rest' =>
    rw [hrest] at hcore hsuf
    obtain ⟨_, _, h3, h4⟩ := (evalTimeCore_ok_next t _ nx x rest').mp hcore
    rw [feas_cons, Bool.and_eq_true, decide_eq_true_eq]
    refine ⟨by omega, ?_⟩
    exact (feas_iff_latestArr t nx rest' x.loc _ _ _ hsuf).mpr h4

/-! ### completeness of the time test -/

/-- with non-negative travel times and durations, a feasible sequence cannot start after the end of
    the window of its last activity -/
theorem feas_dep_le_last (ht : ∀ a b, 0 ≤ t a b) (acts : List Act) (hd : ∀ a ∈ acts, 0 ≤ a.dur)
    (l : Nat) (dep : Int) (z : Act) (hz : acts.getLast? = some z)
    (h : feas t acts l dep = true) : dep ≤ z.e := by
  induction acts generalizing l dep with
  | nil => simp at hz
  | cons a r ih =>
    rw [feas_cons, Bool.and_eq_true, decide_eq_true_eq] at h
    have hta := ht l a.loc
    cases r with
    | nil =>
      simp at hz; subst hz; omega
    | cons b r' =>
      have hz' : (b :: r').getLast? = some z := by simpa [List.getLast?_cons_cons] using hz
      have := ih (fun a ha => hd a (List.mem_cons_of_mem _ ha)) a.loc _ hz' h.2
      have hda := hd a (by simp)
      unfold depOf at this
      omega

/-- the start of the window of any activity of a feasible sequence is not after the end of the last
    window (the shift end for a closed tour) -/
theorem feas_start_le_last (ht : ∀ a b, 0 ≤ t a b) (acts : List Act) (hd : ∀ a ∈ acts, 0 ≤ a.dur)
    (l : Nat) (dep : Int) (z : Act) (hz : acts.getLast? = some z)
    (h : feas t acts l dep = true) : ∀ a ∈ acts, a.s ≤ z.e ∨ a = z := by
  induction acts generalizing l dep with
  | nil => simp at hz
  | cons a r ih =>
    rw [feas_cons, Bool.and_eq_true, decide_eq_true_eq] at h
    intro c hc
    cases r with
    | nil =>
      simp at hz; subst hz
      simp at hc; right; exact hc
    | cons b r' =>
      have hz' : (b :: r').getLast? = some z := by simpa [List.getLast?_cons_cons] using hz
      rcases List.mem_cons.mp hc with rfl | hc'
      · left
        have := feas_dep_le_last t ht (b :: r') (fun a ha => hd a (List.mem_cons_of_mem _ ha)) c.loc _ z hz' h.2
        have hdc := hd c (by simp)
        unfold depOf at this
        omega
      · exact ih (fun a ha => hd a (List.mem_cons_of_mem _ ha)) a.loc _ hz' h.2 c hc'

theorem tooLate_false_of_le (v : Veh) (s : Int)
    (h : ∀ loc T, v.endAt = some (loc, T) → s ≤ T) : tooLate v s = false := by
  unfold tooLate
  cases he : v.endAt with
  | none => rfl
  | some p =>
    obtain ⟨loc, T⟩ := p
    have := h loc T he
    simp only [decide_eq_false_iff_not]
    omega

/-- the last activity of a closed tour is the arrival activity -/
theorem full_getLast_closed (v : Veh) (jobs : List Act) (loc : Nat) (T : Int)
    (he : v.endAt = some (loc, T)) :
    (v.full jobs).getLast? = some { loc := loc, s := 0, e := T, dur := 0 } := by
  unfold Veh.full Veh.endActs
  rw [he]
  simp

/-- every activity of a feasible closed tour (and its departure) respects the shift end -/
theorem closed_bounds (ht : ∀ a b, 0 ≤ t a b) (v : Veh) (jobs : List Act) (hd : ∀ a ∈ jobs, 0 ≤ a.dur)
    (loc : Nat) (T : Int) (he : v.endAt = some (loc, T)) (hdep : 0 ≤ v.dep)
    (h : tourFeas t v jobs = true) :
    v.dep ≤ T ∧ ∀ a ∈ v.full jobs, a.s ≤ T := by
  unfold tourFeas at h
  have hz := full_getLast_closed v jobs loc T he
  have hd' : ∀ a ∈ v.full jobs, 0 ≤ a.dur := by
    intro a ha
    unfold Veh.full Veh.endActs at ha
    rw [he] at ha
    rcases List.mem_append.mp ha with h1 | h1
    · exact hd a h1
    · simp at h1; subst h1; simp
  have h1 := feas_dep_le_last t ht _ hd' _ _ _ hz h
  simp only at h1
  refine ⟨h1, ?_⟩
  intro a ha
  rcases feas_start_le_last t ht _ hd' _ _ _ hz h a ha with h2 | h2
  · exact h2
  · subst h2; simp only; omega

/-- **C06 completeness (time)**: on a feasible tour with non-negative travel times and durations,
    if the simulation finds the tour with `x` inserted at position `i` feasible, the evaluator's O(1)
    test accepts that position. Together with `evalTime_sound`: the test is exact. The "cannot reach
    the next activity directly ⇒ stop" pruning never fires on a feasible tour (no triangle inequality
    is needed). -/
theorem evalTime_complete (ht : ∀ a b, 0 ≤ t a b) (v : Veh) (jobs : List Act) (i : Nat) (x : Act)
    (hi : i ≤ jobs.length) (hd : ∀ a ∈ jobs, 0 ≤ a.dur) (hxd : 0 ≤ x.dur) (hxw : x.s ≤ x.e)
    (hdep : 0 ≤ v.dep) (hearly : v.earliest ≤ v.dep)
    (hbase : tourFeas t v jobs = true)
    (hins : tourFeas t v (insertAt jobs i x) = true) :
    evalTime t v jobs i x = .ok := by
  rw [evalTime_ok_iff]
  have hins' := hins
  have hbase' := hbase
  unfold tourFeas at hins hbase
  rw [full_insertAt v jobs i x hi, feas_append, Bool.and_eq_true] at hins
  rw [full_split v jobs i hi, feas_append, Bool.and_eq_true] at hbase
  obtain ⟨_, hsufI⟩ := hins
  obtain ⟨_, hsuf⟩ := hbase
  have hdI : ∀ a ∈ insertAt jobs i x, 0 ≤ a.dur := by
    intro a ha
    unfold insertAt at ha
    rcases List.mem_append.mp ha with h1 | h1
    · exact hd a (List.mem_of_mem_take h1)
    · rcases List.mem_cons.mp h1 with rfl | h2
      · exact hxd
      · exact hd a (List.mem_of_mem_drop h2)
  refine ⟨?_, ?_, ?_⟩
  · -- shift-end pre-checks on prev and next never fire
    rw [Bool.or_eq_false_iff]
    constructor
    · apply tooLate_false_of_le
      intro loc T he
      obtain ⟨hb1, hb2⟩ := closed_bounds t ht v jobs hd loc T he hdep hbase'
      unfold prevStart
      cases hl : (jobs.take i).getLast? with
      | none => simp only; omega
      | some a =>
        simp only
        apply hb2
        have : a ∈ jobs.take i := List.mem_of_getLast? hl
        unfold Veh.full
        exact List.mem_append_left _ (List.mem_of_mem_take this)
    · unfold nextLate
      cases hrest : (v.full jobs).drop i with
      | nil => rfl
      | cons nx rest' =>
        simp only
        apply tooLate_false_of_le
        intro loc T he
        obtain ⟨_, hb2⟩ := closed_bounds t ht v jobs hd loc T he hdep hbase'
        apply hb2
        have : nx ∈ (v.full jobs).drop i := by rw [hrest]; simp
        exact List.mem_of_mem_drop this
  · apply tooLate_false_of_le
    intro loc T he
    obtain ⟨_, hb2⟩ := closed_bounds t ht v (insertAt jobs i x) hdI loc T he hdep hins'
    apply hb2
    rw [full_insertAt v jobs i x hi]
    simp
  · cases hrest : (v.full jobs).drop i with
    | nil =>
      rw [hrest] at hsufI
      rw [evalTimeCore_ok_open]
      simp only [feas_cons, feas_nil, Bool.and_true, decide_eq_true_eq] at hsufI
      exact ⟨hsufI, hxw⟩
    | cons nx rest' =>
      rw [hrest] at hsufI hsuf
      rw [evalTimeCore_ok_next]
      rw [feas_cons, Bool.and_eq_true, decide_eq_true_eq] at hsufI
      obtain ⟨hx1, hx2⟩ := hsufI
      have ha := (feas_iff_latestArr t nx rest' _ _ _ _ hsuf).mp hsuf
      have hdd := (feas_iff_latestArr t nx rest' x.loc _ _ _ hsuf).mp hx2
      have htx := ht x.loc nx.loc
      unfold depOf at hdd ⊢
      refine ⟨ha, ?_, ?_, hdd⟩ <;> omega

/-- **the evaluator's time test is exact** (both directions) -/
theorem evalTime_exact (ht : ∀ a b, 0 ≤ t a b) (v : Veh) (jobs : List Act) (i : Nat) (x : Act)
    (hi : i ≤ jobs.length) (hd : ∀ a ∈ jobs, 0 ≤ a.dur) (hxd : 0 ≤ x.dur) (hxw : x.s ≤ x.e)
    (hdep : 0 ≤ v.dep) (hearly : v.earliest ≤ v.dep) (hbase : tourFeas t v jobs = true) :
    evalTime t v jobs i x = .ok ↔ tourFeas t v (insertAt jobs i x) = true :=
  ⟨evalTime_sound t v jobs i x hi hbase,
   evalTime_complete t ht v jobs i x hi hd hxd hxw hdep hearly hbase⟩

/-- the "fail and stop" verdict of the time test is unreachable on a feasible tour -/
theorem evalTime_never_stops (ht : ∀ a b, 0 ≤ t a b) (v : Veh) (jobs : List Act) (i : Nat) (x : Act)
    (hi : i ≤ jobs.length) (hd : ∀ a ∈ jobs, 0 ≤ a.dur)
    (hdep : 0 ≤ v.dep) (hearly : v.earliest ≤ v.dep) (hbase : tourFeas t v jobs = true) :
    evalTime t v jobs i x ≠ .fail := by
  -- inserting nothing: reuse the pre-check and direct-reach facts of `evalTime_complete`
  intro hf
  unfold evalTime at hf
  simp only at hf
  have hbase' := hbase
  unfold tourFeas at hbase
  rw [full_split v jobs i hi, feas_append, Bool.and_eq_true] at hbase
  obtain ⟨_, hsuf⟩ := hbase
  have hpre : (tooLate v (prevStart v (jobs.take i)) || nextLate v ((v.full jobs).drop i)) = false := by
    rw [Bool.or_eq_false_iff]
    constructor
    · apply tooLate_false_of_le
      intro loc T he
      obtain ⟨hb1, hb2⟩ := closed_bounds t ht v jobs hd loc T he hdep hbase'
      unfold prevStart
      cases hl : (jobs.take i).getLast? with
      | none => simp only; omega
      | some a =>
        simp only
        apply hb2
        have : a ∈ jobs.take i := List.mem_of_getLast? hl
        unfold Veh.full
        exact List.mem_append_left _ (List.mem_of_mem_take this)
    · unfold nextLate
      cases hrest : (v.full jobs).drop i with
      | nil => rfl
      | cons nx rest' =>
        simp only
        apply tooLate_false_of_le
        intro loc T he
        obtain ⟨_, hb2⟩ := closed_bounds t ht v jobs hd loc T he hdep hbase'
        apply hb2
        have : nx ∈ (v.full jobs).drop i := by rw [hrest]; simp
        exact List.mem_of_mem_drop this
  rw [if_neg (by simp [hpre])] at hf
  split at hf
  · cases hf
  · cases hrest : (v.full jobs).drop i with
    | nil =>
      rw [hrest] at hf
      unfold evalTimeCore at hf
      simp only at hf
      split at hf
      · cases hf
      · split at hf <;> cases hf
    | cons nx rest' =>
      rw [hrest] at hf hsuf
      have ha := (feas_iff_latestArr t nx rest' _ _ _ _ hsuf).mp hsuf
      unfold evalTimeCore at hf
      simp only at hf
      rw [if_neg (by omega)] at hf
      split at hf
      · cases hf
      · split at hf
        · cases hf
        · split at hf <;> cases hf

/-! ### the leg / place / window scan only returns accepted placements -/

/-- what a reported placement must satisfy: it names a real place and window of the job and the
    model of `goal.evaluate` accepted exactly that activity at that leg -/
def Accepted (c : Ctx) (j : JobS) (f : Found) : Prop :=
  ∃ p w, j.places[f.place]? = some p ∧ w ∈ p.tws ∧ f.tw = w ∧
    evalActivity c f.index { loc := p.loc, s := w.1, e := w.2, dur := p.dur } j.dem = .ok

def GoodScan (c : Ctx) (j : JobS) (sc : Scan) : Prop := ∀ f, sc.best = some f → Accepted c j f

theorem scanWindows_good (c : Ctx) (j : JobS) (i pi : Nat) (p : JPlace) (hp : j.places[pi]? = some p)
    (ws : List (Int × Int)) (hws : ∀ w ∈ ws, w ∈ p.tws) (sc : Scan) (h : GoodScan c j sc) :
    GoodScan c j (scanWindows c j i pi p ws sc).1 := by
  induction ws generalizing sc with
  | nil => simpa [scanWindows] using h
  | cons w ws ih =>
    have hws' : ∀ w' ∈ ws, w' ∈ p.tws := fun w' hw' => hws w' (List.mem_cons_of_mem _ hw')
    simp only [scanWindows]
    cases hv : evalActivity c i { loc := p.loc, s := w.1, e := w.2, dur := p.dur } j.dem with
    | fail => simp only; intro f hf; exact h f hf
    | skip =>
      simp only
      apply ih hws'
      intro f hf; exact h f hf
    | ok =>
      simp only
      have key : ∀ sc', GoodScan c j sc' → GoodScan c j (scanWindows c j i pi p ws sc').1 :=
        fun sc' => ih hws' sc'
      have hnew : GoodScan c j (Scan.mk none (some
          (Found.mk i pi w (costVector c i { loc := p.loc, s := w.1, e := w.2, dur := p.dur })))) := by
        intro f hf
        simp only [Option.some.injEq] at hf
        subst hf
        exact ⟨p, w, hp, hws w (by simp), rfl, hv⟩
      split <;> (try split) <;> first | exact key _ hnew | exact key _ h

theorem scanPlaces_good (c : Ctx) (j : JobS) (i : Nat) (ps : List JPlace) (pi : Nat)
    (hps : ∀ k p, ps[k]? = some p → j.places[pi + k]? = some p) (sc : Scan) (h : GoodScan c j sc) :
    GoodScan c j (scanPlaces c j i ps pi sc).1 := by
  induction ps generalizing pi sc with
  | nil => simpa [scanPlaces] using h
  | cons p ps ih =>
    simp only [scanPlaces]
    have hp : j.places[pi]? = some p := by simpa using hps 0 p (by simp)
    have hw := scanWindows_good c j i pi p hp p.tws (fun w hw => hw) sc h
    cases hs : scanWindows c j i pi p p.tws sc with
    | mk sc' stop =>
      rw [hs] at hw
      cases stop with
      | true => simpa using hw
      | false =>
        simp only
        apply ih (pi + 1)
        · intro k q hk
          have := hps (k + 1) q (by simpa using hk)
          simpa [Nat.add_assoc, Nat.add_comm 1 k] using this
        · exact hw

theorem scanLegs_good (c : Ctx) (j : JobS) (is : List Nat) (sc : Scan) (h : GoodScan c j sc) :
    GoodScan c j (scanLegs c j is sc) := by
  induction is generalizing sc with
  | nil => simpa [scanLegs] using h
  | cons i is ih =>
    simp only [scanLegs]
    have hp := scanPlaces_good c j i j.places 0 (by intro k p hk; simpa using hk) sc h
    cases hs : scanPlaces c j i j.places 0 sc with
    | mk sc' stop =>
      rw [hs] at hp
      cases stop with
      | true => simpa using hp
      | false => exact ih sc' hp

/-- **whatever `eval_job_insertion_in_route` (model) returns was accepted by the constraint model at
    exactly that leg, place and window** — for `Any` and every `Concrete(p)` -/
theorem evalJob_accepted (c : Ctx) (j : JobS) (pos : Position) (f : Found)
    (h : evalJob c j pos = some f) : Accepted c j f := by
  unfold evalJob at h
  split at h
  · cases h
  · exact scanLegs_good c j _ {} (by intro f hf; cases hf) f h

theorem evalActivity_ok_time (c : Ctx) (i : Nat) (x : Act) (d : Option Dem)
    (h : evalActivity c i x d = .ok) : evalTime c.m.t c.veh c.acts i x = .ok := by
  unfold evalActivity at h
  split at h
  · cases h
  · cases h
  · assumption

theorem evalActivity_ok_cap (c : Ctx) (i : Nat) (x : Act) (d : Option Dem)
    (h : evalActivity c i x d = .ok) : capViolationAt c i d true = none := by
  unfold evalActivity at h
  split at h
  · cases h
  · cases h
  · split at h
    · cases h
    · cases h
    · assumption

/-- **C06 soundness, end to end for single-task jobs (time part)**: a success reported by the
    evaluator model, on a time-feasible tour, names a placement whose insertion the step-by-step
    simulation finds time-feasible. (Capacity: `C06Cap.cap_sound1`.) -/
theorem evalJob_sound_time (c : Ctx) (j : JobS) (pos : Position) (f : Found)
    (hi : f.index ≤ c.acts.length) (hbase : tourFeas c.m.t c.veh c.acts = true)
    (h : evalJob c j pos = some f) :
    ∃ p w, j.places[f.place]? = some p ∧ w ∈ p.tws ∧ f.tw = w ∧
      tourFeas c.m.t c.veh (insertAt c.acts f.index { loc := p.loc, s := w.1, e := w.2, dur := p.dur }) = true := by
  obtain ⟨p, w, hp, hw, hf, hok⟩ := evalJob_accepted c j pos f h
  exact ⟨p, w, hp, hw, hf, evalTime_sound c.m.t c.veh c.acts f.index _ hi hbase (evalActivity_ok_time c _ _ _ hok)⟩

/-! ## completeness of the whole scan (time part: jobs without demand)

`evalJob` walks legs × places × windows, remembers the best accepted placement and stops at a "fail and stop" verdict.
On a feasible tour that verdict is unreachable (`evalTime_never_stops`), an accepted placement is never forgotten, and
the feasible placement is accepted when its turn comes (`evalTime_complete`): so if the step-by-step simulation finds ANY
feasible (leg, place, window), `Any` succeeds. Stated for jobs without demand (capacity is then not involved; with
demand the capacity part is `C06Cap.cap_complete1` per dimension and the combination is decided by the oracle). -/

theorem evalActivity_noDem (c : Ctx) (i : Nat) (x : Act) :
    evalActivity c i x none = evalTime c.m.t c.veh c.acts i x := by
  unfold evalActivity capViolationAt
  cases evalTime c.m.t c.veh c.acts i x <;> rfl

theorem scanWindows_best_mono (c : Ctx) (j : JobS) (i pi : Nat) (p : JPlace) (ws : List (Int × Int)) (sc : Scan)
    (h : sc.best.isSome = true) : (scanWindows c j i pi p ws sc).1.best.isSome = true := by
  induction ws generalizing sc with
  | nil => simpa [scanWindows] using h
  | cons w ws ih =>
    simp only [scanWindows]
    cases evalActivity c i { loc := p.loc, s := w.1, e := w.2, dur := p.dur } j.dem with
    | fail => simpa using h
    | skip => exact ih _ (by simpa using h)
    | ok =>
      simp only
      split <;> (try split) <;> first | exact ih _ (by simp) | exact ih _ h

/-- no window of the list is answered with "fail": the scan of the place does not stop -/
theorem scanWindows_no_stop (c : Ctx) (j : JobS) (i pi : Nat) (p : JPlace) (ws : List (Int × Int)) (sc : Scan)
    (hnf : ∀ w ∈ ws, evalActivity c i { loc := p.loc, s := w.1, e := w.2, dur := p.dur } j.dem ≠ .fail) :
    (scanWindows c j i pi p ws sc).2 = false := by
  induction ws generalizing sc with
  | nil => rfl
  | cons w ws ih =>
    have hw := hnf w (by simp)
    have hrest : ∀ w' ∈ ws, evalActivity c i { loc := p.loc, s := w'.1, e := w'.2, dur := p.dur } j.dem ≠ .fail :=
      fun w' hw' => hnf w' (List.mem_cons_of_mem _ hw')
    simp only [scanWindows]
    cases hv : evalActivity c i { loc := p.loc, s := w.1, e := w.2, dur := p.dur } j.dem with
    | fail => exact absurd hv hw
    | skip => exact ih _ hrest
    | ok =>
      simp only
      split <;> (try split) <;> exact ih _ hrest

theorem scanWindows_finds (c : Ctx) (j : JobS) (i pi : Nat) (p : JPlace) (ws : List (Int × Int)) (sc : Scan)
    (hnf : ∀ w ∈ ws, evalActivity c i { loc := p.loc, s := w.1, e := w.2, dur := p.dur } j.dem ≠ .fail)
    (w : Int × Int) (hw : w ∈ ws)
    (hok : evalActivity c i { loc := p.loc, s := w.1, e := w.2, dur := p.dur } j.dem = .ok) :
    (scanWindows c j i pi p ws sc).1.best.isSome = true := by
  induction ws generalizing sc with
  | nil => simp at hw
  | cons w0 ws ih =>
    have hw0 := hnf w0 (by simp)
    have hrest : ∀ w' ∈ ws, evalActivity c i { loc := p.loc, s := w'.1, e := w'.2, dur := p.dur } j.dem ≠ .fail :=
      fun w' hw' => hnf w' (List.mem_cons_of_mem _ hw')
    simp only [scanWindows]
    cases hv : evalActivity c i { loc := p.loc, s := w0.1, e := w0.2, dur := p.dur } j.dem with
    | fail => exact absurd hv hw0
    | skip =>
      rcases List.mem_cons.mp hw with rfl | hw'
      · rw [hok] at hv; cases hv
      · exact ih _ hrest hw'
    | ok =>
      simp only
      -- either the new placement becomes the best, or there already is a best: in both cases a best exists from now on
      cases hbest : sc.best with
      | none => simp only [if_true]; exact scanWindows_best_mono c j i pi p ws _ (by simp)
      | some b =>
        simp only
        split
        · exact scanWindows_best_mono c j i pi p ws _ (by simp)
        · exact scanWindows_best_mono c j i pi p ws sc (by simp [hbest])

theorem scanPlaces_best_mono (c : Ctx) (j : JobS) (i : Nat) (ps : List JPlace) (pi : Nat) (sc : Scan)
    (h : sc.best.isSome = true) : (scanPlaces c j i ps pi sc).1.best.isSome = true := by
  induction ps generalizing pi sc with
  | nil => simpa [scanPlaces] using h
  | cons p ps ih =>
    simp only [scanPlaces]
    have hw := scanWindows_best_mono c j i pi p p.tws sc h
    cases hs : scanWindows c j i pi p p.tws sc with
    | mk sc' stop =>
      rw [hs] at hw
      cases stop with
      | true => simpa using hw
      | false => exact ih (pi + 1) sc' hw

def NoFailAt (c : Ctx) (j : JobS) (i : Nat) : Prop :=
  ∀ p ∈ j.places, ∀ w ∈ p.tws, evalActivity c i { loc := p.loc, s := w.1, e := w.2, dur := p.dur } j.dem ≠ .fail

theorem scanPlaces_no_stop (c : Ctx) (j : JobS) (i : Nat) (ps : List JPlace) (pi : Nat) (sc : Scan)
    (hnf : ∀ p ∈ ps, ∀ w ∈ p.tws, evalActivity c i { loc := p.loc, s := w.1, e := w.2, dur := p.dur } j.dem ≠ .fail) :
    (scanPlaces c j i ps pi sc).2 = false := by
  induction ps generalizing pi sc with
  | nil => rfl
  | cons p ps ih =>
    simp only [scanPlaces]
    have hns := scanWindows_no_stop c j i pi p p.tws sc (hnf p (by simp))
    cases hs : scanWindows c j i pi p p.tws sc with
    | mk sc' stop =>
      rw [hs] at hns
      simp only at hns
      subst hns
      exact ih (pi + 1) sc' (fun q hq => hnf q (List.mem_cons_of_mem _ hq))

theorem scanPlaces_finds (c : Ctx) (j : JobS) (i : Nat) (ps : List JPlace) (pi : Nat) (sc : Scan)
    (hnf : ∀ p ∈ ps, ∀ w ∈ p.tws, evalActivity c i { loc := p.loc, s := w.1, e := w.2, dur := p.dur } j.dem ≠ .fail)
    (p : JPlace) (hp : p ∈ ps) (w : Int × Int) (hw : w ∈ p.tws)
    (hok : evalActivity c i { loc := p.loc, s := w.1, e := w.2, dur := p.dur } j.dem = .ok) :
    (scanPlaces c j i ps pi sc).1.best.isSome = true := by
  induction ps generalizing pi sc with
  | nil => simp at hp
  | cons q ps ih =>
    simp only [scanPlaces]
    have hns := scanWindows_no_stop c j i pi q q.tws sc (hnf q (by simp))
    cases hs : scanWindows c j i pi q q.tws sc with
    | mk sc' stop =>
      rw [hs] at hns
      simp only at hns
      subst hns
      simp only
      rcases List.mem_cons.mp hp with rfl | hp'
      · have := scanWindows_finds c j i pi p p.tws sc (hnf p (by simp)) w hw hok
        rw [hs] at this
        exact scanPlaces_best_mono c j i ps (pi + 1) sc' this
      · exact ih (pi + 1) sc' (fun r hr => hnf r (List.mem_cons_of_mem _ hr)) hp'

theorem scanLegs_best_mono (c : Ctx) (j : JobS) (is : List Nat) (sc : Scan) (h : sc.best.isSome = true) :
    (scanLegs c j is sc).best.isSome = true := by
  induction is generalizing sc with
  | nil => simpa [scanLegs] using h
  | cons i is ih =>
    simp only [scanLegs]
    have hp := scanPlaces_best_mono c j i j.places 0 sc h
    cases hs : scanPlaces c j i j.places 0 sc with
    | mk sc' stop =>
      rw [hs] at hp
      cases stop with
      | true => simpa using hp
      | false => exact ih sc' hp

theorem scanLegs_finds (c : Ctx) (j : JobS) (is : List Nat) (sc : Scan)
    (hnf : ∀ i ∈ is, NoFailAt c j i)
    (i : Nat) (hi : i ∈ is) (p : JPlace) (hp : p ∈ j.places) (w : Int × Int) (hw : w ∈ p.tws)
    (hok : evalActivity c i { loc := p.loc, s := w.1, e := w.2, dur := p.dur } j.dem = .ok) :
    (scanLegs c j is sc).best.isSome = true := by
  induction is generalizing sc with
  | nil => simp at hi
  | cons i0 is ih =>
    simp only [scanLegs]
    have hns := scanPlaces_no_stop c j i0 j.places 0 sc (hnf i0 (by simp))
    cases hs : scanPlaces c j i0 j.places 0 sc with
    | mk sc' stop =>
      rw [hs] at hns
      simp only at hns
      subst hns
      simp only
      rcases List.mem_cons.mp hi with rfl | hi'
      · have := scanPlaces_finds c j i j.places 0 sc (hnf i (by simp)) p hp w hw hok
        rw [hs] at this
        exact scanLegs_best_mono c j is sc' this
      · exact ih sc' (fun k hk => hnf k (List.mem_cons_of_mem _ hk)) hi'

/-- **C06 completeness of `Any` (time part)**: for a job without demand on a feasible tour with non-negative travel
    times and service durations: if the route-level test lets the job through and the step-by-step simulation finds the
    tour with the job inserted at SOME leg, place and window feasible, then `eval_job_insertion_in_route(Any)` (model)
    succeeds. -/
theorem evalJob_any_complete_time (c : Ctx) (j : JobS) (hdem : j.dem = none)
    (ht : ∀ a b, 0 ≤ c.m.t a b) (hd : ∀ a ∈ c.acts, 0 ≤ a.dur)
    (hdep : 0 ≤ c.veh.dep) (hearly : c.veh.earliest ≤ c.veh.dep)
    (hbase : tourFeas c.m.t c.veh c.acts = true)
    (hroute : evalRoute c j = true)
    (i : Nat) (hi : i ≤ c.acts.length) (p : JPlace) (hp : p ∈ j.places) (w : Int × Int) (hw : w ∈ p.tws)
    (hpd : 0 ≤ p.dur) (hww : w.1 ≤ w.2)
    (hfeas : tourFeas c.m.t c.veh (insertAt c.acts i { loc := p.loc, s := w.1, e := w.2, dur := p.dur }) = true) :
    (evalJob c j .any).isSome = true := by
  unfold evalJob
  simp only [hroute, Bool.not_true, Bool.false_eq_true, if_false]
  have hlen : c.acts.length = c.tour.length := by simp [Ctx.acts]
  have hlegs : legCount c = c.tour.length + 1 := by unfold legCount; split <;> rfl
  apply scanLegs_finds c j (List.range (legCount c)) {} ?_ i ?_ p hp w hw ?_
  · -- "fail and stop" is unreachable at every leg of the tour
    intro k hk p' _ w' _
    rw [hdem, evalActivity_noDem]
    have hk' : k ≤ c.acts.length := by
      have := List.mem_range.mp hk
      omega
    exact evalTime_never_stops c.m.t ht c.veh c.acts k _ hk' hd hdep hearly hbase
  · apply List.mem_range.mpr; omega
  · rw [hdem, evalActivity_noDem]
    exact evalTime_complete c.m.t ht c.veh c.acts i _ hi hd hpd hww hdep hearly hbase hfeas

/-- the clock never runs backwards (non-negative travel times and service durations) -/
theorem after_snd_ge (t : Nat → Nat → Int) (ht : ∀ a b, 0 ≤ t a b) (xs : List Act) (hd : ∀ a ∈ xs, 0 ≤ a.dur)
    (l : Nat) (dep : Int) : dep ≤ (after t xs l dep).2 := by
  induction xs generalizing l dep with
  | nil => simp [after]
  | cons a r ih =>
    simp only [after]
    have h1 := ih (fun b hb => hd b (List.mem_cons_of_mem _ hb)) a.loc (depOf a (dep + t l a.loc))
    have h2 : dep ≤ depOf a (dep + t l a.loc) := by
      unfold depOf
      have := ht l a.loc
      have := hd a (by simp)
      omega
    omega

/-- the route-level test lets through every job without demand that has a feasible placement -/
theorem evalRoute_of_feasible_time (c : Ctx) (j : JobS) (hdem : j.dem = none)
    (ht : ∀ a b, 0 ≤ c.m.t a b) (hd : ∀ a ∈ c.acts, 0 ≤ a.dur)
    (hearly : c.veh.earliest ≤ c.veh.dep)
    (i : Nat) (p : JPlace) (hp : p ∈ j.places) (w : Int × Int) (hw : w ∈ p.tws)
    (hok : evalTime c.m.t c.veh c.acts i { loc := p.loc, s := w.1, e := w.2, dur := p.dur } = .ok) :
    evalRoute c j = true := by
  obtain ⟨_, hlate, hcore⟩ := (evalTime_ok_iff c.m.t c.veh c.acts i _).mp hok
  have hge := after_snd_ge c.m.t ht (c.acts.take i) (fun a ha => hd a (List.mem_of_mem_take ha)) c.veh.startLoc c.veh.dep
  have htp := ht (after c.m.t (c.acts.take i) c.veh.startLoc c.veh.dep).1 p.loc
  -- the arrival at the target is within its window
  have harr : (after c.m.t (c.acts.take i) c.veh.startLoc c.veh.dep).2 +
      c.m.t (after c.m.t (c.acts.take i) c.veh.startLoc c.veh.dep).1 p.loc ≤ w.2 := by
    unfold evalTimeCore at hcore
    split at hcore
    · simp only at hcore
      split at hcore
      · cases hcore
      · omega
    · simp only at hcore
      split at hcore
      · cases hcore
      · split at hcore
        · cases hcore
        · split at hcore
          · cases hcore
          · rename_i h3
            omega
  unfold evalRoute
  simp only [hdem, Bool.and_eq_true]
  constructor
  · apply List.any_eq_true.mpr
    refine ⟨p, hp, List.any_eq_true.mpr ⟨w, hw, ?_⟩⟩
    simp only [Bool.and_eq_true, decide_eq_true_eq]
    constructor
    · unfold tooLate at hlate
      cases he : c.veh.endAt with
      | none => simp
      | some q =>
        simp only [he] at hlate ⊢
        simpa using hlate
    · omega
  · unfold capViolationAt
    simp

/-- **C06 completeness of `Any` (time part), without any model-internal hypothesis** -/
theorem evalJob_any_complete_time' (c : Ctx) (j : JobS) (hdem : j.dem = none)
    (ht : ∀ a b, 0 ≤ c.m.t a b) (hd : ∀ a ∈ c.acts, 0 ≤ a.dur)
    (hdep : 0 ≤ c.veh.dep) (hearly : c.veh.earliest ≤ c.veh.dep)
    (hbase : tourFeas c.m.t c.veh c.acts = true)
    (i : Nat) (hi : i ≤ c.acts.length) (p : JPlace) (hp : p ∈ j.places) (w : Int × Int) (hw : w ∈ p.tws)
    (hpd : 0 ≤ p.dur) (hww : w.1 ≤ w.2)
    (hfeas : tourFeas c.m.t c.veh (insertAt c.acts i { loc := p.loc, s := w.1, e := w.2, dur := p.dur }) = true) :
    (evalJob c j .any).isSome = true :=
  evalJob_any_complete_time c j hdem ht hd hdep hearly hbase
    (evalRoute_of_feasible_time c j hdem ht hd hearly i p hp w hw
      (evalTime_complete c.m.t ht c.veh c.acts i _ hi hd hpd hww hdep hearly hbase hfeas))
    i hi p hp w hw hpd hww hfeas

/-! ### non-vacuity: a tour with waiting and a tight window, closed and open -/

def exT : Nat → Nat → Int := fun a b => if a = b then 0 else 5
def exV : Veh := { startLoc := 0, earliest := 0, dep := 0, endAt := some (0, 40) }
def exJobs : List Act := [{ loc := 1, s := 10, e := 20, dur := 2 }, { loc := 2, s := 0, e := 17, dur := 1 }]
-- base tour feasible (waits at the first job, reaches the second exactly at its window end)
example : tourFeas exT exV exJobs = true := by decide
-- inserting at the end is accepted and feasible; inserting in the middle is rejected and infeasible
example : evalTime exT exV exJobs 2 { loc := 1, s := 0, e := 30, dur := 3 } = .ok ∧
    tourFeas exT exV (insertAt exJobs 2 { loc := 1, s := 0, e := 30, dur := 3 }) = true := by decide
example : evalTime exT exV exJobs 1 { loc := 1, s := 0, e := 30, dur := 3 } = .skip ∧
    tourFeas exT exV (insertAt exJobs 1 { loc := 1, s := 0, e := 30, dur := 3 }) = false := by decide
example : evalTime exT { exV with endAt := none } exJobs 2 { loc := 1, s := 0, e := 22, dur := 3 } = .skip := by
  decide

end C06
