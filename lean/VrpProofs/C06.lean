import VrpModel.C06
/-!
# C06 — insertion evaluation agrees with brute-force simulation (time-window part and scan)

`Route.feas` / `Route.tourFeas` is the SPEC (step-by-step simulation); `C06.evalTime` is the MODEL of
`TransportConstraint::evaluate_activity`, which decides in O(1) from the cached latest arrival
(`Route.latestArr`, the model of `update_states`). Everything is for tours of any length.
-/
set_option linter.unusedSimpArgs false
set_option linter.unnecessarySimpa false

namespace C06
open Route

variable (t : Nat → Nat → Int)

/-! ### equation lemmas -/

theorem feas_nil (l : Nat) (dep : Int) : feas t [] l dep = true := by rw [feas]
theorem feas_cons (a : Act) (r : List Act) (l : Nat) (dep : Int) :
    feas t (a :: r) l dep = (decide (dep + t l a.loc ≤ a.e) && feas t r a.loc (depOf a (dep + t l a.loc))) := by
  rw [feas]
theorem after_nil (l : Nat) (dep : Int) : after t [] l dep = (l, dep) := by rw [after]
theorem after_cons (a : Act) (r : List Act) (l : Nat) (dep : Int) :
    after t (a :: r) l dep = after t r a.loc (depOf a (dep + t l a.loc)) := by rw [after]
theorem latestArr_one (a : Act) : latestArr t [a] = a.e := by rw [latestArr]
theorem latestArr_cc (a b : Act) (r : List Act) :
    latestArr t (a :: b :: r) = min a.e (latestArr t (b :: r) - t a.loc b.loc - a.dur) := by rw [latestArr]

theorem feas_append (xs ys : List Act) (l : Nat) (dep : Int) :
    feas t (xs ++ ys) l dep =
      (feas t xs l dep && feas t ys (after t xs l dep).1 (after t xs l dep).2) := by
  induction xs generalizing l dep with
  | nil => simp [feas_nil, after_nil]
  | cons a xs ih => simp [feas_cons, after_cons, ih, Bool.and_assoc]

/-! ### the cached latest arrival is exact on a feasible tour -/

/-- **If the suffix is feasible for its current departure `dep0`, then it is feasible for another
    departure `dep` iff the arrival at its head is not later than the cached latest arrival.**
    (No triangle inequality, no sign condition on durations.) -/
theorem feas_iff_latestArr (a : Act) (r : List Act) (l : Nat) (dep dep0 : Int)
    (h0 : feas t (a :: r) l dep0 = true) :
    feas t (a :: r) l dep = true ↔ dep + t l a.loc ≤ latestArr t (a :: r) := by
  induction r generalizing a l dep dep0 with
  | nil =>
    simp [feas_cons, feas_nil, latestArr_one]
  | cons b r ih =>
    rw [feas_cons, Bool.and_eq_true, decide_eq_true_eq] at h0 ⊢
    rw [latestArr_cc]
    have ih' := ih b a.loc (depOf a (dep + t l a.loc)) (depOf a (dep0 + t l a.loc)) h0.2
    have ih0 := ih b a.loc (depOf a (dep0 + t l a.loc)) (depOf a (dep0 + t l a.loc)) h0.2
    rw [ih']
    have h00 := ih0.mp h0.2
    unfold depOf at *
    omega

/-- feasibility is monotone: leaving earlier never hurts (needed to move between departures) -/
theorem feas_mono (acts : List Act) (l : Nat) (dep dep' : Int) (hle : dep' ≤ dep)
    (h : feas t acts l dep = true) : feas t acts l dep' = true := by
  induction acts generalizing l dep dep' with
  | nil => simp [feas_nil]
  | cons a r ih =>
    rw [feas_cons, Bool.and_eq_true, decide_eq_true_eq] at h ⊢
    refine ⟨by omega, ih a.loc _ _ ?_ h.2⟩
    unfold depOf; omega

/-! ### `evaluate_activity` -/

/-- what the evaluator accepts, spelled out (the `.ok` branch of `evalTime`) -/
theorem evalTime_ok_next {v : Veh} {jobs : List Act} {i : Nat} {x nx : Act} {rest' : List Act}
    (hrest : (v.full jobs).drop i = nx :: rest')
    (h : evalTime t v jobs i x = .ok) :
    let p := after t (jobs.take i) v.startLoc v.dep
    let L := latestArr t (nx :: rest')
    p.2 + t p.1 x.loc ≤ x.e ∧ depOf x (p.2 + t p.1 x.loc) + t x.loc nx.loc ≤ L := by
  unfold evalTime at h
  simp only [hrest] at h
  split at h
  · cases h
  · split at h
    · cases h
    · split at h
      · cases h
      · split at h
        · cases h
        · split at h
          · cases h
          · split at h
            · cases h
            · rename_i h1 h2 h3 h4 h5 h6
              constructor <;> omega

theorem evalTime_ok_open {v : Veh} {jobs : List Act} {i : Nat} {x : Act}
    (hrest : (v.full jobs).drop i = [])
    (h : evalTime t v jobs i x = .ok) :
    let p := after t (jobs.take i) v.startLoc v.dep
    p.2 + t p.1 x.loc ≤ x.e := by
  unfold evalTime at h
  simp only [hrest] at h
  split at h
  · cases h
  · split at h
    · cases h
    · split at h
      · cases h
      · split at h
        · cases h
        · rename_i h1 h2 h3 h4
          omega

/-- splitting the tour at the insertion point -/
theorem full_insertAt (v : Veh) (jobs : List Act) (i : Nat) (x : Act) (hi : i ≤ jobs.length) :
    v.full (insertAt jobs i x) = jobs.take i ++ x :: (v.full jobs).drop i := by
  unfold Veh.full insertAt
  rw [List.drop_append_of_le_length hi]
  simp [List.append_assoc]

theorem full_split (v : Veh) (jobs : List Act) (i : Nat) (hi : i ≤ jobs.length) :
    v.full jobs = jobs.take i ++ (v.full jobs).drop i := by
  unfold Veh.full
  rw [List.drop_append_of_le_length hi, ← List.append_assoc, List.take_append_drop]

/-- **C06 soundness (time)**: on a feasible tour, whatever position the evaluator accepts gives a tour
    that the step-by-step simulation finds feasible — closed and open tours, any length, waiting and
    tight windows included. -/
theorem evalTime_sound (v : Veh) (jobs : List Act) (i : Nat) (x : Act) (hi : i ≤ jobs.length)
    (hbase : tourFeas t v jobs = true) (h : evalTime t v jobs i x = .ok) :
    tourFeas t v (insertAt jobs i x) = true := by
  unfold tourFeas at *
  rw [full_insertAt v jobs i x hi, feas_append]
  rw [full_split v jobs i hi, feas_append, Bool.and_eq_true] at hbase
  obtain ⟨hpre, hsuf⟩ := hbase
  rw [Bool.and_eq_true]
  refine ⟨hpre, ?_⟩
  cases hrest : (v.full jobs).drop i with
  | nil =>
    have := evalTime_ok_open t hrest h
    simp only [feas_cons, feas_nil, Bool.and_true, decide_eq_true_eq]
    exact this
  | cons nx rest' =>
    have := evalTime_ok_next t hrest h
    rw [hrest] at hsuf
    rw [feas_cons, Bool.and_eq_true, decide_eq_true_eq]
    refine ⟨this.1, ?_⟩
    exact (feas_iff_latestArr t nx rest' x.loc _ _ hsuf).mpr this.2

/-! ### completeness of the time test -/

/-- with non-negative travel times and durations, a feasible sequence cannot start after the end of
    the window of its last activity -/
theorem feas_dep_le_last (ht : ∀ a b, 0 ≤ t a b) (acts : List Act) (hd : ∀ a ∈ acts, 0 ≤ a.dur)
    (l : Nat) (dep : Int) (z : Act) (hz : acts.getLast? = some z)
    (h : feas t acts l dep = true) : dep ≤ z.e := by
  induction acts generalizing l dep with
  | nil => simp at hz
  | cons a r ih =>
    rw [feas_cons, Bool.and_eq_true, decide_eq_true_eq] at h
    have hta := ht l a.loc
    cases r with
    | nil =>
      simp at hz; subst hz; omega
    | cons b r' =>
      have hz' : (b :: r').getLast? = some z := by simpa [List.getLast?_cons_cons] using hz
      have := ih (fun a ha => hd a (List.mem_cons_of_mem _ ha)) a.loc _ hz' h.2
      have hda := hd a (by simp)
      unfold depOf at this
      omega

/-- the start of the window of any activity of a feasible sequence is not after the end of the last
    window (the shift end for a closed tour) -/
theorem feas_start_le_last (ht : ∀ a b, 0 ≤ t a b) (acts : List Act) (hd : ∀ a ∈ acts, 0 ≤ a.dur)
    (l : Nat) (dep : Int) (z : Act) (hz : acts.getLast? = some z)
    (h : feas t acts l dep = true) : ∀ a ∈ acts, a.s ≤ z.e ∨ a = z := by
  induction acts generalizing l dep with
  | nil => simp at hz
  | cons a r ih =>
    rw [feas_cons, Bool.and_eq_true, decide_eq_true_eq] at h
    intro c hc
    cases r with
    | nil =>
      simp at hz; subst hz
      simp at hc; right; exact hc
    | cons b r' =>
      have hz' : (b :: r').getLast? = some z := by simpa [List.getLast?_cons_cons] using hz
      rcases List.mem_cons.mp hc with rfl | hc'
      · left
        have := feas_dep_le_last t ht (b :: r') (fun a ha => hd a (List.mem_cons_of_mem _ ha)) c.loc _ z hz' h.2
        have hdc := hd c (by simp)
        unfold depOf at this
        omega
      · exact ih (fun a ha => hd a (List.mem_cons_of_mem _ ha)) a.loc _ hz' h.2 c hc'

end C06
