import VrpModel.C06
/-!
# C06 — capacity half: the O(1) test on cached maxima is sound (one capacity dimension)

SPEC: the step-by-step load profile of one interval (`loads1`: load at departure = all static
deliveries, then `+ change` after every activity) stays within capacity.
MODEL: `has_demand_violation` on the caches `current / max_past / max_future` of
`recalculate_states` (`viol1` on `runMax1` / `maxFuture1`), in its repaired form (`change + sd`, /repo
commit "capacity check does not let a static delivery compensate a dynamic pickup").

The executable model `C06.hasDemandViolation` works on vectors; `hasDemandViolation_dim1` shows that for
one dimension it is exactly `viol1`. For more dimensions the operations are component-wise and the
property is the conjunction over dimensions — that lifting is proved in `VrpProofs/C06CapVec.lean`
(`cap_sound_vec`).
-/
set_option linter.unusedSimpArgs false
set_option linter.unnecessarySimpa false

namespace C06Cap
open Route

structure Dem1 where
  sp : Int
  dp : Int
  sd : Int
  dd : Int
deriving Repr

def Dem1.change (d : Dem1) : Int := d.sp + d.dp - d.sd - d.dd

def total (ds : List Dem1) : Int := (ds.map Dem1.change).sum
def startLoad1 (ds : List Dem1) : Int := (ds.map (·.sd)).sum

/-- loads after each activity, starting from load `s` -/
def after1 (s : Int) : List Dem1 → List Int
  | [] => []
  | d :: ds => (s + d.change) :: after1 (s + d.change) ds

/-- SPEC: load at departure, then after every activity -/
def loads1 (ds : List Dem1) : List Int := startLoad1 ds :: after1 (startLoad1 ds) ds
def capOk1 (cap : Int) (ds : List Dem1) : Prop := ∀ l ∈ loads1 ds, l ≤ cap

/-- `max_past`: running maximum from the left, the fold starts from `m` (the zero load in the code) -/
def runMax1 (m : Int) : List Int → List Int
  | [] => []
  | l :: rest => max m l :: runMax1 (max m l) rest

/-- `max_future`: running maximum from the right -/
def maxFuture1 : List Int → List Int
  | [] => []
  | [l] => [l]
  | l :: b :: rest =>
    match maxFuture1 (b :: rest) with
    | [] => [l]
    | m :: tail => max l m :: m :: tail

/-- MODEL of `has_demand_violation` for one dimension (true = some violation) -/
def viol1 (cap past future cur : Int) (x : Dem1) : Bool :=
  (x.sd != 0 && decide (cap < past + x.sd)) ||
  (x.sp != 0 && decide (cap < future + x.sp)) ||
  (x.change + x.sd != 0 && (decide (cap < future + (x.change + x.sd)) || decide (cap < cur + (x.change + x.sd))))

/-! ### the caches dominate what they summarise -/

theorem runMax1_length (m : Int) (ls : List Int) : (runMax1 m ls).length = ls.length := by
  induction ls generalizing m with
  | nil => rfl
  | cons l r ih => simp [runMax1, ih]

theorem runMax1_ge (m : Int) (ls : List Int) (i : Nat) (hi : i < ls.length) :
    ∀ l ∈ ls.take (i + 1), l ≤ (runMax1 m ls).getD i 0 := by
  induction ls generalizing m i with
  | nil => simp at hi
  | cons a r ih =>
    intro l hl
    cases i with
    | zero =>
      simp at hl; subst hl
      simp [runMax1]; omega
    | succ i =>
      have hi' : i < r.length := by simpa using hi
      simp only [List.take_succ_cons, List.mem_cons] at hl
      simp only [runMax1, List.getD_cons_succ]
      rcases hl with rfl | hl
      · -- the head is below every later running maximum
        have : ∀ (m : Int) (ls : List Int) (i : Nat), i < ls.length → m ≤ (runMax1 m ls).getD i 0 := by
          intro m ls
          induction ls generalizing m with
          | nil => intro i h; simp at h
          | cons b q ihq =>
            intro i h
            cases i with
            | zero => simp [runMax1]; omega
            | succ i =>
              simp only [runMax1, List.getD_cons_succ]
              have := ihq (max m b) i (by simpa using h)
              omega
        have := this (max m l) r i hi'
        omega
      · exact ih (max m a) i hi' l hl

theorem maxFuture1_length (ls : List Int) : (maxFuture1 ls).length = ls.length := by
  induction ls with
  | nil => rfl
  | cons a r ih =>
    cases r with
    | nil => rfl
    | cons b q =>
      simp only [maxFuture1]
      cases h : maxFuture1 (b :: q) with
      | nil => rw [h] at ih; simp at ih
      | cons m tail => rw [h] at ih; simp at ih ⊢; omega

theorem maxFuture1_ge (ls : List Int) (i : Nat) (hi : i < ls.length) :
    ∀ l ∈ ls.drop i, l ≤ (maxFuture1 ls).getD i 0 := by
  induction ls generalizing i with
  | nil => simp at hi
  | cons a r ih =>
    cases r with
    | nil =>
      intro l hl
      have : i = 0 := by simp at hi; omega
      subst this
      simp at hl; subst hl; simp [maxFuture1]
    | cons b q =>
      have hlen := maxFuture1_length (b :: q)
      cases h : maxFuture1 (b :: q) with
      | nil => rw [h] at hlen; simp at hlen
      | cons m tail =>
        intro l hl
        simp only [maxFuture1, h]
        cases i with
        | zero =>
          simp only [List.drop_zero, List.mem_cons] at hl
          simp only [List.getD_cons_zero]
          rcases hl with rfl | hl
          · omega
          · have := ih 0 (by simp) l (by simpa using hl)
            rw [h] at this
            simp at this
            omega
        | succ i =>
          simp only [List.drop_succ_cons] at hl
          simp only [List.getD_cons_succ]
          have := ih i (by simpa using hi) l hl
          rw [h] at this
          exact this

/-! ### load profile algebra -/

def insertAt1 (ds : List Dem1) (p : Nat) (x : Dem1) : List Dem1 := ds.take p ++ x :: ds.drop p

theorem after1_append (s : Int) (a b : List Dem1) :
    after1 s (a ++ b) = after1 s a ++ after1 (s + total a) b := by
  induction a generalizing s with
  | nil => simp [after1, total]
  | cons d a ih =>
    have e : s + total (d :: a) = s + d.change + total a := by
      simp only [total, List.map_cons, List.sum_cons]; omega
    rw [e]
    simp only [List.cons_append, after1, ih]

theorem after1_shift (s c : Int) (ds : List Dem1) : after1 (s + c) ds = (after1 s ds).map (· + c) := by
  induction ds generalizing s with
  | nil => simp [after1]
  | cons d ds ih =>
    simp only [after1, List.map_cons]
    have : s + c + d.change = s + d.change + c := by omega
    rw [this, ih]

theorem after1_length (s : Int) (ds : List Dem1) : (after1 s ds).length = ds.length := by
  induction ds generalizing s with
  | nil => rfl
  | cons d ds ih => simp [after1, ih]

theorem cur_mem (s : Int) (a : List Dem1) : s + total a ∈ s :: after1 s a := by
  induction a generalizing s with
  | nil => simp [total]
  | cons d a ih =>
    have := ih (s + d.change)
    simp only [after1, total, List.map_cons, List.sum_cons, List.mem_cons] at this ⊢
    right
    have e : s + (d.change + (a.map Dem1.change).sum) = s + d.change + total a := by simp [total]; omega
    rw [e]
    exact this

theorem startLoad1_insert (ds : List Dem1) (p : Nat) (x : Dem1) :
    startLoad1 (insertAt1 ds p x) = startLoad1 ds + x.sd := by
  unfold startLoad1 insertAt1
  have h : ds = ds.take p ++ ds.drop p := (List.take_append_drop p ds).symm
  conv => rhs; rw [h]
  simp only [List.map_append, List.sum_append, List.map_cons, List.sum_cons]
  omega

/-- the profile split at the pivot: loads up to the pivot / load at the pivot / loads after it -/
theorem loads1_split (ds : List Dem1) (p : Nat) :
    loads1 ds = (startLoad1 ds :: after1 (startLoad1 ds) (ds.take p))
      ++ after1 (startLoad1 ds + total (ds.take p)) (ds.drop p) := by
  unfold loads1
  conv => lhs; rw [(List.take_append_drop p ds).symm]
  rw [after1_append]; simp

theorem drop_len_after1 (s : Int) (a : List Dem1) : (s :: after1 s a).drop a.length = [s + total a] := by
  induction a generalizing s with
  | nil => simp [after1, total]
  | cons d a ih =>
    have := ih (s + d.change)
    simp only [after1, List.length_cons, List.drop_succ_cons]
    rw [this]
    simp [total]; omega

/-- the `∀`-form of "no violation": what the cached maxima stand for -/
def noViolation (cap : Int) (ds : List Dem1) (p : Nat) (x : Dem1) : Prop :=
  let S := startLoad1 ds
  let cur := S + total (ds.take p)
  let past := S :: after1 S (ds.take p)
  let future := cur :: after1 cur (ds.drop p)
  (x.sd ≠ 0 → ∀ l ∈ past, l + x.sd ≤ cap) ∧
  (x.sp ≠ 0 → ∀ l ∈ future, l + x.sp ≤ cap) ∧
  (x.change + x.sd ≠ 0 → (∀ l ∈ future, l + (x.change + x.sd) ≤ cap) ∧ cur + (x.change + x.sd) ≤ cap)

/-- **the accepted insertion keeps every load within capacity** — for every demand shape (static and
    dynamic parts mixed), every tour length and every position -/
theorem cap_sound_forall (cap : Int) (ds : List Dem1) (p : Nat) (x : Dem1)
    (hok : capOk1 cap ds) (hnv : noViolation cap ds p x) :
    capOk1 cap (insertAt1 ds p x) := by
  obtain ⟨h1, h2, h3⟩ := hnv
  have hold := loads1_split ds p
  have hpast : ∀ l ∈ startLoad1 ds :: after1 (startLoad1 ds) (ds.take p), l ≤ cap := by
    intro l hl; apply hok; rw [hold]; exact List.mem_append_left _ hl
  have hfut : ∀ l ∈ (startLoad1 ds + total (ds.take p)) ::
      after1 (startLoad1 ds + total (ds.take p)) (ds.drop p), l ≤ cap := by
    intro l hl
    apply hok; rw [hold]
    rcases List.mem_cons.mp hl with rfl | hl
    · exact List.mem_append_left _ (cur_mem _ _)
    · exact List.mem_append_right _ hl
  -- gain seen by every load from the new activity on: sp + dp - dd = change + sd
  have hg : ∀ l ∈ (startLoad1 ds + total (ds.take p)) ::
      after1 (startLoad1 ds + total (ds.take p)) (ds.drop p), l + (x.change + x.sd) ≤ cap := by
    intro l hl
    have hl0 := hfut l hl
    by_cases hc : x.change + x.sd = 0
    · omega
    · exact (h3 hc).1 l hl
  intro l hl
  unfold loads1 at hl
  rw [startLoad1_insert] at hl
  unfold insertAt1 at hl
  rw [after1_append] at hl
  simp only [after1, List.mem_cons, List.mem_append] at hl
  rcases hl with rfl | hl | rfl | hl
  · by_cases hs : x.sd = 0
    · have := hpast (startLoad1 ds) (by simp); omega
    · exact h1 hs _ (by simp)
  · rw [after1_shift] at hl
    obtain ⟨l0, hl0, rfl⟩ := List.mem_map.mp hl
    by_cases hs : x.sd = 0
    · have := hpast l0 (by simp [hl0]); omega
    · exact h1 hs l0 (by simp [hl0])
  · have := hg (startLoad1 ds + total (ds.take p)) (by simp)
    unfold Dem1.change at this ⊢; omega
  · have e : startLoad1 ds + x.sd + total (ds.take p) + x.change
        = (startLoad1 ds + total (ds.take p)) + (x.change + x.sd) := by omega
    rw [e, after1_shift] at hl
    obtain ⟨l0, hl0, rfl⟩ := List.mem_map.mp hl
    exact hg l0 (by simp [hl0])

/-- **C06 soundness (capacity, one dimension)**: if the model of `has_demand_violation`, fed with
    the cached `max_past / max_future / current` at the pivot, reports no violation, then the load
    profile of the tour with the job inserted stays within capacity. -/
theorem cap_sound1 (cap : Int) (ds : List Dem1) (p : Nat) (x : Dem1) (hp : p ≤ ds.length)
    (hok : capOk1 cap ds)
    (hnv : viol1 cap ((runMax1 0 (loads1 ds)).getD p 0) ((maxFuture1 (loads1 ds)).getD p 0)
            ((loads1 ds).getD p 0) x = false) :
    capOk1 cap (insertAt1 ds p x) := by
  apply cap_sound_forall cap ds p x hok
  have hlen : (loads1 ds).length = ds.length + 1 := by simp [loads1, after1_length]
  have hp' : p < (loads1 ds).length := by omega
  have hpastC := runMax1_ge 0 (loads1 ds) p hp'
  have hfutC := maxFuture1_ge (loads1 ds) p hp'
  -- identify the summarised segments
  have htake : (loads1 ds).take (p + 1) = startLoad1 ds :: after1 (startLoad1 ds) (ds.take p) := by
    rw [loads1_split ds p]
    have : (startLoad1 ds :: after1 (startLoad1 ds) (ds.take p)).length = p + 1 := by
      simp [after1_length]; omega
    rw [List.take_append_of_le_length (by omega), List.take_of_length_le (by omega)]
  have hdrop : (loads1 ds).drop p = (startLoad1 ds + total (ds.take p)) ::
      after1 (startLoad1 ds + total (ds.take p)) (ds.drop p) := by
    have hlenA : (after1 (startLoad1 ds) (ds.take p)).length = p := by simp [after1_length]; omega
    have hlenT : (ds.take p).length = p := by simp; omega
    rw [loads1_split ds p]
    rw [List.drop_append_of_le_length (by simp [hlenA])]
    have := drop_len_after1 (startLoad1 ds) (ds.take p)
    rw [hlenT] at this
    rw [this]; simp
  have hcurAt : (loads1 ds).getD p 0 = startLoad1 ds + total (ds.take p) := by
    have : (loads1 ds).drop p ≠ [] := by rw [hdrop]; simp
    have h0 : ((loads1 ds).drop p).head? = some ((loads1 ds).getD p 0) := by
      rw [List.head?_drop]
      simp [List.getD_eq_getElem?_getD, List.getElem?_eq_getElem hp']
    rw [hdrop] at h0
    simpa using h0.symm
  rw [htake] at hpastC
  rw [hdrop] at hfutC
  unfold viol1 at hnv
  simp only [Bool.or_eq_false_iff, Bool.and_eq_false_iff, bne_eq_false_iff_eq, decide_eq_false_iff_not,
    Int.not_lt] at hnv
  obtain ⟨⟨hA, hB⟩, hC⟩ := hnv
  unfold noViolation
  simp only
  refine ⟨?_, ?_, ?_⟩
  · intro hs l hl
    have := hpastC l hl
    rcases hA with hA | hA
    · exact absurd hA hs
    · omega
  · intro hs l hl
    have := hfutC l hl
    rcases hB with hB | hB
    · exact absurd hB hs
    · omega
  · intro hs
    rcases hC with hC | hC
    · exact absurd hC hs
    · obtain ⟨hC1, hC2⟩ := hC
      refine ⟨?_, ?_⟩
      · intro l hl
        have := hfutC l hl
        omega
      · rw [hcurAt] at hC2; omega

/-! ## completeness of the capacity test (one dimension)

The caches are not only upper bounds, they are attained: `max_past` is `m` or one of the loads it summarises,
`max_future` is one of the loads from the pivot on. Hence, for the demand shapes the readers can produce (static parts
only, or no static pickup, more generally `dd ≤ dp` whenever there is a static pickup) the O(1) test refuses nothing
that the step-by-step profile admits. -/

theorem runMax1_attained (m : Int) (ls : List Int) (i : Nat) (hi : i < ls.length) :
    (runMax1 m ls).getD i 0 = m ∨ (runMax1 m ls).getD i 0 ∈ ls.take (i + 1) := by
  induction ls generalizing m i with
  | nil => simp at hi
  | cons a r ih =>
    cases i with
    | zero =>
      simp only [runMax1, List.getD_cons_zero, List.take_succ_cons, List.take_zero, List.mem_singleton]
      omega
    | succ i =>
      have hi' : i < r.length := by simpa using hi
      simp only [runMax1, List.getD_cons_succ, List.take_succ_cons, List.mem_cons]
      rcases ih (max m a) i hi' with h | h
      · rw [h]; omega
      · exact Or.inr (Or.inr h)

theorem maxFuture1_attained (ls : List Int) (i : Nat) (hi : i < ls.length) :
    (maxFuture1 ls).getD i 0 ∈ ls.drop i := by
  induction ls generalizing i with
  | nil => simp at hi
  | cons a r ih =>
    cases r with
    | nil =>
      have : i = 0 := by simp at hi; omega
      subst this
      simp [maxFuture1]
    | cons b q =>
      have hlen := maxFuture1_length (b :: q)
      cases h : maxFuture1 (b :: q) with
      | nil => rw [h] at hlen; simp at hlen
      | cons m tail =>
        simp only [maxFuture1, h]
        cases i with
        | zero =>
          simp only [List.getD_cons_zero, List.drop_zero, List.mem_cons]
          have h0 := ih 0 (by simp)
          rw [h] at h0
          simp only [List.getD_cons_zero, List.drop_zero, List.mem_cons] at h0
          by_cases hc : m ≤ a
          · left; omega
          · right
            have : max a m = m := by omega
            rw [this]; exact h0
        | succ i =>
          simp only [List.getD_cons_succ, List.drop_succ_cons]
          have := ih i (by simpa using hi)
          rw [h] at this
          exact this

/-- **C06 completeness (capacity, one dimension)**: if the load profile with the job inserted at `p` stays within
    capacity, all loads of the tour are non-negative, and the demand has no static pickup together with a larger
    dynamic delivery (`sp = 0 ∨ dd ≤ dp`: every shape the readers produce), then the O(1) test on the cached
    maxima reports no violation - the test refuses nothing the step-by-step simulation admits. -/
theorem cap_complete1 (cap : Int) (ds : List Dem1) (p : Nat) (x : Dem1) (hp : p ≤ ds.length)
    (hpos : ∀ l ∈ loads1 ds, 0 ≤ l)
    (hshape : x.sp = 0 ∨ x.dd ≤ x.dp)
    (hins : capOk1 cap (insertAt1 ds p x)) :
    viol1 cap ((runMax1 0 (loads1 ds)).getD p 0) ((maxFuture1 (loads1 ds)).getD p 0)
      ((loads1 ds).getD p 0) x = false := by
  have hlen : (loads1 ds).length = ds.length + 1 := by simp [loads1, after1_length]
  have hp' : p < (loads1 ds).length := by omega
  -- the segments the caches summarise (as in `cap_sound1`)
  have htake : (loads1 ds).take (p + 1) = startLoad1 ds :: after1 (startLoad1 ds) (ds.take p) := by
    rw [loads1_split ds p]
    have : (startLoad1 ds :: after1 (startLoad1 ds) (ds.take p)).length = p + 1 := by
      simp [after1_length]; omega
    rw [List.take_append_of_le_length (by omega), List.take_of_length_le (by omega)]
  have hdrop : (loads1 ds).drop p = (startLoad1 ds + total (ds.take p)) ::
      after1 (startLoad1 ds + total (ds.take p)) (ds.drop p) := by
    have hlenA : (after1 (startLoad1 ds) (ds.take p)).length = p := by simp [after1_length]; omega
    have hlenT : (ds.take p).length = p := by simp; omega
    rw [loads1_split ds p]
    rw [List.drop_append_of_le_length (by simp [hlenA])]
    have := drop_len_after1 (startLoad1 ds) (ds.take p)
    rw [hlenT] at this
    rw [this]; simp
  have hcurAt : (loads1 ds).getD p 0 = startLoad1 ds + total (ds.take p) := by
    have h0 : ((loads1 ds).drop p).head? = some ((loads1 ds).getD p 0) := by
      rw [List.head?_drop]
      simp [List.getD_eq_getElem?_getD, List.getElem?_eq_getElem hp']
    rw [hdrop] at h0
    simpa using h0.symm
  -- what the inserted profile says about the old segments
  have hnewPast : ∀ l ∈ startLoad1 ds :: after1 (startLoad1 ds) (ds.take p), l + x.sd ≤ cap := by
    intro l hl
    apply hins
    unfold loads1
    rw [startLoad1_insert]
    unfold insertAt1
    rw [after1_append]
    simp only [List.mem_cons, List.mem_append]
    rcases List.mem_cons.mp hl with rfl | hl
    · left; rfl
    · right; left
      rw [after1_shift]
      exact List.mem_map.mpr ⟨l, hl, rfl⟩
  have hnewFut : ∀ l ∈ (startLoad1 ds + total (ds.take p)) ::
      after1 (startLoad1 ds + total (ds.take p)) (ds.drop p), l + (x.change + x.sd) ≤ cap := by
    intro l hl
    have key : l + (x.change + x.sd) ∈ loads1 (insertAt1 ds p x) := by
      unfold loads1
      rw [startLoad1_insert]
      unfold insertAt1
      rw [after1_append]
      simp only [after1, List.mem_cons, List.mem_append]
      rcases List.mem_cons.mp hl with rfl | hl
      · right; right; left
        unfold Dem1.change; omega
      · right; right; right
        have e : startLoad1 ds + x.sd + total (ds.take p) + x.change
            = (startLoad1 ds + total (ds.take p)) + (x.change + x.sd) := by omega
        rw [e, after1_shift]
        exact List.mem_map.mpr ⟨l, hl, rfl⟩
    exact hins _ key
  -- the cached values are attained
  have hpastV := runMax1_attained 0 (loads1 ds) p hp'
  have hfutV := maxFuture1_attained (loads1 ds) p hp'
  rw [htake] at hpastV
  rw [hdrop] at hfutV
  have hS0 : 0 ≤ startLoad1 ds := hpos _ (by simp [loads1])
  have hpastLe : (runMax1 0 (loads1 ds)).getD p 0 + x.sd ≤ cap := by
    rcases hpastV with h0 | hm
    · -- the running maximum is the initial zero: the departure load is not below it
      have hge := runMax1_ge 0 (loads1 ds) p hp' (startLoad1 ds) (by rw [htake]; simp)
      have := hnewPast (startLoad1 ds) (by simp)
      omega
    · exact hnewPast _ hm
  have hfutLe : (maxFuture1 (loads1 ds)).getD p 0 + (x.change + x.sd) ≤ cap := hnewFut _ hfutV
  have hcurLe : (loads1 ds).getD p 0 + (x.change + x.sd) ≤ cap := by
    rw [hcurAt]; exact hnewFut _ (by simp)
  unfold viol1
  simp only [Bool.or_eq_false_iff, Bool.and_eq_false_iff, bne_eq_false_iff_eq, decide_eq_false_iff_not, Int.not_lt]
  refine ⟨⟨Or.inr hpastLe, ?_⟩, Or.inr ⟨hfutLe, hcurLe⟩⟩
  rcases hshape with hs | hs
  · exact Or.inl hs
  · right
    unfold Dem1.change at hfutLe
    omega

/-- soundness and completeness together: on a tour with non-negative loads and for the demand shapes of the readers
    the O(1) test decides exactly whether the inserted profile stays within capacity -/
theorem cap_exact1 (cap : Int) (ds : List Dem1) (p : Nat) (x : Dem1) (hp : p ≤ ds.length)
    (hok : capOk1 cap ds) (hpos : ∀ l ∈ loads1 ds, 0 ≤ l) (hshape : x.sp = 0 ∨ x.dd ≤ x.dp) :
    viol1 cap ((runMax1 0 (loads1 ds)).getD p 0) ((maxFuture1 (loads1 ds)).getD p 0)
      ((loads1 ds).getD p 0) x = false ↔ capOk1 cap (insertAt1 ds p x) :=
  ⟨cap_sound1 cap ds p x hp hok, cap_complete1 cap ds p x hp hpos hshape⟩

-- the shape condition is needed: a static pickup with a larger dynamic delivery is refused although it fits
example : viol1 10 ((runMax1 0 (loads1 [⟨8, 0, 0, 0⟩])).getD 1 0) ((maxFuture1 (loads1 [⟨8, 0, 0, 0⟩])).getD 1 0)
    ((loads1 [⟨8, 0, 0, 0⟩]).getD 1 0) ⟨3, 0, 0, 3⟩ = true ∧ capOk1 10 (insertAt1 [⟨8, 0, 0, 0⟩] 1 ⟨3, 0, 0, 3⟩) := by
  constructor
  · decide
  · intro l hl; simp [loads1, insertAt1, startLoad1, after1, Dem1.change] at hl; omega

/-! ## the route-level pre-check is a necessary condition (the repair of S43)

`can_handle_demand_on_intervals` without an index tries the static delivery part of a mixed demand at the start and the
rest at the end of the interval. If the job passes the activity-level test at ANY position `p`, both parts pass: the route
level test never rejects a route in which the job has an admissible position. -/

theorem runMax1_init_le (m : Int) (ls : List Int) (i : Nat) (hi : i < ls.length) : m ≤ (runMax1 m ls).getD i 0 := by
  induction ls generalizing m i with
  | nil => simp at hi
  | cons b q ih =>
    cases i with
    | zero => simp [runMax1]; omega
    | succ i =>
      simp only [runMax1, List.getD_cons_succ]
      have := ih (max m b) i (by simpa using hi)
      omega

theorem runMax1_mono0 (m : Int) (ls : List Int) (p : Nat) (hp : p < ls.length) :
    (runMax1 m ls).getD 0 0 ≤ (runMax1 m ls).getD p 0 := by
  cases ls with
  | nil => simp at hp
  | cons a r =>
    have h1 := runMax1_init_le m (a :: r) p hp
    have h2 := runMax1_ge m (a :: r) p hp a (by simp)
    have h0 : (runMax1 m (a :: r)).getD 0 0 = max m a := by simp [runMax1]
    rw [h0]
    omega

theorem getD_mem_drop (ls : List Int) (i p : Nat) (hpi : p ≤ i) (hi : i < ls.length) : ls.getD i 0 ∈ ls.drop p := by
  rw [List.getD_eq_getElem?_getD, List.getElem?_eq_getElem hi]
  simp only [Option.getD_some]
  apply List.mem_drop_iff_getElem.mpr
  exact ⟨i - p, by omega, by congr 1; omega⟩

theorem maxFuture1_last_le (ls : List Int) (p : Nat) (hne : ls ≠ []) (hp : p < ls.length) :
    (maxFuture1 ls).getD (ls.length - 1) 0 ≤ (maxFuture1 ls).getD p 0 := by
  have hl : ls.length - 1 < ls.length := by
    cases ls with
    | nil => exact absurd rfl hne
    | cons _ _ => simp
  have hat := maxFuture1_attained ls (ls.length - 1) hl
  have hsub : ∀ x ∈ ls.drop (ls.length - 1), x ∈ ls.drop p := by
    intro x hx
    obtain ⟨k, hk, rfl⟩ := List.mem_drop_iff_getElem.mp hx
    apply List.mem_drop_iff_getElem.mpr
    exact ⟨ls.length - 1 + k - p, by omega, by congr 1; omega⟩
  exact maxFuture1_ge ls p hp _ (hsub _ hat)

theorem cur_last_le_future (ls : List Int) (p : Nat) (hne : ls ≠ []) (hp : p < ls.length) :
    ls.getD (ls.length - 1) 0 ≤ (maxFuture1 ls).getD p 0 := by
  have hl : ls.length - 1 < ls.length := by
    cases ls with
    | nil => exact absurd rfl hne
    | cons _ _ => simp
  exact maxFuture1_ge ls p hp _ (getD_mem_drop ls (ls.length - 1) p (by omega) hl)

/-- **the split route-level test is necessary**: an admissible position somewhere implies that the static delivery part
    passes at the start and the rest passes at the end -/
theorem route_precheck_necessary (cap : Int) (ds : List Dem1) (p : Nat) (x : Dem1) (hp : p ≤ ds.length)
    (hnv : viol1 cap ((runMax1 0 (loads1 ds)).getD p 0) ((maxFuture1 (loads1 ds)).getD p 0)
            ((loads1 ds).getD p 0) x = false) :
    viol1 cap ((runMax1 0 (loads1 ds)).getD 0 0) ((maxFuture1 (loads1 ds)).getD 0 0) ((loads1 ds).getD 0 0)
        ⟨0, 0, x.sd, 0⟩ = false ∧
    viol1 cap ((runMax1 0 (loads1 ds)).getD ds.length 0) ((maxFuture1 (loads1 ds)).getD ds.length 0)
        ((loads1 ds).getD ds.length 0) ⟨x.sp, x.dp, 0, x.dd⟩ = false := by
  have hlen : (loads1 ds).length = ds.length + 1 := by simp [loads1, after1_length]
  have hp' : p < (loads1 ds).length := by omega
  have hne : loads1 ds ≠ [] := by simp [loads1]
  have hL : (loads1 ds).length - 1 = ds.length := by omega
  have hpast := runMax1_mono0 0 (loads1 ds) p hp'
  have hfutL := maxFuture1_last_le (loads1 ds) p hne hp'
  have hcurL := cur_last_le_future (loads1 ds) p hne hp'
  rw [hL] at hfutL hcurL
  unfold viol1 at hnv ⊢
  simp only [Bool.or_eq_false_iff, Bool.and_eq_false_iff, bne_eq_false_iff_eq, decide_eq_false_iff_not,
    Int.not_lt, Dem1.change] at hnv ⊢
  obtain ⟨⟨hA, hB⟩, hC⟩ := hnv
  refine ⟨⟨⟨?_, ?_⟩, ?_⟩, ⟨⟨?_, ?_⟩, ?_⟩⟩
  · rcases hA with hA | hA
    · exact Or.inl hA
    · right; omega
  · exact Or.inl trivial
  · left; omega
  · exact Or.inl trivial
  · rcases hB with hB | hB
    · exact Or.inl hB
    · right; omega
  · rcases hC with hC | ⟨hC1, hC2⟩
    · left; omega
    · right
      have h1 := of_decide_eq_false hC1
      have h2 := of_decide_eq_false hC2
      constructor <;> (apply decide_eq_false; omega)

/-! ### tie to the executable (vector) model for one dimension -/

theorem hasDemandViolation_dim1 (cap past fut cur : Int) (x : Dem1) (st : Bool) :
    (C06.hasDemandViolation [cap] [past] [fut] [cur] ⟨[x.sp], [x.dp], [x.sd], [x.dd]⟩ st).isSome
      = viol1 cap past fut cur x := by
  obtain ⟨sp, dp, sd, dd⟩ := x
  unfold C06.hasDemandViolation viol1 Dem.change vNotEmpty vfits vadd vsub Dem1.change
  simp only [List.zipWith_cons_cons, List.zipWith_nil_right, List.any_cons, List.any_nil, Bool.or_false,
    List.all_cons, List.all_nil, Bool.and_true, id]
  have e : sp + dp - (sd + dd) + sd = sp + dp - sd - dd + sd := by omega
  rw [e]
  generalize sp + dp - sd - dd + sd = ch
  have d1 : (!decide (past + sd ≤ cap)) = decide (cap < past + sd) := by
    by_cases h : past + sd ≤ cap <;> simp [h] <;> omega
  have d2 : (!decide (fut + sp ≤ cap)) = decide (cap < fut + sp) := by
    by_cases h : fut + sp ≤ cap <;> simp [h] <;> omega
  have d3 : (!decide (fut + ch ≤ cap)) = decide (cap < fut + ch) := by
    by_cases h : fut + ch ≤ cap <;> simp [h] <;> omega
  have d4 : (!decide (cur + ch ≤ cap)) = decide (cap < cur + ch) := by
    by_cases h : cur + ch ≤ cap <;> simp [h] <;> omega
  rw [d1, d2, d3, d4]
  generalize (sd != 0 && decide (cap < past + sd)) = A
  generalize (sp != 0 && decide (cap < fut + sp)) = B
  generalize (ch != 0 && (decide (cap < fut + ch) || decide (cap < cur + ch))) = C
  cases A <;> cases B <;> cases C <;> simp

/-! ### the statement is not vacuous, and the unrepaired rule was unsound (S25 witness) -/

-- capacity 10, a static pickup of 8 on board from the first activity on; inserting a job with
-- static delivery 5 and dynamic pickup 5 before it is (correctly) refused by the repaired rule ...
example : viol1 10 ((runMax1 0 (loads1 [⟨8, 0, 0, 0⟩])).getD 0 0) ((maxFuture1 (loads1 [⟨8, 0, 0, 0⟩])).getD 0 0)
    ((loads1 [⟨8, 0, 0, 0⟩]).getD 0 0) ⟨0, 5, 5, 0⟩ = true := by decide
-- ... and the tour with it inserted would indeed be overloaded (13 > 10)
example : ¬ capOk1 10 (insertAt1 [⟨8, 0, 0, 0⟩] 0 ⟨0, 5, 5, 0⟩) := by
  intro h
  have := h 13 (by simp [loads1, insertAt1, startLoad1, after1, Dem1.change])
  omega
-- an accepted insertion (hypotheses of `cap_sound1` satisfiable)
example : capOk1 10 [⟨8, 0, 0, 0⟩] ∧
    viol1 10 ((runMax1 0 (loads1 [⟨8, 0, 0, 0⟩])).getD 1 0) ((maxFuture1 (loads1 [⟨8, 0, 0, 0⟩])).getD 1 0)
      ((loads1 [⟨8, 0, 0, 0⟩]).getD 1 0) ⟨2, 0, 0, 0⟩ = false := by
  constructor
  · intro l hl; simp [loads1, startLoad1, after1, Dem1.change] at hl; omega
  · decide

end C06Cap
