import VrpProofs.C06Cap
/-!
# C06 — capacity half, any number of dimensions

`C06Cap` proves the soundness of the O(1) capacity test for one dimension (`cap_sound1`). The executable
model (`C06.hasDemandViolation`, `Route.loadProfile`, `runMax`, `maxFuture`) works on vectors with
component-wise operations (`SingleDimLoad` / `MultiDimLoad` in load.rs). This file lifts the theorem:
every component of the vector model IS the one-dimensional model (`pr k`), the vector verdict "no
violation" implies the one-dimensional verdict in every component, hence `cap_sound_vec`: an insertion
the vector test accepts keeps the load profile within capacity in every dimension.

Well-formedness (`WF n`): all vectors of one case have the same length `n` (the harness pads with zeros;
`MultiDimLoad` has a fixed size).
-/
set_option linter.unusedSimpArgs false
set_option linter.unnecessarySimpa false

namespace C06Cap
open Route

/-- component `k` of a vector -/
def pr (k : Nat) (v : List Int) : Int := v.getD k 0

def prD (k : Nat) (d : Dem) : Dem1 := ⟨pr k d.sp, pr k d.dp, pr k d.sd, pr k d.dd⟩

def WF (n : Nat) (d : Dem) : Prop := d.sp.length = n ∧ d.dp.length = n ∧ d.sd.length = n ∧ d.dd.length = n

/-! ### component-wise operations -/

theorem pr_zipWith (f : Int → Int → Int) (a b : List Int) (k : Nat) (ha : k < a.length) (hb : k < b.length) :
    pr k (List.zipWith f a b) = f (pr k a) (pr k b) := by
  unfold pr
  simp [List.getD_eq_getElem?_getD, List.getElem?_zipWith, List.getElem?_eq_getElem ha, List.getElem?_eq_getElem hb]

theorem vadd_length (a b : List Int) (n : Nat) (ha : a.length = n) (hb : b.length = n) : (vadd a b).length = n := by
  simp [vadd, ha, hb]
theorem vsub_length (a b : List Int) (n : Nat) (ha : a.length = n) (hb : b.length = n) : (vsub a b).length = n := by
  simp [vsub, ha, hb]
theorem vmax_length (a b : List Int) (n : Nat) (ha : a.length = n) (hb : b.length = n) : (vmax a b).length = n := by
  simp [vmax, ha, hb]

theorem pr_vadd (a b : List Int) (n k : Nat) (ha : a.length = n) (hb : b.length = n) (hk : k < n) :
    pr k (vadd a b) = pr k a + pr k b := pr_zipWith _ a b k (by omega) (by omega)
theorem pr_vsub (a b : List Int) (n k : Nat) (ha : a.length = n) (hb : b.length = n) (hk : k < n) :
    pr k (vsub a b) = pr k a - pr k b := pr_zipWith _ a b k (by omega) (by omega)
theorem pr_vmax (a b : List Int) (n k : Nat) (ha : a.length = n) (hb : b.length = n) (hk : k < n) :
    pr k (vmax a b) = max (pr k a) (pr k b) := pr_zipWith _ a b k (by omega) (by omega)

theorem change_length (n : Nat) (d : Dem) (h : WF n d) : d.change.length = n := by
  obtain ⟨h1, h2, h3, h4⟩ := h
  exact vsub_length _ _ n (vadd_length _ _ n h1 h2) (vadd_length _ _ n h3 h4)

theorem pr_change (n k : Nat) (d : Dem) (h : WF n d) (hk : k < n) : pr k d.change = (prD k d).change := by
  obtain ⟨h1, h2, h3, h4⟩ := h
  unfold Dem.change
  rw [pr_vsub _ _ n k (vadd_length _ _ n h1 h2) (vadd_length _ _ n h3 h4) hk,
      pr_vadd _ _ n k h1 h2 hk, pr_vadd _ _ n k h3 h4 hk]
  show _ = pr k d.sp + pr k d.dp - pr k d.sd - pr k d.dd
  omega

/-- `can_fit` is the conjunction over the components -/
theorem vfits_iff (cap v : List Int) (n : Nat) (hc : cap.length = n) (hv : v.length = n) :
    vfits cap v = true ↔ ∀ k, k < n → pr k v ≤ pr k cap := by
  induction cap generalizing v n with
  | nil =>
    subst hc
    simp [vfits]
  | cons c cs ih =>
    cases v with
    | nil => simp only [List.length_cons, List.length_nil] at hc hv; omega
    | cons x xs =>
      simp only [List.length_cons] at hc hv
      have hn : n = cs.length + 1 := by omega
      subst hn
      have hxs : xs.length = cs.length := by omega
      have := ih xs cs.length rfl hxs
      simp only [vfits, List.zipWith_cons_cons, List.all_cons, id, Bool.and_eq_true, decide_eq_true_eq] at this ⊢
      constructor
      · rintro ⟨h0, hr⟩ k hk
        cases k with
        | zero => simpa [pr] using h0
        | succ k =>
          have := (this.mp hr) k (by omega)
          simpa [pr] using this
      · intro h
        refine ⟨by simpa [pr] using h 0 (by omega), this.mpr ?_⟩
        intro k hk
        have := h (k + 1) (by omega)
        simpa [pr] using this

theorem vNotEmpty_false (v : List Int) (h : vNotEmpty v = false) (k : Nat) : pr k v = 0 := by
  unfold vNotEmpty at h
  unfold pr
  rw [List.getD_eq_getElem?_getD]
  cases hv : v[k]? with
  | none => rfl
  | some x =>
    have hm : x ∈ v := List.mem_of_getElem? hv
    have := (List.any_eq_false.mp h) x hm
    simpa using this

/-! ### the load profile and the caches, component by component -/

theorem foldl_sd_length (n : Nat) : ∀ (ds : List Dem) (acc : List Int), acc.length = n → (∀ d ∈ ds, WF n d) →
    (ds.foldl (fun acc x => vadd acc x.sd) acc).length = n := by
  intro ds
  induction ds with
  | nil => intro acc h _; simpa using h
  | cons d ds ih =>
    intro acc h hw
    simp only [List.foldl_cons]
    exact ih _ (vadd_length _ _ n h (hw d (by simp)).2.2.1) (fun e he => hw e (by simp [he]))

theorem pr_foldl_sd (n k : Nat) (hk : k < n) : ∀ (ds : List Dem) (acc : List Int), acc.length = n → (∀ d ∈ ds, WF n d) →
    pr k (ds.foldl (fun acc x => vadd acc x.sd) acc) = pr k acc + ((ds.map (prD k)).map (·.sd)).sum := by
  intro ds
  induction ds with
  | nil => intro acc _ _; simp
  | cons d ds ih =>
    intro acc h hw
    simp only [List.foldl_cons, List.map_cons, List.sum_cons]
    rw [ih _ (vadd_length _ _ n h (hw d (by simp)).2.2.1) (fun e he => hw e (by simp [he])),
        pr_vadd _ _ n k h (hw d (by simp)).2.2.1 hk]
    simp [prD]; omega

theorem zero_length (cap : List Int) : (cap.map (fun _ => (0 : Int))).length = cap.length := by simp
theorem pr_zero (cap : List Int) (k : Nat) : pr k (cap.map (fun _ => (0 : Int))) = 0 := by
  unfold pr
  rw [List.getD_eq_getElem?_getD]
  cases h : (cap.map (fun _ => (0 : Int)))[k]? with
  | none => rfl
  | some x =>
    have := List.mem_of_getElem? h
    simp at this
    simp [this.2]

theorem startLoad_length (n : Nat) (zero : List Int) (ds : List Dem) (hz : zero.length = n) (hw : ∀ d ∈ ds, WF n d) :
    (startLoad zero ds).length = n := foldl_sd_length n ds zero hz hw

theorem pr_startLoad (n k : Nat) (hk : k < n) (cap : List Int) (hc : cap.length = n) (ds : List Dem)
    (hw : ∀ d ∈ ds, WF n d) :
    pr k (startLoad (cap.map (fun _ => 0)) ds) = startLoad1 (ds.map (prD k)) := by
  unfold startLoad startLoad1
  rw [pr_foldl_sd n k hk ds _ (by simp [hc]) hw, pr_zero]
  simp

theorem loadsAfter_lengths (n : Nat) : ∀ (ds : List Dem) (s : List Int), s.length = n → (∀ d ∈ ds, WF n d) →
    ∀ l ∈ loadsAfter s ds, l.length = n := by
  intro ds
  induction ds with
  | nil => intro s _ _ l hl; simp [loadsAfter] at hl
  | cons d ds ih =>
    intro s hs hw l hl
    simp only [loadsAfter, List.mem_cons] at hl
    have hl1 : (vadd s d.change).length = n := vadd_length _ _ n hs (change_length n d (hw d (by simp)))
    rcases hl with rfl | hl
    · exact hl1
    · exact ih _ hl1 (fun e he => hw e (by simp [he])) l hl

theorem map_pr_loadsAfter (n k : Nat) (hk : k < n) : ∀ (ds : List Dem) (s : List Int), s.length = n → (∀ d ∈ ds, WF n d) →
    (loadsAfter s ds).map (pr k) = after1 (pr k s) (ds.map (prD k)) := by
  intro ds
  induction ds with
  | nil => intro s _ _; simp [loadsAfter, after1]
  | cons d ds ih =>
    intro s hs hw
    have hwd := hw d (by simp)
    have hl1 : (vadd s d.change).length = n := vadd_length _ _ n hs (change_length n d hwd)
    simp only [loadsAfter, List.map_cons, after1]
    rw [ih _ hl1 (fun e he => hw e (by simp [he])), pr_vadd _ _ n k hs (change_length n d hwd) hk,
        pr_change n k d hwd hk]

/-- **component `k` of the vector load profile is the one-dimensional load profile** -/
theorem map_pr_loadProfile (n k : Nat) (hk : k < n) (cap : List Int) (hc : cap.length = n) (ds : List Dem)
    (hw : ∀ d ∈ ds, WF n d) :
    (loadProfile (cap.map (fun _ => 0)) ds).map (pr k) = loads1 (ds.map (prD k)) := by
  unfold loadProfile loads1
  have hs := startLoad_length n (cap.map (fun _ => 0)) ds (by simp [hc]) hw
  simp only [List.map_cons]
  rw [map_pr_loadsAfter n k hk ds _ hs hw, pr_startLoad n k hk cap hc ds hw]

theorem loadProfile_lengths (n : Nat) (cap : List Int) (hc : cap.length = n) (ds : List Dem) (hw : ∀ d ∈ ds, WF n d) :
    ∀ l ∈ loadProfile (cap.map (fun _ => 0)) ds, l.length = n := by
  intro l hl
  have hs := startLoad_length n (cap.map (fun _ => 0)) ds (by simp [hc]) hw
  simp only [loadProfile, List.mem_cons] at hl
  rcases hl with rfl | hl
  · exact hs
  · exact loadsAfter_lengths n ds _ hs hw l hl

theorem map_pr_runMax (n k : Nat) (hk : k < n) : ∀ (ls : List (List Int)) (m : List Int), m.length = n →
    (∀ l ∈ ls, l.length = n) → (runMax m ls).map (pr k) = runMax1 (pr k m) (ls.map (pr k)) := by
  intro ls
  induction ls with
  | nil => intro m _ _; simp [runMax, runMax1]
  | cons l ls ih =>
    intro m hm hl
    have hl0 := hl l (by simp)
    simp only [runMax, runMax1, List.map_cons]
    rw [ih _ (vmax_length _ _ n hm hl0) (fun e he => hl e (by simp [he])), pr_vmax _ _ n k hm hl0 hk]

theorem maxFuture_lengths (n : Nat) : ∀ (ls : List (List Int)), (∀ l ∈ ls, l.length = n) →
    ∀ l ∈ maxFuture ls, l.length = n := by
  intro ls
  induction ls with
  | nil => intro _ l hl; simp [maxFuture] at hl
  | cons a rest ih =>
    intro h l hl
    cases rest with
    | nil => simp [maxFuture] at hl; rw [hl]; exact h a (by simp)
    | cons b rest =>
      have ihr := ih (fun e he => h e (by simp [he]))
      simp only [maxFuture] at hl
      cases hm : maxFuture (b :: rest) with
      | nil => simp [hm] at hl; rw [hl]; exact h a (by simp)
      | cons m tail =>
        simp only [hm, List.mem_cons] at hl
        have hmn : m.length = n := ihr m (by simp [hm])
        rcases hl with rfl | rfl | hl
        · exact vmax_length _ _ n (h a (by simp)) hmn
        · exact hmn
        · exact ihr l (by simp [hm, hl])

theorem map_pr_maxFuture (n k : Nat) (hk : k < n) : ∀ (ls : List (List Int)), (∀ l ∈ ls, l.length = n) →
    (maxFuture ls).map (pr k) = maxFuture1 (ls.map (pr k)) := by
  intro ls
  induction ls with
  | nil => intro _; simp [maxFuture, maxFuture1]
  | cons a rest ih =>
    intro h
    cases rest with
    | nil => simp [maxFuture, maxFuture1]
    | cons b rest =>
      have ihr := ih (fun e he => h e (by simp [he]))
      have hlen := maxFuture_lengths n (b :: rest) (fun e he => h e (by simp [he]))
      simp only [maxFuture, List.map_cons, maxFuture1]
      cases hm : maxFuture (b :: rest) with
      | nil =>
        have : maxFuture1 (pr k b :: List.map (pr k) rest) = [] := by
          have := ihr; simp only [hm, List.map_nil, List.map_cons] at this; exact this.symm
        simp [this]
      | cons m tail =>
        have e : maxFuture1 (pr k b :: List.map (pr k) rest) = pr k m :: tail.map (pr k) := by
          have := ihr; simp only [hm, List.map_cons] at this; exact this.symm
        have hmn : m.length = n := hlen m (by simp [hm])
        simp only [e, List.map_cons]
        rw [pr_vmax _ _ n k (h a (by simp)) hmn hk]

theorem pr_getD (k : Nat) (ls : List (List Int)) (i : Nat) (zero : List Int) (hz : pr k zero = 0) :
    pr k (ls.getD i zero) = (ls.map (pr k)).getD i 0 := by
  simp only [List.getD_eq_getElem?_getD, List.getElem?_map]
  cases ls[i]? with
  | none => simpa using hz
  | some l => simp

theorem getD_lengths (n : Nat) (ls : List (List Int)) (i : Nat) (zero : List Int) (hz : zero.length = n)
    (h : ∀ l ∈ ls, l.length = n) : (ls.getD i zero).length = n := by
  simp only [List.getD_eq_getElem?_getD]
  cases hi : ls[i]? with
  | none => simpa using hz
  | some l => simpa using h l (List.mem_of_getElem? hi)

theorem runMax_lengths (n : Nat) : ∀ (ls : List (List Int)) (m : List Int), m.length = n →
    (∀ l ∈ ls, l.length = n) → ∀ l ∈ runMax m ls, l.length = n := by
  intro ls
  induction ls with
  | nil => intro m _ _ l hl; simp [runMax] at hl
  | cons a ls ih =>
    intro m hm h l hl
    have h1 := vmax_length _ _ n hm (h a (by simp))
    simp only [runMax, List.mem_cons] at hl
    rcases hl with rfl | hl
    · exact h1
    · exact ih _ h1 (fun e he => h e (by simp [he])) l hl

/-! ### the verdict, component by component -/

/-- the vector verdict is `none` exactly when none of its three clauses fires -/
theorem hdv_none_iff (cap past fut cur : List Int) (x : Dem) (st : Bool) :
    C06.hasDemandViolation cap past fut cur x st = none ↔
      (vNotEmpty x.sd && !vfits cap (vadd past x.sd)) = false ∧
      (vNotEmpty x.sp && !vfits cap (vadd fut x.sp)) = false ∧
      (vNotEmpty (vadd x.change x.sd) &&
        (!vfits cap (vadd fut (vadd x.change x.sd)) || !vfits cap (vadd cur (vadd x.change x.sd)))) = false := by
  unfold C06.hasDemandViolation
  simp only []
  generalize (vNotEmpty x.sd && !vfits cap (vadd past x.sd)) = A
  generalize (vNotEmpty x.sp && !vfits cap (vadd fut x.sp)) = B
  generalize (vNotEmpty (vadd x.change x.sd) &&
        (!vfits cap (vadd fut (vadd x.change x.sd)) || !vfits cap (vadd cur (vadd x.change x.sd)))) = C
  cases A <;> cases B <;> cases C <;> simp

/-- a guarded clause that does not fire: the guard is off or the load fits -/
theorem clause_off (g f : Bool) (h : (g && !f) = false) (hg : g = true) : f = true := by
  cases g <;> cases f <;> simp_all

/-- "no violation" of the vector test gives "no violation" of the one-dimensional test in every component -/
theorem viol1_of_vec (n k : Nat) (hk : k < n) (cap past fut cur : List Int) (x : Dem) (st : Bool)
    (hc : cap.length = n) (hp : past.length = n) (hf : fut.length = n) (hu : cur.length = n) (hx : WF n x)
    (h : C06.hasDemandViolation cap past fut cur x st = none) :
    viol1 (pr k cap) (pr k past) (pr k fut) (pr k cur) (prD k x) = false := by
  obtain ⟨h1, h2, h3, h4⟩ := hx
  have hchl : x.change.length = n := change_length n x ⟨h1, h2, h3, h4⟩
  have hch : (vadd x.change x.sd).length = n := vadd_length _ _ n hchl h3
  have ech : pr k (vadd x.change x.sd) = (prD k x).change + (prD k x).sd := by
    rw [pr_vadd _ _ n k hchl h3 hk, pr_change n k x ⟨h1, h2, h3, h4⟩ hk]
    rfl
  obtain ⟨cA, cB, cC⟩ := (hdv_none_iff cap past fut cur x st).mp h
  have esd : pr k x.sd = (prD k x).sd := rfl
  have esp : pr k x.sp = (prD k x).sp := rfl
  -- clause A
  have hA : ((prD k x).sd != 0 && decide (pr k cap < pr k past + (prD k x).sd)) = false := by
    by_cases hz : (prD k x).sd = 0
    · simp [hz]
    · have hne : vNotEmpty x.sd = true := by
        cases hv : vNotEmpty x.sd with
        | true => rfl
        | false => exact absurd (by rw [← esd]; exact vNotEmpty_false x.sd hv k) hz
      have hfit := clause_off _ _ cA hne
      have := (vfits_iff cap _ n hc (vadd_length _ _ n hp h3)).mp hfit k hk
      rw [pr_vadd _ _ n k hp h3 hk, esd] at this
      simp only [Bool.and_eq_false_iff, decide_eq_false_iff_not, Int.not_lt]
      right; omega
  -- clause B
  have hB : ((prD k x).sp != 0 && decide (pr k cap < pr k fut + (prD k x).sp)) = false := by
    by_cases hz : (prD k x).sp = 0
    · simp [hz]
    · have hne : vNotEmpty x.sp = true := by
        cases hv : vNotEmpty x.sp with
        | true => rfl
        | false => exact absurd (by rw [← esp]; exact vNotEmpty_false x.sp hv k) hz
      have hfit := clause_off _ _ cB hne
      have := (vfits_iff cap _ n hc (vadd_length _ _ n hf h1)).mp hfit k hk
      rw [pr_vadd _ _ n k hf h1 hk, esp] at this
      simp only [Bool.and_eq_false_iff, decide_eq_false_iff_not, Int.not_lt]
      right; omega
  -- clause C
  have hC : ((prD k x).change + (prD k x).sd != 0 &&
      (decide (pr k cap < pr k fut + ((prD k x).change + (prD k x).sd)) ||
       decide (pr k cap < pr k cur + ((prD k x).change + (prD k x).sd)))) = false := by
    by_cases hz : (prD k x).change + (prD k x).sd = 0
    · simp [hz]
    · have hne : vNotEmpty (vadd x.change x.sd) = true := by
        cases hv : vNotEmpty (vadd x.change x.sd) with
        | true => rfl
        | false => exact absurd (by rw [← ech]; exact vNotEmpty_false _ hv k) hz
      have hboth : vfits cap (vadd fut (vadd x.change x.sd)) = true ∧ vfits cap (vadd cur (vadd x.change x.sd)) = true := by
        rw [hne] at cC
        revert cC
        cases vfits cap (vadd fut (vadd x.change x.sd)) <;> cases vfits cap (vadd cur (vadd x.change x.sd)) <;> simp
      have f1 := (vfits_iff cap _ n hc (vadd_length _ _ n hf hch)).mp hboth.1 k hk
      have f2 := (vfits_iff cap _ n hc (vadd_length _ _ n hu hch)).mp hboth.2 k hk
      rw [pr_vadd _ _ n k hf hch hk, ech] at f1
      rw [pr_vadd _ _ n k hu hch hk, ech] at f2
      simp only [Bool.and_eq_false_iff, Bool.or_eq_false_iff, decide_eq_false_iff_not, Int.not_lt]
      right; constructor <;> omega
  unfold viol1
  rw [hA, hB, hC]
  rfl

/-- the vector specification is the conjunction of the one-dimensional ones -/
theorem capOk_iff (n : Nat) (cap : List Int) (hc : cap.length = n) (ds : List Dem) (hw : ∀ d ∈ ds, WF n d) :
    capOk cap ds = true ↔ ∀ k, k < n → capOk1 (pr k cap) (ds.map (prD k)) := by
  unfold capOk capOk1
  have hl := loadProfile_lengths n cap hc ds hw
  simp only [List.all_eq_true]
  constructor
  · intro h k hk l hl1
    rw [← map_pr_loadProfile n k hk cap hc ds hw] at hl1
    obtain ⟨v, hv, rfl⟩ := List.mem_map.mp hl1
    exact (vfits_iff cap v n hc (hl v hv)).mp (h v hv) k hk
  · intro h v hv
    apply (vfits_iff cap v n hc (hl v hv)).mpr
    intro k hk
    apply h k hk
    rw [← map_pr_loadProfile n k hk cap hc ds hw]
    exact List.mem_map.mpr ⟨v, hv, rfl⟩

theorem map_prD_insertAt (k : Nat) (ds : List Dem) (p : Nat) (x : Dem) :
    (insertAt ds p x).map (prD k) = insertAt1 (ds.map (prD k)) p (prD k x) := by
  simp [insertAt, insertAt1, List.map_take, List.map_drop]

/-- **C06 soundness (capacity, any number of dimensions)**: if the model of `has_demand_violation`, fed with
    the cached `max_past / max_future / current` at the pivot (exactly what `C06.capViolationAt` passes),
    reports no violation, then the load profile of the tour with the job inserted stays within capacity in
    every dimension. -/
theorem cap_sound_vec (n : Nat) (cap : List Int) (ds : List Dem) (p : Nat) (x : Dem) (st : Bool)
    (hc : cap.length = n) (hw : ∀ d ∈ ds, WF n d) (hx : WF n x) (hp : p ≤ ds.length)
    (hok : capOk cap ds = true)
    (hnv : C06.hasDemandViolation cap
            ((C06.loadCaches (cap.map (fun _ => 0)) ds).2.1.getD p (cap.map (fun _ => 0)))
            ((C06.loadCaches (cap.map (fun _ => 0)) ds).2.2.getD p (cap.map (fun _ => 0)))
            ((C06.loadCaches (cap.map (fun _ => 0)) ds).1.getD p (cap.map (fun _ => 0))) x st = none) :
    capOk cap (insertAt ds p x) = true := by
  have hwi : ∀ d ∈ insertAt ds p x, WF n d := by
    intro d hd
    simp only [insertAt, List.mem_append, List.mem_cons] at hd
    rcases hd with hd | rfl | hd
    · exact hw d (List.mem_of_mem_take hd)
    · exact hx
    · exact hw d (List.mem_of_mem_drop hd)
  rw [capOk_iff n cap hc _ hwi]
  intro k hk
  rw [map_prD_insertAt]
  have hz : (cap.map (fun _ => (0 : Int))).length = n := by simp [hc]
  have hzk : pr k (cap.map (fun _ => (0 : Int))) = 0 := pr_zero cap k
  have hl := loadProfile_lengths n cap hc ds hw
  have hrm := runMax_lengths n _ _ hz hl
  have hmf := maxFuture_lengths n _ hl
  simp only [C06.loadCaches] at hnv
  have hv := viol1_of_vec n k hk cap _ _ _ x st hc
    (getD_lengths n _ p _ hz hrm) (getD_lengths n _ p _ hz hmf) (getD_lengths n _ p _ hz hl) hx hnv
  rw [pr_getD k _ p _ hzk, pr_getD k _ p _ hzk, pr_getD k _ p _ hzk,
      map_pr_runMax n k hk _ _ hz hl, map_pr_maxFuture n k hk _ hl,
      map_pr_loadProfile n k hk cap hc ds hw, hzk] at hv
  exact cap_sound1 (pr k cap) (ds.map (prD k)) p (prD k x) (by simpa using hp)
    ((capOk_iff n cap hc ds hw).mp hok k hk) hv

/-! non-vacuity: two dimensions, an accepted and a refused insertion -/
example : capOk [10, 5] [⟨[8, 1], [0, 0], [0, 0], [0, 0]⟩] = true := by decide
example : C06.hasDemandViolation [10, 5]
    ((C06.loadCaches [0, 0] [⟨[8, 1], [0, 0], [0, 0], [0, 0]⟩]).2.1.getD 1 [0, 0])
    ((C06.loadCaches [0, 0] [⟨[8, 1], [0, 0], [0, 0], [0, 0]⟩]).2.2.getD 1 [0, 0])
    ((C06.loadCaches [0, 0] [⟨[8, 1], [0, 0], [0, 0], [0, 0]⟩]).1.getD 1 [0, 0])
    ⟨[2, 3], [0, 0], [0, 0], [0, 0]⟩ true = none := by decide
example : (C06.hasDemandViolation [10, 5]
    ((C06.loadCaches [0, 0] [⟨[8, 1], [0, 0], [0, 0], [0, 0]⟩]).2.1.getD 1 [0, 0])
    ((C06.loadCaches [0, 0] [⟨[8, 1], [0, 0], [0, 0], [0, 0]⟩]).2.2.getD 1 [0, 0])
    ((C06.loadCaches [0, 0] [⟨[8, 1], [0, 0], [0, 0], [0, 0]⟩]).1.getD 1 [0, 0])
    ⟨[2, 5], [0, 0], [0, 0], [0, 0]⟩ true).isSome = true := by decide

end C06Cap
