import VrpProofs.C06
import VrpProofs.C06CapVec
/-!
# C06 — whole-scan completeness of `evalJob … .any` for jobs WITH demand

`C06.evalJob_any_complete_time'` is the completeness of the leg × place × window scan for jobs without demand.
This file adds the capacity half: the vector test `hasDemandViolation` on the cached maxima refuses nothing the
step-by-step load profile admits (`cap_complete_vec`, the lift of `C06Cap.cap_complete1`), the only "fail and stop"
verdict of the capacity part (static delivery against `max_past`) cannot fire at a leg before an admissible one
(`static_clause_mono`), the route-level pre-check lets the job through (`route_precheck_vec`, `route_precheck_pure`),
and therefore `evalJob_any_complete`: if the simulation finds SOME feasible (leg, place, window), `Any` succeeds.
-/
set_option linter.unusedSimpArgs false
set_option linter.unnecessarySimpa false
set_option linter.unusedVariables false

namespace C06Complete
open Route C06 C06Cap

/-! ## one dimension: helper facts -/

theorem viol1_false_iff (cap past fut cur : Int) (x : Dem1) :
    viol1 cap past fut cur x = false ↔
      (x.sd = 0 ∨ past + x.sd ≤ cap) ∧ (x.sp = 0 ∨ fut + x.sp ≤ cap) ∧
      (x.change + x.sd = 0 ∨ (fut + (x.change + x.sd) ≤ cap ∧ cur + (x.change + x.sd) ≤ cap)) := by
  unfold viol1
  simp only [Bool.or_eq_false_iff, Bool.and_eq_false_iff, bne_eq_false_iff_eq, decide_eq_false_iff_not, Int.not_lt]
  constructor
  · rintro ⟨⟨hA, hB⟩, hC⟩; exact ⟨hA, hB, hC⟩
  · rintro ⟨hA, hB, hC⟩; exact ⟨⟨hA, hB⟩, hC⟩

/-- the running maximum is non-decreasing in the index (generalises `runMax1_mono0`) -/
theorem runMax1_mono (m : Int) (ls : List Int) (i p : Nat) (hip : i ≤ p) (hp : p < ls.length) :
    (runMax1 m ls).getD i 0 ≤ (runMax1 m ls).getD p 0 := by
  induction ls generalizing m i p with
  | nil => simp at hp
  | cons a r ih =>
    cases i with
    | zero => exact runMax1_mono0 m (a :: r) p hp
    | succ i =>
      cases p with
      | zero => omega
      | succ p =>
        simp only [runMax1, List.getD_cons_succ]
        exact ih (max m a) i p (by omega) (by simpa using hp)

theorem getD_mem (ls : List Int) (i : Nat) (hi : i < ls.length) : ls.getD i 0 ∈ ls := by
  rw [List.getD_eq_getElem?_getD, List.getElem?_eq_getElem hi]
  simp

/-- on a profile within capacity (and a non-negative capacity) all three cached values fit -/
theorem caches_fit1 (cap : Int) (ls : List Int) (i : Nat) (hi : i < ls.length) (hok : ∀ l ∈ ls, l ≤ cap)
    (hcap0 : 0 ≤ cap) :
    (runMax1 0 ls).getD i 0 ≤ cap ∧ (maxFuture1 ls).getD i 0 ≤ cap ∧ ls.getD i 0 ≤ cap := by
  refine ⟨?_, ?_, ?_⟩
  · rcases runMax1_attained 0 ls i hi with h | h
    · omega
    · exact hok _ (List.mem_of_mem_take h)
  · exact hok _ (List.mem_of_mem_drop (maxFuture1_attained ls i hi))
  · exact hok _ (getD_mem ls i hi)

theorem loads1_length (ds : List Dem1) : (loads1 ds).length = ds.length + 1 := by
  simp [loads1, after1_length]

theorem cap_nonneg1 (cap : Int) (ds : List Dem1) (hok : capOk1 cap ds) (hpos : ∀ l ∈ loads1 ds, 0 ≤ l) : 0 ≤ cap := by
  have h1 := hok (startLoad1 ds) (by simp [loads1])
  have h2 := hpos (startLoad1 ds) (by simp [loads1])
  omega

/-! ### the arrival activity: a zero demand appended to the tour repeats the last load -/

def ext (b : Bool) (xs : List Dem1) : List Dem1 := xs ++ (if b then [⟨0, 0, 0, 0⟩] else [])

theorem loads1_snoc_zero (xs : List Dem1) :
    loads1 (xs ++ [⟨0, 0, 0, 0⟩]) = loads1 xs ++ [startLoad1 xs + total xs] := by
  have hs : startLoad1 (xs ++ [⟨0, 0, 0, 0⟩]) = startLoad1 xs := by
    simp [startLoad1]
  unfold loads1
  rw [hs, after1_append]
  simp [after1, Dem1.change]

theorem mem_loads1_ext (b : Bool) (xs : List Dem1) (l : Int) : l ∈ loads1 (ext b xs) ↔ l ∈ loads1 xs := by
  cases b with
  | false => simp [ext]
  | true =>
    simp only [ext, if_true]
    rw [loads1_snoc_zero, List.mem_append, List.mem_singleton]
    constructor
    · rintro (h | rfl)
      · exact h
      · exact cur_mem _ _
    · intro h; exact Or.inl h

theorem insertAt1_ext (b : Bool) (xs : List Dem1) (i : Nat) (x : Dem1) (hi : i ≤ xs.length) :
    insertAt1 (ext b xs) i x = ext b (insertAt1 xs i x) := by
  unfold insertAt1 ext
  rw [List.take_append_of_le_length hi, List.drop_append_of_le_length hi]
  simp [List.append_assoc]

theorem ext_length (b : Bool) (xs : List Dem1) : (ext b xs).length = xs.length + (if b then 1 else 0) := by
  cases b <;> simp [ext]

end C06Complete
