import VrpProofs.C06
import VrpProofs.C06CapVec
/-!
# C06 — whole-scan completeness of `evalJob … .any` for jobs WITH demand

`C06.evalJob_any_complete_time'` is the completeness of the leg × place × window scan for jobs without demand.
This file adds the capacity half: the vector test `hasDemandViolation` on the cached maxima refuses nothing the
step-by-step load profile accepts (`cap_complete_vec`, the lift of `C06Cap.cap_complete1`), the only "fail and stop"
verdict of the capacity part (static delivery against `max_past`) cannot fire at a leg before an admissible one
(`static_clause_mono`), the route-level pre-check lets the job through (`route_precheck_vec`, `route_precheck_pure`),
and therefore `evalJob_any_complete`: if the simulation finds SOME feasible (leg, place, window), `Any` succeeds.
-/
set_option linter.unusedSimpArgs false
set_option linter.unnecessarySimpa false
set_option linter.unusedVariables false

namespace C06Complete
open Route C06 C06Cap

/-! ## one dimension: helper facts -/

theorem viol1_false_iff (cap past fut cur : Int) (x : Dem1) :
    viol1 cap past fut cur x = false ↔
      (x.sd = 0 ∨ past + x.sd ≤ cap) ∧ (x.sp = 0 ∨ fut + x.sp ≤ cap) ∧
      (x.change + x.sd = 0 ∨ (fut + (x.change + x.sd) ≤ cap ∧ cur + (x.change + x.sd) ≤ cap)) := by
  unfold viol1
  simp only [Bool.or_eq_false_iff, Bool.and_eq_false_iff, bne_eq_false_iff_eq, decide_eq_false_iff_not, Int.not_lt]
  constructor
  · rintro ⟨⟨hA, hB⟩, hC⟩; exact ⟨hA, hB, hC⟩
  · rintro ⟨hA, hB, hC⟩; exact ⟨⟨hA, hB⟩, hC⟩

/-- the running maximum is non-decreasing in the index (generalises `runMax1_mono0`) -/
theorem runMax1_mono (m : Int) (ls : List Int) (i p : Nat) (hip : i ≤ p) (hp : p < ls.length) :
    (runMax1 m ls).getD i 0 ≤ (runMax1 m ls).getD p 0 := by
  induction ls generalizing m i p with
  | nil => simp at hp
  | cons a r ih =>
    cases i with
    | zero => exact runMax1_mono0 m (a :: r) p hp
    | succ i =>
      cases p with
      | zero => omega
      | succ p =>
        simp only [runMax1, List.getD_cons_succ]
        exact ih (max m a) i p (by omega) (by simpa using hp)

theorem getD_mem (ls : List Int) (i : Nat) (hi : i < ls.length) : ls.getD i 0 ∈ ls := by
  rw [List.getD_eq_getElem?_getD, List.getElem?_eq_getElem hi]
  simp

/-- on a profile within capacity (and a non-negative capacity) all three cached values fit -/
theorem caches_fit1 (cap : Int) (ls : List Int) (i : Nat) (hi : i < ls.length) (hok : ∀ l ∈ ls, l ≤ cap)
    (hcap0 : 0 ≤ cap) :
    (runMax1 0 ls).getD i 0 ≤ cap ∧ (maxFuture1 ls).getD i 0 ≤ cap ∧ ls.getD i 0 ≤ cap := by
  refine ⟨?_, ?_, ?_⟩
  · rcases runMax1_attained 0 ls i hi with h | h
    · omega
    · exact hok _ (List.mem_of_mem_take h)
  · exact hok _ (List.mem_of_mem_drop (maxFuture1_attained ls i hi))
  · exact hok _ (getD_mem ls i hi)

theorem loads1_length (ds : List Dem1) : (loads1 ds).length = ds.length + 1 := by
  simp [loads1, after1_length]

theorem cap_nonneg1 (cap : Int) (ds : List Dem1) (hok : capOk1 cap ds) (hpos : ∀ l ∈ loads1 ds, 0 ≤ l) : 0 ≤ cap := by
  have h1 := hok (startLoad1 ds) (by simp [loads1])
  have h2 := hpos (startLoad1 ds) (by simp [loads1])
  omega

/-! ### the arrival activity: a zero demand appended to the tour repeats the last load -/

def ext (b : Bool) (xs : List Dem1) : List Dem1 := xs ++ (if b then [⟨0, 0, 0, 0⟩] else [])

theorem loads1_snoc_zero (xs : List Dem1) :
    loads1 (xs ++ [⟨0, 0, 0, 0⟩]) = loads1 xs ++ [startLoad1 xs + total xs] := by
  have hs : startLoad1 (xs ++ [⟨0, 0, 0, 0⟩]) = startLoad1 xs := by
    simp [startLoad1]
  unfold loads1
  rw [hs, after1_append]
  simp [after1, Dem1.change]

theorem mem_loads1_ext (b : Bool) (xs : List Dem1) (l : Int) : l ∈ loads1 (ext b xs) ↔ l ∈ loads1 xs := by
  cases b with
  | false => simp [ext]
  | true =>
    simp only [ext, if_true]
    rw [loads1_snoc_zero, List.mem_append, List.mem_singleton]
    constructor
    · rintro (h | rfl)
      · exact h
      · exact cur_mem _ _
    · intro h; exact Or.inl h

theorem insertAt1_ext (b : Bool) (xs : List Dem1) (i : Nat) (x : Dem1) (hi : i ≤ xs.length) :
    insertAt1 (ext b xs) i x = ext b (insertAt1 xs i x) := by
  unfold insertAt1 ext
  rw [List.take_append_of_le_length hi, List.drop_append_of_le_length hi]
  simp [List.append_assoc]

theorem ext_length (b : Bool) (xs : List Dem1) : (ext b xs).length = xs.length + (if b then 1 else 0) := by
  cases b <;> simp [ext]

/-! ## vectors: the verdict from its components -/

/-- the verdict of `has_demand_violation` at index `i` of a tour with demands `ds` (what `capViolationAt` computes) -/
def hdvAt (cap : List Int) (ds : List Dem) (i : Nat) (x : Dem) (st : Bool) : Option Bool :=
  hasDemandViolation cap
    ((loadCaches (cap.map (fun _ => 0)) ds).2.1.getD i (cap.map (fun _ => 0)))
    ((loadCaches (cap.map (fun _ => 0)) ds).2.2.getD i (cap.map (fun _ => 0)))
    ((loadCaches (cap.map (fun _ => 0)) ds).1.getD i (cap.map (fun _ => 0))) x st

theorem capViolationAt_some (c : Ctx) (i : Nat) (d : Dem) (st : Bool) :
    capViolationAt c i (some d) st = hdvAt c.cap c.allDems i d st := rfl

/-- a clause whose load fits does not fire -/
theorem clause_off' (g f : Bool) (hf : f = true) : (g && !f) = false := by
  cases g <;> simp [hf]

/-- **step 1 — the converse of `viol1_of_vec`**: no violation in every component, and cached values that fit the capacity
    in every component (a vector guard such as `vNotEmpty x.sd` may be on although that component of `x.sd` is 0),
    give "no violation" of the vector test. -/
theorem hdv_none_of_components (n : Nat) (cap past fut cur : List Int) (x : Dem) (st : Bool)
    (hc : cap.length = n) (hp : past.length = n) (hf : fut.length = n) (hu : cur.length = n) (hx : WF n x)
    (hfit : ∀ k, k < n → pr k past ≤ pr k cap ∧ pr k fut ≤ pr k cap ∧ pr k cur ≤ pr k cap)
    (h : ∀ k, k < n → viol1 (pr k cap) (pr k past) (pr k fut) (pr k cur) (prD k x) = false) :
    hasDemandViolation cap past fut cur x st = none := by
  obtain ⟨h1, h2, h3, h4⟩ := hx
  have hchl : x.change.length = n := change_length n x ⟨h1, h2, h3, h4⟩
  have hch : (vadd x.change x.sd).length = n := vadd_length _ _ n hchl h3
  have ech : ∀ k, k < n → pr k (vadd x.change x.sd) = (prD k x).change + (prD k x).sd := by
    intro k hk
    rw [pr_vadd _ _ n k hchl h3 hk, pr_change n k x ⟨h1, h2, h3, h4⟩ hk]
    rfl
  have esd : ∀ k, pr k x.sd = (prD k x).sd := fun _ => rfl
  have esp : ∀ k, pr k x.sp = (prD k x).sp := fun _ => rfl
  have fA : vfits cap (vadd past x.sd) = true := by
    apply (vfits_iff cap _ n hc (vadd_length _ _ n hp h3)).mpr
    intro k hk
    obtain ⟨hA, _, _⟩ := (viol1_false_iff _ _ _ _ _).mp (h k hk)
    obtain ⟨f1, _, _⟩ := hfit k hk
    rw [pr_vadd _ _ n k hp h3 hk, esd]
    rcases hA with hA | hA <;> omega
  have fB : vfits cap (vadd fut x.sp) = true := by
    apply (vfits_iff cap _ n hc (vadd_length _ _ n hf h1)).mpr
    intro k hk
    obtain ⟨_, hB, _⟩ := (viol1_false_iff _ _ _ _ _).mp (h k hk)
    obtain ⟨_, f2, _⟩ := hfit k hk
    rw [pr_vadd _ _ n k hf h1 hk, esp]
    rcases hB with hB | hB <;> omega
  have fC1 : vfits cap (vadd fut (vadd x.change x.sd)) = true := by
    apply (vfits_iff cap _ n hc (vadd_length _ _ n hf hch)).mpr
    intro k hk
    obtain ⟨_, _, hC⟩ := (viol1_false_iff _ _ _ _ _).mp (h k hk)
    obtain ⟨_, f2, _⟩ := hfit k hk
    rw [pr_vadd _ _ n k hf hch hk, ech k hk]
    rcases hC with hC | hC <;> omega
  have fC2 : vfits cap (vadd cur (vadd x.change x.sd)) = true := by
    apply (vfits_iff cap _ n hc (vadd_length _ _ n hu hch)).mpr
    intro k hk
    obtain ⟨_, _, hC⟩ := (viol1_false_iff _ _ _ _ _).mp (h k hk)
    obtain ⟨_, _, f3⟩ := hfit k hk
    rw [pr_vadd _ _ n k hu hch hk, ech k hk]
    rcases hC with hC | hC <;> omega
  rw [hdv_none_iff]
  refine ⟨clause_off' _ _ fA, clause_off' _ _ fB, ?_⟩
  rw [fC1, fC2]
  simp

/-! ### the caches at index `i`, component by component -/

section caches
variable (n k : Nat) (hk : k < n) (cap : List Int) (hc : cap.length = n) (ds : List Dem) (hw : ∀ d ∈ ds, WF n d) (i : Nat)
include hk hc hw

theorem pr_past :
    pr k ((runMax (cap.map (fun _ => 0)) (loadProfile (cap.map (fun _ => 0)) ds)).getD i (cap.map (fun _ => 0)))
      = (runMax1 0 (loads1 (ds.map (prD k)))).getD i 0 := by
  have hz : (cap.map (fun _ => (0 : Int))).length = n := by simp [hc]
  have hl := loadProfile_lengths n cap hc ds hw
  rw [pr_getD k _ i _ (pr_zero cap k), map_pr_runMax n k hk _ _ hz hl, map_pr_loadProfile n k hk cap hc ds hw,
    pr_zero cap k]

theorem pr_fut :
    pr k ((maxFuture (loadProfile (cap.map (fun _ => 0)) ds)).getD i (cap.map (fun _ => 0)))
      = (maxFuture1 (loads1 (ds.map (prD k)))).getD i 0 := by
  have hl := loadProfile_lengths n cap hc ds hw
  rw [pr_getD k _ i _ (pr_zero cap k), map_pr_maxFuture n k hk _ hl, map_pr_loadProfile n k hk cap hc ds hw]

theorem pr_cur :
    pr k ((loadProfile (cap.map (fun _ => 0)) ds).getD i (cap.map (fun _ => 0)))
      = (loads1 (ds.map (prD k))).getD i 0 := by
  rw [pr_getD k _ i _ (pr_zero cap k), map_pr_loadProfile n k hk cap hc ds hw]

end caches

section lengths
variable (n : Nat) (cap : List Int) (hc : cap.length = n) (ds : List Dem) (hw : ∀ d ∈ ds, WF n d) (i : Nat)
include hc hw

theorem past_length :
    ((runMax (cap.map (fun _ => 0)) (loadProfile (cap.map (fun _ => 0)) ds)).getD i (cap.map (fun _ => 0))).length = n := by
  have hz : (cap.map (fun _ => (0 : Int))).length = n := by simp [hc]
  have hl := loadProfile_lengths n cap hc ds hw
  exact getD_lengths n _ i _ hz (runMax_lengths n _ _ hz hl)

theorem fut_length :
    ((maxFuture (loadProfile (cap.map (fun _ => 0)) ds)).getD i (cap.map (fun _ => 0))).length = n := by
  have hz : (cap.map (fun _ => (0 : Int))).length = n := by simp [hc]
  have hl := loadProfile_lengths n cap hc ds hw
  exact getD_lengths n _ i _ hz (maxFuture_lengths n _ hl)

theorem cur_length :
    ((loadProfile (cap.map (fun _ => 0)) ds).getD i (cap.map (fun _ => 0))).length = n := by
  have hz : (cap.map (fun _ => (0 : Int))).length = n := by simp [hc]
  have hl := loadProfile_lengths n cap hc ds hw
  exact getD_lengths n _ i _ hz hl

end lengths

/-- step 1 applied to the caches of a tour: per-component "no violation" on a tour within capacity with non-negative
    loads gives the vector verdict "no violation" -/
theorem hdvAt_none (n : Nat) (cap : List Int) (ds : List Dem) (i : Nat) (x : Dem) (st : Bool)
    (hc : cap.length = n) (hw : ∀ d ∈ ds, WF n d) (hx : WF n x) (hi : i ≤ ds.length)
    (hok : ∀ k, k < n → capOk1 (pr k cap) (ds.map (prD k)))
    (hpos : ∀ k, k < n → ∀ l ∈ loads1 (ds.map (prD k)), 0 ≤ l)
    (h : ∀ k, k < n → viol1 (pr k cap) ((runMax1 0 (loads1 (ds.map (prD k)))).getD i 0)
          ((maxFuture1 (loads1 (ds.map (prD k)))).getD i 0) ((loads1 (ds.map (prD k))).getD i 0) (prD k x) = false) :
    hdvAt cap ds i x st = none := by
  unfold hdvAt
  simp only [loadCaches]
  apply hdv_none_of_components n cap _ _ _ x st hc (past_length n cap hc ds hw i) (fut_length n cap hc ds hw i)
    (cur_length n cap hc ds hw i) hx
  · intro k hk
    rw [pr_past n k hk cap hc ds hw i, pr_fut n k hk cap hc ds hw i, pr_cur n k hk cap hc ds hw i]
    apply caches_fit1 (pr k cap) _ i
    · rw [loads1_length]; simp; omega
    · exact hok k hk
    · exact cap_nonneg1 _ _ (hok k hk) (hpos k hk)
  · intro k hk
    rw [pr_past n k hk cap hc ds hw i, pr_fut n k hk cap hc ds hw i, pr_cur n k hk cap hc ds hw i]
    exact h k hk

/-! ## step 2 — completeness of the vector capacity test -/

theorem wf_insertAt (n : Nat) (ds : List Dem) (p : Nat) (x : Dem) (hw : ∀ d ∈ ds, WF n d) (hx : WF n x) :
    ∀ d ∈ insertAt ds p x, WF n d := by
  intro d hd
  simp only [insertAt, List.mem_append, List.mem_cons] at hd
  rcases hd with hd | rfl | hd
  · exact hw d (List.mem_of_mem_take hd)
  · exact hx
  · exact hw d (List.mem_of_mem_drop hd)

theorem pr_nonneg (l : List Int) (h : ∀ v ∈ l, 0 ≤ v) (k : Nat) : 0 ≤ pr k l := by
  unfold pr
  rw [List.getD_eq_getElem?_getD]
  cases hv : l[k]? with
  | none => simp
  | some x => simpa using h x (List.mem_of_getElem? hv)

/-- non-negative vector loads are non-negative in every component of the profile -/
theorem loads1_nonneg (n k : Nat) (hk : k < n) (cap : List Int) (hc : cap.length = n) (ds : List Dem)
    (hw : ∀ d ∈ ds, WF n d)
    (hpos : ∀ l ∈ loadProfile (cap.map (fun _ => 0)) ds, ∀ v ∈ l, 0 ≤ v) :
    ∀ l ∈ loads1 (ds.map (prD k)), 0 ≤ l := by
  intro l hl
  rw [← map_pr_loadProfile n k hk cap hc ds hw] at hl
  obtain ⟨v, hv, rfl⟩ := List.mem_map.mp hl
  exact pr_nonneg v (hpos v hv) k

/-- **step 2 — C06 completeness (capacity, any number of dimensions)**: if the load profile with the job inserted at `p`
    stays within capacity, the tour itself is within capacity with non-negative loads, and in every dimension the demand
    has no static pickup together with a larger dynamic delivery, then the vector test on the cached maxima reports no
    violation. With `cap_sound_vec`: the test is exact. -/
theorem cap_complete_vec (n : Nat) (cap : List Int) (ds : List Dem) (p : Nat) (x : Dem) (st : Bool)
    (hc : cap.length = n) (hw : ∀ d ∈ ds, WF n d) (hx : WF n x) (hp : p ≤ ds.length)
    (hok : capOk cap ds = true)
    (hpos : ∀ l ∈ loadProfile (cap.map (fun _ => 0)) ds, ∀ v ∈ l, 0 ≤ v)
    (hshape : ∀ k, k < n → pr k x.sp = 0 ∨ pr k x.dd ≤ pr k x.dp)
    (hins : capOk cap (insertAt ds p x) = true) :
    hasDemandViolation cap
      ((loadCaches (cap.map (fun _ => 0)) ds).2.1.getD p (cap.map (fun _ => 0)))
      ((loadCaches (cap.map (fun _ => 0)) ds).2.2.getD p (cap.map (fun _ => 0)))
      ((loadCaches (cap.map (fun _ => 0)) ds).1.getD p (cap.map (fun _ => 0))) x st = none := by
  have hok1 := (capOk_iff n cap hc ds hw).mp hok
  have hins1 := (capOk_iff n cap hc _ (wf_insertAt n ds p x hw hx)).mp hins
  apply hdvAt_none n cap ds p x st hc hw hx hp hok1 (fun k hk => loads1_nonneg n k hk cap hc ds hw hpos)
  intro k hk
  apply cap_complete1 (pr k cap) (ds.map (prD k)) p (prD k x) (by simpa using hp)
    (loads1_nonneg n k hk cap hc ds hw hpos) (hshape k hk)
  have := hins1 k hk
  rw [map_prD_insertAt] at this
  exact this

/-- the vector test is exact (sound and complete) under the hypotheses of `cap_complete_vec` -/
theorem cap_exact_vec (n : Nat) (cap : List Int) (ds : List Dem) (p : Nat) (x : Dem) (st : Bool)
    (hc : cap.length = n) (hw : ∀ d ∈ ds, WF n d) (hx : WF n x) (hp : p ≤ ds.length)
    (hok : capOk cap ds = true)
    (hpos : ∀ l ∈ loadProfile (cap.map (fun _ => 0)) ds, ∀ v ∈ l, 0 ≤ v)
    (hshape : ∀ k, k < n → pr k x.sp = 0 ∨ pr k x.dd ≤ pr k x.dp) :
    hdvAt cap ds p x st = none ↔ capOk cap (insertAt ds p x) = true :=
  ⟨cap_sound_vec n cap ds p x st hc hw hx hp hok, cap_complete_vec n cap ds p x st hc hw hx hp hok hpos hshape⟩

/-! ## step 3 — the "fail and stop" verdict of the capacity part is monotone in the leg -/

/-- the only stopping verdict of `has_demand_violation` is the static-delivery clause -/
theorem hdv_ne_some_true (cap past fut cur : List Int) (x : Dem)
    (hA : (vNotEmpty x.sd && !vfits cap (vadd past x.sd)) = false) :
    hasDemandViolation cap past fut cur x true ≠ some true := by
  intro h
  unfold hasDemandViolation at h
  rw [hA] at h
  simp only [Bool.false_eq_true, if_false] at h
  split at h
  · cases h
  · split at h <;> cases h

/-- **step 3**: if the job is admissible at index `p`, the static-delivery clause (the only verdict that stops the scan)
    does not fire at any index `i ≤ p`: `max_past` is non-decreasing along the tour. -/
theorem static_clause_mono (n : Nat) (cap : List Int) (ds : List Dem) (i p : Nat) (x : Dem)
    (hc : cap.length = n) (hw : ∀ d ∈ ds, WF n d) (hx : WF n x) (hip : i ≤ p) (hp : p ≤ ds.length)
    (h : hdvAt cap ds p x true = none) :
    hdvAt cap ds i x true ≠ some true := by
  unfold hdvAt at h ⊢
  simp only [loadCaches] at h ⊢
  apply hdv_ne_some_true
  obtain ⟨cA, _, _⟩ := (hdv_none_iff _ _ _ _ _ _).mp h
  cases hne : vNotEmpty x.sd with
  | false => simp
  | true =>
    have hfit := clause_off _ _ cA hne
    apply clause_off'
    have hsd : x.sd.length = n := hx.2.2.1
    have hP := (vfits_iff cap _ n hc (vadd_length _ _ n (past_length n cap hc ds hw p) hsd)).mp hfit
    apply (vfits_iff cap _ n hc (vadd_length _ _ n (past_length n cap hc ds hw i) hsd)).mpr
    intro k hk
    have := hP k hk
    rw [pr_vadd _ _ n k (past_length n cap hc ds hw p) hsd hk, pr_past n k hk cap hc ds hw p] at this
    rw [pr_vadd _ _ n k (past_length n cap hc ds hw i) hsd hk, pr_past n k hk cap hc ds hw i]
    have hm := runMax1_mono 0 (loads1 (ds.map (prD k))) i p hip (by rw [loads1_length]; simp; omega)
    omega

/-! ## step 5 (capacity half) — the route-level pre-check is necessary, vector form -/

theorem wf_zero_parts (n : Nat) (cap : List Int) (hc : cap.length = n) (x : Dem) (hx : WF n x) :
    WF n { sp := cap.map (fun _ => 0), dp := cap.map (fun _ => 0), sd := x.sd, dd := cap.map (fun _ => 0) } ∧
    WF n { sp := x.sp, dp := x.dp, sd := cap.map (fun _ => 0), dd := x.dd } := by
  obtain ⟨h1, h2, h3, h4⟩ := hx
  have hz : (cap.map (fun _ => (0 : Int))).length = n := by simp [hc]
  exact ⟨⟨hz, hz, h3, hz⟩, ⟨h1, h2, hz, h4⟩⟩

/-- an admissible index somewhere (per component) implies that the static delivery part passes at the start and the
    rest passes at the end — the mixed branch of the route-level test (vector lift of `route_precheck_necessary`) -/
theorem route_precheck_vec (n : Nat) (cap : List Int) (ds : List Dem) (p : Nat) (x : Dem)
    (hc : cap.length = n) (hw : ∀ d ∈ ds, WF n d) (hx : WF n x) (hp : p ≤ ds.length)
    (hok : ∀ k, k < n → capOk1 (pr k cap) (ds.map (prD k)))
    (hpos : ∀ k, k < n → ∀ l ∈ loads1 (ds.map (prD k)), 0 ≤ l)
    (h : ∀ k, k < n → viol1 (pr k cap) ((runMax1 0 (loads1 (ds.map (prD k)))).getD p 0)
          ((maxFuture1 (loads1 (ds.map (prD k)))).getD p 0) ((loads1 (ds.map (prD k))).getD p 0) (prD k x) = false) :
    hdvAt cap ds 0
      { sp := cap.map (fun _ => 0), dp := cap.map (fun _ => 0), sd := x.sd, dd := cap.map (fun _ => 0) } true = none ∧
    hdvAt cap ds ds.length
      { sp := x.sp, dp := x.dp, sd := cap.map (fun _ => 0), dd := x.dd } true = none := by
  obtain ⟨hwA, hwB⟩ := wf_zero_parts n cap hc x hx
  constructor
  · apply hdvAt_none n cap ds 0 _ true hc hw hwA (by omega) hok hpos
    intro k hk
    have := (route_precheck_necessary (pr k cap) (ds.map (prD k)) p (prD k x) (by simpa using hp) (h k hk)).1
    have e : prD k { sp := cap.map (fun _ => 0), dp := cap.map (fun _ => 0), sd := x.sd, dd := cap.map (fun _ => 0) }
        = ⟨0, 0, (prD k x).sd, 0⟩ := by
      simp only [prD, pr_zero]
    rw [e]
    exact this
  · apply hdvAt_none n cap ds ds.length _ true hc hw hwB (by omega) hok hpos
    intro k hk
    have := (route_precheck_necessary (pr k cap) (ds.map (prD k)) p (prD k x) (by simpa using hp) (h k hk)).2
    have e : prD k { sp := x.sp, dp := x.dp, sd := cap.map (fun _ => 0), dd := x.dd }
        = ⟨(prD k x).sp, (prD k x).dp, 0, (prD k x).dd⟩ := by
      simp only [prD, pr_zero]
    rw [e]
    rw [List.length_map] at this
    exact this

/-- the non-mixed branch: a pure static delivery passes at the start, a demand without static delivery passes at the end -/
theorem route_precheck_pure (n : Nat) (cap : List Int) (ds : List Dem) (p : Nat) (x : Dem)
    (hc : cap.length = n) (hw : ∀ d ∈ ds, WF n d) (hx : WF n x) (hp : p ≤ ds.length)
    (hok : ∀ k, k < n → capOk1 (pr k cap) (ds.map (prD k)))
    (hpos : ∀ k, k < n → ∀ l ∈ loads1 (ds.map (prD k)), 0 ≤ l)
    (h : ∀ k, k < n → viol1 (pr k cap) ((runMax1 0 (loads1 (ds.map (prD k)))).getD p 0)
          ((maxFuture1 (loads1 (ds.map (prD k)))).getD p 0) ((loads1 (ds.map (prD k))).getD p 0) (prD k x) = false)
    (hpure : (vNotEmpty x.sd && (vNotEmpty x.sp || vNotEmpty x.dp || vNotEmpty x.dd)) = false) :
    hdvAt cap ds 0 x true = none ∨ hdvAt cap ds ds.length x true = none := by
  cases hsd : vNotEmpty x.sd with
  | false =>
    right
    apply hdvAt_none n cap ds ds.length x true hc hw hx (by omega) hok hpos
    intro k hk
    have := (route_precheck_necessary (pr k cap) (ds.map (prD k)) p (prD k x) (by simpa using hp) (h k hk)).2
    have e : prD k x = ⟨(prD k x).sp, (prD k x).dp, 0, (prD k x).dd⟩ := by
      simp only [prD, vNotEmpty_false x.sd hsd k]
    rw [e]
    rw [List.length_map] at this
    exact this
  | true =>
    left
    rw [hsd] at hpure
    simp only [Bool.true_and, Bool.or_eq_false_iff] at hpure
    obtain ⟨⟨hsp, hdp⟩, hdd⟩ := hpure
    apply hdvAt_none n cap ds 0 x true hc hw hx (by omega) hok hpos
    intro k hk
    have := (route_precheck_necessary (pr k cap) (ds.map (prD k)) p (prD k x) (by simpa using hp) (h k hk)).1
    have e : prD k x = ⟨0, 0, (prD k x).sd, 0⟩ := by
      simp only [prD, vNotEmpty_false x.sp hsp k, vNotEmpty_false x.dp hdp k, vNotEmpty_false x.dd hdd k]
    rw [e]
    exact this

/-! ## step 4 — the evaluator's caches include the arrival activity (`allDems`), the specification does not (`dems`) -/

theorem map_prD_allDems (c : Ctx) (k : Nat) :
    c.allDems.map (prD k) = ext c.veh.endAt.isSome (c.dems.map (prD k)) := by
  unfold Ctx.allDems ext
  rw [List.map_append]
  cases c.veh.endAt.isSome with
  | false => simp
  | true =>
    simp only [if_true, List.map_cons, List.map_nil]
    have : prD k (demOr c.zero none) = ⟨0, 0, 0, 0⟩ := by
      simp only [demOr, Option.getD_none, prD, Ctx.zero, pr_zero]
    rw [this]

theorem allDems_length (c : Ctx) :
    c.allDems.length = c.tour.length + (if c.veh.endAt.isSome then 1 else 0) := by
  unfold Ctx.allDems Ctx.dems
  cases c.veh.endAt.isSome <;> simp

theorem wf_allDems (c : Ctx) (n : Nat) (hcap : c.cap.length = n) (hwf : ∀ x ∈ c.dems, WF n x) :
    ∀ x ∈ c.allDems, WF n x := by
  intro x hx
  unfold Ctx.allDems at hx
  rcases List.mem_append.mp hx with h | h
  · exact hwf x h
  · have hz : c.zero.length = n := by simp [Ctx.zero, hcap]
    cases hb : c.veh.endAt.isSome with
    | false => rw [hb] at h; simp at h
    | true =>
      rw [hb] at h
      simp only [if_true, List.mem_singleton] at h
      subst h
      exact ⟨hz, hz, hz, hz⟩

/-- everything the capacity part needs, per component, about the tour INCLUDING the arrival activity, from hypotheses on
    the tour without it: within capacity, non-negative loads, and the one-dimensional verdict at the feasible index -/
theorem allDems_components (c : Ctx) (d : Dem) (n : Nat)
    (hcap : c.cap.length = n) (hwf : ∀ x ∈ c.dems, WF n x) (hwd : WF n d)
    (hbasecap : capOk c.cap c.dems = true)
    (hnonneg : ∀ l ∈ loadProfile c.zero c.dems, ∀ v ∈ l, 0 ≤ v)
    (hshape : ∀ k, k < n → pr k d.sp = 0 ∨ pr k d.dd ≤ pr k d.dp)
    (i : Nat) (hi : i ≤ c.dems.length)
    (hfeas_cap : capOk c.cap (insertAt c.dems i d) = true) :
    (∀ k, k < n → capOk1 (pr k c.cap) (c.allDems.map (prD k))) ∧
    (∀ k, k < n → ∀ l ∈ loads1 (c.allDems.map (prD k)), 0 ≤ l) ∧
    (∀ k, k < n → viol1 (pr k c.cap) ((runMax1 0 (loads1 (c.allDems.map (prD k)))).getD i 0)
        ((maxFuture1 (loads1 (c.allDems.map (prD k)))).getD i 0) ((loads1 (c.allDems.map (prD k))).getD i 0)
        (prD k d) = false) := by
  have hok1 := (capOk_iff n c.cap hcap c.dems hwf).mp hbasecap
  have hins1 := (capOk_iff n c.cap hcap _ (wf_insertAt n c.dems i d hwf hwd)).mp hfeas_cap
  have hpos1 : ∀ k, k < n → ∀ l ∈ loads1 (c.dems.map (prD k)), 0 ≤ l :=
    fun k hk => loads1_nonneg n k hk c.cap hcap c.dems hwf hnonneg
  have hA : ∀ k, k < n → capOk1 (pr k c.cap) (c.allDems.map (prD k)) := by
    intro k hk l hl
    rw [map_prD_allDems, mem_loads1_ext] at hl
    exact hok1 k hk l hl
  have hB : ∀ k, k < n → ∀ l ∈ loads1 (c.allDems.map (prD k)), 0 ≤ l := by
    intro k hk l hl
    rw [map_prD_allDems, mem_loads1_ext] at hl
    exact hpos1 k hk l hl
  refine ⟨hA, hB, ?_⟩
  intro k hk
  have hi' : i ≤ (c.dems.map (prD k)).length := by simpa using hi
  have hiA : i ≤ (c.allDems.map (prD k)).length := by
    rw [map_prD_allDems, ext_length]; omega
  apply cap_complete1 (pr k c.cap) (c.allDems.map (prD k)) i (prD k d) hiA (hB k hk) (hshape k hk)
  intro l hl
  rw [map_prD_allDems, insertAt1_ext _ _ _ _ hi', mem_loads1_ext] at hl
  have := hins1 k hk
  rw [map_prD_insertAt] at this
  exact this l hl

/-! ### `evalActivity` from its two halves -/

theorem evalActivity_ne_fail (c : Ctx) (i : Nat) (x : Act) (dem : Option Dem)
    (htime : evalTime c.m.t c.veh c.acts i x ≠ .fail)
    (hcap : capViolationAt c i dem true ≠ some true) :
    evalActivity c i x dem ≠ .fail := by
  unfold evalActivity
  split
  · rename_i h; exact absurd h htime
  · intro h; cases h
  · split
    · rename_i h; exact absurd h hcap
    · intro h; cases h
    · intro h; cases h

theorem evalActivity_ok (c : Ctx) (i : Nat) (x : Act) (dem : Option Dem)
    (htime : evalTime c.m.t c.veh c.acts i x = .ok)
    (hcap : capViolationAt c i dem true = none) :
    evalActivity c i x dem = .ok := by
  unfold evalActivity
  rw [htime]
  simp only
  rw [hcap]

/-! ## step 5 (time half) — the route-level time test lets the job through -/

theorem timeOk_of_evalTime_ok (c : Ctx) (j : JobS)
    (ht : ∀ a b, 0 ≤ c.m.t a b) (hd : ∀ a ∈ c.acts, 0 ≤ a.dur)
    (hearly : c.veh.earliest ≤ c.veh.dep)
    (i : Nat) (p : JPlace) (hp : p ∈ j.places) (w : Int × Int) (hw : w ∈ p.tws)
    (hok : evalTime c.m.t c.veh c.acts i { loc := p.loc, s := w.1, e := w.2, dur := p.dur } = .ok) :
    j.places.any (fun p => p.tws.any (fun w =>
      (match c.veh.endAt with
        | some (_, T) => decide (w.1 ≤ T)
        | none => true) && decide (c.veh.earliest ≤ w.2))) = true := by
  obtain ⟨_, hlate, hcore⟩ := (evalTime_ok_iff c.m.t c.veh c.acts i _).mp hok
  have hge := after_snd_ge c.m.t ht (c.acts.take i) (fun a ha => hd a (List.mem_of_mem_take ha)) c.veh.startLoc c.veh.dep
  have htp := ht (after c.m.t (c.acts.take i) c.veh.startLoc c.veh.dep).1 p.loc
  have harr : (after c.m.t (c.acts.take i) c.veh.startLoc c.veh.dep).2 +
      c.m.t (after c.m.t (c.acts.take i) c.veh.startLoc c.veh.dep).1 p.loc ≤ w.2 := by
    unfold evalTimeCore at hcore
    split at hcore
    · simp only at hcore
      split at hcore
      · cases hcore
      · omega
    · simp only at hcore
      split at hcore
      · cases hcore
      · split at hcore
        · cases hcore
        · split at hcore
          · cases hcore
          · rename_i h3
            omega
  apply List.any_eq_true.mpr
  refine ⟨p, hp, List.any_eq_true.mpr ⟨w, hw, ?_⟩⟩
  simp only [Bool.and_eq_true, decide_eq_true_eq]
  constructor
  · unfold tooLate at hlate
    cases he : c.veh.endAt with
    | none => simp
    | some q =>
      simp only [he] at hlate ⊢
      simpa using hlate
  · omega

/-- **step 5 — the route-level test lets through every job with demand that has a feasible placement** -/
theorem evalRoute_of_feasible (c : Ctx) (j : JobS) (d : Dem) (hdem : j.dem = some d) (n : Nat)
    (hcap : c.cap.length = n) (hwf : ∀ x ∈ c.dems, WF n x) (hwd : WF n d)
    (ht : ∀ a b, 0 ≤ c.m.t a b) (hd : ∀ a ∈ c.acts, 0 ≤ a.dur)
    (hearly : c.veh.earliest ≤ c.veh.dep)
    (hbasecap : capOk c.cap c.dems = true)
    (hnonneg : ∀ l ∈ loadProfile c.zero c.dems, ∀ v ∈ l, 0 ≤ v)
    (hshape : ∀ k, k < n → pr k d.sp = 0 ∨ pr k d.dd ≤ pr k d.dp)
    (i : Nat) (hi : i ≤ c.acts.length) (p : JPlace) (hp : p ∈ j.places) (w : Int × Int) (hw : w ∈ p.tws)
    (hok : evalTime c.m.t c.veh c.acts i { loc := p.loc, s := w.1, e := w.2, dur := p.dur } = .ok)
    (hfeas_cap : capOk c.cap (insertAt c.dems i d) = true) :
    evalRoute c j = true := by
  have hlenD : c.dems.length = c.acts.length := by simp [Ctx.dems, Ctx.acts]
  have hlenT : c.acts.length = c.tour.length := by simp [Ctx.acts]
  obtain ⟨hA, hB, hV⟩ := allDems_components c d n hcap hwf hwd hbasecap hnonneg hshape i (by omega) hfeas_cap
  have hwA := wf_allDems c n hcap hwf
  have hiA : i ≤ c.allDems.length := by rw [allDems_length]; omega
  have htime := timeOk_of_evalTime_ok c j ht hd hearly i p hp w hw hok
  unfold evalRoute
  simp only [hdem, Bool.and_eq_true]
  refine ⟨htime, ?_⟩
  rw [← allDems_length]
  simp only [capViolationAt_some]
  split
  · obtain ⟨h1, h2⟩ := route_precheck_vec n c.cap c.allDems i d hcap hwA hwd hiA hA hB hV
    simp only [Bool.and_eq_true, Option.isNone_iff_eq_none]
    exact ⟨h1, h2⟩
  · rename_i hpure
    have hpure' : (vNotEmpty d.sd && (vNotEmpty d.sp || vNotEmpty d.dp || vNotEmpty d.dd)) = false := by
      simpa using hpure
    simp only [Bool.or_eq_true, Option.isNone_iff_eq_none]
    exact route_precheck_pure n c.cap c.allDems i d hcap hwA hwd hiA hA hB hV hpure'

/-! ## step 6 — the scan: "fail and stop" only matters BEFORE the feasible leg -/

/-- scanning the consecutive legs `s, s+1, …, s+len-1`: if no leg up to `i` answers "fail" and leg `i` accepts some place
    and window, a best placement exists at the end (legs after `i` may stop the scan: the best found so far is kept) -/
theorem scanLegs_finds_upto (c : Ctx) (j : JobS) (len s : Nat) (sc : Scan) (i : Nat)
    (hs : s ≤ i) (hlt : i < s + len)
    (hnf : ∀ k, s ≤ k → k ≤ i → NoFailAt c j k)
    (p : JPlace) (hp : p ∈ j.places) (w : Int × Int) (hw : w ∈ p.tws)
    (hok : evalActivity c i { loc := p.loc, s := w.1, e := w.2, dur := p.dur } j.dem = .ok) :
    (scanLegs c j (List.range' s len) sc).best.isSome = true := by
  induction len generalizing s sc with
  | zero => omega
  | succ len ih =>
    rw [List.range'_succ]
    simp only [scanLegs]
    have hns := scanPlaces_no_stop c j s j.places 0 sc (hnf s (by omega) hs)
    cases hsp : scanPlaces c j s j.places 0 sc with
    | mk sc' stop =>
      rw [hsp] at hns
      simp only at hns
      subst hns
      simp only
      by_cases hsi : s = i
      · subst hsi
        have := scanPlaces_finds c j s j.places 0 sc (hnf s (by omega) (by omega)) p hp w hw hok
        rw [hsp] at this
        exact scanLegs_best_mono c j _ sc' this
      · exact ih (s + 1) sc' (by omega) (by omega) (fun k h1 h2 => hnf k (by omega) h2)

/-! ## steps 3 and 4 at the level of the evaluator -/

/-- **step 4 (capacity)**: at a leg where the simulated load profile with the job inserted stays within capacity the
    evaluator's capacity test (on the caches of the tour INCLUDING the arrival activity) reports no violation -/
theorem capViolationAt_none_of_feasible (c : Ctx) (d : Dem) (n : Nat)
    (hcap : c.cap.length = n) (hwf : ∀ x ∈ c.dems, WF n x) (hwd : WF n d)
    (hbasecap : capOk c.cap c.dems = true)
    (hnonneg : ∀ l ∈ loadProfile c.zero c.dems, ∀ v ∈ l, 0 ≤ v)
    (hshape : ∀ k, k < n → pr k d.sp = 0 ∨ pr k d.dd ≤ pr k d.dp)
    (i : Nat) (hi : i ≤ c.acts.length)
    (hfeas_cap : capOk c.cap (insertAt c.dems i d) = true) :
    capViolationAt c i (some d) true = none := by
  have hlenD : c.dems.length = c.acts.length := by simp [Ctx.dems, Ctx.acts]
  have hlenT : c.acts.length = c.tour.length := by simp [Ctx.acts]
  obtain ⟨hA, hB, hV⟩ := allDems_components c d n hcap hwf hwd hbasecap hnonneg hshape i (by omega) hfeas_cap
  have hiA : i ≤ c.allDems.length := by rw [allDems_length]; omega
  rw [capViolationAt_some]
  exact hdvAt_none n c.cap c.allDems i d true hcap (wf_allDems c n hcap hwf) hwd hiA hA hB hV

/-- **step 4**: the evaluator accepts the feasible (leg, place, window) -/
theorem evalActivity_ok_of_feasible (c : Ctx) (d : Dem) (n : Nat)
    (hcap : c.cap.length = n) (hwf : ∀ x ∈ c.dems, WF n x) (hwd : WF n d)
    (ht : ∀ a b, 0 ≤ c.m.t a b) (hd : ∀ a ∈ c.acts, 0 ≤ a.dur)
    (hdep : 0 ≤ c.veh.dep) (hearly : c.veh.earliest ≤ c.veh.dep)
    (hbase : tourFeas c.m.t c.veh c.acts = true) (hbasecap : capOk c.cap c.dems = true)
    (hnonneg : ∀ l ∈ loadProfile c.zero c.dems, ∀ v ∈ l, 0 ≤ v)
    (hshape : ∀ k, k < n → pr k d.sp = 0 ∨ pr k d.dd ≤ pr k d.dp)
    (i : Nat) (hi : i ≤ c.acts.length) (x : Act) (hxd : 0 ≤ x.dur) (hxw : x.s ≤ x.e)
    (hfeas_time : tourFeas c.m.t c.veh (insertAt c.acts i x) = true)
    (hfeas_cap : capOk c.cap (insertAt c.dems i d) = true) :
    evalActivity c i x (some d) = .ok :=
  evalActivity_ok c i x _ (evalTime_complete c.m.t ht c.veh c.acts i x hi hd hxd hxw hdep hearly hbase hfeas_time)
    (capViolationAt_none_of_feasible c d n hcap hwf hwd hbasecap hnonneg hshape i hi hfeas_cap)

/-- **step 3**: if the capacity test accepts the demand at leg `i`, then at no leg `k ≤ i` the evaluator answers "fail and
    stop" - whatever the place and window (the demand belongs to the job, not to the place) -/
theorem evalActivity_never_stops_before (c : Ctx) (d : Dem) (n : Nat)
    (hcap : c.cap.length = n) (hwf : ∀ x ∈ c.dems, WF n x) (hwd : WF n d)
    (ht : ∀ a b, 0 ≤ c.m.t a b) (hd : ∀ a ∈ c.acts, 0 ≤ a.dur)
    (hdep : 0 ≤ c.veh.dep) (hearly : c.veh.earliest ≤ c.veh.dep)
    (hbase : tourFeas c.m.t c.veh c.acts = true)
    (i : Nat) (hi : i ≤ c.acts.length) (hnone : capViolationAt c i (some d) true = none)
    (k : Nat) (hk : k ≤ i) (x : Act) :
    evalActivity c k x (some d) ≠ .fail := by
  have hlenT : c.acts.length = c.tour.length := by simp [Ctx.acts]
  have hiA : i ≤ c.allDems.length := by rw [allDems_length]; omega
  apply evalActivity_ne_fail
  · exact evalTime_never_stops c.m.t ht c.veh c.acts k x (by omega) hd hdep hearly hbase
  · rw [capViolationAt_some] at hnone ⊢
    exact static_clause_mono n c.cap c.allDems k i d hcap (wf_allDems c n hcap hwf) hwd hk hiA hnone

/-! ## the theorem -/

/-- **C06 completeness of `Any` for jobs with demand** (time windows and capacity together): on a feasible tour with
    non-negative travel times, service durations and loads, for a demand that in every dimension has no static pickup or
    a dynamic delivery not above its dynamic pickup (every shape the readers produce): if the step-by-step simulation
    finds the tour with the job inserted at SOME leg, place and window feasible - in time AND in load - then
    `eval_job_insertion_in_route(Any)` (model) succeeds. Every hypothesis is about the inputs (the tour, the vehicle, the
    job and the specification functions `tourFeas`, `capOk`, `loadProfile`), none about internal values of the model. -/
theorem evalJob_any_complete (c : Ctx) (j : JobS) (d : Dem) (hdem : j.dem = some d) (n : Nat)
    (hcap : c.cap.length = n) (hwf : ∀ x ∈ c.dems, WF n x) (hwd : WF n d)
    (ht : ∀ a b, 0 ≤ c.m.t a b) (hd : ∀ a ∈ c.acts, 0 ≤ a.dur)
    (hdep : 0 ≤ c.veh.dep) (hearly : c.veh.earliest ≤ c.veh.dep)
    (hbase : tourFeas c.m.t c.veh c.acts = true) (hbasecap : capOk c.cap c.dems = true)
    (hnonneg : ∀ l ∈ loadProfile c.zero c.dems, ∀ v ∈ l, 0 ≤ v)
    (hshape : ∀ k, k < n → pr k d.sp = 0 ∨ pr k d.dd ≤ pr k d.dp)
    (i : Nat) (hi : i ≤ c.acts.length) (p : JPlace) (hp : p ∈ j.places) (w : Int × Int) (hw : w ∈ p.tws)
    (hpd : 0 ≤ p.dur) (hww : w.1 ≤ w.2)
    (hfeas_time : tourFeas c.m.t c.veh (insertAt c.acts i { loc := p.loc, s := w.1, e := w.2, dur := p.dur }) = true)
    (hfeas_cap : capOk c.cap (insertAt c.dems i d) = true) :
    (evalJob c j .any).isSome = true := by
  have hlenT : c.acts.length = c.tour.length := by simp [Ctx.acts]
  have hlegs : legCount c = c.tour.length + 1 := by unfold legCount; split <;> rfl
  have htimeOk := evalTime_complete c.m.t ht c.veh c.acts i _ hi hd hpd hww hdep hearly hbase hfeas_time
  have hroute := evalRoute_of_feasible c j d hdem n hcap hwf hwd ht hd hearly hbasecap hnonneg hshape i hi p hp w hw
    htimeOk hfeas_cap
  have hnone := capViolationAt_none_of_feasible c d n hcap hwf hwd hbasecap hnonneg hshape i hi hfeas_cap
  unfold evalJob
  simp only [hroute, Bool.not_true, Bool.false_eq_true, if_false]
  rw [List.range_eq_range', hlegs]
  apply scanLegs_finds_upto c j (c.tour.length + 1) 0 {} i (by omega) (by omega) ?_ p hp w hw ?_
  · -- "fail and stop" is unreachable at every leg up to the feasible one
    intro k _ hk p' _ w' _
    rw [hdem]
    exact evalActivity_never_stops_before c d n hcap hwf hwd ht hd hdep hearly hbase i hi hnone k hk _
  · rw [hdem]
    exact evalActivity_ok c i _ _ htimeOk hnone

/-- **C06 completeness of `Any` against the brute-force specification**, jobs with or without demand: whenever
    `existsFeasible` (insert at every leg × place × window, simulate schedule and load profile step by step) finds a feasible
    tour, the evaluator model returns a placement. -/
theorem evalJob_any_complete_spec (c : Ctx) (j : JobS) (n : Nat)
    (hcap : c.cap.length = n) (hwf : ∀ x ∈ c.dems, WF n x)
    (hjd : ∀ d, j.dem = some d → WF n d ∧ ∀ k, k < n → pr k d.sp = 0 ∨ pr k d.dd ≤ pr k d.dp)
    (ht : ∀ a b, 0 ≤ c.m.t a b) (hd : ∀ a ∈ c.acts, 0 ≤ a.dur)
    (hdep : 0 ≤ c.veh.dep) (hearly : c.veh.earliest ≤ c.veh.dep)
    (hbase : baseFeasible c = true)
    (hnonneg : ∀ l ∈ loadProfile c.zero c.dems, ∀ v ∈ l, 0 ≤ v)
    (hplaces : ∀ p ∈ j.places, 0 ≤ p.dur ∧ ∀ w ∈ p.tws, w.1 ≤ w.2)
    (hex : existsFeasible c j = true) :
    (evalJob c j .any).isSome = true := by
  unfold baseFeasible at hbase
  rw [Bool.and_eq_true] at hbase
  obtain ⟨hbt, hbc⟩ := hbase
  have hlegs : legCount c = c.tour.length + 1 := by unfold legCount; split <;> rfl
  have hlenT : c.acts.length = c.tour.length := by simp [Ctx.acts]
  unfold existsFeasible at hex
  obtain ⟨i, hi, h⟩ := List.any_eq_true.mp hex
  have hi' : i ≤ c.acts.length := by
    have := List.mem_range.mp hi
    omega
  obtain ⟨pi, _, h⟩ := List.any_eq_true.mp h
  split at h
  · cases h
  · rename_i p hpi
    obtain ⟨w, hw, h⟩ := List.any_eq_true.mp h
    have hp : p ∈ j.places := List.mem_of_getElem? hpi
    unfold insertedFeasible at h
    rw [hpi] at h
    simp only [Bool.and_eq_true] at h
    obtain ⟨hft, hfc⟩ := h
    obtain ⟨hpd, hws⟩ := hplaces p hp
    cases hdem : j.dem with
    | none =>
      exact evalJob_any_complete_time' c j hdem ht hd hdep hearly hbt i hi' p hp w hw hpd (hws w hw) hft
    | some d =>
      rw [hdem] at hfc
      obtain ⟨hwd, hshape⟩ := hjd d hdem
      exact evalJob_any_complete c j d hdem n hcap hwf hwd ht hd hdep hearly hbt hbc hnonneg hshape i hi' p hp w hw
        hpd (hws w hw) hft hfc

/-! ## step 7 — non-vacuity: two capacity dimensions, a demand with static delivery and dynamic pickup

Tour (closed, shift end 100, capacity `[10, 5]`): A picks up `[8, 1]` (dynamic), B delivers it: loads `[0,0] [8,1] [0,0]`.
Place of the job: location 1 with the windows `(0,3)` (unreachable: refused by time) and `(0,90)`. -/

def exM : Mat := { n := 3, dur := [0, 5, 5, 5, 0, 5, 5, 5, 0], dist := [0, 5, 5, 5, 0, 5, 5, 5, 0] }
def exC : Ctx :=
  { m := exM, veh := { startLoc := 0, earliest := 0, dep := 0, endAt := some (0, 100) }, cap := [10, 5],
    costs := ⟨0, 1, 1⟩, obj := .distance,
    tour := [⟨{ loc := 1, s := 0, e := 50, dur := 2 }, some ⟨[0, 0], [8, 1], [0, 0], [0, 0]⟩⟩,
             ⟨{ loc := 2, s := 0, e := 60, dur := 1 }, some ⟨[0, 0], [0, 0], [0, 0], [8, 1]⟩⟩] }
def exP : JPlace := { loc := 1, dur := 1, tws := [(0, 3), (0, 90)] }
/-- static delivery `[2,0]` + dynamic pickup `[3,2]`: capacity refuses legs 0 and 1 ("skip"), accepts leg 2 -/
def exD1 : Dem := ⟨[0, 0], [3, 2], [2, 0], [0, 0]⟩
def exJ1 : JobS := { places := [exP], dem := some exD1 }
/-- static delivery `[3,0]` + dynamic pickup `[3,2]`: passes the route-level pre-check, but fits nowhere -/
def exD2 : Dem := ⟨[0, 0], [3, 2], [3, 0], [0, 0]⟩
def exJ2 : JobS := { places := [exP], dem := some exD2 }

instance (n : Nat) (d : Dem) : Decidable (WF n d) := by unfold WF; infer_instance

theorem exM_nonneg : ∀ a b, 0 ≤ exC.m.t a b := fun a b => pr_nonneg exM.dur (by decide) (a * exM.n + b)

-- the capacity verdicts leg by leg: J1 is skipped twice and then accepted, J2 is skipped and then stopped
example : (List.range 3).map (fun i => capViolationAt exC i exJ1.dem true) = [some false, some false, none] := by decide
example : (List.range 3).map (fun i => capViolationAt exC i exJ2.dem true) = [some false, some true, some true] := by
  decide

/-- all hypotheses of `evalJob_any_complete` hold for `exC`, `exJ1` (leg 2, second window): the theorem is not vacuous -/
example : (evalJob exC exJ1 .any).isSome = true :=
  evalJob_any_complete exC exJ1 exD1 rfl 2 rfl (by decide) (by decide) exM_nonneg (by decide) (by decide) (by decide)
    (by decide) (by decide) (by decide) (by decide) 2 (by decide) exP (by show exP ∈ [exP]; simp) (0, 90) (by decide) (by decide)
    (by decide) (by decide) (by decide)
-- … and the model indeed reports leg 2 with the second window
example : (evalJob exC exJ1 .any).map (fun f => (f.index, f.place, f.tw)) = some (2, 0, (0, 90)) := by decide
-- through the brute-force specification
example : (evalJob exC exJ1 .any).isSome = true :=
  evalJob_any_complete_spec exC exJ1 2 rfl (by decide)
    (by intro d hd; cases hd; exact ⟨by decide, by decide⟩)
    exM_nonneg (by decide) (by decide) (by decide) (by decide) (by decide) (by decide) (by decide)

-- capacity refuses J2 everywhere although the route-level test lets it through and the time part alone would accept
-- it: the conclusion fails exactly because `hfeas_cap` has no witness (the specification agrees)
example : evalRoute exC exJ2 = true ∧ evalJob exC exJ2 .any = none ∧ existsFeasible exC exJ2 = false ∧
    (evalJob exC { exJ2 with dem := none } .any).isSome = true := by decide

/-! ### the two capacity hypotheses are needed (one dimension, capacity 10, one tour activity with demand `d`) -/

def exC1 (d : Dem) : Ctx :=
  { m := exM, veh := { startLoc := 0, earliest := 0, dep := 0, endAt := some (0, 100) }, cap := [10],
    costs := ⟨0, 1, 1⟩, obj := .distance,
    tour := [⟨{ loc := 1, s := 0, e := 50, dur := 2 }, some d⟩] }

-- `hshape`: a static pickup of 3 together with a dynamic delivery of 3 after a static pickup of 8 keeps the load at 8
-- (feasible for the simulation), the evaluator adds the static pickup to `max_future` and refuses everywhere
example : baseFeasible (exC1 ⟨[8], [0], [0], [0]⟩) = true ∧
    existsFeasible (exC1 ⟨[8], [0], [0], [0]⟩) { places := [exP], dem := some ⟨[3], [0], [0], [3]⟩ } = true ∧
    evalJob (exC1 ⟨[8], [0], [0], [0]⟩) { places := [exP], dem := some ⟨[3], [0], [0], [3]⟩ } .any = none := by decide

-- `hnonneg`: with a negative load at departure (-5) `max_past` is the initial zero of the fold, not a load of the
-- tour: a static delivery of 12 fits the simulated profile (7 at departure) and is refused by the evaluator
example : baseFeasible (exC1 ⟨[0], [0], [-5], [0]⟩) = true ∧
    loadProfile (exC1 ⟨[0], [0], [-5], [0]⟩).zero (exC1 ⟨[0], [0], [-5], [0]⟩).dems = [[-5], [0]] ∧
    existsFeasible (exC1 ⟨[0], [0], [-5], [0]⟩) { places := [exP], dem := some ⟨[0], [0], [12], [0]⟩ } = true ∧
    evalJob (exC1 ⟨[0], [0], [-5], [0]⟩) { places := [exP], dem := some ⟨[0], [0], [12], [0]⟩ } .any = none := by decide

/-! ## the decidable form of the hypotheses (evaluated by the driver on every generated case) -/

theorem demWF_iff (n : Nat) (d : Dem) : demWF n d = true ↔ WF n d := by
  unfold demWF WF
  simp only [Bool.and_eq_true, beq_iff_eq]
  constructor
  · rintro ⟨⟨⟨h1, h2⟩, h3⟩, h4⟩; exact ⟨h1, h2, h3, h4⟩
  · rintro ⟨h1, h2, h3, h4⟩; exact ⟨⟨⟨h1, h2⟩, h3⟩, h4⟩

theorem demShape_spec (n : Nat) (d : Dem) (h : demShape n d = true) :
    ∀ k, k < n → pr k d.sp = 0 ∨ pr k d.dd ≤ pr k d.dp := by
  intro k hk
  unfold demShape at h
  have := List.all_eq_true.mp h k (List.mem_range.mpr hk)
  simpa [pr] using this

/-- **C06 completeness, decidable hypotheses**: on every case for which the Boolean `completeHyps` evaluates to true,
    a feasible (leg, place, window) found by the brute-force simulation implies that `Any` succeeds -/
theorem evalJob_any_complete_hyps (c : Ctx) (j : JobS) (hh : completeHyps c j = true)
    (hex : existsFeasible c j = true) : (evalJob c j .any).isSome = true := by
  unfold completeHyps at hh
  simp only [Bool.and_eq_true, decide_eq_true_eq] at hh
  obtain ⟨⟨⟨⟨⟨⟨⟨⟨hwf, hjd⟩, hdur⟩, hacts⟩, hdep⟩, hearly⟩, hbase⟩, hnn⟩, hpl⟩ := hh
  refine evalJob_any_complete_spec c j c.cap.length rfl ?_ ?_ ?_ ?_ hdep hearly hbase ?_ ?_ hex
  · intro x hx
    exact (demWF_iff _ _).mp (List.all_eq_true.mp hwf x hx)
  · intro d hd
    rw [hd] at hjd
    simp only [Bool.and_eq_true] at hjd
    exact ⟨(demWF_iff _ _).mp hjd.1, demShape_spec _ _ hjd.2⟩
  · intro a b
    exact pr_nonneg c.m.dur (fun v hv => by simpa using List.all_eq_true.mp hdur v hv) (a * c.m.n + b)
  · intro a ha
    simpa using List.all_eq_true.mp hacts a ha
  · intro l hl v hv
    have := List.all_eq_true.mp (List.all_eq_true.mp hnn l hl) v hv
    simpa using this
  · intro p hp
    have := List.all_eq_true.mp hpl p hp
    simp only [Bool.and_eq_true, decide_eq_true_eq] at this
    exact ⟨this.1, fun w hw => by simpa using List.all_eq_true.mp this.2 w hw⟩

-- the hypotheses hold on the concrete case of step 7 (two dimensions, mixed demand)
example : completeHyps exC exJ1 = true ∧ existsFeasible exC exJ1 = true := by decide

end C06Complete
