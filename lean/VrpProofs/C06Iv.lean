import VrpModel.C06Iv
import VrpProofs.C06
import VrpProofs.C06Cap
import VrpProofs.C06CapVec
/-!
# C06 on tours with reload markers: the interval capacity test is sound

SPEC: `C06Iv.capOkIv` — the step-by-step simulation with explicit reload events (three-part board).
MODEL: `C06Iv.capViolationAtIv` — `has_demand_violation` on the per-interval caches of `recalculate_states`
(`C06Iv.loadCachesIv`, carried load included).

Part A–C work in one capacity dimension (`C06Cap.Dem1`): the SPEC loads ARE the model's `current` values
(`specLoads1_eq_curG`), an insertion changes one segment only (`splitSegs_insert`), and on that segment the
single-interval argument `C06Cap.cap_sound_forall` applies with the capacity lowered by the carried load.
Part D lifts to vectors (component `k` of the vector model is the one-dimensional model).
-/
set_option linter.unusedSimpArgs false
set_option linter.unnecessarySimpa false
set_option linter.unusedVariables false

namespace C06Iv
open Route C06 C06Cap

/-! ## Part A — one dimension: SPEC loads and model loads -/

def zero1 : Dem1 := ⟨0, 0, 0, 0⟩

def sumSp1 (seg : List Dem1) : Int := (seg.map (·.sp)).sum

/-- loads of consecutive segments; the first one is entered with base load `B` (the load without the static deliveries
    still to be delivered) and `P` static pickups already collected; the next ones with the carried load -/
def curG : List (List Dem1) → Int → Int → List Int
  | [], _, _ => []
  | seg :: rest, B, P =>
    after1 (B + startLoad1 seg) seg ++ curG rest (B + startLoad1 seg + total seg - (P + sumSp1 seg)) 0

structure Caches1 where
  cur : List Int
  past : List Int
  fut : List Int

/-- one-dimensional `loadCachesIv` -/
def caches1 : List (List Dem1) → Int → Caches1
  | [], _ => ⟨[], [], []⟩
  | seg :: rest, carry =>
    let cur := after1 (carry + startLoad1 seg) seg
    let b := caches1 rest (carry + startLoad1 seg + total seg - sumSp1 seg)
    ⟨cur ++ b.cur, runMax1 0 cur ++ b.past, maxFuture1 cur ++ b.fut⟩

theorem caches1_cur (segs : List (List Dem1)) (carry : Int) : (caches1 segs carry).cur = curG segs carry 0 := by
  induction segs generalizing carry with
  | nil => rfl
  | cons seg rest ih =>
    simp only [caches1, curG]
    rw [ih]
    have : carry + startLoad1 seg + total seg - (0 + sumSp1 seg) = carry + startLoad1 seg + total seg - sumSp1 seg := by omega
    rw [this]

/-- one-dimensional SPEC -/
structure Board1 where
  toDeliver : Int
  picked : Int
  dyn : Int

def Board1.total (b : Board1) : Int := b.toDeliver + b.picked + b.dyn

def upcomingSd1 : List (Bool × Dem1) → Int
  | [] => 0
  | (true, _) :: _ => 0
  | (false, d) :: rest => d.sd + upcomingSd1 rest

/-- the load after every activity / reload -/
def specLoads1 : List (Bool × Dem1) → Board1 → List Int
  | [], _ => []
  | (true, _) :: rest, b =>
    (Board1.mk (upcomingSd1 rest) 0 b.dyn).total :: specLoads1 rest (Board1.mk (upcomingSd1 rest) 0 b.dyn)
  | (false, d) :: rest, b =>
    (Board1.mk (b.toDeliver - d.sd) (b.picked + d.sp) (b.dyn + d.dp - d.dd)).total ::
      specLoads1 rest (Board1.mk (b.toDeliver - d.sd) (b.picked + d.sp) (b.dyn + d.dp - d.dd))

def capOkIv1 (cap : Int) (l : List (Bool × Dem1)) : Prop :=
  ∀ y ∈ (Board1.mk (upcomingSd1 l) 0 0).total :: specLoads1 l (Board1.mk (upcomingSd1 l) 0 0), y ≤ cap

theorem splitSegs_ne_nil {α : Type} (l : List (Bool × α)) : splitSegs l ≠ [] := by
  cases l with
  | nil => simp [splitSegs]
  | cons e rest =>
    obtain ⟨m, d⟩ := e
    simp only [splitSegs]
    split
    · simp
    · split <;> simp

theorem splitSegs_cons {α : Type} (m : Bool) (d : α) (rest : List (Bool × α)) :
    ∃ seg segs, splitSegs rest = seg :: segs ∧
      splitSegs ((m, d) :: rest) = if m then [] :: (d :: seg) :: segs else (d :: seg) :: segs := by
  cases h : splitSegs rest with
  | nil => exact absurd h (splitSegs_ne_nil rest)
  | cons seg segs => exact ⟨seg, segs, rfl, by simp [splitSegs, h]⟩

/-- the static deliveries the SPEC loads at a reload are the ones of the model's next segment -/
theorem upcomingSd1_eq (l : List (Bool × Dem1)) (seg : List Dem1) (segs : List (List Dem1))
    (h : splitSegs l = seg :: segs) : upcomingSd1 l = startLoad1 seg := by
  induction l generalizing seg segs with
  | nil =>
    simp [splitSegs] at h
    obtain ⟨rfl, _⟩ := h
    simp [upcomingSd1, startLoad1]
  | cons e rest ih =>
    obtain ⟨m, d⟩ := e
    obtain ⟨seg', segs', hr, hs⟩ := splitSegs_cons m d rest
    rw [hs] at h
    cases m with
    | true =>
      simp at h
      obtain ⟨rfl, _⟩ := h
      simp [upcomingSd1, startLoad1]
    | false =>
      simp at h
      obtain ⟨rfl, _⟩ := h
      simp only [upcomingSd1, startLoad1, List.map_cons, List.sum_cons]
      have := ih seg' segs' hr
      simp only [startLoad1] at this
      omega

theorem total_cons (d : Dem1) (seg : List Dem1) : total (d :: seg) = d.change + total seg := by
  simp [total]
theorem startLoad1_cons (d : Dem1) (seg : List Dem1) : startLoad1 (d :: seg) = d.sd + startLoad1 seg := by
  simp [startLoad1]
theorem sumSp1_cons (d : Dem1) (seg : List Dem1) : sumSp1 (d :: seg) = d.sp + sumSp1 seg := by
  simp [sumSp1]

theorem zero1_sd : zero1.sd = 0 := rfl
theorem zero1_sp : zero1.sp = 0 := rfl
theorem zero1_change : zero1.change = 0 := rfl

theorem curG_congr (a a' s s' c c' : Int) (seg : List Dem1) (segs : List (List Dem1))
    (h1 : a = a') (h2 : s = s') (h3 : c = c') :
    a :: (after1 s seg ++ curG segs c 0) = a' :: (after1 s' seg ++ curG segs c' 0) := by
  subst h1 h2 h3; rfl

/-- **the loads of the step-by-step simulation with reload events are the `current` values of `recalculate_states`**
    (markers without demand), in the generalised form needed for the induction -/
theorem specLoads1_eq_curG (l : List (Bool × Dem1)) (hm : ∀ e ∈ l, e.1 = true → e.2 = zero1) (B P : Int) :
    specLoads1 l (Board1.mk (upcomingSd1 l) P (B - P)) = curG (splitSegs l) B P := by
  induction l generalizing B P with
  | nil => simp [specLoads1, splitSegs, curG, after1]
  | cons e rest ih =>
    obtain ⟨m, d⟩ := e
    obtain ⟨seg, segs, hr, hs⟩ := splitSegs_cons m d rest
    have hm' : ∀ e ∈ rest, e.1 = true → e.2 = zero1 := fun e he => hm e (List.mem_cons_of_mem _ he)
    have hU := upcomingSd1_eq rest seg segs hr
    rw [hs]
    cases m with
    | true =>
      have hd : d = zero1 := hm (true, d) (by simp) rfl
      subst hd
      simp only [specLoads1, if_true, curG, after1, List.nil_append]
      have e1 : (Board1.mk (upcomingSd1 rest) 0 (B - P)) = Board1.mk (upcomingSd1 rest) 0 ((B - P) - 0) := by simp
      rw [e1, ih hm' (B - P) 0, hr]
      simp only [curG, Board1.total, startLoad1_cons, total_cons, sumSp1_cons, zero1_sd, zero1_sp, zero1_change]
      rw [hU]
      have h1 : startLoad1 ([] : List Dem1) = 0 := rfl
      have h2 : total ([] : List Dem1) = 0 := rfl
      have h3 : sumSp1 ([] : List Dem1) = 0 := rfl
      apply curG_congr <;> omega
    | false =>
      simp only [specLoads1, Bool.false_eq_true, if_false, curG, after1, upcomingSd1]
      have e1 : (Board1.mk (d.sd + upcomingSd1 rest - d.sd) (P + d.sp) (B - P + d.dp - d.dd))
          = Board1.mk (upcomingSd1 rest) (P + d.sp) ((B + d.sp + d.dp - d.dd) - (P + d.sp)) := by
        congr 1 <;> omega
      rw [e1, ih hm' (B + d.sp + d.dp - d.dd) (P + d.sp), hr]
      simp only [curG, Board1.total, startLoad1_cons, total_cons, sumSp1_cons]
      rw [hU]
      apply curG_congr <;> simp only [Dem1.change] <;> omega

/-! ## Part B — an insertion changes one segment only; on that segment the single-interval argument applies -/

/-- insertion after the activity with (global) index `p`, in terms of segments -/
def insertSeg {α : Type} : List (List α) → Nat → α → List (List α)
  | [], _, _ => []
  | seg :: rest, p, x =>
    if p < seg.length then insertAt seg (p + 1) x :: rest else seg :: insertSeg rest (p - seg.length) x

theorem insertAt_cons_succ {α : Type} (a : α) (l : List α) (p : Nat) (x : α) :
    insertAt (a :: l) (p + 1) x = a :: insertAt l p x := by
  simp [insertAt]

/-- cutting the tour with the new (non-marker) activity = inserting into the segment of the pivot -/
theorem splitSegs_insert {α : Type} (L : List (Bool × α)) (p : Nat) (x : α) (hp : p < L.length) :
    splitSegs (insertAt L (p + 1) (false, x)) = insertSeg (splitSegs L) p x := by
  induction L generalizing p with
  | nil => simp at hp
  | cons e rest ih =>
    obtain ⟨m, d⟩ := e
    obtain ⟨seg, segs, hr, hs⟩ := splitSegs_cons m d rest
    rw [insertAt_cons_succ, hs]
    cases p with
    | zero =>
      have h0 : insertAt rest 0 ((false, x) : Bool × α) = (false, x) :: rest := by simp [insertAt]
      rw [h0]
      cases m <;> simp [splitSegs, hr, insertSeg, insertAt]
    | succ p' =>
      have hp' : p' < rest.length := by simpa using hp
      have ih' := ih p' hp'
      rw [hr] at ih'
      obtain ⟨seg2, segs2, hr2, hs2⟩ := splitSegs_cons m d (insertAt rest (p' + 1) ((false, x) : Bool × α))
      rw [hs2]
      rw [hr2] at ih'
      simp only [insertSeg] at ih'
      by_cases hlt : p' < seg.length
      · rw [if_pos hlt] at ih'
        simp only [List.cons.injEq] at ih'
        obtain ⟨rfl, rfl⟩ := ih'
        cases m <;> simp [insertSeg, hlt, insertAt_cons_succ]
      · rw [if_neg hlt] at ih'
        simp only [List.cons.injEq] at ih'
        obtain ⟨rfl, rfl⟩ := ih'
        have e1 : p' + 1 - (seg2.length + 1) = p' - seg2.length := by omega
        cases m <;> simp [insertSeg, hlt, e1]

theorem getD_append_lt (a b : List Int) (p : Nat) (h : p < a.length) : (a ++ b).getD p 0 = a.getD p 0 := by
  simp [List.getD_eq_getElem?_getD, List.getElem?_append_left h]

theorem getD_append_ge (a b : List Int) (p : Nat) (h : a.length ≤ p) : (a ++ b).getD p 0 = b.getD (p - a.length) 0 := by
  simp [List.getD_eq_getElem?_getD, List.getElem?_append_right h]

theorem total_insert (ds : List Dem1) (p : Nat) (x : Dem1) : total (insertAt1 ds p x) = total ds + x.change := by
  unfold total insertAt1
  have h : ds = ds.take p ++ ds.drop p := (List.take_append_drop p ds).symm
  conv => rhs; rw [h]
  simp only [List.map_append, List.sum_append, List.map_cons, List.sum_cons]
  omega

theorem sumSp1_insert (ds : List Dem1) (p : Nat) (x : Dem1) : sumSp1 (insertAt1 ds p x) = sumSp1 ds + x.sp := by
  unfold sumSp1 insertAt1
  have h : ds = ds.take p ++ ds.drop p := (List.take_append_drop p ds).symm
  conv => rhs; rw [h]
  simp only [List.map_append, List.sum_append, List.map_cons, List.sum_cons]
  omega

theorem loads1_take (ds : List Dem1) (p : Nat) (hp : p ≤ ds.length) :
    (loads1 ds).take (p + 1) = startLoad1 ds :: after1 (startLoad1 ds) (ds.take p) := by
  rw [loads1_split ds p]
  have : (startLoad1 ds :: after1 (startLoad1 ds) (ds.take p)).length = p + 1 := by
    simp [after1_length]; omega
  rw [List.take_append_of_le_length (by omega), List.take_of_length_le (by omega)]

theorem loads1_drop (ds : List Dem1) (p : Nat) (hp : p ≤ ds.length) :
    (loads1 ds).drop p = (startLoad1 ds + total (ds.take p)) ::
      after1 (startLoad1 ds + total (ds.take p)) (ds.drop p) := by
  have hlenA : (after1 (startLoad1 ds) (ds.take p)).length = p := by simp [after1_length]; omega
  have hlenT : (ds.take p).length = p := by simp; omega
  rw [loads1_split ds p]
  rw [List.drop_append_of_le_length (by simp [hlenA])]
  have := drop_len_after1 (startLoad1 ds) (ds.take p)
  rw [hlenT] at this
  rw [this]; simp

theorem loads1_length (ds : List Dem1) : (loads1 ds).length = ds.length + 1 := by simp [loads1, after1_length]

theorem loads1_getD (ds : List Dem1) (p : Nat) (hp : p ≤ ds.length) :
    (loads1 ds).getD p 0 = startLoad1 ds + total (ds.take p) := by
  have hp' : p < (loads1 ds).length := by rw [loads1_length]; omega
  have h0 : ((loads1 ds).drop p).head? = some ((loads1 ds).getD p 0) := by
    rw [List.head?_drop]
    simp [List.getD_eq_getElem?_getD, List.getElem?_eq_getElem hp']
  rw [loads1_drop ds p hp] at h0
  simpa using h0.symm

/-- the loads of a segment that starts with an activity without demand: the single-interval profile of the rest,
    shifted by the carried load -/
theorem seg_loads_shift (carry : Int) (r : List Dem1) :
    after1 (carry + startLoad1 (zero1 :: r)) (zero1 :: r) = (loads1 r).map (· + carry) := by
  simp only [after1, startLoad1_cons, zero1_sd, zero1_change, loads1, List.map_cons]
  have e : carry + (0 + startLoad1 r) + 0 = startLoad1 r + carry := by omega
  rw [e, after1_shift]

theorem runMax1_shift (m c : Int) (ls : List Int) : runMax1 (m + c) (ls.map (· + c)) = (runMax1 m ls).map (· + c) := by
  induction ls generalizing m with
  | nil => rfl
  | cons l rest ih =>
    simp only [List.map_cons, runMax1]
    have e : max (m + c) (l + c) = max m l + c := by omega
    rw [e, ih]

/-- **soundness at the level of segments (one dimension)**: a static demand accepted by `has_demand_violation` on the
    caches of the pivot keeps every load of every segment within capacity -/
theorem insertSeg_sound (cap : Int) (x : Dem1) (hdp : x.dp = 0) (hdd : x.dd = 0) :
    ∀ (segs : List (List Dem1)) (carry : Int) (p : Nat),
      (∀ seg ∈ segs, ∃ r, seg = zero1 :: r) →
      p < (segs.map List.length).sum →
      (∀ y ∈ (caches1 segs carry).cur, y ≤ cap) →
      viol1 cap ((caches1 segs carry).past.getD p 0) ((caches1 segs carry).fut.getD p 0)
        ((caches1 segs carry).cur.getD p 0) x = false →
      ∀ y ∈ (caches1 (insertSeg segs p x) carry).cur, y ≤ cap := by
  intro segs
  induction segs with
  | nil => intro carry p _ hp; simp at hp
  | cons seg rest ih =>
    intro carry p hz hp hok hnv
    obtain ⟨r, rfl⟩ := hz seg (by simp)
    have hz' : ∀ seg ∈ rest, ∃ r, seg = zero1 :: r := fun s hs => hz s (List.mem_cons_of_mem _ hs)
    simp only [caches1] at hok hnv
    have hlenC : (after1 (carry + startLoad1 (zero1 :: r)) (zero1 :: r)).length = r.length + 1 := by
      simp [after1_length]
    by_cases hlt : p < (zero1 :: r).length
    · -- the pivot lies in this segment
      have hpr : p ≤ r.length := by simp at hlt; omega
      simp only [insertSeg, if_pos hlt, insertAt_cons_succ, caches1]
      have hlt1 : p < (after1 (carry + startLoad1 (zero1 :: r)) (zero1 :: r)).length := by rw [hlenC]; omega
      rw [getD_append_lt _ _ p (by rw [runMax1_length]; exact hlt1),
          getD_append_lt _ _ p (by rw [maxFuture1_length]; exact hlt1),
          getD_append_lt _ _ p hlt1, seg_loads_shift] at hnv
      rw [seg_loads_shift] at hok
      have hins : insertAt r p x = insertAt1 r p x := rfl
      rw [hins, seg_loads_shift]
      -- the carried load leaving the segment is unchanged
      have hcarry : carry + startLoad1 (zero1 :: insertAt1 r p x) + total (zero1 :: insertAt1 r p x)
            - sumSp1 (zero1 :: insertAt1 r p x)
          = carry + startLoad1 (zero1 :: r) + total (zero1 :: r) - sumSp1 (zero1 :: r) := by
        simp only [startLoad1_cons, total_cons, sumSp1_cons, startLoad1_insert, total_insert, sumSp1_insert,
          Dem1.change]
        omega
      rw [hcarry]
      -- the segment itself: `cap_sound_forall` with the capacity lowered by the carried load
      have hokr : capOk1 (cap - carry) r := by
        intro l hl
        have := hok (l + carry) (List.mem_append_left _ (List.mem_map.mpr ⟨l, hl, rfl⟩))
        omega
      have hpL : p < (loads1 r).length := by rw [loads1_length]; omega
      have hpastC := runMax1_ge 0 ((loads1 r).map (· + carry)) p (by simpa using hpL)
      have hfutC := maxFuture1_ge ((loads1 r).map (· + carry)) p (by simpa using hpL)
      rw [← List.map_take, loads1_take r p hpr] at hpastC
      rw [← List.map_drop, loads1_drop r p hpr] at hfutC
      have hcurAt : ((loads1 r).map (· + carry)).getD p 0 = startLoad1 r + total (r.take p) + carry := by
        rw [← loads1_getD r p hpr]
        simp [List.getD_eq_getElem?_getD, List.getElem?_map, List.getElem?_eq_getElem hpL]
      rw [hcurAt] at hnv
      unfold viol1 at hnv
      simp only [Bool.or_eq_false_iff, Bool.and_eq_false_iff, bne_eq_false_iff_eq, decide_eq_false_iff_not,
        Int.not_lt] at hnv
      obtain ⟨⟨hA, hB⟩, hC⟩ := hnv
      have hnvr : noViolation (cap - carry) r p x := by
        unfold noViolation
        simp only
        refine ⟨?_, ?_, ?_⟩
        · intro hs l hl
          have := hpastC (l + carry) (List.mem_map.mpr ⟨l, hl, rfl⟩)
          rcases hA with hA | hA
          · exact absurd hA hs
          · omega
        · intro hs l hl
          have := hfutC (l + carry) (List.mem_map.mpr ⟨l, hl, rfl⟩)
          rcases hB with hB | hB
          · exact absurd hB hs
          · omega
        · intro hs
          rcases hC with hC | hC
          · exact absurd hC hs
          · obtain ⟨hC1, hC2⟩ := hC
            refine ⟨?_, ?_⟩
            · intro l hl
              have := hfutC (l + carry) (List.mem_map.mpr ⟨l, hl, rfl⟩)
              omega
            · omega
      have hnew := cap_sound_forall (cap - carry) r p x hokr hnvr
      intro y hy
      rcases List.mem_append.mp hy with hy | hy
      · obtain ⟨l, hl, rfl⟩ := List.mem_map.mp hy
        have := hnew l hl
        omega
      · exact hok y (List.mem_append_right _ hy)
    · -- the pivot lies in a later segment
      have hge : (zero1 :: r).length ≤ p := by omega
      simp only [insertSeg, if_neg hlt, caches1]
      have hge1 : (after1 (carry + startLoad1 (zero1 :: r)) (zero1 :: r)).length ≤ p := by rw [hlenC]; simpa using hge
      rw [getD_append_ge _ _ p (by rw [runMax1_length]; exact hge1),
          getD_append_ge _ _ p (by rw [maxFuture1_length]; exact hge1),
          getD_append_ge _ _ p hge1, runMax1_length, maxFuture1_length, hlenC] at hnv
      have hp' : p - (zero1 :: r).length < (rest.map List.length).sum := by
        simp only [List.map_cons, List.sum_cons] at hp
        omega
      have hlen' : (zero1 :: r).length = r.length + 1 := by simp
      rw [hlen'] at hp' ⊢
      have ih' := ih (carry + startLoad1 (zero1 :: r) + total (zero1 :: r) - sumSp1 (zero1 :: r)) (p - (r.length + 1))
        hz' hp' (fun y hy => hok y (List.mem_append_right _ hy)) hnv
      intro y hy
      rcases List.mem_append.mp hy with hy | hy
      · exact hok y (List.mem_append_left _ hy)
      · exact ih' y hy

/-! ## Part C — one dimension, whole tour: SPEC of the tour with the demand inserted -/

theorem upcomingSd1_append_zero (l : List (Bool × Dem1)) :
    upcomingSd1 (l ++ [(false, zero1)]) = upcomingSd1 l := by
  induction l with
  | nil => simp [upcomingSd1, zero1]
  | cons e rest ih =>
    obtain ⟨m, d⟩ := e
    cases m with
    | true => simp [upcomingSd1]
    | false => simp only [List.cons_append, upcomingSd1, ih]

/-- the arrival activity (no demand) repeats the last load -/
theorem specLoads1_append_zero_sub (l : List (Bool × Dem1)) (b : Board1) :
    ∀ y ∈ specLoads1 (l ++ [(false, zero1)]) b, y ∈ b.total :: specLoads1 l b := by
  induction l generalizing b with
  | nil =>
    intro y hy
    simp only [List.nil_append, specLoads1, zero1, Board1.total, List.mem_cons, List.not_mem_nil, or_false] at hy
    subst hy
    simp [Board1.total]
  | cons e rest ih =>
    obtain ⟨m, d⟩ := e
    intro y hy
    cases m with
    | true =>
      simp only [List.cons_append, specLoads1, upcomingSd1_append_zero, List.mem_cons] at hy ⊢
      rcases hy with hy | hy
      · exact Or.inr (Or.inl hy)
      · have := ih _ y hy
        simp only [List.mem_cons] at this
        rcases this with h | h
        · exact Or.inr (Or.inl h)
        · exact Or.inr (Or.inr h)
    | false =>
      simp only [List.cons_append, specLoads1, List.mem_cons] at hy ⊢
      rcases hy with hy | hy
      · exact Or.inr (Or.inl hy)
      · have := ih _ y hy
        simp only [List.mem_cons] at this
        rcases this with h | h
        · exact Or.inr (Or.inl h)
        · exact Or.inr (Or.inr h)

theorem specLoads1_append_zero_sup (l : List (Bool × Dem1)) (b : Board1) :
    ∀ y ∈ specLoads1 l b, y ∈ specLoads1 (l ++ [(false, zero1)]) b := by
  induction l generalizing b with
  | nil => intro y hy; simp [specLoads1] at hy
  | cons e rest ih =>
    obtain ⟨m, d⟩ := e
    intro y hy
    cases m with
    | true =>
      simp only [List.cons_append, specLoads1, upcomingSd1_append_zero, List.mem_cons] at hy ⊢
      rcases hy with hy | hy
      · exact Or.inl hy
      · exact Or.inr (ih _ y hy)
    | false =>
      simp only [List.cons_append, specLoads1, List.mem_cons] at hy ⊢
      rcases hy with hy | hy
      · exact Or.inl hy
      · exact Or.inr (ih _ y hy)

/-- departure :: jobs ++ arrival, as the model cuts it, has exactly the loads of the SPEC of the jobs -/
theorem spec_all_iff (l E : List (Bool × Dem1)) (hE : E = [] ∨ E = [(false, zero1)]) (y : Int) :
    y ∈ specLoads1 ((false, zero1) :: (l ++ E)) (Board1.mk (upcomingSd1 ((false, zero1) :: (l ++ E))) 0 (0 - 0)) ↔
      y ∈ (Board1.mk (upcomingSd1 l) 0 0).total :: specLoads1 l (Board1.mk (upcomingSd1 l) 0 0) := by
  have hU : upcomingSd1 (l ++ E) = upcomingSd1 l := by
    rcases hE with rfl | rfl
    · simp
    · exact upcomingSd1_append_zero l
  have hb : (Board1.mk (upcomingSd1 ((false, zero1) :: (l ++ E)) - zero1.sd) (0 + zero1.sp) (0 - 0 + zero1.dp - zero1.dd))
      = Board1.mk (upcomingSd1 l) 0 0 := by
    simp only [upcomingSd1, hU, zero1]
    congr 1 <;> omega
  simp only [specLoads1]
  rw [hb]
  rcases hE with rfl | rfl
  · simp
  · constructor
    · intro hy
      rcases List.mem_cons.mp hy with h | h
      · exact List.mem_cons.mpr (Or.inl h)
      · exact specLoads1_append_zero_sub l _ y h
    · intro hy
      rcases List.mem_cons.mp hy with h | h
      · exact List.mem_cons.mpr (Or.inl h)
      · exact List.mem_cons.mpr (Or.inr (specLoads1_append_zero_sup l _ y h))

theorem splitSegs_tail_heads (L : List (Bool × Dem1)) (hm : ∀ e ∈ L, e.1 = true → e.2 = zero1) :
    ∀ seg ∈ (splitSegs L).tail, ∃ r, seg = zero1 :: r := by
  induction L with
  | nil => simp [splitSegs]
  | cons e rest ih =>
    obtain ⟨m, d⟩ := e
    obtain ⟨seg, segs, hr, hs⟩ := splitSegs_cons m d rest
    have ih' := ih (fun e he => hm e (List.mem_cons_of_mem _ he))
    rw [hr] at ih'
    simp only [List.tail_cons] at ih'
    rw [hs]
    cases m with
    | true =>
      have hd : d = zero1 := hm (true, d) (by simp) rfl
      intro s hs'
      simp only [if_true, List.tail_cons, List.mem_cons] at hs'
      rcases hs' with rfl | hs'
      · exact ⟨seg, by rw [hd]⟩
      · exact ih' s hs'
    | false =>
      intro s hs'
      simp only [Bool.false_eq_true, if_false, List.tail_cons] at hs'
      exact ih' s hs'

theorem splitSegs_heads (L : List (Bool × Dem1)) (hm : ∀ e ∈ L, e.1 = true → e.2 = zero1) :
    ∀ seg ∈ splitSegs ((false, zero1) :: L), ∃ r, seg = zero1 :: r := by
  obtain ⟨seg, segs, hr, hs⟩ := splitSegs_cons false zero1 L
  have ht := splitSegs_tail_heads L hm
  rw [hr] at ht
  simp only [List.tail_cons] at ht
  rw [hs]
  intro s hs'
  simp only [Bool.false_eq_true, if_false, List.mem_cons] at hs'
  rcases hs' with rfl | hs'
  · exact ⟨seg, rfl⟩
  · exact ht s hs'

theorem splitSegs_length_sum {α : Type} (L : List (Bool × α)) : ((splitSegs L).map List.length).sum = L.length := by
  induction L with
  | nil => simp [splitSegs]
  | cons e rest ih =>
    obtain ⟨m, d⟩ := e
    obtain ⟨seg, segs, hr, hs⟩ := splitSegs_cons m d rest
    rw [hr] at ih
    rw [hs]
    cases m <;> simp at ih ⊢ <;> omega

theorem insertAt_append_left {α : Type} (l E : List α) (p : Nat) (x : α) (hp : p ≤ l.length) :
    insertAt (l ++ E) p x = insertAt l p x ++ E := by
  unfold insertAt
  rw [List.take_append_of_le_length hp, List.drop_append_of_le_length hp]
  simp

/-- **soundness of the interval capacity test, one dimension**: the tour `l` (markers without demand) passes the SPEC with
    reload events; the model of `has_demand_violation`, fed with the caches of `recalculate_states` at the pivot `p`,
    accepts the static demand `x`; then the tour with `x` inserted at leg `p` passes the SPEC — in every interval -/
theorem capIv_sound1 (cap : Int) (l E : List (Bool × Dem1)) (hE : E = [] ∨ E = [(false, zero1)])
    (hm : ∀ e ∈ l, e.1 = true → e.2 = zero1) (p : Nat) (hp : p ≤ l.length)
    (x : Dem1) (hdp : x.dp = 0) (hdd : x.dd = 0)
    (hbase : capOkIv1 cap l)
    (hnv : viol1 cap ((caches1 (splitSegs ((false, zero1) :: (l ++ E))) 0).past.getD p 0)
                     ((caches1 (splitSegs ((false, zero1) :: (l ++ E))) 0).fut.getD p 0)
                     ((caches1 (splitSegs ((false, zero1) :: (l ++ E))) 0).cur.getD p 0) x = false) :
    capOkIv1 cap (insertAt l p (false, x)) := by
  have hmE : ∀ (l' : List (Bool × Dem1)), (∀ e ∈ l', e.1 = true → e.2 = zero1) →
      ∀ e ∈ (false, zero1) :: (l' ++ E), e.1 = true → e.2 = zero1 := by
    intro l' hl' e he h1
    simp only [List.mem_cons, List.mem_append] at he
    rcases he with rfl | he | he
    · cases h1
    · exact hl' e he h1
    · rcases hE with rfl | rfl
      · simp at he
      · simp at he; subst he; cases h1
  have hmAll := hmE l hm
  -- the loads of the model are the loads of the SPEC
  have hokAll : ∀ y ∈ (caches1 (splitSegs ((false, zero1) :: (l ++ E))) 0).cur, y ≤ cap := by
    intro y hy
    rw [caches1_cur, ← specLoads1_eq_curG _ hmAll 0 0] at hy
    exact hbase y ((spec_all_iff l E hE y).mp hy)
  have hlen : p < ((splitSegs ((false, zero1) :: (l ++ E))).map List.length).sum := by
    rw [splitSegs_length_sum]
    simp; omega
  have hnew := insertSeg_sound cap x hdp hdd _ 0 p (splitSegs_heads (l ++ E) (fun e he => hmAll e (List.mem_cons_of_mem _ he)))
    hlen hokAll hnv
  rw [← splitSegs_insert _ p x (by simp; omega), insertAt_cons_succ, insertAt_append_left l E p _ hp] at hnew
  have hm' : ∀ e ∈ insertAt l p ((false, x) : Bool × Dem1), e.1 = true → e.2 = zero1 := by
    intro e he h1
    simp only [insertAt, List.mem_append, List.mem_cons] at he
    rcases he with he | rfl | he
    · exact hm e (List.mem_of_mem_take he) h1
    · cases h1
    · exact hm e (List.mem_of_mem_drop he) h1
  intro y hy
  have hy' := (spec_all_iff (insertAt l p (false, x)) E hE y).mpr hy
  rw [specLoads1_eq_curG _ (hmE _ hm') 0 0, ← caches1_cur] at hy'
  exact hnew y hy'

/-! ## Part D — any number of dimensions: component `k` of the vector model / SPEC is the one-dimensional one -/

def prT (k : Nat) (e : Bool × Dem) : Bool × Dem1 := (e.1, prD k e.2)

def WFB (n : Nat) (b : Board) : Prop := b.toDeliver.length = n ∧ b.picked.length = n ∧ b.dyn.length = n
def prB (k : Nat) (b : Board) : Board1 := ⟨pr k b.toDeliver, pr k b.picked, pr k b.dyn⟩

theorem total_length (n : Nat) (b : Board) (h : WFB n b) : b.total.length = n :=
  vadd_length _ _ n (vadd_length _ _ n h.1 h.2.1) h.2.2

theorem pr_total (n k : Nat) (hk : k < n) (b : Board) (h : WFB n b) : pr k b.total = (prB k b).total := by
  unfold Board.total Board1.total prB
  rw [pr_vadd _ _ n k (vadd_length _ _ n h.1 h.2.1) h.2.2 hk, pr_vadd _ _ n k h.1 h.2.1 hk]

theorem upcomingSd_length (n : Nat) (zero : List Int) (hz : zero.length = n) (l : List (Bool × Dem))
    (hw : ∀ e ∈ l, WF n e.2) : (upcomingSd zero l).length = n := by
  induction l with
  | nil => simpa [upcomingSd] using hz
  | cons e rest ih =>
    obtain ⟨m, d⟩ := e
    cases m with
    | true => simpa [upcomingSd] using hz
    | false =>
      simp only [upcomingSd]
      exact vadd_length _ _ n (hw (false, d) (by simp)).2.2.1 (ih (fun e he => hw e (List.mem_cons_of_mem _ he)))

theorem pr_upcomingSd (n k : Nat) (hk : k < n) (zero : List Int) (hz : zero.length = n) (hzk : pr k zero = 0)
    (l : List (Bool × Dem)) (hw : ∀ e ∈ l, WF n e.2) :
    pr k (upcomingSd zero l) = upcomingSd1 (l.map (prT k)) := by
  induction l with
  | nil => simpa [upcomingSd, upcomingSd1] using hzk
  | cons e rest ih =>
    obtain ⟨m, d⟩ := e
    cases m with
    | true => simpa [upcomingSd, upcomingSd1, prT] using hzk
    | false =>
      have hw' : ∀ e ∈ rest, WF n e.2 := fun e he => hw e (List.mem_cons_of_mem _ he)
      simp only [upcomingSd, List.map_cons, prT, upcomingSd1]
      rw [pr_vadd _ _ n k (hw (false, d) (by simp)).2.2.1 (upcomingSd_length n zero hz rest hw') hk, ih hw']
      rfl

/-- the vector simulation accepts iff every component of every load is within the capacity -/
theorem simIv_iff (n : Nat) (cap zero : List Int) (hc : cap.length = n) (hz : zero.length = n)
    (hzk : ∀ k, pr k zero = 0) (l : List (Bool × Dem)) (hw : ∀ e ∈ l, WF n e.2) (b : Board) (hb : WFB n b) :
    simIv cap zero l b = true ↔ ∀ k, k < n → ∀ y ∈ specLoads1 (l.map (prT k)) (prB k b), y ≤ pr k cap := by
  induction l generalizing b with
  | nil => simp [simIv, specLoads1]
  | cons e rest ih =>
    obtain ⟨m, d⟩ := e
    have hw' : ∀ e ∈ rest, WF n e.2 := fun e he => hw e (List.mem_cons_of_mem _ he)
    cases m with
    | true =>
      have hb' : WFB n (Board.mk (upcomingSd zero rest) (zero) (b.dyn)) :=
        ⟨upcomingSd_length n zero hz rest hw', hz, hb.2.2⟩
      have hpb : ∀ k, k < n → prB k (Board.mk (upcomingSd zero rest) (zero) (b.dyn))
          = Board1.mk (upcomingSd1 (rest.map (prT k))) 0 (prB k b).dyn := by
        intro k hk
        simp only [prB, pr_upcomingSd n k hk zero hz (hzk k) rest hw', hzk k]
      simp only [simIv, Bool.and_eq_true, List.map_cons, prT, specLoads1, List.mem_cons]
      rw [ih hw' _ hb', vfits_iff cap _ n hc (total_length n _ hb')]
      constructor
      · rintro ⟨h1, h2⟩ k hk y hy
        rcases hy with rfl | hy
        · rw [← hpb k hk, ← pr_total n k hk _ hb']
          exact h1 k hk
        · rw [← hpb k hk] at hy
          exact h2 k hk y hy
      · intro h
        refine ⟨?_, ?_⟩
        · intro k hk
          rw [pr_total n k hk _ hb', hpb k hk]
          exact h k hk _ (Or.inl rfl)
        · intro k hk y hy
          rw [hpb k hk] at hy
          exact h k hk y (Or.inr hy)
    | false =>
      have hd := hw (false, d) (by simp)
      have hb' : WFB n (Board.mk (vsub b.toDeliver d.sd) (vadd b.picked d.sp) (vsub (vadd b.dyn d.dp) d.dd)) :=
        ⟨vsub_length _ _ n hb.1 hd.2.2.1, vadd_length _ _ n hb.2.1 hd.1,
         vsub_length _ _ n (vadd_length _ _ n hb.2.2 hd.2.1) hd.2.2.2⟩
      have hpb : ∀ k, k < n → prB k (Board.mk (vsub b.toDeliver d.sd) (vadd b.picked d.sp) (vsub (vadd b.dyn d.dp) d.dd))
          = Board1.mk ((prB k b).toDeliver - (prD k d).sd) ((prB k b).picked + (prD k d).sp)
              ((prB k b).dyn + (prD k d).dp - (prD k d).dd) := by
        intro k hk
        simp only [prB, prD]
        rw [pr_vsub _ _ n k hb.1 hd.2.2.1 hk, pr_vadd _ _ n k hb.2.1 hd.1 hk,
            pr_vsub _ _ n k (vadd_length _ _ n hb.2.2 hd.2.1) hd.2.2.2 hk, pr_vadd _ _ n k hb.2.2 hd.2.1 hk]
      simp only [simIv, Bool.and_eq_true, List.map_cons, prT, specLoads1, List.mem_cons]
      rw [ih hw' _ hb', vfits_iff cap _ n hc (total_length n _ hb')]
      constructor
      · rintro ⟨h1, h2⟩ k hk y hy
        rcases hy with rfl | hy
        · rw [← hpb k hk, ← pr_total n k hk _ hb']
          exact h1 k hk
        · rw [← hpb k hk] at hy
          exact h2 k hk y hy
      · intro h
        refine ⟨?_, ?_⟩
        · intro k hk
          rw [pr_total n k hk _ hb', hpb k hk]
          exact h k hk _ (Or.inl rfl)
        · intro k hk y hy
          rw [hpb k hk] at hy
          exact h k hk y (Or.inr hy)

/-- **the vector SPEC is the conjunction of the one-dimensional ones** -/
theorem capOkIv_iff (n : Nat) (cap : List Int) (hc : cap.length = n) (l : List (Bool × Dem)) (hw : ∀ e ∈ l, WF n e.2) :
    capOkIv cap l = true ↔ ∀ k, k < n → capOkIv1 (pr k cap) (l.map (prT k)) := by
  have hz : (cap.map (fun _ => (0 : Int))).length = n := by simp [hc]
  have hzk : ∀ k, pr k (cap.map (fun _ => (0 : Int))) = 0 := pr_zero cap
  have hb : WFB n (Board.mk (upcomingSd (cap.map (fun _ => (0 : Int))) l) (cap.map (fun _ => (0 : Int))) (cap.map (fun _ => (0 : Int)))) := ⟨upcomingSd_length n _ hz l hw, hz, hz⟩
  have hpb : ∀ k, k < n → prB k (Board.mk (upcomingSd (cap.map (fun _ => (0 : Int))) l)
        (cap.map (fun _ => (0 : Int))) (cap.map (fun _ => (0 : Int))))
      = Board1.mk (upcomingSd1 (l.map (prT k))) 0 0 := by
    intro k hk
    simp only [prB, pr_upcomingSd n k hk _ hz (hzk k) l hw, hzk k]
  unfold capOkIv capOkIv1
  simp only [Bool.and_eq_true]
  rw [simIv_iff n cap _ hc hz hzk l hw _ hb, vfits_iff cap _ n hc (total_length n _ hb)]
  constructor
  · rintro ⟨h1, h2⟩ k hk y hy
    rcases List.mem_cons.mp hy with rfl | hy
    · rw [← hpb k hk, ← pr_total n k hk _ hb]
      exact h1 k hk
    · rw [← hpb k hk] at hy
      exact h2 k hk y hy
  · intro h
    refine ⟨?_, ?_⟩
    · intro k hk
      rw [pr_total n k hk _ hb, hpb k hk]
      exact h k hk _ (List.mem_cons.mpr (Or.inl rfl))
    · intro k hk y hy
      rw [hpb k hk] at hy
      exact h k hk y (List.mem_cons.mpr (Or.inr hy))

/-! ### the caches of `recalculate_states`, component by component -/

theorem after1_getLast (s : Int) (ds : List Dem1) : ((after1 s ds).getLast?).getD s = s + total ds := by
  induction ds generalizing s with
  | nil => simp [after1, total]
  | cons d ds ih =>
    simp only [after1, List.getLast?_cons, Option.getD_some, ih, total_cons]
    omega

theorem foldl_sp_length (n : Nat) : ∀ (ds : List Dem) (acc : List Int), acc.length = n → (∀ d ∈ ds, WF n d) →
    (ds.foldl (fun acc x => vadd acc x.sp) acc).length = n := by
  intro ds
  induction ds with
  | nil => intro acc h _; simpa using h
  | cons d ds ih =>
    intro acc h hw
    simp only [List.foldl_cons]
    exact ih _ (vadd_length _ _ n h (hw d (by simp)).1) (fun e he => hw e (by simp [he]))

theorem pr_foldl_sp (n k : Nat) (hk : k < n) : ∀ (ds : List Dem) (acc : List Int), acc.length = n → (∀ d ∈ ds, WF n d) →
    pr k (ds.foldl (fun acc x => vadd acc x.sp) acc) = pr k acc + ((ds.map (prD k)).map (·.sp)).sum := by
  intro ds
  induction ds with
  | nil => intro acc _ _; simp
  | cons d ds ih =>
    intro acc h hw
    simp only [List.foldl_cons, List.map_cons, List.sum_cons]
    rw [ih _ (vadd_length _ _ n h (hw d (by simp)).1) (fun e he => hw e (by simp [he])),
        pr_vadd _ _ n k h (hw d (by simp)).1 hk]
    simp [prD]; omega

theorem getLast_getD_length (n : Nat) (ls : List (List Int)) (d : List Int) (hd : d.length = n)
    (h : ∀ l ∈ ls, l.length = n) : (ls.getLast?.getD d).length = n := by
  cases hl : ls.getLast? with
  | none => simpa using hd
  | some x => simpa using h x (List.mem_of_getLast? hl)

theorem pr_getLast_getD (k : Nat) (ls : List (List Int)) (d : List Int) :
    pr k (ls.getLast?.getD d) = ((ls.map (pr k)).getLast?).getD (pr k d) := by
  rw [List.getLast?_map]
  cases ls.getLast? <;> simp

structure SegPr (n k : Nat) (zero carry : List Int) (seg : List Dem) : Prop where
  cur : (segCaches zero carry seg).1.cur.map (pr k)
      = after1 (pr k carry + startLoad1 (seg.map (prD k))) (seg.map (prD k))
  past : (segCaches zero carry seg).1.past.map (pr k)
      = runMax1 0 (after1 (pr k carry + startLoad1 (seg.map (prD k))) (seg.map (prD k)))
  fut : (segCaches zero carry seg).1.fut.map (pr k)
      = maxFuture1 (after1 (pr k carry + startLoad1 (seg.map (prD k))) (seg.map (prD k)))
  carryPr : pr k (segCaches zero carry seg).2
      = pr k carry + startLoad1 (seg.map (prD k)) + total (seg.map (prD k)) - sumSp1 (seg.map (prD k))
  carryLen : (segCaches zero carry seg).2.length = n
  curLen : ∀ l ∈ (segCaches zero carry seg).1.cur, l.length = n
  pastLen : ∀ l ∈ (segCaches zero carry seg).1.past, l.length = n
  futLen : ∀ l ∈ (segCaches zero carry seg).1.fut, l.length = n

theorem segCaches_pr (n k : Nat) (hk : k < n) (zero carry : List Int) (hz : zero.length = n) (hzk : pr k zero = 0)
    (hcar : carry.length = n) (seg : List Dem) (hw : ∀ d ∈ seg, WF n d) : SegPr n k zero carry seg := by
  have hst : (startLoad carry seg).length = n := foldl_sd_length n seg carry hcar hw
  have hstk : pr k (startLoad carry seg) = pr k carry + startLoad1 (seg.map (prD k)) := by
    unfold startLoad startLoad1
    exact pr_foldl_sd n k hk seg carry hcar hw
  have hcurLen := loadsAfter_lengths n seg _ hst hw
  have hcur : (loadsAfter (startLoad carry seg) seg).map (pr k)
      = after1 (pr k carry + startLoad1 (seg.map (prD k))) (seg.map (prD k)) := by
    rw [map_pr_loadsAfter n k hk seg _ hst hw, hstk]
  have hsp : (sumSp zero seg).length = n := foldl_sp_length n seg zero hz hw
  have hspk : pr k (sumSp zero seg) = sumSp1 (seg.map (prD k)) := by
    unfold sumSp sumSp1
    rw [pr_foldl_sp n k hk seg zero hz hw, hzk]
    simp
  have hlastLen := getLast_getD_length n _ (startLoad carry seg) hst hcurLen
  refine ⟨?_, ?_, ?_, ?_, ?_, ?_, ?_, ?_⟩
  · exact hcur
  · simp only [segCaches]
    rw [map_pr_runMax n k hk _ _ hz hcurLen, hzk, hcur]
  · simp only [segCaches]
    rw [map_pr_maxFuture n k hk _ hcurLen, hcur]
  · simp only [segCaches]
    rw [pr_vsub _ _ n k hlastLen hsp hk, pr_getLast_getD, hcur, hstk, after1_getLast, hspk]
  · simp only [segCaches]
    exact vsub_length _ _ n hlastLen hsp
  · exact hcurLen
  · exact runMax_lengths n _ _ hz hcurLen
  · exact maxFuture_lengths n _ hcurLen

structure CachesPr (n k : Nat) (zero carry : List Int) (segs : List (List Dem)) : Prop where
  cur : (loadCachesIv zero segs carry).cur.map (pr k) = (caches1 (segs.map (·.map (prD k))) (pr k carry)).cur
  past : (loadCachesIv zero segs carry).past.map (pr k) = (caches1 (segs.map (·.map (prD k))) (pr k carry)).past
  fut : (loadCachesIv zero segs carry).fut.map (pr k) = (caches1 (segs.map (·.map (prD k))) (pr k carry)).fut
  curLen : ∀ l ∈ (loadCachesIv zero segs carry).cur, l.length = n
  pastLen : ∀ l ∈ (loadCachesIv zero segs carry).past, l.length = n
  futLen : ∀ l ∈ (loadCachesIv zero segs carry).fut, l.length = n

/-- **component `k` of `loadCachesIv` is the one-dimensional `caches1`** -/
theorem loadCachesIv_pr (n k : Nat) (hk : k < n) (zero : List Int) (hz : zero.length = n) (hzk : pr k zero = 0) :
    ∀ (segs : List (List Dem)) (carry : List Int), carry.length = n → (∀ seg ∈ segs, ∀ d ∈ seg, WF n d) →
      CachesPr n k zero carry segs := by
  intro segs
  induction segs with
  | nil =>
    intro carry _ _
    refine ⟨rfl, rfl, rfl, ?_, ?_, ?_⟩ <;> (intro l hl; simp [loadCachesIv] at hl)
  | cons seg rest ih =>
    intro carry hcar hw
    have hs := segCaches_pr n k hk zero carry hz hzk hcar seg (hw seg (by simp))
    have hr := ih (segCaches zero carry seg).2 hs.carryLen (fun s hs' => hw s (List.mem_cons_of_mem _ hs'))
    have hc : pr k (segCaches zero carry seg).2
        = pr k carry + startLoad1 (seg.map (prD k)) + total (seg.map (prD k)) - sumSp1 (seg.map (prD k)) := hs.carryPr
    refine ⟨?_, ?_, ?_, ?_, ?_, ?_⟩
    · simp only [loadCachesIv, caches1, List.map_cons, List.map_append]
      rw [hs.cur, hr.cur, hc]
    · simp only [loadCachesIv, caches1, List.map_cons, List.map_append]
      rw [hs.past, hr.past, hc]
    · simp only [loadCachesIv, caches1, List.map_cons, List.map_append]
      rw [hs.fut, hr.fut, hc]
    · intro l hl
      simp only [loadCachesIv, List.mem_append] at hl
      rcases hl with hl | hl
      · exact hs.curLen l hl
      · exact hr.curLen l hl
    · intro l hl
      simp only [loadCachesIv, List.mem_append] at hl
      rcases hl with hl | hl
      · exact hs.pastLen l hl
      · exact hr.pastLen l hl
    · intro l hl
      simp only [loadCachesIv, List.mem_append] at hl
      rcases hl with hl | hl
      · exact hs.futLen l hl
      · exact hr.futLen l hl

theorem splitSegs_map {α β : Type} (f : α → β) (L : List (Bool × α)) :
    splitSegs (L.map (fun e => (e.1, f e.2))) = (splitSegs L).map (·.map f) := by
  induction L with
  | nil => simp [splitSegs]
  | cons e rest ih =>
    obtain ⟨m, d⟩ := e
    obtain ⟨seg, segs, hr, hs⟩ := splitSegs_cons m d rest
    obtain ⟨seg2, segs2, hr2, hs2⟩ := splitSegs_cons m (f d) (rest.map (fun e => (e.1, f e.2)))
    rw [hr, hr2] at ih
    simp only [List.map_cons, List.cons.injEq] at ih
    obtain ⟨rfl, rfl⟩ := ih
    simp only [List.map_cons]
    rw [hs2, hs]
    cases m <;> simp

/-! ### the theorem on the executable model -/

theorem demWF_iff (n : Nat) (d : Dem) : demWF n d = true ↔ WF n d := by
  simp [demWF, WF, and_assoc]

theorem WF_zeroDem (n : Nat) (zero : List Int) (hz : zero.length = n) : WF n (demOr zero none) := by
  simp [demOr, WF, hz]

theorem prD_zeroDem (k : Nat) (zero : List Int) (hzk : pr k zero = 0) : prD k (demOr zero none) = zero1 := by
  simp [demOr, prD, hzk, zero1]

theorem map_insertAt' {α β : Type} (f : α → β) (l : List α) (i : Nat) (x : α) :
    (insertAt l i x).map f = insertAt (l.map f) i (f x) := by
  simp [insertAt, List.map_take, List.map_drop]

/-- what `wfIv` says about the tagged tour: demand vectors have `n` entries, a marker has no demand -/
theorem tagged_props (zero : List Int) (n : Nat) (hz : zero.length = n) :
    ∀ (tour : List TAct) (markers : List Bool),
      tour.all (fun a => match a.dem with
        | some d => demWF n d
        | none => true) = true →
      (List.zipWith (fun (a : TAct) (m : Bool) => !m || a.dem.isNone) tour markers).all id = true →
      ∀ e ∈ List.zipWith (fun (a : TAct) (m : Bool) => (m, demOr zero a.dem)) tour markers,
        WF n e.2 ∧ (e.1 = true → e.2 = demOr zero none) := by
  intro tour
  induction tour with
  | nil => intro markers _ _ e he; simp at he
  | cons a tour ih =>
    intro markers h1 h2 e he
    cases markers with
    | nil => simp at he
    | cons m markers =>
      simp only [List.all_cons, Bool.and_eq_true] at h1
      simp only [List.zipWith_cons_cons, List.all_cons, Bool.and_eq_true, id] at h2
      simp only [List.zipWith_cons_cons, List.mem_cons] at he
      rcases he with rfl | he
      · constructor
        · cases hd : a.dem with
          | none => exact WF_zeroDem n zero hz
          | some d =>
            have := h1.1
            rw [hd] at this
            simpa [demOr] using (demWF_iff n d).mp this
        · intro hm
          simp only at hm
          have := h2.1
          rw [hm] at this
          simp only [Bool.not_true, Bool.false_or, Option.isNone_iff_eq_none] at this
          simp [this]
      · exact ih markers h1.2 h2.2 e he

theorem mem_splitSegs {α : Type} (L : List (Bool × α)) :
    ∀ seg ∈ splitSegs L, ∀ d ∈ seg, ∃ m, (m, d) ∈ L := by
  induction L with
  | nil => intro seg hs d hd; simp [splitSegs] at hs; subst hs; simp at hd
  | cons e rest ih =>
    obtain ⟨m, a⟩ := e
    obtain ⟨seg0, segs, hr, hs⟩ := splitSegs_cons m a rest
    rw [hr] at ih
    rw [hs]
    intro seg hseg d hd
    have key : ∀ seg ∈ (a :: seg0) :: segs, ∀ d ∈ seg, ∃ m', (m', d) ∈ (m, a) :: rest := by
      intro seg hseg d hd
      rcases List.mem_cons.mp hseg with rfl | hseg
      · rcases List.mem_cons.mp hd with rfl | hd
        · exact ⟨m, by simp⟩
        · obtain ⟨m', hm'⟩ := ih seg0 (by simp) d hd
          exact ⟨m', List.mem_cons_of_mem _ hm'⟩
      · obtain ⟨m', hm'⟩ := ih seg (List.mem_cons_of_mem _ hseg) d hd
        exact ⟨m', List.mem_cons_of_mem _ hm'⟩
    cases m with
    | true =>
      simp only [if_true] at hseg
      rcases List.mem_cons.mp hseg with rfl | hseg
      · simp at hd
      · exact key seg hseg d hd
    | false =>
      simp only [Bool.false_eq_true, if_false] at hseg
      exact key seg hseg d hd

/-- **C06 soundness of the interval capacity test (any number of dimensions, executable model)**: a well-formed context
    whose tour passes the SPEC with reload events; the model of `has_demand_violation` on the caches of
    `recalculate_states` (carried load included) accepts the STATIC demand `d` at leg `p`; then the step-by-step simulation
    of the tour with `d` inserted at leg `p` stays within capacity at the departure, after every activity and after every
    reload, in every dimension. -/
theorem capIv_sound (c : CtxIv) (p : Nat) (d : Dem) (st : Bool)
    (hwf : wfIv c = true) (hd : demWF c.base.cap.length d = true) (hs : staticDem d = true)
    (hp : p ≤ c.base.tour.length)
    (hbase : capOkIv c.base.cap c.tagged = true)
    (hnv : capViolationAtIv c p (some d) st = none) :
    capOkIv c.base.cap (insertAt c.tagged p (false, d)) = true := by
  have hz : c.zero.length = c.base.cap.length := by simp [CtxIv.zero, Ctx.zero]
  have hzk : ∀ k, pr k c.zero = 0 := fun k => pr_zero c.base.cap k
  simp only [wfIv, Bool.and_eq_true, beq_iff_eq] at hwf
  obtain ⟨⟨hlen, hall⟩, hmk⟩ := hwf
  have hT := tagged_props c.zero c.base.cap.length hz c.base.tour c.markers hall hmk
  have hdW : WF c.base.cap.length d := (demWF_iff _ d).mp hd
  have hlenT : c.tagged.length = c.base.tour.length := by
    simp [CtxIv.tagged, List.length_zipWith, hlen]
  have hwT : ∀ e ∈ c.tagged, WF c.base.cap.length e.2 := fun e he => (hT e he).1
  have hwIns : ∀ e ∈ insertAt c.tagged p ((false, d) : Bool × Dem), WF c.base.cap.length e.2 := by
    intro e he
    simp only [insertAt, List.mem_append, List.mem_cons] at he
    rcases he with he | rfl | he
    · exact hwT e (List.mem_of_mem_take he)
    · exact hdW
    · exact hwT e (List.mem_of_mem_drop he)
  rw [capOkIv_iff c.base.cap.length c.base.cap rfl _ hwIns]
  intro k hk
  have hb1 := (capOkIv_iff c.base.cap.length c.base.cap rfl c.tagged hwT).mp hbase k hk
  rw [map_insertAt']
  -- the arrival activity, if any
  have hE : ∃ E1 : List (Bool × Dem1), (E1 = [] ∨ E1 = [(false, zero1)]) ∧
      c.allTagged.map (prT k) = (false, zero1) :: (c.tagged.map (prT k) ++ E1) := by
    cases he : c.base.veh.endAt.isSome with
    | true =>
      refine ⟨[(false, zero1)], Or.inr rfl, ?_⟩
      simp [CtxIv.allTagged, he, prT, CtxIv.zeroDem, prD_zeroDem k c.base.zero (hzk k)]
    | false =>
      refine ⟨[], Or.inl rfl, ?_⟩
      simp [CtxIv.allTagged, he, prT, CtxIv.zeroDem, prD_zeroDem k c.base.zero (hzk k)]
  obtain ⟨E1, hE1, hallT⟩ := hE
  have hm1 : ∀ e ∈ c.tagged.map (prT k), e.1 = true → e.2 = zero1 := by
    intro e he h1
    obtain ⟨e0, he0, rfl⟩ := List.mem_map.mp he
    have := (hT e0 he0).2 h1
    simp only [prT, this]
    exact prD_zeroDem k c.zero (hzk k)
  simp only [staticDem, Bool.and_eq_true, Bool.not_eq_true'] at hs
  have hdp : (prD k d).dp = 0 := vNotEmpty_false d.dp hs.1 k
  have hdd : (prD k d).dd = 0 := vNotEmpty_false d.dd hs.2 k
  -- the verdict, component `k`
  have hwAll : ∀ seg ∈ splitSegs c.allTagged, ∀ x ∈ seg, WF c.base.cap.length x := by
    intro seg hseg x hx
    obtain ⟨m, hm⟩ := mem_splitSegs c.allTagged seg hseg x hx
    simp only [CtxIv.allTagged, List.mem_cons, List.mem_append] at hm
    rcases hm with hm | hm | hm
    · simp only [Prod.mk.injEq] at hm
      rw [hm.2]; exact WF_zeroDem _ _ hz
    · exact hwT (m, x) hm
    · split at hm
      · simp only [List.mem_cons, Prod.mk.injEq, List.not_mem_nil, or_false] at hm
        rw [hm.2]; exact WF_zeroDem _ _ hz
      · simp at hm
  have CP := loadCachesIv_pr c.base.cap.length k hk c.zero hz (hzk k) (splitSegs c.allTagged) c.zero hz hwAll
  simp only [capViolationAtIv, CtxIv.caches, CtxIv.segs] at hnv
  have hv := viol1_of_vec c.base.cap.length k hk c.base.cap _ _ _ d st rfl
    (getD_lengths _ _ p _ hz CP.pastLen) (getD_lengths _ _ p _ hz CP.futLen) (getD_lengths _ _ p _ hz CP.curLen) hdW hnv
  rw [pr_getD k _ p _ (hzk k), pr_getD k _ p _ (hzk k), pr_getD k _ p _ (hzk k), CP.past, CP.fut, CP.cur, hzk k] at hv
  have hsegs : (splitSegs c.allTagged).map (·.map (prD k))
      = splitSegs ((false, zero1) :: (c.tagged.map (prT k) ++ E1)) := by
    rw [← hallT]
    exact (splitSegs_map (prD k) c.allTagged).symm
  rw [hsegs] at hv
  exact capIv_sound1 (pr k c.base.cap) (c.tagged.map (prT k)) E1 hE1 hm1 p (by simp; omega) (prD k d) hdp hdd hb1 hv

/-! ## Part E — the leg / place / window scan only returns accepted placements; end-to-end soundness -/

def AcceptedIv (c : CtxIv) (j : JobS) (f : Found) : Prop :=
  f.index < legCount c.base ∧
  ∃ p w, j.places[f.place]? = some p ∧ w ∈ p.tws ∧ f.tw = w ∧
    evalActivityIv c f.index { loc := p.loc, s := w.1, e := w.2, dur := p.dur } j.dem = .ok

def GoodScanIv (c : CtxIv) (j : JobS) (sc : Scan) : Prop := ∀ f, sc.best = some f → AcceptedIv c j f

theorem scanWindowsIv_good (c : CtxIv) (j : JobS) (i pi : Nat) (hi : i < legCount c.base) (p : JPlace)
    (hp : j.places[pi]? = some p)
    (ws : List (Int × Int)) (hws : ∀ w ∈ ws, w ∈ p.tws) (sc : Scan) (h : GoodScanIv c j sc) :
    GoodScanIv c j (scanWindowsIv c j i pi p ws sc).1 := by
  induction ws generalizing sc with
  | nil => simpa [scanWindowsIv] using h
  | cons w ws ih =>
    have hws' : ∀ w' ∈ ws, w' ∈ p.tws := fun w' hw' => hws w' (List.mem_cons_of_mem _ hw')
    simp only [scanWindowsIv]
    cases hv : evalActivityIv c i { loc := p.loc, s := w.1, e := w.2, dur := p.dur } j.dem with
    | fail => simp only; intro f hf; exact h f hf
    | skip =>
      simp only
      apply ih hws'
      intro f hf; exact h f hf
    | ok =>
      simp only
      have key : ∀ sc', GoodScanIv c j sc' → GoodScanIv c j (scanWindowsIv c j i pi p ws sc').1 :=
        fun sc' => ih hws' sc'
      have hnew : GoodScanIv c j (Scan.mk none (some
          (Found.mk i pi w (costVector c.base i { loc := p.loc, s := w.1, e := w.2, dur := p.dur })))) := by
        intro f hf
        simp only [Option.some.injEq] at hf
        subst hf
        exact ⟨hi, p, w, hp, hws w (by simp), rfl, hv⟩
      split <;> (try split) <;> first | exact key _ hnew | exact key _ h

theorem scanPlacesIv_good (c : CtxIv) (j : JobS) (i : Nat) (hi : i < legCount c.base) (ps : List JPlace) (pi : Nat)
    (hps : ∀ k p, ps[k]? = some p → j.places[pi + k]? = some p) (sc : Scan) (h : GoodScanIv c j sc) :
    GoodScanIv c j (scanPlacesIv c j i ps pi sc).1 := by
  induction ps generalizing pi sc with
  | nil => simpa [scanPlacesIv] using h
  | cons p ps ih =>
    simp only [scanPlacesIv]
    have hp : j.places[pi]? = some p := by simpa using hps 0 p (by simp)
    have hw := scanWindowsIv_good c j i pi hi p hp p.tws (fun w hw => hw) sc h
    cases hs : scanWindowsIv c j i pi p p.tws sc with
    | mk sc' stop =>
      rw [hs] at hw
      cases stop with
      | true => simpa using hw
      | false =>
        simp only
        apply ih (pi + 1)
        · intro k q hk
          have := hps (k + 1) q (by simpa using hk)
          simpa [Nat.add_assoc, Nat.add_comm 1 k] using this
        · exact hw

theorem scanLegsIv_good (c : CtxIv) (j : JobS) (is : List Nat) (his : ∀ i ∈ is, i < legCount c.base) (sc : Scan)
    (h : GoodScanIv c j sc) : GoodScanIv c j (scanLegsIv c j is sc) := by
  induction is generalizing sc with
  | nil => simpa [scanLegsIv] using h
  | cons i is ih =>
    simp only [scanLegsIv]
    have hp := scanPlacesIv_good c j i (his i (by simp)) j.places 0 (by intro k p hk; simpa using hk) sc h
    cases hs : scanPlacesIv c j i j.places 0 sc with
    | mk sc' stop =>
      rw [hs] at hp
      cases stop with
      | true => simpa using hp
      | false => exact ih (fun i' hi' => his i' (List.mem_cons_of_mem _ hi')) sc' hp

/-- whatever the model of `eval_job_insertion_in_route` returns on a tour with markers was accepted by the constraint
    model at exactly that leg, place and window — for `Any` and every `Concrete(p)` -/
theorem evalJobIv_accepted (c : CtxIv) (j : JobS) (pos : Position) (f : Found)
    (h : evalJobIv c j pos = some f) : AcceptedIv c j f := by
  unfold evalJobIv at h
  split at h
  · cases h
  · refine scanLegsIv_good c j _ ?_ {} (by intro f hf; cases hf) f h
    intro i hi
    cases pos with
    | any => simpa using hi
    | concrete q =>
      simp only at hi
      split at hi
      · simp at hi; omega
      · simp at hi

theorem evalActivityIv_ok_time (c : CtxIv) (i : Nat) (x : Act) (d : Option Dem)
    (h : evalActivityIv c i x d = .ok) : evalTime c.base.m.t c.base.veh c.base.acts i x = .ok := by
  unfold evalActivityIv at h
  split at h
  · cases h
  · cases h
  · assumption

theorem evalActivityIv_ok_cap (c : CtxIv) (i : Nat) (x : Act) (d : Option Dem)
    (h : evalActivityIv c i x d = .ok) : capViolationAtIv c i d (!c.hasMarkers) = none := by
  unfold evalActivityIv at h
  split at h
  · cases h
  · cases h
  · split at h
    · cases h
    · cases h
    · assumption

theorem vNotEmpty_zero (cap : List Int) : vNotEmpty (cap.map (fun _ => (0 : Int))) = false := by
  simp [vNotEmpty]

theorem vadd_zero_zero (cap : List Int) :
    vadd (cap.map (fun _ => (0 : Int))) (cap.map (fun _ => (0 : Int))) = cap.map (fun _ => (0 : Int)) := by
  induction cap with
  | nil => rfl
  | cons a cap ih => simp only [vadd, List.map_cons, List.zipWith_cons_cons] at ih ⊢; rw [ih]; rfl

theorem vsub_zero_zero (cap : List Int) :
    vsub (cap.map (fun _ => (0 : Int))) (cap.map (fun _ => (0 : Int))) = cap.map (fun _ => (0 : Int)) := by
  induction cap with
  | nil => rfl
  | cons a cap ih => simp only [vsub, List.map_cons, List.zipWith_cons_cons] at ih ⊢; rw [ih]; rfl

/-- a job without demand is never refused by the capacity test (and is treated as the zero demand by the SPEC) -/
theorem capViolationAtIv_zeroDem (c : CtxIv) (i : Nat) (st : Bool) :
    capViolationAtIv c i (some (demOr c.base.zero none)) st = none := by
  simp only [capViolationAtIv, hasDemandViolation, demOr, Option.getD_none, Dem.change, Ctx.zero,
    vadd_zero_zero, vsub_zero_zero, vNotEmpty_zero]
  simp

theorem legCount_eq (c : Ctx) : legCount c = c.tour.length + 1 := by
  unfold legCount; split <;> rfl

/-- **C06 soundness on tours with reload markers, end to end for single-task jobs with static demand**: within the
    decidable hypotheses `soundHyps` (flags aligned, vectors of the right length, markers without demand, static
    candidate demand, base tour passes the SPEC), whatever the model of `eval_job_insertion_in_route` returns — for `Any`
    and every `Concrete(p)` — names a place and window of the job whose insertion passes the SPEC: the step-by-step time
    simulation and the step-by-step load simulation with reload events. -/
theorem evalJobIv_sound (c : CtxIv) (j : JobS) (pos : Position) (f : Found)
    (hyp : soundHyps c j = true) (h : evalJobIv c j pos = some f) :
    insertedFeasibleIv c j f.index f.place f.tw = true := by
  simp only [soundHyps, baseFeasibleIv, Bool.and_eq_true] at hyp
  obtain ⟨⟨hwf, hfeas, hcap⟩, hdem⟩ := hyp
  obtain ⟨hidx, p, w, hp, hw, hf, hok⟩ := evalJobIv_accepted c j pos f h
  have hi : f.index ≤ c.base.tour.length := by rw [legCount_eq] at hidx; omega
  have hia : f.index ≤ c.base.acts.length := by simpa [Ctx.acts] using hi
  have htime := evalTime_sound c.base.m.t c.base.veh c.base.acts f.index _ hia hfeas (evalActivityIv_ok_time c _ _ _ hok)
  have hcapOk := evalActivityIv_ok_cap c _ _ _ hok
  unfold insertedFeasibleIv
  rw [hp, hf]
  simp only [Bool.and_eq_true]
  refine ⟨htime, ?_⟩
  cases hd : j.dem with
  | none =>
    have hz : demWF c.base.cap.length (demOr c.base.zero none) = true :=
      (demWF_iff _ _).mpr (WF_zeroDem _ _ (by simp [Ctx.zero]))
    have hs : staticDem (demOr c.base.zero none) = true := by
      simp [staticDem, demOr, Ctx.zero, vNotEmpty_zero]
    exact capIv_sound c f.index _ true hwf hz hs hi hcap (capViolationAtIv_zeroDem c f.index true)
  | some d =>
    rw [hd] at hdem hcapOk
    simp only [Bool.and_eq_true] at hdem
    simpa [demOr] using capIv_sound c f.index d _ hwf hdem.1 hdem.2 hi hcap hcapOk

/-! ## non-vacuity

Matrix: 3 locations, 5 between any two. Closed tour, shift end 200, capacity `[5]`, wide windows (time never decides). -/

def exM : Mat := { n := 3, dur := [0, 5, 5, 5, 0, 5, 5, 5, 0], dist := [0, 5, 5, 5, 0, 5, 5, 5, 0] }
def exP : JPlace := { loc := 1, dur := 1, tws := [(0, 180)] }

/-- A delivers `[5]` (static): the first interval leaves full. Reload. B picks up `[3]` (static). -/
def exC1 : CtxIv :=
  { base := { m := exM, veh := { startLoc := 0, earliest := 0, dep := 0, endAt := some (0, 200) }, cap := [5],
              costs := ⟨0, 1, 1⟩, obj := .distance,
              tour := [⟨{ loc := 1, s := 0, e := 100, dur := 1 }, some ⟨[0], [0], [5], [0]⟩⟩,
                       ⟨{ loc := 0, s := 0, e := 100, dur := 2 }, none⟩,
                       ⟨{ loc := 2, s := 0, e := 150, dur := 1 }, some ⟨[3], [0], [0], [0]⟩⟩] },
    markers := [false, true, false] }
/-- candidate: static delivery `[2]` -/
def exJ1 : JobS := { places := [exP], dem := some ⟨[0], [0], [2], [0]⟩ }

-- two intervals; the caches per activity (departure, A | marker, B, arrival)
example : exC1.intervals = [(0, 1), (2, 4)] ∧ exC1.caches.cur = [[5], [0], [0], [3], [3]] ∧
    exC1.caches.past = [[5], [5], [0], [3], [3]] ∧ exC1.caches.fut = [[5], [0], [3], [3], [3]] := by decide
-- **refused in the full interval (legs 0, 1: "skip", not "stop"), accepted after the reload (legs 2, 3)**
example : (List.range 4).map (fun i => capViolationAtIv exC1 i exJ1.dem (!exC1.hasMarkers)) = [some false, some false, none, none] := by
  decide
example : (List.range 4).map (fun i => (evalJobIv exC1 exJ1 (.concrete i)).isSome) = [false, false, true, true] := by decide
-- the step-by-step SPEC with reload events says the same, leg by leg
example : (List.range 4).map (fun i => insertedFeasibleIv exC1 exJ1 i 0 (0, 180)) = [false, false, true, true] := by decide
-- `Any` reports the first of the cheapest accepted legs (legs 2 and 3 both cost a detour of 5 + 5 − 5)
example : (evalJobIv exC1 exJ1 .any).map (fun f => (f.index, f.place, f.tw)) = some (2, 0, (0, 180)) := by decide
-- the hypotheses of `evalJobIv_sound` hold on this case: the theorem is not vacuous
example : soundHyps exC1 exJ1 = true := by decide
example : ∀ f, evalJobIv exC1 exJ1 .any = some f → insertedFeasibleIv exC1 exJ1 f.index f.place f.tw = true :=
  fun f h => evalJobIv_sound exC1 exJ1 .any f (by decide) h
-- the same tour with the marker flag off is ONE interval (start load `[5]`): the delivery is refused and the scan stops
example : evalJobIv { exC1 with markers := [false, false, false] } exJ1 .any = none := by decide

/-- A picks up a shipment `[4]` (dynamic), reload, B delivers it (dynamic), C has no demand: the load `[4]` is carried across
    the reload. -/
def exC2 : CtxIv :=
  { base := { m := exM, veh := { startLoc := 0, earliest := 0, dep := 0, endAt := some (0, 200) }, cap := [5],
              costs := ⟨0, 1, 1⟩, obj := .distance,
              tour := [⟨{ loc := 1, s := 0, e := 100, dur := 1 }, some ⟨[0], [4], [0], [0]⟩⟩,
                       ⟨{ loc := 0, s := 0, e := 100, dur := 2 }, none⟩,
                       ⟨{ loc := 2, s := 0, e := 150, dur := 1 }, some ⟨[0], [0], [0], [4]⟩⟩,
                       ⟨{ loc := 1, s := 0, e := 150, dur := 1 }, none⟩] },
    markers := [false, true, false, false] }

-- the load at the marker (index 2) is the carried shipment
example : exC2.intervals = [(0, 1), (2, 5)] ∧ exC2.caches.cur = [[0], [4], [4], [0], [0], [0]] ∧
    exC2.caches.past = [[0], [4], [4], [4], [4], [4]] := by decide
-- **the carried load makes the whole second interval refuse the static delivery `[2]`** (it would be loaded at the reload,
-- next to the shipment): only leg 0 accepts
example : (List.range 5).map (fun i => capViolationAtIv exC2 i exJ1.dem (!exC2.hasMarkers))
    = [none, some false, some false, some false, some false] := by decide
example : (List.range 5).map (fun i => insertedFeasibleIv exC2 exJ1 i 0 (0, 180)) = [true, false, false, false, false] := by
  decide
-- a static pickup `[2]` stays on board until the end of its trip: refused in the first interval (it would meet the shipment
-- after A) and before B, accepted after B
example : (List.range 5).map (fun i => (evalJobIv exC2 { exJ1 with dem := some ⟨[2], [0], [0], [0]⟩ } (.concrete i)).isSome)
    = [false, false, false, true, true] := by decide
example : (List.range 5).map (fun i => insertedFeasibleIv exC2 { exJ1 with dem := some ⟨[2], [0], [0], [0]⟩ } i 0 (0, 180))
    = [false, false, false, true, true] := by decide
-- without the shipment (A and B without demand) the second interval accepts the delivery
example : (List.range 5).map (fun i => (evalJobIv
      { exC2 with base := { exC2.base with tour := exC2.base.tour.map (fun a => { a with dem := none }) } } exJ1 (.concrete i)).isSome)
    = [true, true, true, true, true] := by decide

/-! ## Part F — without markers the model is the existing one (`C06.evalJob`) -/

/-- the context of `VrpModel.C06` seen as a context with (no) markers -/
def noMarkers (c : Ctx) : CtxIv := { base := c, markers := c.tour.map (fun _ => false) }

theorem splitSegs_all_false {α : Type} (l : List α) : splitSegs (l.map (fun d => ((false, d) : Bool × α))) = [l] := by
  induction l with
  | nil => rfl
  | cons a l ih => simp [splitSegs, ih]

theorem allTagged_noMarkers (c : Ctx) :
    (noMarkers c).allTagged = (demOr c.zero none :: c.allDems).map (fun d => ((false, d) : Bool × Dem)) := by
  have ht : (noMarkers c).tagged = c.dems.map (fun d => ((false, d) : Bool × Dem)) := by
    simp only [CtxIv.tagged, noMarkers, Ctx.dems, List.map_map]
    generalize c.tour = tour
    induction tour with
    | nil => rfl
    | cons a tour ih => simp [ih]
  have hb : (noMarkers c).base = c := rfl
  have hzd : (noMarkers c).zeroDem = demOr c.zero none := rfl
  simp only [CtxIv.allTagged]
  rw [ht, hb, hzd]
  simp only [Ctx.allDems, List.map_cons, List.map_append]
  cases c.veh.endAt.isSome <;> simp

theorem vadd_zeros : ∀ (st cap : List Int), st.length ≤ cap.length → vadd st (cap.map (fun _ => (0 : Int))) = st := by
  intro st
  induction st with
  | nil => intro cap _; simp [vadd]
  | cons a st ih =>
    intro cap h
    cases cap with
    | nil => simp at h
    | cons b cap =>
      have := ih cap (by simpa using h)
      simp only [vadd, List.map_cons, List.zipWith_cons_cons] at this ⊢
      rw [this]; simp

theorem foldl_sd_length_le : ∀ (ds : List Dem) (acc : List Int),
    (ds.foldl (fun acc x => vadd acc x.sd) acc).length ≤ acc.length := by
  intro ds
  induction ds with
  | nil => intro acc; simp
  | cons d ds ih =>
    intro acc
    simp only [List.foldl_cons]
    have h1 := ih (vadd acc d.sd)
    have h2 : (vadd acc d.sd).length ≤ acc.length := by simp [vadd]; omega
    omega

theorem zeroDem_change (cap : List Int) :
    (demOr (cap.map (fun _ => (0 : Int))) none).change = cap.map (fun _ => (0 : Int)) := by
  simp [demOr, Dem.change, vadd_zero_zero, vsub_zero_zero]

/-- one interval: the caches of `loadCachesIv` are the ones of `C06.loadCaches` -/
theorem caches_noMarkers (c : Ctx) :
    (noMarkers c).caches.cur = (loadCaches c.zero c.allDems).1 ∧
    (noMarkers c).caches.past = (loadCaches c.zero c.allDems).2.1 ∧
    (noMarkers c).caches.fut = (loadCaches c.zero c.allDems).2.2 := by
  have hst : startLoad c.zero (demOr c.zero none :: c.allDems) = startLoad c.zero c.allDems := by
    simp only [startLoad, List.foldl_cons, demOr, Option.getD_none, Ctx.zero, vadd_zero_zero]
  have hle : (startLoad c.zero c.allDems).length ≤ c.cap.length := by
    have := foldl_sd_length_le c.allDems c.zero
    simpa [startLoad, Ctx.zero] using this
  have hcur : loadsAfter (startLoad c.zero (demOr c.zero none :: c.allDems)) (demOr c.zero none :: c.allDems)
      = loadProfile c.zero c.allDems := by
    rw [hst]
    have hz : vadd (startLoad c.zero c.allDems) (demOr c.zero none).change = startLoad c.zero c.allDems := by
      simp only [Ctx.zero, zeroDem_change]
      exact vadd_zeros _ _ (by simpa [Ctx.zero] using hle)
    simp only [loadsAfter, loadProfile, hz]
  have hz0 : (noMarkers c).zero = c.zero := rfl
  simp only [CtxIv.caches, CtxIv.segs]
  rw [allTagged_noMarkers, splitSegs_all_false, hz0]
  simp only [loadCachesIv, segCaches, loadCaches, List.append_nil, hcur]
  refine ⟨?_, ?_, ?_⟩ <;> first | trivial | rfl

theorem capViolationAtIv_noMarkers (c : Ctx) (i : Nat) (x : Option Dem) (st : Bool) :
    capViolationAtIv (noMarkers c) i x st = capViolationAt c i x st := by
  obtain ⟨h1, h2, h3⟩ := caches_noMarkers c
  cases x with
  | none => rfl
  | some d =>
    simp only [capViolationAtIv, capViolationAt, h1, h2, h3]
    rfl

theorem hasMarkers_noMarkers (c : Ctx) : (noMarkers c).hasMarkers = false := by
  have h : (noMarkers c).segs = [demOr c.zero none :: c.allDems] := by
    simp only [CtxIv.segs]
    rw [allTagged_noMarkers, splitSegs_all_false]
  simp [CtxIv.hasMarkers, h]

theorem evalActivityIv_noMarkers (c : Ctx) (i : Nat) (x : Act) (d : Option Dem) :
    evalActivityIv (noMarkers c) i x d = evalActivity c i x d := by
  simp only [evalActivityIv, evalActivity, hasMarkers_noMarkers, capViolationAtIv_noMarkers, Bool.not_false]
  rfl

theorem intervals_noMarkers (c : Ctx) :
    (noMarkers c).intervals = [(0, c.tour.length + (if c.veh.endAt.isSome then 1 else 0))] := by
  simp only [CtxIv.intervals, CtxIv.segs]
  rw [allTagged_noMarkers, splitSegs_all_false]
  simp only [intervalsFrom, Ctx.allDems, Ctx.dems]
  cases c.veh.endAt.isSome <;> simp

theorem evalRouteIv_noMarkers (c : Ctx) (j : JobS) : evalRouteIv (noMarkers c) j = evalRoute c j := by
  simp only [evalRouteIv, evalRoute, intervals_noMarkers, List.any_cons, List.any_nil, Bool.or_false, bordersOk,
    capViolationAtIv_noMarkers]
  cases hd : j.dem with
  | none =>
    simp only [capViolationAt, noMarkers, Option.isNone_none, Bool.or_self]
    cases c.veh.endAt <;> rfl
  | some d =>
    simp only [noMarkers, CtxIv.zero]
    cases c.veh.endAt <;> rfl

theorem scanWindowsIv_noMarkers (c : Ctx) (j : JobS) (i pi : Nat) (p : JPlace) (ws : List (Int × Int)) (sc : Scan) :
    scanWindowsIv (noMarkers c) j i pi p ws sc = scanWindows c j i pi p ws sc := by
  induction ws generalizing sc with
  | nil => rfl
  | cons w ws ih =>
    simp only [scanWindowsIv, scanWindows, evalActivityIv_noMarkers]
    cases evalActivity c i { loc := p.loc, s := w.1, e := w.2, dur := p.dur } j.dem with
    | fail => rfl
    | skip => simp only [ih]
    | ok => simp only [ih]; rfl

theorem scanPlacesIv_noMarkers (c : Ctx) (j : JobS) (i : Nat) (ps : List JPlace) (pi : Nat) (sc : Scan) :
    scanPlacesIv (noMarkers c) j i ps pi sc = scanPlaces c j i ps pi sc := by
  induction ps generalizing pi sc with
  | nil => rfl
  | cons p ps ih =>
    simp only [scanPlacesIv, scanPlaces, scanWindowsIv_noMarkers]
    cases scanWindows c j i pi p p.tws sc with
    | mk sc' stop => cases stop <;> simp [ih]

theorem scanLegsIv_noMarkers (c : Ctx) (j : JobS) (is : List Nat) (sc : Scan) :
    scanLegsIv (noMarkers c) j is sc = scanLegs c j is sc := by
  induction is generalizing sc with
  | nil => rfl
  | cons i is ih =>
    simp only [scanLegsIv, scanLegs, scanPlacesIv_noMarkers]
    cases scanPlaces c j i j.places 0 sc with
    | mk sc' stop => cases stop <;> simp [ih]

/-- **on a tour without markers the model with route intervals IS the model of `VrpModel.C06`** (every context, every job,
    `Any` and every `Concrete(p)`): everything proved about `C06.evalJob` carries over -/
theorem evalJobIv_noMarkers (c : Ctx) (j : JobS) (pos : Position) :
    evalJobIv (noMarkers c) j pos = evalJob c j pos := by
  simp only [evalJobIv, evalJob, evalRouteIv_noMarkers, scanLegsIv_noMarkers]
  rfl

end C06Iv
