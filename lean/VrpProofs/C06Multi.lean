import VrpModel.C06Multi
import VrpProofs.C06
import VrpProofs.C06Cap
import VrpProofs.C06CapVec
import VrpProofs.C06Complete
/-!
# C06 — soundness of a sequence of accepted insertions (multi-task jobs: pickup and delivery)

`eval_multi` inserts the sub-jobs of a multi-task job one after another into a shadow copy of the tour and evaluates
each sub-job on the copy that already holds the previous ones. Proved here: if every step is accepted by the model of
the evaluator (`C06.evalActivity`) on the running context, the final tour is feasible for the SPEC (`C06.baseFeasible`:
step-by-step time simulation + full load profile).
-/
namespace C06Multi
open Route C06 C06Cap C06Complete

/-! ## the running context -/

theorem map_insertAt {α β : Type} (f : α → β) (l : List α) (i : Nat) (x : α) :
    (insertAt l i x).map f = insertAt (l.map f) i (f x) := by
  simp [insertAt, List.map_take, List.map_drop]

theorem insertCtx_cap (c : Ctx) (s : Step) : (insertCtx c s).cap = c.cap := rfl
theorem insertCtx_zero (c : Ctx) (s : Step) : (insertCtx c s).zero = c.zero := rfl
theorem insertCtx_veh (c : Ctx) (s : Step) : (insertCtx c s).veh = c.veh := rfl
theorem insertCtx_m (c : Ctx) (s : Step) : (insertCtx c s).m = c.m := rfl

theorem insertCtx_tour (c : Ctx) (s : Step) :
    (insertCtx c s).tour = insertAt c.tour s.i { act := s.x, dem := s.dem } := rfl

theorem insertCtx_acts (c : Ctx) (s : Step) : (insertCtx c s).acts = insertAt c.acts s.i s.x := by
  unfold Ctx.acts
  rw [insertCtx_tour, map_insertAt]

theorem insertCtx_dems (c : Ctx) (s : Step) :
    (insertCtx c s).dems = insertAt c.dems s.i (demOr c.zero s.dem) := by
  unfold Ctx.dems
  rw [insertCtx_tour, insertCtx_zero, map_insertAt]

theorem insertCtx_length (c : Ctx) (s : Step) (hi : s.i ≤ c.tour.length) :
    (insertCtx c s).tour.length = c.tour.length + 1 := by
  rw [insertCtx_tour]
  simp only [insertAt, List.length_append, List.length_cons, List.length_take, List.length_drop]
  omega

/-! ## capacity: from the evaluator's caches (tour + arrival activity) to the SPEC (tour only) -/

theorem zero_wf (c : Ctx) (n : Nat) (hcap : c.cap.length = n) : WF n (demOr c.zero none) := by
  have hz : c.zero.length = n := by simp [Ctx.zero, hcap]
  exact ⟨hz, hz, hz, hz⟩

theorem prD_zero (c : Ctx) (k : Nat) : prD k (demOr c.zero none) = ⟨0, 0, 0, 0⟩ := by
  simp only [demOr, Option.getD_none, prD, Ctx.zero, pr_zero]

/-- the arrival activity does not change the verdict of the SPEC -/
theorem capOk_allDems (c : Ctx) (n : Nat) (hcap : c.cap.length = n) (hwf : ∀ x ∈ c.dems, WF n x)
    (h : capOk c.cap c.dems = true) : capOk c.cap c.allDems = true := by
  rw [capOk_iff n c.cap hcap _ (wf_allDems c n hcap hwf)]
  intro k hk l hl
  rw [map_prD_allDems, mem_loads1_ext] at hl
  exact (capOk_iff n c.cap hcap c.dems hwf).mp h k hk l hl

/-- … nor after an insertion among the job activities -/
theorem capOk_of_insert_allDems (c : Ctx) (n : Nat) (hcap : c.cap.length = n) (hwf : ∀ x ∈ c.dems, WF n x)
    (d : Dem) (hwd : WF n d) (i : Nat) (hi : i ≤ c.dems.length)
    (h : capOk c.cap (insertAt c.allDems i d) = true) : capOk c.cap (insertAt c.dems i d) = true := by
  rw [capOk_iff n c.cap hcap _ (wf_insertAt n c.dems i d hwf hwd)]
  intro k hk l hl
  have h1 := (capOk_iff n c.cap hcap _ (wf_insertAt n c.allDems i d (wf_allDems c n hcap hwf) hwd)).mp h k hk
  apply h1
  rw [map_prD_insertAt, map_prD_allDems, insertAt1_ext _ _ _ _ (by simpa using hi), mem_loads1_ext]
  rw [map_prD_insertAt] at hl
  exact hl

/-- **capacity soundness on the evaluator's own caches**: no violation reported at leg `i` ⇒ the load profile of the
    tour with the demand inserted stays within capacity -/
theorem capViolationAt_sound (c : Ctx) (n : Nat) (hcap : c.cap.length = n) (hwf : ∀ x ∈ c.dems, WF n x)
    (d : Dem) (hwd : WF n d) (i : Nat) (hi : i ≤ c.tour.length)
    (hok : capOk c.cap c.dems = true) (h : capViolationAt c i (some d) true = none) :
    capOk c.cap (insertAt c.dems i d) = true := by
  have hlen : c.dems.length = c.tour.length := by simp [Ctx.dems]
  have hiA : i ≤ c.allDems.length := by rw [allDems_length]; omega
  rw [capViolationAt_some] at h
  exact capOk_of_insert_allDems c n hcap hwf d hwd i (by omega)
    (cap_sound_vec n c.cap c.allDems i d true hcap (wf_allDems c n hcap hwf) hwd hiA
      (capOk_allDems c n hcap hwf hok) h)

/-- an activity without demand (the all-zero demand of the SPEC) keeps the load profile within capacity, wherever it is
    inserted -/
theorem capOk_insert_zero (c : Ctx) (n : Nat) (hcap : c.cap.length = n) (hwf : ∀ x ∈ c.dems, WF n x) (i : Nat)
    (hok : capOk c.cap c.dems = true) : capOk c.cap (insertAt c.dems i (demOr c.zero none)) = true := by
  rw [capOk_iff n c.cap hcap _ (wf_insertAt n c.dems i _ hwf (zero_wf c n hcap))]
  intro k hk
  rw [map_prD_insertAt, prD_zero]
  apply cap_sound_forall (pr k c.cap) (c.dems.map (prD k)) i ⟨0, 0, 0, 0⟩ ((capOk_iff n c.cap hcap c.dems hwf).mp hok k hk)
  refine ⟨fun h => absurd rfl h, fun h => absurd rfl h, fun h => absurd (by decide) h⟩

/-! ## 1. one accepted step -/

/-- **one accepted insertion keeps the tour feasible** (time and capacity, any number of dimensions, closed and open
    tours) -/
theorem evalActivity_sound (c : Ctx) (s : Step) (n : Nat)
    (hbase : baseFeasible c = true)
    (hcap : c.cap.length = n) (hwf : ∀ x ∈ c.dems, WF n x) (hwd : ∀ d, s.dem = some d → WF n d)
    (hi : s.i ≤ c.tour.length)
    (h : evalActivity c s.i s.x s.dem = .ok) :
    baseFeasible (insertCtx c s) = true := by
  unfold baseFeasible at hbase ⊢
  rw [Bool.and_eq_true] at hbase ⊢
  obtain ⟨htime, hcapok⟩ := hbase
  constructor
  · rw [insertCtx_acts, insertCtx_veh, insertCtx_m]
    exact evalTime_sound c.m.t c.veh c.acts s.i s.x (by simpa [Ctx.acts] using hi) htime
      (evalActivity_ok_time c s.i s.x s.dem h)
  · rw [insertCtx_dems, insertCtx_cap]
    have hc := evalActivity_ok_cap c s.i s.x s.dem h
    cases hd : s.dem with
    | none => exact capOk_insert_zero c n hcap hwf s.i hcapok
    | some d =>
      rw [hd] at hc
      exact capViolationAt_sound c n hcap hwf d (hwd d hd) s.i hi hcapok hc

/-! ## 2. the well-formedness hypotheses travel with the running context -/

theorem demOr_wf (c : Ctx) (n : Nat) (hcap : c.cap.length = n) (o : Option Dem) (hwd : ∀ d, o = some d → WF n d) :
    WF n (demOr c.zero o) := by
  cases o with
  | none => exact zero_wf c n hcap
  | some d => exact hwd d rfl

theorem insertCtx_wf (c : Ctx) (s : Step) (n : Nat)
    (hcap : c.cap.length = n) (hwf : ∀ x ∈ c.dems, WF n x) (hwd : ∀ d, s.dem = some d → WF n d) :
    (insertCtx c s).cap.length = n ∧ ∀ x ∈ (insertCtx c s).dems, WF n x := by
  refine ⟨hcap, ?_⟩
  rw [insertCtx_dems]
  exact wf_insertAt n c.dems s.i _ hwf (demOr_wf c n hcap s.dem hwd)

/-! ## 3. the whole sequence -/

theorem verdict_ok (v : Verdict) (h : (match v with | .ok => true | _ => false) = true) : v = .ok := by
  cases v with
  | ok => rfl
  | skip => cases h
  | fail => cases h

theorem acceptedSeq_cons (c : Ctx) (s : Step) (r : List Step) :
    acceptedSeq c (s :: r) = true ↔
      evalActivity c s.i s.x s.dem = .ok ∧ s.i ≤ c.tour.length ∧ acceptedSeq (insertCtx c s) r = true := by
  rw [acceptedSeq]
  simp only [Bool.and_eq_true, decide_eq_true_eq]
  constructor
  · rintro ⟨⟨h1, h2⟩, h3⟩
    exact ⟨verdict_ok _ h1, h2, h3⟩
  · rintro ⟨h1, h2, h3⟩
    rw [h1]
    exact ⟨⟨rfl, h2⟩, h3⟩

/-- **C06 soundness for a sequence of insertions (`eval_multi`)**: if every step is accepted by the evaluator on the
    tour that already holds the previous steps, the final tour is feasible for the step-by-step simulation -/
theorem acceptedSeq_sound (n : Nat) (steps : List Step) : ∀ (c : Ctx),
    baseFeasible c = true → c.cap.length = n → (∀ x ∈ c.dems, WF n x) →
    (∀ s ∈ steps, ∀ d, s.dem = some d → WF n d) →
    acceptedSeq c steps = true → baseFeasible (applySeq c steps) = true := by
  induction steps with
  | nil => intro c hbase _ _ _ _; exact hbase
  | cons s r ih =>
    intro c hbase hcap hwf hsteps hacc
    obtain ⟨hok, hi, hrest⟩ := (acceptedSeq_cons c s r).mp hacc
    have hwd := hsteps s (List.mem_cons_self ..)
    obtain ⟨hcap', hwf'⟩ := insertCtx_wf c s n hcap hwf hwd
    rw [applySeq]
    exact ih (insertCtx c s) (evalActivity_sound c s n hbase hcap hwf hwd hi hok) hcap' hwf'
      (fun s' hs' => hsteps s' (List.mem_cons_of_mem _ hs')) hrest

/-! ## 5. decidable hypotheses -/

theorem stepWF_spec (n : Nat) (s : Step) (h : stepWF n s = true) : ∀ d, s.dem = some d → WF n d := by
  intro d hd
  unfold stepWF at h
  rw [hd] at h
  exact (demWF_iff n d).mp h

/-- **the same with hypotheses a driver can evaluate**: on every case where the Boolean `seqWF` is true -/
theorem acceptedSeq_sound_hyps (c : Ctx) (steps : List Step)
    (hbase : baseFeasible c = true) (hwf : seqWF c steps = true) (hacc : acceptedSeq c steps = true) :
    baseFeasible (applySeq c steps) = true := by
  unfold seqWF at hwf
  rw [Bool.and_eq_true] at hwf
  exact acceptedSeq_sound c.cap.length steps c hbase rfl
    (fun x hx => (demWF_iff _ _).mp (List.all_eq_true.mp hwf.1 x hx))
    (fun s hs => stepWF_spec _ s (List.all_eq_true.mp hwf.2 s hs)) hacc

/-! ## 4. the shape of a pickup-and-delivery job -/

theorem insertAt_length {α : Type} (l : List α) (i : Nat) (x : α) (hi : i ≤ l.length) :
    (insertAt l i x).length = l.length + 1 := by
  simp only [insertAt, List.length_append, List.length_cons, List.length_take, List.length_drop]
  omega

theorem insertAt_getElem?_self {α : Type} (l : List α) (i : Nat) (x : α) (hi : i ≤ l.length) :
    (insertAt l i x)[i]? = some x := by
  unfold insertAt
  have hl : (l.take i).length = i := by rw [List.length_take]; omega
  rw [List.getElem?_append_right (by omega), hl]
  simp

theorem insertAt_getElem?_lt {α : Type} (l : List α) (i k : Nat) (x : α) (hk : k < i) (hi : i ≤ l.length) :
    (insertAt l i x)[k]? = l[k]? := by
  unfold insertAt
  have hl : (l.take i).length = i := by rw [List.length_take]; omega
  rw [List.getElem?_append_left (by omega), List.getElem?_take_of_lt hk]

theorem pdSteps_wf (c : Ctx) (q : List Int) (i j : Nat) (xp xd : Act) (hq : q.length = c.cap.length) :
    ∀ s ∈ pdSteps c q i j xp xd, ∀ d, s.dem = some d → WF c.cap.length d := by
  have hz : c.zero.length = c.cap.length := by simp [Ctx.zero]
  intro s hs d hd
  simp only [pdSteps, List.mem_cons, List.mem_nil_iff, or_false] at hs
  rcases hs with rfl | rfl
  · cases hd; exact ⟨hz, hq, hz, hz⟩
  · cases hd; exact ⟨hz, hz, hz, hq⟩

/-- **pickup and delivery**: the pickup of `q` is accepted at leg `i`, then the delivery of `q` is accepted at a later leg
    `j` of the tour that already holds the pickup ⇒ the final tour is feasible for the simulation, it holds the two new
    activities, and the pickup (position `i`) precedes the delivery (position `j`) -/
theorem pickup_delivery_sound (c : Ctx) (q : List Int) (i j : Nat) (xp xd : Act)
    (hbase : baseFeasible c = true) (hwf : ∀ x ∈ c.dems, WF c.cap.length x) (hq : q.length = c.cap.length)
    (hij : i < j)
    (hacc : acceptedSeq c (pdSteps c q i j xp xd) = true) :
    baseFeasible (applySeq c (pdSteps c q i j xp xd)) = true ∧
    (applySeq c (pdSteps c q i j xp xd)).tour.length = c.tour.length + 2 ∧
    (applySeq c (pdSteps c q i j xp xd)).acts[i]? = some xp ∧
    (applySeq c (pdSteps c q i j xp xd)).acts[j]? = some xd := by
  refine ⟨acceptedSeq_sound c.cap.length _ c hbase rfl hwf (pdSteps_wf c q i j xp xd hq) hacc, ?_⟩
  unfold pdSteps at hacc ⊢
  obtain ⟨_, hi, hrest⟩ := (acceptedSeq_cons _ _ _).mp hacc
  obtain ⟨_, hj, _⟩ := (acceptedSeq_cons _ _ _).mp hrest
  simp only [applySeq]
  have hi' : i ≤ c.acts.length := by simpa [Ctx.acts] using hi
  have hlen1 := insertCtx_length c _ hi
  have hlenA : (insertAt c.acts i xp).length = c.acts.length + 1 := insertAt_length _ _ _ hi'
  have hj' : j ≤ (insertAt c.acts i xp).length := by
    rw [hlenA]
    have : c.acts.length = c.tour.length := by simp [Ctx.acts]
    simp only at hj hlen1
    omega
  refine ⟨?_, ?_, ?_⟩
  · rw [insertCtx_length _ _ hj, hlen1]
  · rw [insertCtx_acts, insertCtx_acts]
    simp only
    rw [insertAt_getElem?_lt _ _ _ _ hij hj', insertAt_getElem?_self _ _ _ hi']
  · rw [insertCtx_acts, insertCtx_acts]
    simp only
    exact insertAt_getElem?_self _ _ _ hj'

/-! ### non-vacuity: two capacity dimensions, closed tour

Matrix: three locations, 5 apart. Tour (shift end 100, capacity `[10, 5]`): one activity A at location 1 with a static
pickup `[4, 1]` (load `[0,0]` at departure, `[4,1]` after A). -/

def exM : Mat := { n := 3, dur := [0, 5, 5, 5, 0, 5, 5, 5, 0], dist := [0, 5, 5, 5, 0, 5, 5, 5, 0] }
def exC : Ctx :=
  { m := exM, veh := { startLoc := 0, earliest := 0, dep := 0, endAt := some (0, 100) }, cap := [10, 5],
    costs := ⟨0, 1, 1⟩, obj := .distance,
    tour := [⟨{ loc := 1, s := 0, e := 50, dur := 2 }, some ⟨[4, 1], [0, 0], [0, 0], [0, 0]⟩⟩] }

/-- pickup at location 2, service 1 -/
def exP : Act := { loc := 2, s := 0, e := 50, dur := 1 }
/-- delivery at location 1, window `[0, 60]` -/
def exD : Act := { loc := 1, s := 0, e := 60, dur := 1 }

instance (n : Nat) (d : Dem) : Decidable (WF n d) := by unfold WF; infer_instance

-- accepted: pickup of `[5,3]` before A (loads `[5,3] [9,4]`), delivery after A (`[4,1]`); the simulation agrees
example : baseFeasible exC = true ∧ seqWF exC (pdSteps exC [5, 3] 0 2 exP exD) = true ∧
    acceptedSeq exC (pdSteps exC [5, 3] 0 2 exP exD) = true ∧
    baseFeasible (applySeq exC (pdSteps exC [5, 3] 0 2 exP exD)) = true := by decide
-- the load profile of the final tour
example : loadProfile exC.zero (applySeq exC (pdSteps exC [5, 3] 0 2 exP exD)).dems = [[0, 0], [5, 3], [9, 4], [4, 1]] := by
  decide
-- all hypotheses of the theorems hold on this case: they are not vacuous
example : baseFeasible (applySeq exC (pdSteps exC [5, 3] 0 2 exP exD)) = true :=
  acceptedSeq_sound_hyps exC _ (by decide) (by decide) (by decide)
example : (applySeq exC (pdSteps exC [5, 3] 0 2 exP exD)).acts = [exP, ⟨1, 0, 50, 2⟩, exD] := by decide
example := pickup_delivery_sound exC [5, 3] 0 2 exP exD (by decide) (by decide) (by decide) (by decide) (by decide)

-- capacity is exercised on the running context: a pickup of `[7,3]` is refused at both legs (`[11,4]` after A)
example : (List.range 2).all (fun i => !acceptedSeq exC [⟨i, exP, some ⟨[0, 0], [7, 3], [0, 0], [0, 0]⟩⟩]) = true := by decide
-- … and a second pickup of `[5,3]` is refused everywhere on the tour that already holds the first one (evaluated on the
-- original tour it would have been accepted again: the running context matters)
example : acceptedSeq exC [⟨0, exP, some ⟨[0, 0], [5, 3], [0, 0], [0, 0]⟩⟩] = true ∧
    (List.range 3).all (fun j => !acceptedSeq exC
      [⟨0, exP, some ⟨[0, 0], [5, 3], [0, 0], [0, 0]⟩⟩, ⟨j, exP, some ⟨[0, 0], [5, 3], [0, 0], [0, 0]⟩⟩]) = true := by decide

/-! ### the pickup is accepted, no later leg accepts the delivery: the sequence is refused

Pickup with service 3 (departure 8); the delivery window `[0, 12]` at location 1 is reachable on the ORIGINAL tour (arrival 5
at leg 0), but not after the pickup (arrival 13 at leg 1, later at leg 2). -/

def exP' : Act := { loc := 2, s := 0, e := 50, dur := 3 }
def exD' : Act := { loc := 1, s := 0, e := 12, dur := 1 }

example :
    -- the pickup alone is accepted at leg 0
    acceptedSeq exC ((pdSteps exC [5, 3] 0 1 exP' exD').take 1) = true ∧
    -- the delivery alone would be accepted on the original tour
    acceptedSeq exC [⟨0, exD', some ⟨[0, 0], [0, 0], [0, 0], [5, 3]⟩⟩] = true ∧
    -- no later leg of the running tour (legs 1, 2; 3 and 4 are not legs) accepts the delivery
    (List.range 4).all (fun k => !acceptedSeq exC (pdSteps exC [5, 3] 0 (k + 1) exP' exD')) = true ∧
    -- and the simulation agrees: every later position of the delivery is infeasible
    (List.range 2).all (fun k => !baseFeasible (applySeq exC (pdSteps exC [5, 3] 0 (k + 1) exP' exD'))) = true := by decide

/-! ### what the evaluator does NOT check

* `s.i ≤ c.tour.length` is needed: beyond the last leg of a CLOSED tour the evaluator sees no next activity and treats the
  insertion as the end of an open tour — the arrival activity is not checked. (`evalJob` only offers `i < legCount`.)
* The order "pickup before delivery" is not a property of `evalActivity`: a delivery placed BEFORE its pickup is accepted
  (the load goes negative, nothing bounds it from below); `eval_multi` excludes it by starting the scan of the next
  sub-job at `next_index = index + 1`. Hence `hij : i < j` in `pickup_delivery_sound` is a hypothesis on the scan. -/

def exC0 : Ctx :=
  { m := exM, veh := { startLoc := 0, earliest := 0, dep := 0, endAt := some (0, 12) }, cap := [10, 5],
    costs := ⟨0, 1, 1⟩, obj := .distance, tour := [] }

-- leg 1 of an empty closed tour does not exist; the model of `evaluate_activity` accepts, the result is infeasible
-- (arrival at the end: 5 + 10 + 5 = 20 > 12); at the only leg 0 the same activity is refused
example : baseFeasible exC0 = true ∧
    evalActivity exC0 1 ⟨1, 0, 100, 10⟩ none = .ok ∧
    baseFeasible (insertCtx exC0 ⟨1, ⟨1, 0, 100, 10⟩, none⟩) = false ∧
    evalActivity exC0 0 ⟨1, 0, 100, 10⟩ none ≠ .ok := by decide

-- delivery before its pickup: accepted step by step, "feasible" for the load profile (which has no lower bound)
example : acceptedSeq exC (pdSteps exC [5, 3] 1 0 exP exD) = true ∧
    loadProfile exC.zero (applySeq exC (pdSteps exC [5, 3] 1 0 exP exD)).dems = [[0, 0], [-5, -3], [-1, -2], [4, 1]] := by
  decide

end C06Multi
