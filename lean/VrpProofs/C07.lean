import VrpModel.C07
import VrpProofs.C02
/-!
# C07 — interruption at any poll still yields an accounted-for solution; generations never exceed the maximum

For EVERY poll index `k` at which the quota turns true, every operator body and every amount of fuel:
the construction loop ends finalised (nothing left in `required`, no job-less route) with the partition
intact, and the evolution loop never runs more generations than configured. The enumeration of every `k`
on the real solver (this check's harness) is what ties the skeleton to the code.
-/
set_option linter.unusedSimpArgs false

namespace C07
open Machine

theorem applyAll_part (all : List Job) (ops : List Op) : ∀ c, Part all c → Part all (applyAll c ops) := by
  induction ops with
  | nil => intro c h; exact h
  | cons op ops ih =>
    intro c h
    simp only [applyAll]
    apply ih
    cases hs : step c op with
    | none => simpa using h
    | some c' => simpa using step_part all c c' op h hs

theorem processLoop_part (all : List Job) (k : Nat) (body : Ctx → List Op) (fuel : Nat) :
    ∀ c p, Part all c → Part all (processLoop k body fuel c p).1 := by
  induction fuel with
  | zero => intro c p h; exact h
  | succ fuel ih =>
    intro c p h
    simp only [processLoop]
    split
    · exact h
    · split
      · exact h
      · exact ih _ _ (applyAll_part all _ c h)

/-- **whenever the quota fires (any `k`), `process` returns finalised**: nothing is left pending, no route is
    job-less, and every job is still accounted for exactly as often as in the plan -/
theorem process_finalizes (all : List Job) (k : Nat) (body : Ctx → List Op) (fuel : Nat) (c : Ctx) (p : Nat)
    (h : Part all c) :
    let r := (process k body fuel c p).1
    r.required = [] ∧ Part all r ∧ ∀ rt ∈ r.routes, rt.jobs ≠ [] := by
  simp only [process]
  have hprep : Part all ((step c .prepare).getD c) := by
    have : step c .prepare = some { c with required := c.unassigned ++ c.required, unassigned := [] } := rfl
    rw [this]
    exact step_part all c _ .prepare h this
  have hloop := processLoop_part all k body fuel _ p hprep
  generalize (processLoop k body fuel ((step c Op.prepare).getD c) p).1 = c1 at hloop
  have hfin : step c1 .finalize = some { c1 with unassigned := c1.required ++ c1.unassigned, required := [] } := rfl
  rw [hfin]
  simp only [Option.getD_some]
  refine ⟨rfl, dropEmpty_part all _ (step_part all c1 _ .finalize hloop hfin), dropEmpty_no_empty_route _⟩

/-- the loop exits at the first poll that answers true: after the quota fired no further body runs -/
theorem processLoop_stops_when_fired (k : Nat) (body : Ctx → List Op) (fuel : Nat) (c : Ctx) (p : Nat)
    (hk : k ≤ p) : (processLoop k body fuel c p).1 = c := by
  cases fuel with
  | zero => rfl
  | succ fuel =>
    simp only [processLoop]
    split
    · rfl
    · have : quota k p = true := by simp [quota, hk]
      simp [this]

/-- **generations never exceed the configured maximum**, whatever the quota does -/
theorem generations_le_max (maxGen k : Nat) (ppg : Nat → Nat) (fuel : Nat) :
    ∀ g p, g ≤ maxGen → evolve maxGen k ppg fuel g p ≤ maxGen := by
  induction fuel with
  | zero => intro g p h; exact h
  | succ fuel ih =>
    intro g p h
    simp only [evolve]
    split
    · exact h
    · rename_i hc
      simp only [Bool.or_eq_true, decide_eq_true_eq, not_or, Nat.not_le] at hc
      exact ih (g + 1) _ (by omega)

/-- an interrupted run never does more generations than the uninterrupted one would at that point -/
theorem evolve_stops_when_fired (maxGen k : Nat) (ppg : Nat → Nat) (fuel g p : Nat) (hk : k ≤ p) :
    evolve maxGen k ppg fuel g p = g := by
  cases fuel with
  | zero => rfl
  | succ fuel =>
    simp only [evolve]
    have : quota k p = true := by simp [quota, hk]
    simp [this]

/-! ### non-vacuity -/
example : (process 1 (fun c => match c.required with | j :: _ => [.insertNew j 7, .insert j 0] | [] => [])
    10 { required := [1, 2, 3], ignored := [], unassigned := [], locked := [], routes := [], available := [7] } 0).1.unassigned
    = [2, 3] := by decide
example : evolve 5 100 (fun _ => 3) 50 0 0 = 5 ∧ evolve 5 6 (fun _ => 3) 50 0 0 = 2 := by decide

end C07
