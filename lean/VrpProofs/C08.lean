import VrpProofs.C08.Greedy
import VrpProofs.C08.ElitismStep
import VrpProofs.C08.Rosomaxa
/-!
# C08 — a population never loses its best-known solution: the property theorems

Everything is stated for an arbitrary type of individuals with decidable equality, an objective `le` that is a
**total preorder** (`TotalPreorder`: transitive, total — what C09 proves for single-layer goals), an arbitrary dedup
function, arbitrary sizes (`max_population_size ≥ 1`) and **every** finite sequence of operations
`add / add_all / on_generation(statistics) / select(random tape)`.

* `*_trace_meets_spec` — the trace of the model (what `ranked()`, `size()`, `selection_phase()`, `select()` and the
  return values show after each operation) satisfies the specification `traceOK` of `VrpModel/C08.lean`, the same
  Boolean predicate that the check evaluates on the traces of the real populations.
* the named corollaries restate the parts of the property in plain form.

Greedy: `/repo`'s `add_all` hands every element to `add` (`Greedy.repoShortCircuits = false`, repair S35), so
`greedy_best_le_all_offered` is the statement about the code. The theorems are given for both folds: for the
short-circuiting `acc || self.add(..)` that `/repo` had before, only the considered prefix of a batch is covered and
`greedy_short_circuit_add_all_loses_best` is the kernel-checked witness of the loss — this is what the mutant
`C08-n-greedy-short-circuit` reintroduces and what the oracle (always the full specification) rejects.
Out of model: the GSOM network — the node part of `Rosomaxa::select` in the exploration phase comes from a tape that is
assumed to contain offered individuals only (`tapeHyp`, C19's domain).
-/
set_option linter.unusedSimpArgs false
set_option linter.unnecessarySimpa false
set_option linter.unusedVariables false
set_option linter.unusedSectionVars false

namespace C08

variable {α : Type} [DecidableEq α]

/-! ## the objective and the individuals used by the driver meet the hypotheses -/

theorem ind_le_totalPreorder : TotalPreorder Ind.le :=
  ⟨by intro a b c; simp only [Ind.le, decide_eq_true_eq]; omega,
   by intro a b; simp only [Ind.le, Bool.or_eq_true, decide_eq_true_eq]; omega⟩

theorem ind_fitEq_iff (a b : Ind) : Ind.fitEq a b = (Ind.le a b && Ind.le b a) := by
  simp only [Ind.fitEq, Ind.le]
  by_cases h : a.fit = b.fit
  · simp [h]
  · have : ¬ (a.fit ≤ b.fit ∧ b.fit ≤ a.fit) := by omega
    simp [h]; omega

/-! ## what "returns true" means -/

/-- `improved` = the best known appeared, or the new best known is strictly better than the old one -/
theorem improved_iff (le : α → α → Bool) (old new : Option α) :
    improved le old new = true ↔
      (old = none ∧ new ≠ none) ∨ ∃ o n, old = some o ∧ new = some n ∧ le o n = false := by
  cases old <;> cases new <;> simp [improved]

/-! ## Greedy -/

/-- **Greedy, either fold, every operation sequence: the observed trace satisfies the specification**
    (for the short-circuiting fold with the considered prefix of each batch as what was offered). -/
theorem greedy_trace_meets_spec (sc : Bool) (c : Cfg α) (hp : TotalPreorder c.le) (init : Option α)
    (ops : List (Op α)) :
    traceOK (greedySpec sc c) init.toList init.toList .exploitation ((greedyM sc c).trace init ops) = true := by
  have := traceOK_of_step (greedyM sc c) (greedySpec sc c) (fun offered s => GInv c offered s) (fun _ _ => True)
    (fun offered s op h _ => greedy_step sc hp offered s op h) ops init.toList init (GInv.init c hp init)
    (HypAll_trivial _ _ _ _ _)
  simpa [greedyM] using this

theorem greedy_run_inv (sc : Bool) (c : Cfg α) (hp : TotalPreorder c.le) (init : Option α) (ops : List (Op α)) :
    GInv c (offeredAfter (greedySpec sc c) (greedyM sc c) init.toList init ops) ((greedyM sc c).run init ops) :=
  run_inv_of_step (greedyM sc c) (greedySpec sc c) (fun offered s => GInv c offered s) (fun _ _ => True)
    (fun offered s op h _ => greedy_step sc hp offered s op h) ops init.toList init (GInv.init c hp init)
    (HypAll_trivial _ _ _ _ _)

/-- **Greedy as in /repo (`add_all` hands every element to `add`): after ANY operation sequence the best known is one of
    the offered individuals and no worse than every individual ever offered, singly or in a batch.** -/
theorem greedy_best_le_all_offered (c : Cfg α) (hp : TotalPreorder c.le) (init : Option α) (ops : List (Op α))
    (y : α) (hy : y ∈ init.toList ++ allOffered ops) :
    ∃ h, (greedyM false c).run init ops = some h ∧ h ∈ init.toList ++ allOffered ops ∧ c.le h y = true := by
  have hinv := greedy_run_inv false c hp init ops
  rw [offeredAfter_id _ _ (by intro b xs; rfl)] at hinv
  obtain ⟨h, hh, hle⟩ := hinv.best y hy
  exact ⟨h, hh, hinv.sub h hh, hle⟩

/-- **the short-circuiting fold (before the repair S35; regression analysis)**: the best known is no worse than every
    individual offered singly and every individual of the *considered prefix* of each batch (up to and including its
    first improving element). The batch elements after the first improving one are not covered —
    see `greedy_short_circuit_add_all_loses_best`. -/
theorem greedy_short_circuit_best_le_all_considered (c : Cfg α) (hp : TotalPreorder c.le) (init : Option α)
    (ops : List (Op α)) (y : α)
    (hy : y ∈ offeredAfter (greedySpec true c) (greedyM true c) init.toList init ops) :
    ∃ h, (greedyM true c).run init ops = some h ∧ c.le h y = true :=
  (greedy_run_inv true c hp init ops).best y hy

/-- in a batch sorted best-first nothing after the considered prefix is better than its last element -/
theorem consideredPrefix_covers (le : α → α → Bool) (best : Option α) (xs : List α)
    (hs : xs.Pairwise (fun a b => le a b = true)) (y : α) (hy : y ∈ xs) :
    y ∈ consideredPrefix le best xs ∨ ∃ e ∈ consideredPrefix le best xs, le e y = true := by
  induction xs with
  | nil => simp at hy
  | cons x xs ih =>
    rw [List.pairwise_cons] at hs
    cases best with
    | none =>
      rcases List.mem_cons.mp hy with rfl | h1
      · left; simp [consideredPrefix]
      · right; exact ⟨x, by simp [consideredPrefix], hs.1 y h1⟩
    | some b =>
      by_cases hb : le b x = true
      · simp only [consideredPrefix, hb, if_true]
        rcases List.mem_cons.mp hy with rfl | h1
        · left; simp
        · rcases ih hs.2 h1 with h2 | ⟨e, he, hey⟩
          · left; exact List.mem_cons_of_mem _ h2
          · right; exact ⟨e, List.mem_cons_of_mem _ he, hey⟩
      · simp only [consideredPrefix, hb, if_false]
        rcases List.mem_cons.mp hy with rfl | h1
        · left; simp
        · right; exact ⟨x, by simp, hs.1 y h1⟩

theorem GInv.addAll_sorted {c : Cfg α} (hp : TotalPreorder c.le) {offered : List α} {best : Option α}
    (h : GInv c offered best) (xs : List α) (hs : xs.Pairwise (fun a b => c.le a b = true)) :
    GInv c (offered ++ xs) (Greedy.addAll true c best xs).1 := by
  rw [Greedy.addAll_shortCircuit]
  have h1 := h.addAll hp (consideredPrefix c.le best xs)
  have hsub : ∀ x ∈ consideredPrefix c.le best xs, x ∈ xs := by
    intro x hx
    clear h1 hs h
    induction xs with
    | nil => simp [consideredPrefix] at hx
    | cons a as ih =>
      cases best with
      | none => simp [consideredPrefix] at hx; simp [hx]
      | some b =>
        by_cases hb : c.le b a = true
        · simp only [consideredPrefix, hb, if_true, List.mem_cons] at hx
          rcases hx with rfl | h2
          · simp
          · exact List.mem_cons_of_mem _ (ih h2)
        · simp [consideredPrefix, hb] at hx; simp [hx]
  refine ⟨?_, ?_⟩
  · intro x hx
    rcases List.mem_append.mp (h1.sub x hx) with h2 | h2
    · exact List.mem_append_left _ h2
    · exact List.mem_append_right _ (hsub x h2)
  · intro y hy
    rcases List.mem_append.mp hy with h2 | h2
    · exact h1.best y (List.mem_append_left _ h2)
    · rcases consideredPrefix_covers c.le best xs hs y h2 with h3 | ⟨e, he, hey⟩
      · exact h1.best y (List.mem_append_right _ h3)
      · obtain ⟨n, hn, hne⟩ := h1.best e (List.mem_append_right _ he)
        exact ⟨n, hn, hp.trans _ _ _ hne hey⟩

/-- **the short-circuiting fold, usable form**: when every batch is sorted best-first — in particular when every batch
    has at most one element, which is what a selection size of 1 produces — even that fold keeps the best known no worse
    than every individual ever offered (why the defect did not show with the default selection size 1). -/
theorem greedy_short_circuit_best_le_all_offered_of_sorted_batches (c : Cfg α) (hp : TotalPreorder c.le)
    (ops : List (Op α)) :
    ∀ (init : Option α) (offered : List α), GInv c offered init →
      (∀ xs, Op.addAll xs ∈ ops → xs.Pairwise (fun a b => c.le a b = true)) →
      GInv c (offered ++ allOffered ops) ((greedyM true c).run init ops) := by
  induction ops with
  | nil => intro init offered h _; simpa [allOffered, Machine.run] using h
  | cons op ops ih =>
    intro init offered h hs
    rw [allOffered_cons, ← List.append_assoc]
    have hs' : ∀ xs, Op.addAll xs ∈ ops → xs.Pairwise (fun a b => c.le a b = true) :=
      fun xs hx => hs xs (List.mem_cons_of_mem _ hx)
    cases op with
    | add x => exact ih _ _ (h.add hp x) hs'
    | addAll xs => exact ih _ _ (h.addAll_sorted hp xs (hs xs (List.mem_cons_self ..))) hs'
    | gen st => exact ih _ _ (by simpa [opInds, Machine.step, greedyM] using h) hs'
    | select t => exact ih _ _ (by simpa [opInds, Machine.step, greedyM] using h) hs'

/-- a total preorder on `Nat` for the examples -/
def natCfg (cap sel : Nat) : Cfg Nat := ⟨fun a b => decide (a ≤ b), fun a b => decide (a = b), fun a b => decide (a = b), cap, sel⟩

theorem natCfg_totalPreorder (cap sel : Nat) : TotalPreorder (natCfg cap sel).le :=
  ⟨by intro a b c; simp only [natCfg, decide_eq_true_eq]; omega,
   by intro a b; simp only [natCfg, Bool.or_eq_true, decide_eq_true_eq]; omega⟩

theorem natCfg_fit (cap sel : Nat) (a b : Nat) :
    (natCfg cap sel).fitEq a b = ((natCfg cap sel).le a b && (natCfg cap sel).le b a) := by
  simp only [natCfg]
  by_cases h : a = b
  · simp [h]
  · have : ¬ (a ≤ b ∧ b ≤ a) := by omega
    simp [h]; omega

/-- **counter-witness for the short-circuiting fold** (what /repo's `Greedy::add_all` was before the repair S35;
    `corpus/C08/greedy_batch_skips_better.jsonl` replays the input on the real code, which must now keep `3`):
    `add_all([5, 3])` on an empty population keeps `5` and reports an improvement, although `3` was offered in the same
    batch and is strictly better; the exhaustive fold keeps `3`. -/
theorem greedy_short_circuit_add_all_loses_best :
    Greedy.addAll true (natCfg 1 1) none [5, 3] = (some 5, true) ∧
      (natCfg 1 1).le 5 3 = false ∧
      Greedy.addAll false (natCfg 1 1) none [5, 3] = (some 3, true) := by
  decide

example : ∃ h, (greedyM false (natCfg 1 1)).run none [.add 5, .addAll [7, 3, 4], .select ⟨[], 1, []⟩, .add 6] = some h ∧
    h ∈ (none : Option Nat).toList ++ allOffered [Op.add 5, .addAll [7, 3, 4], .select ⟨[], 1, []⟩, .add 6] ∧
    (natCfg 1 1).le h 3 = true :=
  greedy_best_le_all_offered (natCfg 1 1) (natCfg_totalPreorder 1 1) none _ 3 (by decide)

example : (greedyM false (natCfg 1 1)).run none [.add 5, .addAll [7, 3, 4], .select ⟨[], 1, []⟩, .add 6] = some 3 := by
  decide

/-! ## Elitism -/

/-- **Elitism, every operation sequence: the observed trace satisfies the specification** -/
theorem elitism_trace_meets_spec (c : Cfg α) (hp : TotalPreorder c.le) (hcap : 0 < c.cap)
    (hfit : ∀ a b, c.fitEq a b = (c.le a b && c.le b a)) (ops : List (Op α)) :
    traceOK (elitismSpec c) [] [] .exploitation ((elitismM c).trace ElState.empty ops) = true := by
  have := traceOK_of_step (elitismM c) (elitismSpec c) (fun offered s => EInv c offered s.inds) (fun _ _ => True)
    (fun offered s op h _ => elitism_step hp hcap hfit offered s op h) ops [] ElState.empty (EInv.nil c)
    (HypAll_trivial _ _ _ _ _)
  simpa [elitismM, ElState.empty] using this

theorem elitism_run_inv (c : Cfg α) (hp : TotalPreorder c.le) (hcap : 0 < c.cap) (ops : List (Op α)) :
    ∀ (offered : List α) (s : ElState α), EInv c offered s.inds →
      EInv c (offered ++ allOffered ops) ((elitismM c).run s ops).inds := by
  induction ops with
  | nil => intro offered s h; simpa [allOffered, Machine.run] using h
  | cons op ops ih =>
    intro offered s h
    rw [allOffered_cons, ← List.append_assoc]
    cases op with
    | add x => exact ih _ _ (h.addWithIter hp hcap [x])
    | addAll xs => exact ih _ _ (h.addAll hp hcap xs)
    | gen st => exact ih _ _ (by simpa [opInds, Machine.step, elitismM, Elitism.onGeneration] using h)
    | select t => exact ih _ _ (by simpa [opInds, Machine.step, elitismM] using h)

/-- **after ANY sequence of additions, generation ticks and selections the first ranked individual of an Elitism
    is one of the offered individuals and no worse than every individual ever offered, singly or in a batch** -/
theorem elitism_head_le_all_offered (c : Cfg α) (hp : TotalPreorder c.le) (hcap : 0 < c.cap) (ops : List (Op α))
    (y : α) (hy : y ∈ allOffered ops) :
    ∃ h, ((elitismM c).run ElState.empty ops).inds.head? = some h ∧ h ∈ allOffered ops ∧ c.le h y = true := by
  have hinv := elitism_run_inv c hp hcap ops [] ElState.empty (EInv.nil c)
  simp only [List.nil_append] at hinv
  obtain ⟨h, hh, hle⟩ := hinv.best y hy
  exact ⟨h, hh, hinv.head_mem hh, hle⟩

/-- **the ranking is sorted** -/
theorem elitism_sorted (c : Cfg α) (hp : TotalPreorder c.le) (hcap : 0 < c.cap) (ops : List (Op α)) :
    ((elitismM c).run ElState.empty ops).inds.Pairwise (fun a b => c.le a b = true) :=
  (elitism_run_inv c hp hcap ops [] ElState.empty (EInv.nil c)).sorted

/-- **the size stays within the configured bound** -/
theorem elitism_size_le_max (c : Cfg α) (hp : TotalPreorder c.le) (hcap : 0 < c.cap) (ops : List (Op α)) :
    (elitismM c).size ((elitismM c).run ElState.empty ops) ≤ c.cap :=
  (elitism_run_inv c hp hcap ops [] ElState.empty (EInv.nil c)).len

/-- **selection returns only individuals that were offered**, whatever the random generator answers -/
theorem elitism_select_subset_offered (c : Cfg α) (hp : TotalPreorder c.le) (hcap : 0 < c.cap) (ops : List (Op α))
    (t : Tape α) (x : α) (hx : x ∈ (elitismM c).select ((elitismM c).run ElState.empty ops) t) :
    x ∈ allOffered ops := by
  have hinv := elitism_run_inv c hp hcap ops [] ElState.empty (EInv.nil c)
  simp only [List.nil_append] at hinv
  exact hinv.sub x (Elitism.select_mem c _ _ hx)

/-- **selection returns something whenever the population is non-empty** (a positive selection size configured),
    and the best known comes first -/
theorem elitism_select_nonempty_of_nonempty (c : Cfg α) (hsel : 1 ≤ c.selSize) (s : ElState α) (t : Tape α)
    (hne : s.inds ≠ []) :
    (elitismM c).select s t ≠ [] ∧ ((elitismM c).select s t).head? = s.inds.head? :=
  ⟨Elitism.select_ne_nil c s t.picks hsel hne, Elitism.select_head? c s t.picks hsel⟩

/-- **`add`/`add_all` return `true` exactly when the best known strictly improved, or appeared**
    (`is_improved` compares the fitness of the old and the new head; `hfit`: equal fitness = equal rank) -/
theorem elitism_add_returns_improved_iff_head_fitness_changed (c : Cfg α) (hp : TotalPreorder c.le) (hcap : 0 < c.cap)
    (hfit : ∀ a b, c.fitEq a b = (c.le a b && c.le b a)) (s : ElState α) (xs : List α) :
    (Elitism.addAll c s xs).2 = true ↔
      (s.inds.head? = none ∧ (Elitism.addAll c s xs).1.inds.head? ≠ none) ∨
        ∃ o n, s.inds.head? = some o ∧ (Elitism.addAll c s xs).1.inds.head? = some n ∧ c.le o n = false := by
  rw [addAll_ret_improved hp hcap hfit, improved_iff]

example : ∃ h, ((elitismM (natCfg 2 2)).run ElState.empty
      [.add 5, .addAll [7, 3, 3, 4], .gen ⟨.slow 4, 10⟩, .select ⟨[1], 1, []⟩, .add 6]).inds.head? = some h ∧
    h ∈ allOffered [Op.add 5, .addAll [7, 3, 3, 4], .gen ⟨.slow 4, 10⟩, .select ⟨[1], 1, []⟩, .add 6] ∧
    (natCfg 2 2).le h 3 = true :=
  elitism_head_le_all_offered (natCfg 2 2) (natCfg_totalPreorder 2 2) (by decide) _ 3 (by decide)

/-! ## Rosomaxa: elite path and phase machine -/

/-- **Rosomaxa (elite + phase machine), every operation sequence whose `select` tapes take the node part from
    offered individuals: the observed trace satisfies the specification** -/
theorem rosomaxa_trace_meets_spec (c : Cfg α) (rc : RCfg) (hp : TotalPreorder c.le) (hcap : 0 < c.cap)
    (hsel : 1 ≤ c.selSize) (hfit : ∀ a b, c.fitEq a b = (c.le a b && c.le b a)) (ops : List (Op α))
    (htapes : HypAll (rosomaxaSpec c) (rosomaxaM c rc) tapeHyp [] RState.empty ops) :
    traceOK (rosomaxaSpec c) [] [] .initial ((rosomaxaM c rc).trace RState.empty ops) = true := by
  have := traceOK_of_step (rosomaxaM c rc) (rosomaxaSpec c) (fun offered s => RInv c offered s) tapeHyp
    (fun offered s op h hyp => rosomaxa_step rc hp hcap hsel hfit offered s op h hyp) ops [] RState.empty
    (RInv.empty c) htapes
  simpa [rosomaxaM, RState.empty, ElState.empty] using this

/-- the assumption on the tapes holds in particular when `select` takes nothing from the nodes -/
theorem tapes_ok_without_node_part (c : Cfg α) (rc : RCfg) (ops : List (Op α))
    (h : ∀ t, Op.select t ∈ ops → t.extra = []) :
    ∀ (offered : List α) (s : RState α), HypAll (rosomaxaSpec c) (rosomaxaM c rc) tapeHyp offered s ops := by
  induction ops with
  | nil => intro _ _; trivial
  | cons op ops ih =>
    intro offered s
    refine ⟨?_, ih (fun t ht => h t (List.mem_cons_of_mem _ ht)) _ _⟩
    cases op with
    | select t => intro x hx; rw [h t (List.mem_cons_self ..)] at hx; simp at hx
    | add x => trivial
    | addAll xs => trivial
    | gen st => trivial

/-- a concrete sequence (with a node part taken from what was offered) meets the assumption on the tapes -/
example : HypAll (rosomaxaSpec (natCfg 2 2)) (rosomaxaM (natCfg 2 2) ⟨4, 58⟩) tapeHyp [] RState.empty
    [.add 5, .addAll [7, 3, 3, 4], .gen ⟨.unknown, 10⟩, .select ⟨[1, 0], 2, [7, 4]⟩, .add 2] := by
  simp [HypAll, tapeHyp, Spec.offeredBy, rosomaxaSpec]

theorem rosomaxa_run_inv (c : Cfg α) (rc : RCfg) (hp : TotalPreorder c.le) (hcap : 0 < c.cap) (hsel : 1 ≤ c.selSize)
    (hfit : ∀ a b, c.fitEq a b = (c.le a b && c.le b a)) (ops : List (Op α)) :
    ∀ (offered : List α) (s : RState α), RInv c offered s →
      RInv c (offered ++ allOffered ops) ((rosomaxaM c rc).run s ops) := by
  induction ops with
  | nil => intro offered s h; simpa [allOffered, Machine.run] using h
  | cons op ops ih =>
    intro offered s h
    rw [allOffered_cons, ← List.append_assoc]
    cases op with
    | add x => exact ih _ _ (RInv.addAll hp hcap hfit h [x]).1
    | addAll xs => exact ih _ _ (RInv.addAll hp hcap hfit h xs).1
    | gen st => exact ih _ _ (by simpa [opInds, Machine.step, rosomaxaM] using h.updatePhase hsel rc st)
    | select t => exact ih _ _ (by simpa [opInds, Machine.step, rosomaxaM] using h)

/-- **after ANY operation sequence the first ranked individual of a Rosomaxa (its elite) is one of the offered
    individuals and no worse than every individual ever offered — including those that the filter
    `is_comparable_with_best_known` kept away from the elite** -/
theorem rosomaxa_elite_head_le_all_offered (c : Cfg α) (rc : RCfg) (hp : TotalPreorder c.le) (hcap : 0 < c.cap)
    (hsel : 1 ≤ c.selSize) (hfit : ∀ a b, c.fitEq a b = (c.le a b && c.le b a)) (ops : List (Op α))
    (y : α) (hy : y ∈ allOffered ops) :
    ∃ h, ((rosomaxaM c rc).ranked ((rosomaxaM c rc).run RState.empty ops)).head? = some h ∧
      h ∈ allOffered ops ∧ c.le h y = true := by
  have hinv := rosomaxa_run_inv c rc hp hcap hsel hfit ops [] RState.empty (RInv.empty c)
  simp only [List.nil_append] at hinv
  obtain ⟨h, hh, hle⟩ := hinv.elite.best y hy
  exact ⟨h, hh, hinv.elite.head_mem hh, hle⟩

/-- the ranking of a Rosomaxa is sorted and within `elite_size` -/
theorem rosomaxa_sorted_and_size_le_elite_size (c : Cfg α) (rc : RCfg) (hp : TotalPreorder c.le) (hcap : 0 < c.cap)
    (hsel : 1 ≤ c.selSize) (hfit : ∀ a b, c.fitEq a b = (c.le a b && c.le b a)) (ops : List (Op α)) :
    ((rosomaxaM c rc).ranked ((rosomaxaM c rc).run RState.empty ops)).Pairwise (fun a b => c.le a b = true) ∧
      (rosomaxaM c rc).size ((rosomaxaM c rc).run RState.empty ops) ≤ c.cap :=
  let hinv := rosomaxa_run_inv c rc hp hcap hsel hfit ops [] RState.empty (RInv.empty c)
  ⟨hinv.elite.sorted, hinv.elite.len⟩

/-- **selection of a Rosomaxa in any phase: offered individuals only** (node part assumed to be offered individuals),
    **something whenever the population is non-empty, the best known first outside the initial phase** -/
theorem rosomaxa_select_subset_offered_and_nonempty (c : Cfg α) (rc : RCfg) (hp : TotalPreorder c.le)
    (hcap : 0 < c.cap) (hsel : 1 ≤ c.selSize) (hfit : ∀ a b, c.fitEq a b = (c.le a b && c.le b a))
    (ops : List (Op α)) (t : Tape α) (ht : ∀ x ∈ t.extra, x ∈ allOffered ops) :
    let s := (rosomaxaM c rc).run RState.empty ops
    (∀ x ∈ (rosomaxaM c rc).select s t, x ∈ allOffered ops) ∧
      ((rosomaxaM c rc).size s > 0 → (rosomaxaM c rc).select s t ≠ []) ∧
      (s.phase ≠ .initial → (rosomaxaM c rc).select s t = [] ∨
        ((rosomaxaM c rc).select s t).head? = ((rosomaxaM c rc).ranked s).head?) := by
  have hinv := rosomaxa_run_inv c rc hp hcap hsel hfit ops [] RState.empty (RInv.empty c)
  simp only [List.nil_append] at hinv
  obtain ⟨s1, s2, s3⟩ := rosomaxa_select hsel hinv t ht
  refine ⟨s1, ?_, s3⟩
  intro hsz
  apply s2
  intro hnil
  have h0 : ((rosomaxaM c rc).run RState.empty ops).elite.inds.length > 0 := hsz
  rw [hnil] at h0
  simp at h0

/-- **phases only move forward** (Initial → Exploration → Exploitation, never back), along any operation sequence -/
theorem phase_monotone (c : Cfg α) (rc : RCfg) (ops : List (Op α)) :
    ∀ s : RState α, s.phase.rank ≤ ((rosomaxaM c rc).run s ops).phase.rank := by
  induction ops with
  | nil => intro s; exact Nat.le_refl _
  | cons op ops ih =>
    intro s
    refine Nat.le_trans ?_ (ih _)
    cases op with
    | add x => exact Nat.le_refl _
    | addAll xs => exact Nat.le_refl _
    | gen st => exact updatePhase_rank c rc s st
    | select t => exact Nat.le_refl _

example : ∃ h, ((rosomaxaM (natCfg 2 2) ⟨4, 58⟩).ranked ((rosomaxaM (natCfg 2 2) ⟨4, 58⟩).run RState.empty
      [.add 5, .addAll [7, 3, 3, 4], .gen ⟨.unknown, 10⟩, .add 9, .add 2])).head? = some h ∧
    h ∈ allOffered [Op.add 5, .addAll [7, 3, 3, 4], .gen ⟨.unknown, 10⟩, .add 9, .add 2] ∧
    (natCfg 2 2).le h 2 = true :=
  rosomaxa_elite_head_le_all_offered (natCfg 2 2) ⟨4, 58⟩ (natCfg_totalPreorder 2 2) (by decide) (by decide)
    (natCfg_fit 2 2) _ 2 (by decide)

/-! ## a seeded run never ends with a worse first individual -/

/-- generic form: if every step keeps an invariant that bounds the head by everything counted as offered, then
    after `on_initial` for each initial solution and any number of generations the head is no worse than every
    initial solution (individuals offered one by one always count as offered). -/
theorem seeded_of_step {σ : Type} (m : Machine σ α) (sp : Spec α) (Inv : List α → σ → Prop)
    (hstep : ∀ offered s op, Inv offered s → Op.isSelect op = false →
      Inv (offered ++ sp.offeredBy (m.ranked s).head? op) (m.step s op).1)
    (hbest : ∀ offered s, Inv offered s → ∀ y ∈ offered, ∃ h, (m.ranked s).head? = some h ∧ sp.le h y = true)
    (s0 : σ) (h0 : Inv [] s0) (initial : List α) (gens : List (List α × Stats)) (y : α) (hy : y ∈ initial) :
    ∃ h, (m.ranked (m.run s0 (solveOps initial gens))).head? = some h ∧ sp.le h y = true := by
  have key : ∀ (ops : List (Op α)), (∀ op ∈ ops, Op.isSelect op = false) → ∀ offered s, Inv offered s →
      Inv (offeredAfter sp m offered s ops) (m.run s ops) := by
    intro ops
    induction ops with
    | nil => intro _ offered s h; exact h
    | cons op ops ih =>
      intro hns offered s h
      exact ih (fun o ho => hns o (List.mem_cons_of_mem _ ho)) _ _ (hstep offered s op h (hns op (List.mem_cons_self ..)))
  have hinv := key (solveOps initial gens) (solveOps_no_select initial gens) [] s0 h0
  exact hbest _ _ hinv y (by unfold solveOps; exact offeredAfter_adds sp m initial _ [] s0 y hy)

/-- **a run seeded with initial solutions never returns a worse one — Elitism** -/
theorem seeded_solve_never_worse_elitism (c : Cfg α) (hp : TotalPreorder c.le) (hcap : 0 < c.cap)
    (hfit : ∀ a b, c.fitEq a b = (c.le a b && c.le b a)) (initial : List α) (gens : List (List α × Stats))
    (y : α) (hy : y ∈ initial) :
    ∃ h, ((elitismM c).ranked ((elitismM c).run ElState.empty (solveOps initial gens))).head? = some h ∧
      c.le h y = true :=
  seeded_of_step (elitismM c) (elitismSpec c) (fun offered s => EInv c offered s.inds)
    (fun offered s op h _ => (elitism_step hp hcap hfit offered s op h).2) (fun offered s h => h.best)
    ElState.empty (EInv.nil c) initial gens y hy

/-- **… — Rosomaxa** -/
theorem seeded_solve_never_worse_rosomaxa (c : Cfg α) (rc : RCfg) (hp : TotalPreorder c.le) (hcap : 0 < c.cap)
    (hsel : 1 ≤ c.selSize) (hfit : ∀ a b, c.fitEq a b = (c.le a b && c.le b a)) (initial : List α)
    (gens : List (List α × Stats)) (y : α) (hy : y ∈ initial) :
    ∃ h, ((rosomaxaM c rc).ranked ((rosomaxaM c rc).run RState.empty (solveOps initial gens))).head? = some h ∧
      c.le h y = true :=
  seeded_of_step (rosomaxaM c rc) (rosomaxaSpec c) (fun offered s => RInv c offered s)
    (fun offered s op h hns => (rosomaxa_step rc hp hcap hsel hfit offered s op h
      (by cases op <;> first | trivial | simp [Op.isSelect] at hns)).2)
    (fun offered s h => h.elite.best) RState.empty (RInv.empty c) initial gens y hy

/-- **… — Greedy, with either fold** (initial solutions are offered one by one, and a
    batch can only replace the best known by a strictly better individual) -/
theorem seeded_solve_never_worse_greedy (sc : Bool) (c : Cfg α) (hp : TotalPreorder c.le) (initial : List α)
    (gens : List (List α × Stats)) (y : α) (hy : y ∈ initial) :
    ∃ h, ((greedyM sc c).ranked ((greedyM sc c).run none (solveOps initial gens))).head? = some h ∧
      c.le h y = true :=
  seeded_of_step (greedyM sc c) (greedySpec sc c) (fun offered s => GInv c offered s)
    (fun offered s op h _ => (greedy_step sc hp offered s op h).2)
    (fun offered s h y hy => by
      obtain ⟨b, hb, hle⟩ := h.best y hy
      exact ⟨b, by simp [greedyM, hb], hle⟩)
    none (GInv.init c hp none) initial gens y hy

example : ∃ h, ((greedyM true (natCfg 1 1)).ranked ((greedyM true (natCfg 1 1)).run none
      (solveOps [9, 4, 6] [([7, 5], ⟨.unknown, 0⟩), ([8, 2, 1], ⟨.moderate, 3⟩)]))).head? = some h ∧
    (natCfg 1 1).le h 4 = true :=
  seeded_solve_never_worse_greedy true (natCfg 1 1) (natCfg_totalPreorder 1 1) _ _ 4 (by decide)

end C08
