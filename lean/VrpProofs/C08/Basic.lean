import VrpModel.C08
/-!
# C08 — helper lemmas: Boolean spec predicates vs. propositions, `dedupBy`, the sort/dedup/truncate core
-/
set_option linter.unusedSimpArgs false
set_option linter.unnecessarySimpa false
set_option linter.unusedVariables false
set_option linter.unusedSectionVars false

namespace C08

variable {α : Type}

/-- the objective is a total preorder (what C09 proves for single-layer goals) -/
structure TotalPreorder (le : α → α → Bool) : Prop where
  trans : ∀ a b c, le a b = true → le b c = true → le a c = true
  total : ∀ a b, (le a b || le b a) = true

theorem TotalPreorder.refl {le : α → α → Bool} (h : TotalPreorder le) (a : α) : le a a = true := by
  have := h.total a a; simpa using this

theorem TotalPreorder.of_not {le : α → α → Bool} (h : TotalPreorder le) {a b : α} (hn : le a b = false) :
    le b a = true := by
  have := h.total a b; simpa [hn] using this

/-! ### Boolean predicates of the specification -/

section
variable [DecidableEq α]

theorem memB_iff (x : α) (l : List α) : memB x l = true ↔ x ∈ l := by
  simp [memB]

theorem pairwiseB_iff (le : α → α → Bool) (l : List α) :
    pairwiseB le l = true ↔ l.Pairwise (fun a b => le a b = true) := by
  induction l with
  | nil => simp [pairwiseB]
  | cons x xs ih => simp [pairwiseB, ih, List.all_eq_true]

theorem headBest_iff (le : α → α → Bool) (offered ranked : List α) :
    headBest le offered ranked = true ↔
      match ranked.head? with
      | none => offered = []
      | some h => h ∈ offered ∧ ∀ y ∈ offered, le h y = true := by
  unfold headBest
  cases ranked.head? with
  | none => simp
  | some h => simp [memB_iff, List.all_eq_true]

end

/-! ### `dedupBy` -/

theorem dedupBy_go_sublist (same : α → α → Bool) (k : α) (l : List α) : (dedupBy.go same k l).Sublist l := by
  induction l generalizing k with
  | nil => simp [dedupBy.go]
  | cons y ys ih =>
    simp only [dedupBy.go]
    split
    · exact (ih k).trans (List.sublist_cons_self y ys)
    · exact (ih y).cons_cons y

theorem dedupBy_sublist (same : α → α → Bool) (l : List α) : (dedupBy same l).Sublist l := by
  cases l with
  | nil => simp [dedupBy]
  | cons x xs => simp only [dedupBy]; exact (dedupBy_go_sublist same x xs).cons_cons x

/-- `dedup_by` always keeps the first element -/
theorem dedupBy_head? (same : α → α → Bool) (l : List α) : (dedupBy same l).head? = l.head? := by
  cases l <;> simp [dedupBy]

/-! ### the core of `Elitism::add_with_iter`: sort, dedup, truncate -/

/-- `(dedup_by ∘ sort_by) ; truncate` on the extended vector -/
def core (c : Cfg α) (l : List α) : List α := (dedupBy c.same (l.mergeSort c.le)).take c.cap

theorem core_sublist (c : Cfg α) (l : List α) : (core c l).Sublist (l.mergeSort c.le) :=
  (List.take_sublist _ _).trans (dedupBy_sublist _ _)

theorem core_mem (c : Cfg α) (l : List α) {x : α} (h : x ∈ core c l) : x ∈ l :=
  (List.mergeSort_perm l c.le).mem_iff.mp ((core_sublist c l).subset h)

theorem core_sorted (c : Cfg α) (hp : TotalPreorder c.le) (l : List α) :
    (core c l).Pairwise (fun a b => c.le a b = true) :=
  (List.pairwise_mergeSort (le := c.le) (fun a b d => hp.trans a b d) hp.total l).sublist (core_sublist c l)

theorem core_length (c : Cfg α) (l : List α) : (core c l).length ≤ c.cap := by
  unfold core; exact List.length_take_le _ _

/-- the head of the result is the head of the sorted vector: it survives dedup and truncation -/
theorem core_head? (c : Cfg α) (hcap : 0 < c.cap) (l : List α) :
    (core c l).head? = (l.mergeSort c.le).head? := by
  unfold core
  rw [List.head?_take, if_neg (by omega), dedupBy_head?]

/-- … and it is no worse than every element of the extended vector -/
theorem core_head_le (c : Cfg α) (hp : TotalPreorder c.le) (hcap : 0 < c.cap) (l : List α) {y : α} (hy : y ∈ l) :
    ∃ h, (core c l).head? = some h ∧ h ∈ l ∧ c.le h y = true := by
  rw [core_head? c hcap]
  have hs := List.pairwise_mergeSort (le := c.le) (fun a b d => hp.trans a b d) hp.total l
  have hperm := List.mergeSort_perm l c.le
  generalize l.mergeSort c.le = m at hs hperm
  have hym : y ∈ m := hperm.mem_iff.mpr hy
  cases m with
  | nil => simp at hym
  | cons x xs =>
    refine ⟨x, rfl, hperm.mem_iff.mp (List.mem_cons_self ..), ?_⟩
    rw [List.pairwise_cons] at hs
    rcases List.mem_cons.mp hym with rfl | hmem
    · exact hp.refl _
    · exact hs.1 y hmem

end C08
