import VrpProofs.C08.Basic
/-!
# C08 — Elitism: invariant, return value, selection
-/
set_option linter.unusedSimpArgs false
set_option linter.unnecessarySimpa false
set_option linter.unusedVariables false
set_option linter.unusedSectionVars false

namespace C08

variable {α : Type}

/-- what holds of the ranked individuals of an `Elitism` after any history in which `offered` was handed to it -/
structure EInv (c : Cfg α) (offered inds : List α) : Prop where
  sorted : inds.Pairwise (fun a b => c.le a b = true)
  sub : ∀ x ∈ inds, x ∈ offered
  len : inds.length ≤ c.cap
  best : ∀ y ∈ offered, ∃ h, inds.head? = some h ∧ c.le h y = true

theorem EInv.nil (c : Cfg α) : EInv c [] [] :=
  ⟨List.Pairwise.nil, by simp, by simp, by simp⟩

theorem EInv.head_mem {c : Cfg α} {offered inds : List α} (h : EInv c offered inds) {x : α}
    (hx : inds.head? = some x) : x ∈ offered := by
  cases inds with
  | nil => simp at hx
  | cons a as => simp at hx; subst hx; exact h.sub _ (List.mem_cons_self ..)

theorem EInv.empty_iff {c : Cfg α} {offered inds : List α} (h : EInv c offered inds) : inds = [] ↔ offered = [] := by
  constructor
  · intro hi
    cases offered with
    | nil => rfl
    | cons y ys =>
      obtain ⟨x, hx, _⟩ := h.best y (List.mem_cons_self ..)
      simp [hi] at hx
  · intro ho
    cases inds with
    | nil => rfl
    | cons a as => have := h.sub a (List.mem_cons_self ..); simp [ho] at this

theorem addWithIter_inds (c : Cfg α) (s : ElState α) (xs : List α) :
    (Elitism.addWithIter c s xs).1.inds = core c (s.inds ++ xs) := rfl

theorem addWithIter_speed (c : Cfg α) (s : ElState α) (xs : List α) :
    (Elitism.addWithIter c s xs).1.speed = s.speed := rfl

theorem addWithIter_ret (c : Cfg α) (s : ElState α) (xs : List α) :
    (Elitism.addWithIter c s xs).2 = isImproved c s.inds.head? (core c (s.inds ++ xs)).head? := rfl

/-- `extend; sort; dedup; truncate` keeps the invariant for the extended history -/
theorem EInv.addWithIter {c : Cfg α} (hp : TotalPreorder c.le) (hcap : 0 < c.cap) {offered : List α} {s : ElState α}
    (h : EInv c offered s.inds) (xs : List α) :
    EInv c (offered ++ xs) (Elitism.addWithIter c s xs).1.inds := by
  rw [addWithIter_inds]
  refine ⟨core_sorted c hp _, ?_, core_length c _, ?_⟩
  · intro x hx
    rcases List.mem_append.mp (core_mem c _ hx) with h1 | h1
    · exact List.mem_append_left _ (h.sub x h1)
    · exact List.mem_append_right _ h1
  · intro y hy
    rcases List.mem_append.mp hy with h1 | h1
    · -- an earlier individual: the new head is no worse than the old head, which was no worse than `y`
      obtain ⟨o, ho, hoy⟩ := h.best y h1
      have hom : o ∈ s.inds ++ xs := by
        cases hs : s.inds with
        | nil => simp [hs] at ho
        | cons a as => simp [hs] at ho; subst ho; simp
      obtain ⟨n, hn, _, hno⟩ := core_head_le c hp hcap (s.inds ++ xs) hom
      exact ⟨n, hn, hp.trans _ _ _ hno hoy⟩
    · obtain ⟨n, hn, _, hny⟩ := core_head_le c hp hcap (s.inds ++ xs) (List.mem_append_right _ h1)
      exact ⟨n, hn, hny⟩

/-- the new head is no worse than the old one -/
theorem addWithIter_head_le_old {c : Cfg α} (hp : TotalPreorder c.le) (hcap : 0 < c.cap) (s : ElState α) (xs : List α)
    {o : α} (ho : s.inds.head? = some o) :
    ∃ n, (core c (s.inds ++ xs)).head? = some n ∧ c.le n o = true := by
  have hom : o ∈ s.inds ++ xs := by
    cases hs : s.inds with
    | nil => simp [hs] at ho
    | cons a as => simp [hs] at ho; subst ho; simp
  obtain ⟨n, hn, _, hno⟩ := core_head_le c hp hcap (s.inds ++ xs) hom
  exact ⟨n, hn, hno⟩

section
variable [DecidableEq α]

/-- `is_improved` (fitness of the head changed) says "the best known strictly improved, or appeared",
    when equal fitness means equal rank -/
theorem addWithIter_ret_improved {c : Cfg α} (hp : TotalPreorder c.le) (hcap : 0 < c.cap)
    (hfit : ∀ a b, c.fitEq a b = (c.le a b && c.le b a)) (s : ElState α) (xs : List α) (hne : s.inds ++ xs ≠ []) :
    (Elitism.addWithIter c s xs).2 = improved c.le s.inds.head? (Elitism.addWithIter c s xs).1.inds.head? := by
  rw [addWithIter_ret, addWithIter_inds]
  -- the new vector is not empty
  obtain ⟨y, hy⟩ := List.exists_mem_of_ne_nil _ hne
  obtain ⟨n, hn, _, _⟩ := core_head_le c hp hcap (s.inds ++ xs) hy
  rw [hn]
  cases ho : s.inds.head? with
  | none => simp [isImproved, improved]
  | some o =>
    obtain ⟨n', hn', hle⟩ := addWithIter_head_le_old hp hcap s xs ho
    rw [hn] at hn'; cases hn'
    simp [isImproved, improved, hfit, hle]

end

/-! ### selection -/

theorem slowSize_pos (sel r8 : Nat) : 1 ≤ slowSize sel r8 := by
  unfold slowSize
  split
  · omega
  · rename_i h
    have : 9 ≤ sel * r8 := by omega
    have : 26 ≤ 2 * sel * r8 + 8 := by
      have : 2 * sel * r8 = 2 * (sel * r8) := by rw [Nat.mul_assoc]
      omega
    omega

theorem selectionSize_pos (c : Cfg α) (s : ElState α) (h : 1 ≤ c.selSize) : 1 ≤ Elitism.selectionSize c s := by
  unfold Elitism.selectionSize
  split
  · exact slowSize_pos _ _
  · exact h

theorem filterMap_get_mem (inds : List α) (idx : List Nat) {x : α}
    (hx : x ∈ idx.filterMap (fun i => inds[i]?)) : x ∈ inds := by
  rw [List.mem_filterMap] at hx
  obtain ⟨i, _, hi⟩ := hx
  exact List.mem_of_getElem? hi

/-- `Elitism::select` returns stored individuals only, whatever the random generator answers -/
theorem Elitism.select_mem (c : Cfg α) (s : ElState α) (picks : List Nat) {x : α}
    (hx : x ∈ Elitism.select c s picks) : x ∈ s.inds := by
  unfold Elitism.select at hx
  split at hx
  · simp at hx
  · exact filterMap_get_mem _ _ hx

/-- … the best one first -/
theorem Elitism.select_nil_or_head (c : Cfg α) (s : ElState α) (picks : List Nat) :
    Elitism.select c s picks = [] ∨ (Elitism.select c s picks).head? = s.inds.head? := by
  unfold Elitism.select
  cases hi : s.inds with
  | nil => simp
  | cons a as =>
    simp only [List.isEmpty_cons, Bool.false_eq_true, if_false]
    cases hk : Elitism.selectionSize c s with
    | zero => simp
    | succ k => right; simp [List.take_succ_cons]

theorem Elitism.select_head? (c : Cfg α) (s : ElState α) (picks : List Nat) (hsel : 1 ≤ c.selSize) :
    (Elitism.select c s picks).head? = s.inds.head? := by
  unfold Elitism.select
  have hn := selectionSize_pos c s hsel
  cases hi : s.inds with
  | nil => simp
  | cons a as =>
    simp only [List.isEmpty_cons, Bool.false_eq_true, if_false]
    obtain ⟨k, hk⟩ : ∃ k, Elitism.selectionSize c s = k + 1 := ⟨Elitism.selectionSize c s - 1, by omega⟩
    simp [hk, List.take_succ_cons]

/-- … and something whenever the population is not empty (and a positive selection size is configured) -/
theorem Elitism.select_ne_nil (c : Cfg α) (s : ElState α) (picks : List Nat) (hsel : 1 ≤ c.selSize)
    (hne : s.inds ≠ []) : Elitism.select c s picks ≠ [] := by
  intro h
  have := Elitism.select_head? c s picks hsel
  rw [h] at this
  cases hi : s.inds with
  | nil => exact hne hi
  | cons a as => simp [hi] at this

end C08
