import VrpProofs.C08.Elitism
import VrpProofs.C08.Machine
/-!
# C08 — Elitism: every operation meets the specification and keeps the invariant
-/
set_option linter.unusedSimpArgs false
set_option linter.unnecessarySimpa false
set_option linter.unusedVariables false
set_option linter.unusedSectionVars false

namespace C08

variable {α : Type} [DecidableEq α]

theorem EInv.headBest {c : Cfg α} {offered inds : List α} (h : EInv c offered inds) :
    headBest c.le offered inds = true := by
  rw [headBest_iff]
  cases hh : inds.head? with
  | none =>
    have : inds = [] := by cases inds <;> simp_all
    exact h.empty_iff.mp this
  | some x =>
    refine ⟨h.head_mem hh, fun y hy => ?_⟩
    obtain ⟨x', hx', hle⟩ := h.best y hy
    rw [hh] at hx'; cases hx'; exact hle

theorem EInv.pairwiseB {c : Cfg α} {offered inds : List α} (h : EInv c offered inds) :
    pairwiseB c.le inds = true := (pairwiseB_iff _ _).mpr h.sorted

theorem EInv.rankedOffered {c : Cfg α} {offered inds : List α} (h : EInv c offered inds)
    (o : Obs α) (ho : o.ranked = inds) : rankedOffered offered o = true := by
  simp only [C08.rankedOffered, List.all_eq_true, ho]
  intro x hx; exact (memB_iff _ _).mpr (h.sub x hx)

/-- the four state components of `stepOK` follow from the invariant -/
theorem EInv.stateOK {c : Cfg α} {sp : Spec α} (hle : sp.le = c.le) (hcap : sp.cap = c.cap)
    {offered inds : List α} (h : EInv c offered inds) (o : Obs α)
    (hr : o.ranked = inds) (hs : o.size = inds.length) :
    C08.headBest sp.le offered o.ranked = true ∧ C08.pairwiseB sp.le o.ranked = true ∧ sizeOK sp o = true ∧
      C08.rankedOffered offered o = true := by
  refine ⟨by rw [hle, hr]; exact h.headBest, by rw [hle, hr]; exact h.pairwiseB, ?_, h.rankedOffered o hr⟩
  simp [sizeOK, hr, hs, hcap, h.len]

/-- `Elitism::add_all` in terms of the extended history (an empty batch changes nothing) -/
theorem EInv.addAll {c : Cfg α} (hp : TotalPreorder c.le) (hcap : 0 < c.cap) {offered : List α} {s : ElState α}
    (h : EInv c offered s.inds) (xs : List α) :
    EInv c (offered ++ xs) (Elitism.addAll c s xs).1.inds := by
  unfold Elitism.addAll
  cases xs with
  | nil => simpa using h
  | cons x xs => simpa using h.addWithIter hp hcap (x :: xs)

theorem addAll_ret_improved {c : Cfg α} (hp : TotalPreorder c.le) (hcap : 0 < c.cap)
    (hfit : ∀ a b, c.fitEq a b = (c.le a b && c.le b a)) (s : ElState α) (xs : List α) :
    (Elitism.addAll c s xs).2 = improved c.le s.inds.head? (Elitism.addAll c s xs).1.inds.head? := by
  unfold Elitism.addAll
  cases xs with
  | nil => simp [improved_self hp]
  | cons x xs =>
    simp only [List.isEmpty_cons, Bool.false_eq_true, if_false]
    exact addWithIter_ret_improved hp hcap hfit s (x :: xs) (by simp)

theorem selOK_elitism {c : Cfg α} {offered : List α} {s : ElState α} (h : EInv c offered s.inds) (t : Tape α) :
    selOK (elitismSpec c) offered (.select t)
      ⟨none, s.inds, s.inds.length, .exploitation, some (Elitism.select c s t.picks)⟩ = true := by
  simp only [selOK, elitismSpec, Bool.and_eq_true, Bool.or_eq_true, List.all_eq_true, Bool.not_eq_true',
    decide_eq_true_eq, Bool.not_true, Bool.false_or, List.isEmpty_eq_false_iff]
  refine ⟨⟨⟨fun x hx => (memB_iff _ _).mpr (h.sub x (Elitism.select_mem c s _ hx)),
    fun x hx => (memB_iff _ _).mpr (Elitism.select_mem c s _ hx)⟩, ?_⟩, ?_⟩
  · by_cases hsz : s.inds.length > 0 ∧ 1 ≤ c.selSize
    · right
      apply Elitism.select_ne_nil c s _ hsz.2
      intro hnil; simp [hnil] at hsz
    · left
      simp only [Bool.and_eq_false_iff, decide_eq_false_iff_not]
      by_cases h1 : s.inds.length > 0
      · right; exact fun h2 => hsz ⟨h1, h2⟩
      · left; exact h1
  · rcases Elitism.select_nil_or_head c s t.picks with h1 | h1
    · left; simp [h1]
    · right; simp [optEq, h1]

/-- **one step of Elitism**: specification met, invariant kept -/
theorem elitism_step {c : Cfg α} (hp : TotalPreorder c.le) (hcap : 0 < c.cap)
    (hfit : ∀ a b, c.fitEq a b = (c.le a b && c.le b a)) (offered : List α) (s : ElState α) (op : Op α)
    (h : EInv c offered s.inds) :
    stepOK (elitismSpec c) (offered ++ (elitismSpec c).offeredBy ((elitismM c).ranked s).head? op)
        ((elitismM c).ranked s) ((elitismM c).phase s) op ((elitismM c).step s op).2 = true ∧
      EInv c (offered ++ (elitismSpec c).offeredBy ((elitismM c).ranked s).head? op) ((elitismM c).step s op).1.inds := by
  cases op with
  | add x =>
    have h' : EInv c (offered ++ [x]) (Elitism.add c s x).1.inds := h.addWithIter hp hcap [x]
    refine ⟨?_, h'⟩
    obtain ⟨a1, a2, a3, a4⟩ := h'.stateOK (sp := elitismSpec c) rfl rfl
      ((elitismM c).step s (.add x)).2 rfl rfl
    refine stepOK_intro a1 a2 a3 a4 ?_ rfl rfl (by simp [phaseOK, Machine.step, Machine.observe, elitismM])
    simp only [retOK, Machine.step, Machine.observe, elitismM, elitismSpec, beq_iff_eq]
    rw [show (Elitism.add c s x).2 = _ from addWithIter_ret_improved hp hcap hfit s [x] (by simp)]
    rfl
  | addAll xs =>
    have h' : EInv c (offered ++ xs) (Elitism.addAll c s xs).1.inds := h.addAll hp hcap xs
    refine ⟨?_, h'⟩
    obtain ⟨a1, a2, a3, a4⟩ := h'.stateOK (sp := elitismSpec c) rfl rfl
      ((elitismM c).step s (.addAll xs)).2 rfl rfl
    refine stepOK_intro a1 a2 a3 a4 ?_ rfl rfl (by simp [phaseOK, Machine.step, Machine.observe, elitismM])
    simp only [retOK, Machine.step, Machine.observe, elitismM, elitismSpec, beq_iff_eq]
    rw [addAll_ret_improved hp hcap hfit s xs]
  | gen st =>
    have h' : EInv c (offered ++ []) s.inds := by simpa using h
    refine ⟨?_, h'⟩
    obtain ⟨a1, a2, a3, a4⟩ := h'.stateOK (sp := elitismSpec c) rfl rfl
      ((elitismM c).step s (.gen st)).2 rfl rfl
    exact stepOK_intro a1 a2 a3 a4 rfl (by simp [frameOK, Machine.step, Machine.observe, elitismM, Elitism.onGeneration])
      rfl (by simp [phaseOK, Machine.step, Machine.observe, elitismM])
  | select t =>
    have h' : EInv c (offered ++ []) s.inds := by simpa using h
    refine ⟨?_, h'⟩
    obtain ⟨a1, a2, a3, a4⟩ := h'.stateOK (sp := elitismSpec c) rfl rfl
      ((elitismM c).step s (.select t)).2 rfl rfl
    refine stepOK_intro a1 a2 a3 a4 rfl (by simp [frameOK, Machine.step, Machine.observe, elitismM]) ?_
      (by simp [phaseOK, Machine.step, Machine.observe, elitismM])
    exact selOK_elitism h' t

end C08
