import VrpProofs.C08.Machine
/-!
# C08 — Greedy: invariant, the two folds of `add_all`, every operation meets the specification
-/
set_option linter.unusedSimpArgs false
set_option linter.unnecessarySimpa false
set_option linter.unusedVariables false
set_option linter.unusedSectionVars false

namespace C08

variable {α : Type}

/-- what holds of `best_known` after any history in which `offered` was handed to the population -/
structure GInv (c : Cfg α) (offered : List α) (best : Option α) : Prop where
  sub : ∀ x, best = some x → x ∈ offered
  best : ∀ y ∈ offered, ∃ h, best = some h ∧ c.le h y = true

theorem GInv.init (c : Cfg α) (hp : TotalPreorder c.le) (b : Option α) : GInv c b.toList b := by
  cases b with
  | none => exact ⟨by simp, by simp⟩
  | some x => exact ⟨by simp, by simp [hp.refl]⟩

theorem Greedy.add_isSome (c : Cfg α) (best : Option α) (x : α) : ∃ n, (Greedy.add c best x).1 = some n := by
  unfold Greedy.add
  cases best with
  | none => exact ⟨x, rfl⟩
  | some b => dsimp only; split <;> simp

/-- `add` keeps the better of the two; the result is no worse than the old best and than `x` -/
theorem Greedy.add_le (c : Cfg α) (hp : TotalPreorder c.le) (best : Option α) (x : α) :
    ∃ n, (Greedy.add c best x).1 = some n ∧ c.le n x = true ∧ (n = x ∨ best = some n) ∧
      ∀ b, best = some b → c.le n b = true := by
  unfold Greedy.add
  cases best with
  | none => exact ⟨x, rfl, hp.refl x, Or.inl rfl, by simp⟩
  | some b =>
    dsimp only
    by_cases hb : c.le b x = true
    · rw [if_pos hb]; exact ⟨b, rfl, hb, Or.inr rfl, by intro b' h; cases h; exact hp.refl b⟩
    · rw [if_neg hb]
      have hb' : c.le b x = false := by simpa using hb
      exact ⟨x, rfl, hp.refl x, Or.inl rfl, by intro b' h; cases h; exact hp.of_not hb'⟩

theorem GInv.add {c : Cfg α} (hp : TotalPreorder c.le) {offered : List α} {best : Option α}
    (h : GInv c offered best) (x : α) : GInv c (offered ++ [x]) (Greedy.add c best x).1 := by
  obtain ⟨n, hn, hnx, hor, hnb⟩ := Greedy.add_le c hp best x
  rw [hn]
  refine ⟨?_, ?_⟩
  · intro y hy; cases hy
    rcases hor with rfl | hb
    · simp
    · exact List.mem_append_left _ (h.sub _ hb)
  · intro y hy
    rcases List.mem_append.mp hy with h1 | h1
    · obtain ⟨b, hb, hby⟩ := h.best y h1
      exact ⟨n, rfl, hp.trans _ _ _ (hnb b hb) hby⟩
    · simp at h1; subst h1; exact ⟨n, rfl, hnx⟩

/-! ### the fold of `add_all` -/

/-- the closure folded by `Greedy::add_all` -/
def Greedy.foldStep (sc : Bool) (c : Cfg α) (acc : Option α × Bool) (x : α) : Option α × Bool :=
  if sc && acc.2 then acc
  else
    let r := Greedy.add c acc.1 x
    (r.1, acc.2 || r.2)

theorem Greedy.addAll_eq (sc : Bool) (c : Cfg α) (best : Option α) (xs : List α) :
    Greedy.addAll sc c best xs = xs.foldl (Greedy.foldStep sc c) (best, false) := rfl

theorem GInv.fold {c : Cfg α} (hp : TotalPreorder c.le) (xs : List α) :
    ∀ (offered : List α) (acc : Option α × Bool), GInv c offered acc.1 →
      GInv c (offered ++ xs) (xs.foldl (Greedy.foldStep false c) acc).1 := by
  induction xs with
  | nil => intro offered acc h; simpa using h
  | cons x xs ih =>
    intro offered acc h
    have h1 : GInv c (offered ++ [x]) (Greedy.foldStep false c acc x).1 := by
      simp only [Greedy.foldStep, Bool.false_and, Bool.false_eq_true, if_false]
      exact h.add hp x
    have := ih _ _ h1
    simpa [List.append_assoc] using this

/-- a fold that hands every element to `add` keeps the invariant for the whole batch -/
theorem GInv.addAll {c : Cfg α} (hp : TotalPreorder c.le) {offered : List α} {best : Option α}
    (h : GInv c offered best) (xs : List α) : GInv c (offered ++ xs) (Greedy.addAll false c best xs).1 := by
  rw [Greedy.addAll_eq]; exact GInv.fold hp xs offered (best, false) h

section
variable [DecidableEq α]

theorem Greedy.add_ret (c : Cfg α) (hp : TotalPreorder c.le) (best : Option α) (x : α) :
    (Greedy.add c best x).2 = improved c.le best (Greedy.add c best x).1 := by
  unfold Greedy.add
  cases best with
  | none => rfl
  | some b =>
    dsimp only
    by_cases hb : c.le b x = true
    · rw [if_pos hb]; simp [improved, hp.refl]
    · rw [if_neg hb]; simp [improved, hb]

/-- the accumulated flag of the fold says "the best known strictly improved, or appeared" -/
theorem Greedy.fold_ret (c : Cfg α) (hp : TotalPreorder c.le) (best0 : Option α) (xs : List α) :
    ∀ acc : Option α × Bool, acc.2 = improved c.le best0 acc.1 →
      (∀ o, best0 = some o → ∃ b, acc.1 = some b ∧ c.le b o = true) →
      (xs.foldl (Greedy.foldStep false c) acc).2 = improved c.le best0 (xs.foldl (Greedy.foldStep false c) acc).1 := by
  induction xs with
  | nil => intro acc h _; simpa using h
  | cons x xs ih =>
    intro acc h1 h2
    simp only [List.foldl_cons]
    apply ih
    · simp only [Greedy.foldStep, Bool.false_and, Bool.false_eq_true, if_false]
      obtain ⟨n, hn, hnx, hor, hnb⟩ := Greedy.add_le c hp acc.1 x
      rw [Greedy.add_ret c hp, hn, h1]
      cases hb0 : best0 with
      | none =>
        cases ha : acc.1 with
        | none => simp [improved]
        | some a => simp [improved]
      | some o =>
        obtain ⟨b, hb, hbo⟩ := h2 o hb0
        rw [hb]
        simp only [improved]
        -- !le o b || !le b n = !le o n   given  n ≤ b ≤ o
        have hnb' := hnb b hb
        cases h3 : c.le o n with
        | true =>
          have : c.le o b = true := by
            rcases hor with rfl | hbn
            · -- n = x was taken because ¬ b ≤ x; but o ≤ x and b ≤ o
              exact hp.trans _ _ _ (hp.trans _ _ _ h3 hnb') (hp.refl b)
            · rw [hb] at hbn; cases hbn; exact h3
          have h4 : c.le b n = true := hp.trans _ _ _ hbo h3
          simp [this, h4]
        | false =>
          cases h5 : c.le o b with
          | false => simp
          | true =>
            cases h6 : c.le b n with
            | false => simp
            | true => have := hp.trans _ _ _ h5 h6; simp [h3] at this
    · intro o ho
      simp only [Greedy.foldStep, Bool.false_and, Bool.false_eq_true, if_false]
      obtain ⟨n, hn, _, _, hnb⟩ := Greedy.add_le c hp acc.1 x
      obtain ⟨b, hb, hbo⟩ := h2 o ho
      exact ⟨n, hn, hp.trans _ _ _ (hnb b hb) hbo⟩

theorem Greedy.addAll_ret (c : Cfg α) (hp : TotalPreorder c.le) (best : Option α) (xs : List α) :
    (Greedy.addAll false c best xs).2 = improved c.le best (Greedy.addAll false c best xs).1 := by
  rw [Greedy.addAll_eq]
  apply Greedy.fold_ret c hp best xs (best, false)
  · exact (improved_self hp best).symm
  · intro o ho; exact ⟨o, ho, hp.refl o⟩

end

/-! ### the short-circuiting fold looks at the considered prefix only -/

theorem Greedy.fold_sc_done (c : Cfg α) (b : Option α) (ys : List α) :
    ys.foldl (Greedy.foldStep true c) (b, true) = (b, true) := by
  induction ys with
  | nil => rfl
  | cons y ys ih => simpa [Greedy.foldStep] using ih

/-- **`acc || self.add(x)` = the exhaustive fold on the prefix up to the first improving element** -/
theorem Greedy.addAll_shortCircuit (c : Cfg α) (best : Option α) (xs : List α) :
    Greedy.addAll true c best xs = Greedy.addAll false c best (consideredPrefix c.le best xs) := by
  simp only [Greedy.addAll_eq]
  induction xs with
  | nil => simp [consideredPrefix]
  | cons x xs ih =>
    cases best with
    | none =>
      simp [consideredPrefix, Greedy.foldStep, Greedy.add, Greedy.fold_sc_done]
    | some b =>
      by_cases hb : c.le b x = true
      · have e1 : Greedy.foldStep true c (some b, false) x = (some b, false) := by
          simp [Greedy.foldStep, Greedy.add, hb]
        have e2 : Greedy.foldStep false c (some b, false) x = (some b, false) := by
          simp [Greedy.foldStep, Greedy.add, hb]
        simp only [consideredPrefix, hb, if_true, List.foldl_cons, e1, e2]
        exact ih
      · have e1 : Greedy.foldStep true c (some b, false) x = (some x, true) := by
          simp [Greedy.foldStep, Greedy.add, hb]
        have e2 : Greedy.foldStep false c (some b, false) x = (some x, true) := by
          simp [Greedy.foldStep, Greedy.add, hb]
        simp [consideredPrefix, hb, e1, e2, Greedy.fold_sc_done]

theorem Greedy.addAll_eff (sc : Bool) (c : Cfg α) (best : Option α) (xs : List α) :
    Greedy.addAll sc c best xs = Greedy.addAll false c best (greedyEff sc c best xs) := by
  cases sc with
  | false => rfl
  | true => exact Greedy.addAll_shortCircuit c best xs

/-! ### every operation meets the specification -/

section
variable [DecidableEq α]

theorem GInv.stateOK {c : Cfg α} {sp : Spec α} (hle : sp.le = c.le) (hcap : sp.cap = 1)
    {offered : List α} {best : Option α} (h : GInv c offered best) (o : Obs α)
    (hr : o.ranked = best.toList) (hs : o.size = if best.isSome then 1 else 0) :
    headBest sp.le offered o.ranked = true ∧ pairwiseB sp.le o.ranked = true ∧ sizeOK sp o = true ∧
      rankedOffered offered o = true := by
  cases best with
  | none =>
    have : offered = [] := by
      cases offered with
      | nil => rfl
      | cons y ys => obtain ⟨_, hx, _⟩ := h.best y (List.mem_cons_self ..); simp at hx
    simp [headBest, pairwiseB, sizeOK, rankedOffered, hr, hs, this, hcap]
  | some b =>
    refine ⟨?_, by simp [hr, pairwiseB], by simp [sizeOK, hr, hs, hcap], ?_⟩
    · rw [headBest_iff, hr]
      refine ⟨h.sub b rfl, fun y hy => ?_⟩
      obtain ⟨b', hb', hle'⟩ := h.best y hy
      cases hb'; rw [hle]; exact hle'
    · simp [rankedOffered, hr, memB_iff, h.sub b rfl]

theorem toList_head? (b : Option α) : b.toList.head? = b := by cases b <;> rfl

/-- **one step of Greedy** (either fold): specification met, invariant kept -/
theorem greedy_step (sc : Bool) {c : Cfg α} (hp : TotalPreorder c.le) (offered : List α) (s : Option α) (op : Op α)
    (h : GInv c offered s) :
    stepOK (greedySpec sc c) (offered ++ (greedySpec sc c).offeredBy ((greedyM sc c).ranked s).head? op)
        ((greedyM sc c).ranked s) ((greedyM sc c).phase s) op ((greedyM sc c).step s op).2 = true ∧
      GInv c (offered ++ (greedySpec sc c).offeredBy ((greedyM sc c).ranked s).head? op) ((greedyM sc c).step s op).1 := by
  have hph : ∀ o : Obs α, o.phase = .exploitation → phaseOK ((greedyM sc c).phase s) o = true := by
    intro o ho; simp [phaseOK, greedyM, ho]
  cases op with
  | add x =>
    have h' : GInv c (offered ++ [x]) (Greedy.add c s x).1 := h.add hp x
    refine ⟨?_, h'⟩
    obtain ⟨a1, a2, a3, a4⟩ := h'.stateOK (sp := greedySpec sc c) rfl rfl ((greedyM sc c).step s (.add x)).2 rfl rfl
    refine stepOK_intro a1 a2 a3 a4 ?_ rfl rfl (hph _ rfl)
    simp only [retOK, Machine.step, Machine.observe, greedyM, greedySpec, beq_iff_eq, toList_head?]
    rw [Greedy.add_ret c hp]
  | addAll xs =>
    have e : (greedySpec sc c).offeredBy ((greedyM sc c).ranked s).head? (.addAll xs) = greedyEff sc c s xs := by
      simp [Spec.offeredBy, greedySpec, greedyM, toList_head?]
    rw [e]
    have h' : GInv c (offered ++ greedyEff sc c s xs) (Greedy.addAll sc c s xs).1 := by
      rw [Greedy.addAll_eff]; exact h.addAll hp _
    refine ⟨?_, h'⟩
    obtain ⟨a1, a2, a3, a4⟩ := h'.stateOK (sp := greedySpec sc c) rfl rfl ((greedyM sc c).step s (.addAll xs)).2 rfl rfl
    refine stepOK_intro a1 a2 a3 a4 ?_ rfl rfl (hph _ rfl)
    simp only [retOK, Machine.step, Machine.observe, greedyM, greedySpec, beq_iff_eq, toList_head?]
    rw [Greedy.addAll_eff, Greedy.addAll_ret c hp]
  | gen st =>
    have h' : GInv c (offered ++ []) s := by simpa using h
    refine ⟨?_, h'⟩
    obtain ⟨a1, a2, a3, a4⟩ := h'.stateOK (sp := greedySpec sc c) rfl rfl ((greedyM sc c).step s (.gen st)).2 rfl rfl
    exact stepOK_intro a1 a2 a3 a4 rfl (by simp [frameOK, Machine.step, Machine.observe, greedyM]) rfl (hph _ rfl)
  | select t =>
    have h' : GInv c (offered ++ []) s := by simpa using h
    refine ⟨?_, h'⟩
    obtain ⟨a1, a2, a3, a4⟩ := h'.stateOK (sp := greedySpec sc c) rfl rfl ((greedyM sc c).step s (.select t)).2 rfl rfl
    refine stepOK_intro a1 a2 a3 a4 rfl (by simp [frameOK, Machine.step, Machine.observe, greedyM]) ?_ (hph _ rfl)
    -- `repeat_n(best, selection_size)`
    cases s with
    | none => simp [selOK, Machine.step, Machine.observe, greedyM, Greedy.select, greedySpec, optEq]
    | some b =>
      have hb := h'.sub b rfl
      simp only [selOK, Machine.step, Machine.observe, greedyM, Greedy.select, greedySpec, Option.toList,
        Bool.and_eq_true, Bool.or_eq_true, List.all_eq_true, List.mem_replicate, and_imp, memB_iff,
        Bool.not_eq_true', Option.isSome_some, if_true, List.append_nil]
      refine ⟨⟨⟨fun x _ hx => by subst hx; exact hb, Or.inr (fun x _ hx => by simp [hx])⟩, ?_⟩, ?_⟩
      · by_cases hsel : 1 ≤ c.selSize
        · right
          obtain ⟨k, hk⟩ : ∃ k, c.selSize = k + 1 := ⟨c.selSize - 1, by omega⟩
          simp [hk, List.replicate_succ]
        · left; simp [hsel]
      · cases hk : c.selSize with
        | zero => left; right; simp
        | succ k => right; simp [List.replicate_succ, optEq]

end

end C08
