import VrpProofs.C08.Basic
/-!
# C08 — lifting a one-step lemma to every operation sequence (generic over the population)
-/
set_option linter.unusedSimpArgs false
set_option linter.unnecessarySimpa false
set_option linter.unusedVariables false
set_option linter.unusedSectionVars false

namespace C08

variable {α σ : Type}

/-- the individuals an operation hands to the population -/
def opInds : Op α → List α
  | .add x => [x]
  | .addAll xs => xs
  | _ => []

/-- everything a sequence of operations hands to the population -/
def allOffered (ops : List (Op α)) : List α := ops.flatMap opInds

theorem allOffered_cons (op : Op α) (ops : List (Op α)) : allOffered (op :: ops) = opInds op ++ allOffered ops := by
  simp [allOffered]

theorem Machine.step_ranked (m : Machine σ α) (s : σ) (op : Op α) :
    (m.step s op).2.ranked = m.ranked (m.step s op).1 := by
  cases op <;> rfl

theorem Machine.step_phase (m : Machine σ α) (s : σ) (op : Op α) :
    (m.step s op).2.phase = m.phase (m.step s op).1 := by
  cases op <;> rfl

theorem Machine.step_size (m : Machine σ α) (s : σ) (op : Op α) :
    (m.step s op).2.size = m.size (m.step s op).1 := by
  cases op <;> rfl

/-- the side condition on every operation of a sequence (used for the tapes of `select`), threaded through the
    states and the growing list of offered individuals exactly as `traceOK` threads them -/
def HypAll (sp : Spec α) (m : Machine σ α) (Hyp : List α → Op α → Prop) : List α → σ → List (Op α) → Prop
  | _, _, [] => True
  | offered, s, op :: ops =>
    Hyp (offered ++ sp.offeredBy (m.ranked s).head? op) op ∧
      HypAll sp m Hyp (offered ++ sp.offeredBy (m.ranked s).head? op) (m.step s op).1 ops

theorem HypAll_trivial (sp : Spec α) (m : Machine σ α) (offered : List α) (s : σ) (ops : List (Op α)) :
    HypAll sp m (fun _ _ => True) offered s ops := by
  induction ops generalizing offered s with
  | nil => trivial
  | cons op ops ih => exact ⟨trivial, ih _ _⟩

/-- what counts as offered after a sequence (for a population that looks at whole batches this is
    `offered ++ allOffered ops`) -/
def offeredAfter (sp : Spec α) (m : Machine σ α) : List α → σ → List (Op α) → List α
  | offered, _, [] => offered
  | offered, s, op :: ops =>
    offeredAfter sp m (offered ++ sp.offeredBy (m.ranked s).head? op) (m.step s op).1 ops

theorem offeredAfter_id (sp : Spec α) (m : Machine σ α) (heff : ∀ b xs, sp.eff b xs = xs)
    (offered : List α) (s : σ) (ops : List (Op α)) :
    offeredAfter sp m offered s ops = offered ++ allOffered ops := by
  induction ops generalizing offered s with
  | nil => simp [offeredAfter, allOffered]
  | cons op ops ih =>
    rw [offeredAfter, ih, allOffered_cons]
    cases op <;> simp [Spec.offeredBy, opInds, heff]

theorem offeredAfter_sub (sp : Spec α) (m : Machine σ α) (ops : List (Op α)) :
    ∀ (offered : List α) (s : σ) (x : α), x ∈ offered → x ∈ offeredAfter sp m offered s ops := by
  induction ops with
  | nil => intro offered s x h; exact h
  | cons op ops ih => intro offered s x h; exact ih _ _ x (List.mem_append_left _ h)

/-- individuals offered one by one (`add`) always count as offered, whatever `eff` does to batches -/
theorem offeredAfter_adds (sp : Spec α) (m : Machine σ α) (xs : List α) (ops : List (Op α)) :
    ∀ (offered : List α) (s : σ) (x : α), x ∈ xs → x ∈ offeredAfter sp m offered s (xs.map Op.add ++ ops) := by
  induction xs with
  | nil => intro _ _ x h; simp at h
  | cons a as ih =>
    intro offered s x h
    simp only [List.map_cons, List.cons_append, offeredAfter]
    rcases List.mem_cons.mp h with rfl | h1
    · exact offeredAfter_sub sp m _ _ _ _ (by simp [Spec.offeredBy])
    · exact ih _ _ x h1

/-- operations other than `select` carry no tape -/
def Op.isSelect : Op α → Bool
  | .select _ => true
  | _ => false

theorem solveOps_no_select (initial : List α) (gens : List (List α × Stats)) :
    ∀ op ∈ solveOps initial gens, Op.isSelect op = false := by
  intro op h
  simp only [solveOps, List.mem_append, List.mem_map, List.mem_flatMap] at h
  rcases h with ⟨x, _, rfl⟩ | ⟨g, _, hg⟩
  · rfl
  · simp at hg; rcases hg with rfl | rfl <;> rfl

section
variable [DecidableEq α]

/-- a one-step lemma (invariant kept, specification of the step met) gives the specification of every trace -/
theorem traceOK_of_step (m : Machine σ α) (sp : Spec α) (Inv : List α → σ → Prop) (Hyp : List α → Op α → Prop)
    (hstep : ∀ offered s op, Inv offered s → Hyp (offered ++ sp.offeredBy (m.ranked s).head? op) op →
      stepOK sp (offered ++ sp.offeredBy (m.ranked s).head? op) (m.ranked s) (m.phase s) op (m.step s op).2 = true ∧
        Inv (offered ++ sp.offeredBy (m.ranked s).head? op) (m.step s op).1) :
    ∀ ops offered s, Inv offered s → HypAll sp m Hyp offered s ops →
      traceOK sp offered (m.ranked s) (m.phase s) (m.trace s ops) = true := by
  intro ops
  induction ops with
  | nil => intros; rfl
  | cons op ops ih =>
    intro offered s hinv hhyp
    obtain ⟨h1, h2⟩ := hstep offered s op hinv hhyp.1
    simp only [Machine.trace, traceOK, Bool.and_eq_true]
    refine ⟨h1, ?_⟩
    rw [Machine.step_ranked, Machine.step_phase]
    exact ih _ _ h2 hhyp.2

/-- … and the invariant of every reachable state -/
theorem run_inv_of_step (m : Machine σ α) (sp : Spec α) (Inv : List α → σ → Prop) (Hyp : List α → Op α → Prop)
    (hstep : ∀ offered s op, Inv offered s → Hyp (offered ++ sp.offeredBy (m.ranked s).head? op) op →
      stepOK sp (offered ++ sp.offeredBy (m.ranked s).head? op) (m.ranked s) (m.phase s) op (m.step s op).2 = true ∧
        Inv (offered ++ sp.offeredBy (m.ranked s).head? op) (m.step s op).1) :
    ∀ ops offered s, Inv offered s → HypAll sp m Hyp offered s ops →
      Inv (offeredAfter sp m offered s ops) (m.run s ops) := by
  intro ops
  induction ops with
  | nil => intro offered s h _; exact h
  | cons op ops ih =>
    intro offered s hinv hhyp
    exact ih _ _ (hstep offered s op hinv hhyp.1).2 hhyp.2

theorem improved_self {le : α → α → Bool} (hp : TotalPreorder le) (o : Option α) : improved le o o = false := by
  cases o with
  | none => rfl
  | some a => simp [improved, hp.refl]

theorem stepOK_intro {sp : Spec α} {offered prevRanked : List α} {prevPhase : Phase} {op : Op α} {o : Obs α}
    (h1 : headBest sp.le offered o.ranked = true) (h2 : pairwiseB sp.le o.ranked = true) (h3 : sizeOK sp o = true)
    (h4 : rankedOffered offered o = true) (h5 : retOK sp prevRanked op o = true) (h6 : frameOK prevRanked op o = true)
    (h7 : selOK sp offered op o = true) (h8 : phaseOK prevPhase o = true) :
    stepOK sp offered prevRanked prevPhase op o = true := by
  simp [stepOK, h1, h2, h3, h4, h5, h6, h7, h8]

end

end C08
