import VrpProofs.C08.ElitismStep
/-!
# C08 — Rosomaxa: the elite path and the phase machine; every operation meets the specification
-/
set_option linter.unusedSimpArgs false
set_option linter.unnecessarySimpa false
set_option linter.unusedVariables false
set_option linter.unusedSectionVars false

namespace C08

variable {α : Type} [DecidableEq α]

/-- what holds of a `Rosomaxa` after any history in which `offered` was handed to it -/
structure RInv (c : Cfg α) (offered : List α) (s : RState α) : Prop where
  elite : EInv c offered s.elite.inds
  /-- while in the initial phase every offered individual is remembered -/
  init : s.phase = .initial → s.initSols = offered
  /-- the selection size stored with the later phases is positive -/
  sel : s.phase ≠ .initial → 1 ≤ s.phaseSel

theorem RInv.empty (c : Cfg α) : RInv c [] (RState.empty : RState α) :=
  ⟨EInv.nil c, fun _ => rfl, fun h => absurd rfl h⟩

/-- an individual that the filter `is_comparable_with_best_known` drops is no better than the best known -/
theorem not_comparable {c : Cfg α} (hp : TotalPreorder c.le) {best : Option α} {y : α}
    (h : Rosomaxa.comparable c best y = false) : ∃ b, best = some b ∧ c.le b y = true := by
  unfold Rosomaxa.comparable at h
  cases best with
  | none => simp at h
  | some b => exact ⟨b, rfl, hp.of_not h⟩

/-- **the elite path**: filtering by the best known and then `add_all` on the elite keeps the invariant for the
    WHOLE batch — what the filter drops is no better than the current head, and the new head is no worse than it -/
theorem EInv.rosomaxaAddAll {c : Cfg α} (hp : TotalPreorder c.le) (hcap : 0 < c.cap) {offered : List α}
    {e : ElState α} (h : EInv c offered e.inds) (xs : List α) :
    EInv c (offered ++ xs)
      (Elitism.addAll c e (xs.filter (Rosomaxa.comparable c e.inds.head?))).1.inds := by
  have h1 := h.addAll hp hcap (xs.filter (Rosomaxa.comparable c e.inds.head?))
  refine ⟨h1.sorted, ?_, h1.len, ?_⟩
  · intro x hx
    rcases List.mem_append.mp (h1.sub x hx) with h2 | h2
    · exact List.mem_append_left _ h2
    · exact List.mem_append_right _ (List.mem_filter.mp h2).1
  · intro y hy
    rcases List.mem_append.mp hy with h2 | h2
    · exact h1.best y (List.mem_append_left _ h2)
    · by_cases hc : Rosomaxa.comparable c e.inds.head? y = true
      · exact h1.best y (List.mem_append_right _ (List.mem_filter.mpr ⟨h2, hc⟩))
      · obtain ⟨b, hb, hby⟩ := not_comparable hp (by simpa using hc)
        obtain ⟨n, hn, hnb⟩ := h1.best b (List.mem_append_left _ (h.head_mem hb))
        exact ⟨n, hn, hp.trans _ _ _ hnb hby⟩

theorem selOf_pos (c : Cfg α) (st : Stats) (h : 1 ≤ c.selSize) : 1 ≤ Rosomaxa.selOf c st := by
  unfold Rosomaxa.selOf
  split
  · exact slowSize_pos _ _
  · exact h

theorem halve_pos (n : Nat) : 1 ≤ Rosomaxa.halve n := by
  unfold Rosomaxa.halve; omega

theorem updatePhase_elite (c : Cfg α) (rc : RCfg) (s : RState α) (st : Stats) :
    (Rosomaxa.updatePhase c rc s st).elite = s.elite := by
  unfold Rosomaxa.updatePhase
  split
  · split
    · rfl
    · split <;> rfl
  · split <;> rfl
  · rfl

/-- **phases only move forward** -/
theorem updatePhase_rank (c : Cfg α) (rc : RCfg) (s : RState α) (st : Stats) :
    s.phase.rank ≤ (Rosomaxa.updatePhase c rc s st).phase.rank := by
  unfold Rosomaxa.updatePhase
  split
  · rename_i h
    split
    · simp [h, Phase.rank]
    · split
      · simp [h, Phase.rank]
      · exact Nat.le_refl _
  · rename_i h
    split
    · exact Nat.le_refl _
    · simp [h, Phase.rank]
  · exact Nat.le_refl _

theorem RInv.updatePhase {c : Cfg α} (hsel : 1 ≤ c.selSize) (rc : RCfg) {offered : List α} {s : RState α}
    (h : RInv c offered s) (st : Stats) : RInv c offered (Rosomaxa.updatePhase c rc s st) := by
  refine ⟨by rw [updatePhase_elite]; exact h.elite, ?_, ?_⟩
  · unfold Rosomaxa.updatePhase
    split
    · rename_i hph
      split
      · intro hc; cases hc
      · split
        · intro hc; cases hc
        · exact h.init
    · rename_i hph
      split
      · intro hc; simp [hph] at hc
      · intro hc; cases hc
    · rename_i hph
      intro hc; simp [hph] at hc
  · unfold Rosomaxa.updatePhase
    split
    · rename_i hph
      split
      · intro _; exact selOf_pos c st hsel
      · split
        · intro _; exact selOf_pos c st hsel
        · intro hc; exact absurd hph hc
    · split
      · intro _; exact selOf_pos c st hsel
      · intro _; exact selOf_pos c st hsel
    · intro _; exact halve_pos _

section
variable [DecidableEq α]

/-- assumption about the part of `select()` that comes from the GSOM nodes (C19's domain): nodes hold
    offered individuals only -/
def tapeHyp : List α → Op α → Prop
  | offered, .select t => ∀ x ∈ t.extra, x ∈ offered
  | _, _ => True

theorem take_ne_nil {l : List α} {n : Nat} (hl : l ≠ []) (hn : 1 ≤ n) : l.take n ≠ [] := by
  cases l with
  | nil => exact absurd rfl hl
  | cons a as =>
    obtain ⟨k, hk⟩ : ∃ k, n = k + 1 := ⟨n - 1, by omega⟩
    simp [hk]

theorem head?_append_left {l l' : List α} (hl : l ≠ []) : (l ++ l').head? = l.head? := by
  cases l with
  | nil => exact absurd rfl hl
  | cons a as => rfl

theorem take_head? {l : List α} {n : Nat} (hn : 1 ≤ n) : (l.take n).head? = l.head? := by
  rw [List.head?_take, if_neg (by omega)]

/-- `Rosomaxa::select`: offered individuals only; something whenever the elite is non-empty; outside the
    initial phase the best known first -/
theorem rosomaxa_select {c : Cfg α} (hsel : 1 ≤ c.selSize) {offered : List α} {s : RState α}
    (h : RInv c offered s) (t : Tape α) (ht : ∀ x ∈ t.extra, x ∈ offered) :
    (∀ x ∈ Rosomaxa.select c s t, x ∈ offered) ∧
      (s.elite.inds ≠ [] → Rosomaxa.select c s t ≠ []) ∧
      (s.phase ≠ .initial → Rosomaxa.select c s t = [] ∨ (Rosomaxa.select c s t).head? = s.elite.inds.head?) := by
  have hE : ∀ x ∈ Elitism.select c s.elite t.picks, x ∈ offered :=
    fun x hx => h.elite.sub x (Elitism.select_mem c s.elite _ hx)
  unfold Rosomaxa.select
  cases hph : s.phase with
  | initial =>
    simp only [h.init hph]
    refine ⟨fun x hx => hx, ?_, fun hc => absurd rfl hc⟩
    intro hne hoff
    exact hne (h.elite.empty_iff.mpr hoff)
  | exploration =>
    have hps : 1 ≤ s.phaseSel := h.sel (by simp [hph])
    dsimp only
    refine ⟨?_, ?_, ?_⟩
    · intro x hx
      rcases List.mem_append.mp (List.mem_of_mem_take hx) with h1 | h1
      · exact hE x (List.mem_of_mem_take h1)
      · exact ht x h1
    · intro hne
      apply take_ne_nil _ hps
      intro hnil
      have := List.append_eq_nil_iff.mp hnil
      exact take_ne_nil (Elitism.select_ne_nil c s.elite t.picks hsel hne) (by omega) this.1
    · intro _
      by_cases hne : s.elite.inds = []
      · -- nothing was ever offered, so the nodes have nothing either
        left
        have hoff : offered = [] := h.elite.empty_iff.mp hne
        have hex : t.extra = [] := by
          cases hx : t.extra with
          | nil => rfl
          | cons a as => have := ht a (by simp [hx]); simp [hoff] at this
        simp [Elitism.select, hne, hex]
      · right
        have h1 := Elitism.select_ne_nil c s.elite t.picks hsel hne
        have h2 := Elitism.select_head? c s.elite t.picks hsel
        have h3 : (Elitism.select c s.elite t.picks).take (max t.k 1) ≠ [] := take_ne_nil h1 (by omega)
        rw [take_head? hps, head?_append_left h3, take_head? (by omega), h2]
  | exploitation =>
    have hps : 1 ≤ s.phaseSel := h.sel (by simp [hph])
    dsimp only
    refine ⟨fun x hx => hE x (List.mem_of_mem_take hx), ?_, ?_⟩
    · intro hne
      exact take_ne_nil (Elitism.select_ne_nil c s.elite t.picks hsel hne) hps
    · intro _
      right
      rw [take_head? hps, Elitism.select_head? c s.elite t.picks hsel]

/-- `Rosomaxa::add_all` (and `add` = `add_all` of a singleton): invariant for the whole batch, return value, phase -/
theorem RInv.addAll {c : Cfg α} (hp : TotalPreorder c.le) (hcap : 0 < c.cap)
    (hfit : ∀ a b, c.fitEq a b = (c.le a b && c.le b a)) {offered : List α} {s : RState α}
    (h : RInv c offered s) (xs : List α) :
    RInv c (offered ++ xs) (Rosomaxa.addAll c s xs).1 ∧
      (Rosomaxa.addAll c s xs).2 = improved c.le s.elite.inds.head? (Rosomaxa.addAll c s xs).1.elite.inds.head? ∧
      (Rosomaxa.addAll c s xs).1.phase = s.phase := by
  refine ⟨⟨h.elite.rosomaxaAddAll hp hcap xs, ?_, ?_⟩, ?_, rfl⟩
  · intro hph
    have hph' : s.phase = .initial := hph
    simp only [Rosomaxa.addAll, hph']
    rw [h.init hph']
  · intro hph; exact h.sel hph
  · simp only [Rosomaxa.addAll]
    exact addAll_ret_improved hp hcap hfit s.elite _

/-- **one step of Rosomaxa** (elite + phase machine): specification met, invariant kept -/
theorem rosomaxa_step {c : Cfg α} (rc : RCfg) (hp : TotalPreorder c.le) (hcap : 0 < c.cap) (hsel : 1 ≤ c.selSize)
    (hfit : ∀ a b, c.fitEq a b = (c.le a b && c.le b a)) (offered : List α) (s : RState α) (op : Op α)
    (h : RInv c offered s)
    (hyp : tapeHyp (offered ++ (rosomaxaSpec c).offeredBy ((rosomaxaM c rc).ranked s).head? op) op) :
    stepOK (rosomaxaSpec c) (offered ++ (rosomaxaSpec c).offeredBy ((rosomaxaM c rc).ranked s).head? op)
        ((rosomaxaM c rc).ranked s) ((rosomaxaM c rc).phase s) op ((rosomaxaM c rc).step s op).2 = true ∧
      RInv c (offered ++ (rosomaxaSpec c).offeredBy ((rosomaxaM c rc).ranked s).head? op)
        ((rosomaxaM c rc).step s op).1 := by
  have hadd := fun xs => RInv.addAll hp hcap hfit h xs
  have hphase : ∀ o : Obs α, o.phase = s.phase → phaseOK ((rosomaxaM c rc).phase s) o = true := by
    intro o ho; simp [phaseOK, rosomaxaM, ho]
  cases op with
  | add x =>
    obtain ⟨h', hret, hph⟩ := hadd [x]
    refine ⟨?_, h'⟩
    obtain ⟨a1, a2, a3, a4⟩ := h'.elite.stateOK (sp := rosomaxaSpec c) rfl rfl
      ((rosomaxaM c rc).step s (.add x)).2 rfl rfl
    refine stepOK_intro a1 a2 a3 a4 ?_ rfl rfl (hphase _ hph)
    simp only [retOK, Machine.step, Machine.observe, rosomaxaM, rosomaxaSpec, beq_iff_eq, Rosomaxa.add]
    rw [hret]
  | addAll xs =>
    obtain ⟨h', hret, hph⟩ := hadd xs
    refine ⟨?_, h'⟩
    obtain ⟨a1, a2, a3, a4⟩ := h'.elite.stateOK (sp := rosomaxaSpec c) rfl rfl
      ((rosomaxaM c rc).step s (.addAll xs)).2 rfl rfl
    refine stepOK_intro a1 a2 a3 a4 ?_ rfl rfl (hphase _ hph)
    simp only [retOK, Machine.step, Machine.observe, rosomaxaM, rosomaxaSpec, beq_iff_eq]
    rw [hret]
  | gen st =>
    have h0 : RInv c (offered ++ []) s := by simpa using h
    have h' : RInv c (offered ++ []) (Rosomaxa.updatePhase c rc s st) := h0.updatePhase hsel rc st
    refine ⟨?_, h'⟩
    obtain ⟨a1, a2, a3, a4⟩ := h'.elite.stateOK (sp := rosomaxaSpec c) rfl rfl
      ((rosomaxaM c rc).step s (.gen st)).2 rfl rfl
    refine stepOK_intro a1 a2 a3 a4 rfl ?_ rfl ?_
    · simp [frameOK, Machine.step, Machine.observe, rosomaxaM, updatePhase_elite]
    · exact decide_eq_true (updatePhase_rank c rc s st)
  | select t =>
    have h' : RInv c (offered ++ []) s := by simpa using h
    refine ⟨?_, h'⟩
    obtain ⟨a1, a2, a3, a4⟩ := h'.elite.stateOK (sp := rosomaxaSpec c) rfl rfl
      ((rosomaxaM c rc).step s (.select t)).2 rfl rfl
    refine stepOK_intro a1 a2 a3 a4 rfl (by simp [frameOK, Machine.step, Machine.observe, rosomaxaM]) ?_ (hphase _ rfl)
    obtain ⟨s1, s2, s3⟩ := rosomaxa_select hsel h' t hyp
    simp only [selOK, Machine.step, Machine.observe, rosomaxaM, rosomaxaSpec, Bool.and_eq_true, Bool.or_eq_true,
      List.all_eq_true, Bool.not_eq_true', decide_eq_true_eq, Bool.not_false, Bool.true_or, and_true,
      List.isEmpty_eq_false_iff, memB_iff]
    refine ⟨⟨s1, ?_⟩, ?_⟩
    · by_cases hne : s.elite.inds = []
      · left; simp [hne]
      · right; exact s2 hne
    · by_cases hph : s.phase = .initial
      · left; left; simp [hph]
      · rcases s3 hph with h1 | h1
        · left; right; simp [h1]
        · right; simp [optEq, h1]

end

end C08
