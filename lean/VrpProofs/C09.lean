import VrpModel.C09
/-!
# C09 — property theorems: comparisons obey order laws

Everything is stated for **all** 64-bit patterns (NaN payloads, ±0, ±∞, denormals) and lists of any
length. `f64` rounding of `+`/`-` is outside the model (stated over `Int`).
-/
set_option linter.unusedSimpArgs false
set_option linter.unnecessarySimpa false

namespace C09

/-! ### helpers on `compare` over `Int` -/

theorem compare_congr (a b c d : Int) (h1 : a < b ↔ c < d) (h2 : a = b ↔ c = d) :
    compare a b = compare c d := by
  simp only [compare, compareOfLessAndEq]
  by_cases hab : a < b
  · have := h1.mp hab; simp [hab, this]
  · have hcd : ¬ c < d := fun h => hab (h1.mpr h)
    by_cases e : a = b
    · have := h2.mp e; simp [hab, hcd, e, this]
    · have : ¬ c = d := fun h => e (h2.mpr h)
      simp [hab, hcd, e, this]

theorem cmp_lt_iff (a b : Int) : compare a b = .lt ↔ a < b := by
  simp only [compare, compareOfLessAndEq]; split <;> (try split) <;> simp_all <;> omega
theorem cmp_eq_iff (a b : Int) : compare a b = .eq ↔ a = b := by
  simp only [compare, compareOfLessAndEq]; split <;> (try split) <;> simp_all <;> omega
theorem cmp_gt_iff (a b : Int) : compare a b = .gt ↔ b < a := by
  simp only [compare, compareOfLessAndEq]; split <;> (try split) <;> simp_all <;> omega
theorem cmp_swap (a b : Int) : (compare a b).swap = compare b a := by
  rcases Int.lt_trichotomy a b with h | h | h
  · rw [(cmp_lt_iff a b).mpr h, (cmp_gt_iff b a).mpr h]; rfl
  · subst h; rw [(cmp_eq_iff a a).mpr rfl]; rfl
  · rw [(cmp_gt_iff a b).mpr h, (cmp_lt_iff b a).mpr h]; rfl

/-- **the single-layer comparator is `compare` on an integer key** (all 2^64 × 2^64 patterns) -/
theorem layerCmp_eq_key' (a b : UInt64) : layerCmp a b = compare (key' a) (key' b) := by
  have ha := a.toNat_lt
  have hb := b.toNat_lt
  unfold layerCmp totalCmp
  by_cases hz : (isZero a && isZero b) = true
  · rw [if_pos hz]
    simp only [Bool.and_eq_true] at hz
    simp [key', hz.1, hz.2, (cmp_eq_iff 0 0).mpr rfl]
  · rw [if_neg hz]
    apply compare_congr <;>
    · unfold key' key isZero at *
      simp only [Bool.or_eq_true, decide_eq_true_eq, Bool.and_eq_true] at *
      split <;> split <;> split <;> split <;> omega

theorem key_injective (a b : UInt64) (h : key a = key b) : a = b := by
  have ha := a.toNat_lt
  have hb := b.toNat_lt
  apply UInt64.toNat_inj.mp
  unfold key at h
  split at h <;> split at h <;> omega

/-! ### single comparator: reflexive, antisymmetric, transitive -/

theorem layerCmp_refl (a : UInt64) : layerCmp a a = .eq := by
  rw [layerCmp_eq_key']; exact (cmp_eq_iff _ _).mpr rfl

theorem layerCmp_antisymm (a b : UInt64) : layerCmp b a = (layerCmp a b).swap := by
  rw [layerCmp_eq_key', layerCmp_eq_key', cmp_swap]

theorem layerCmp_trans (a b c : UInt64) (h1 : layerCmp a b ≠ .gt) (h2 : layerCmp b c ≠ .gt) :
    layerCmp a c ≠ .gt := by
  rw [layerCmp_eq_key'] at *
  rw [Ne, cmp_gt_iff] at *
  omega

theorem totalCmp_refl (a : UInt64) : totalCmp a a = .eq := (cmp_eq_iff _ _).mpr rfl
theorem totalCmp_antisymm (a b : UInt64) : totalCmp b a = (totalCmp a b).swap := by
  unfold totalCmp; rw [cmp_swap]

/-! ### dominance order: reflexive, antisymmetric, NOT transitive -/

theorem count_zipWith_self (xs : List UInt64) (o : Ordering) (ho : o ≠ .eq) :
    (List.zipWith totalCmp xs xs).count o = 0 := by
  induction xs with
  | nil => simp
  | cons x xs ih =>
    simp only [List.zipWith_cons_cons, List.count_cons, ih, totalCmp_refl]
    cases o <;> simp_all

theorem domOrder_self (xs : List UInt64) : domOrder (List.zipWith totalCmp xs xs) = .eq := by
  unfold domOrder
  rw [count_zipWith_self xs .lt (by decide), count_zipWith_self xs .gt (by decide)]
  simp

theorem count_swap (xs ys : List UInt64) :
    (List.zipWith totalCmp ys xs).count .lt = (List.zipWith totalCmp xs ys).count .gt ∧
    (List.zipWith totalCmp ys xs).count .gt = (List.zipWith totalCmp xs ys).count .lt := by
  induction xs generalizing ys with
  | nil => cases ys <;> simp
  | cons x xs ih =>
    cases ys with
    | nil => simp
    | cons y ys =>
      have := ih ys
      simp only [List.zipWith_cons_cons, List.count_cons, totalCmp_antisymm x y]
      cases totalCmp x y <;> simp [Ordering.swap] <;> omega

theorem domOrder_antisymm (xs ys : List UInt64) :
    domOrder (List.zipWith totalCmp ys xs) = (domOrder (List.zipWith totalCmp xs ys)).swap := by
  unfold domOrder
  obtain ⟨h1, h2⟩ := count_swap xs ys
  rw [h1, h2]
  generalize (List.zipWith totalCmp xs ys).count .gt = g
  generalize (List.zipWith totalCmp xs ys).count .lt = l
  by_cases hg : g = 0 <;> by_cases hl : l = 0 <;> simp [hg, hl, Ordering.swap] <;>
    (try (split <;> simp_all [Ordering.swap]))

/-- dominance (multi-objective layers) is **not** transitive: `a ≤ b`, `b ≤ c` but `a > c`.
    This is why transitivity is claimed for single-layer goals only. -/
theorem dominance_not_transitive :
    ∃ a b c : List UInt64,
      domOrder (List.zipWith totalCmp a b) = .eq ∧
      domOrder (List.zipWith totalCmp b c) = .eq ∧
      domOrder (List.zipWith totalCmp a c) = .gt := by
  refine ⟨[2, 2], [0, 3], [1, 1], ?_, ?_, ?_⟩ <;> decide

/-! ### goals of any mix of layers: reflexive and antisymmetric -/

theorem layerOrder_refl (k : LayerKind) (f : List UInt64) :
    layerOrder ⟨k, f, f⟩ = .eq := by
  cases k with
  | single => cases f <;> simp [layerOrder, layerCmp_refl]
  | multi => show domOrder (List.zipWith totalCmp f f) = .eq
             exact domOrder_self f

theorem layerOrder_antisymm (k : LayerKind) (fa fb : List UInt64) :
    layerOrder ⟨k, fb, fa⟩ = (layerOrder ⟨k, fa, fb⟩).swap := by
  cases k with
  | single =>
    cases fa with
    | nil => cases fb <;> rfl
    | cons a as =>
      cases fb with
      | nil => rfl
      | cons b bs => exact layerCmp_antisymm a b
  | multi => exact domOrder_antisymm fa fb

def LayerVals.flip (l : LayerVals) : LayerVals := ⟨l.kind, l.fb, l.fa⟩
def LayerVals.diag (l : LayerVals) : LayerVals := ⟨l.kind, l.fa, l.fa⟩

/-- **C09 reflexivity**: comparing a solution with itself is `Equal`, for any mix of layers. -/
theorem goal_refl (ls : List LayerVals) : goalCmp (ls.map LayerVals.diag) = .eq := by
  induction ls with
  | nil => rfl
  | cons l ls ih =>
    simp only [List.map_cons, goalCmp, LayerVals.diag, layerOrder_refl, ih]

/-- **C09 antisymmetry**: `cmp(b,a) = reverse(cmp(a,b))`, for any mix of layers. -/
theorem goal_antisymm (ls : List LayerVals) :
    goalCmp (ls.map LayerVals.flip) = (goalCmp ls).swap := by
  induction ls with
  | nil => rfl
  | cons l ls ih =>
    simp only [List.map_cons, goalCmp, LayerVals.flip]
    rw [layerOrder_antisymm l.kind l.fa l.fb]
    cases h : layerOrder ⟨l.kind, l.fa, l.fb⟩ <;>
      (have h' : layerOrder l = _ := h) <;> simp [h', ih, Ordering.swap]

/-! ### single-layer goals: total preorder = lexicographic comparison of the fitness vector -/

/-- **single-layer goals coincide with lexicographic comparison of the fitness vector with ±0
    identified** -/
theorem singleGoal_eq_lex (fa fb : List UInt64) :
    singleGoalCmp fa fb = lexCmp (fa.map key') (fb.map key') := by
  induction fa generalizing fb with
  | nil => simp [singleGoalCmp, lexCmp]
  | cons a as ih =>
    cases fb with
    | nil => simp [singleGoalCmp, lexCmp]
    | cons b bs =>
      simp only [singleGoalCmp, List.map_cons, lexCmp, layerCmp_eq_key', ih]

/-- the layered model and the vector model agree when every layer is single -/
theorem goalCmp_single (fa fb : List UInt64) (h : fa.length = fb.length) :
    goalCmp (List.zipWith (fun a b => ⟨.single, [a], [b]⟩) fa fb) = singleGoalCmp fa fb := by
  induction fa generalizing fb with
  | nil => cases fb <;> simp [goalCmp, singleGoalCmp]
  | cons a as ih =>
    cases fb with
    | nil => simp at h
    | cons b bs =>
      simp only [List.zipWith_cons_cons, goalCmp, layerOrder, singleGoalCmp]
      rw [ih bs (by simpa using h)]

theorem lexCmp_trans : ∀ (a b c : List Int), a.length = b.length → b.length = c.length →
    lexCmp a b ≠ .gt → lexCmp b c ≠ .gt → lexCmp a c ≠ .gt := by
  intro a
  induction a with
  | nil => intro b c _ _ _ _; simp [lexCmp]
  | cons x xs ih =>
    intro b c hab hbc h1 h2
    cases b with
    | nil => simp at hab
    | cons y ys =>
      cases c with
      | nil => simp at hbc
      | cons z zs =>
        simp only [lexCmp] at *
        rcases Int.lt_trichotomy x y with hxy | hxy | hxy
        · rcases Int.lt_trichotomy y z with hyz | hyz | hyz
          · rw [(cmp_lt_iff x z).mpr (by omega)]; simp
          · subst hyz; rw [(cmp_lt_iff x y).mpr hxy]; simp
          · rw [(cmp_gt_iff y z).mpr hyz] at h2; simp at h2
        · subst hxy
          rw [(cmp_eq_iff x x).mpr rfl] at h1
          rcases Int.lt_trichotomy x z with hyz | hyz | hyz
          · rw [(cmp_lt_iff x z).mpr hyz]; simp
          · subst hyz
            rw [(cmp_eq_iff x x).mpr rfl] at h2 ⊢
            exact ih ys zs (by simpa using hab) (by simpa using hbc) h1 h2
          · rw [(cmp_gt_iff x z).mpr hyz] at h2; simp at h2
        · rw [(cmp_gt_iff x y).mpr hxy] at h1; simp at h1

/-- **C09 transitivity for single-layer goals** (fitness vectors of one goal have equal length) -/
theorem singleGoal_trans (fa fb fc : List UInt64)
    (hab : fa.length = fb.length) (hbc : fb.length = fc.length)
    (h1 : singleGoalCmp fa fb ≠ .gt) (h2 : singleGoalCmp fb fc ≠ .gt) :
    singleGoalCmp fa fc ≠ .gt := by
  rw [singleGoal_eq_lex] at *
  exact lexCmp_trans _ _ _ (by simpa using hab) (by simpa using hbc) h1 h2

/-- totality: two solutions are always comparable (`≤` one way or the other) -/
theorem singleGoal_total (fa fb : List UInt64) :
    singleGoalCmp fa fb ≠ .gt ∨ singleGoalCmp fb fa ≠ .gt := by
  have h := goal_antisymm (List.zipWith (fun a b => (⟨.single, [a], [b]⟩ : LayerVals)) fa fb)
  by_cases hg : singleGoalCmp fa fb = .gt
  · right
    intro hba
    -- both directions `gt` contradict antisymmetry of the underlying lexicographic order
    rw [singleGoal_eq_lex] at hg hba
    have : ∀ (a b : List Int), lexCmp a b = .gt → lexCmp b a = .gt → False := by
      intro a
      induction a with
      | nil => intro b h _; simp [lexCmp] at h
      | cons x xs ih =>
        intro b h1 h2
        cases b with
        | nil => simp [lexCmp] at h1
        | cons y ys =>
          simp only [lexCmp] at h1 h2
          rcases Int.lt_trichotomy x y with hxy | hxy | hxy
          · rw [(cmp_lt_iff x y).mpr hxy] at h1; simp at h1
          · subst hxy; rw [(cmp_eq_iff x x).mpr rfl] at h1 h2; exact ih ys h1 h2
          · rw [(cmp_lt_iff y x).mpr hxy] at h2; simp at h2
    exact this _ _ hg hba
  · left; exact hg

/-! ### InsertionCost: lexicographic total order with zero padding -/

theorem icmpK_refl (n : Nat) (x : List Int) : icmpK n x x = .eq := by
  induction n generalizing x with
  | zero => rfl
  | succ n ih => simp [icmpK, (cmp_eq_iff _ _).mpr rfl, ih]

theorem icmpK_antisymm (n : Nat) (x y : List Int) : icmpK n y x = (icmpK n x y).swap := by
  induction n generalizing x y with
  | zero => rfl
  | succ n ih =>
    simp only [icmpK]
    rw [← cmp_swap (hd x) (hd y)]
    cases compare (hd x) (hd y)
    · rfl
    · exact ih _ _
    · rfl

theorem icmpK_trans (n : Nat) (x y z : List Int)
    (h1 : icmpK n x y ≠ .gt) (h2 : icmpK n y z ≠ .gt) : icmpK n x z ≠ .gt := by
  induction n generalizing x y z with
  | zero => simp [icmpK]
  | succ n ih =>
    simp only [icmpK] at *
    rcases Int.lt_trichotomy (hd x) (hd y) with hxy | hxy | hxy
    · rcases Int.lt_trichotomy (hd y) (hd z) with hyz | hyz | hyz
      · rw [(cmp_lt_iff _ _).mpr (show hd x < hd z by omega)]; simp
      · rw [← hyz, (cmp_lt_iff _ _).mpr hxy]; simp
      · rw [(cmp_gt_iff _ _).mpr hyz] at h2; simp at h2
    · rw [hxy, (cmp_eq_iff _ _).mpr rfl] at h1
      rw [hxy]
      rcases Int.lt_trichotomy (hd y) (hd z) with hyz | hyz | hyz
      · rw [(cmp_lt_iff _ _).mpr hyz]; simp
      · rw [hyz, (cmp_eq_iff _ _).mpr rfl] at h2 ⊢
        exact ih _ _ _ h1 h2
      · rw [(cmp_gt_iff _ _).mpr hyz] at h2; simp at h2
    · rw [(cmp_gt_iff _ _).mpr hxy] at h1; simp at h1

/-- extra iterations beyond both lengths compare `0` with `0`: the fuel can be enlarged freely -/
theorem icmpK_fuel (n m : Nat) (x y : List Int) (hx : x.length ≤ n) (hy : y.length ≤ n) (hm : n ≤ m) :
    icmpK m x y = icmpK n x y := by
  induction m generalizing n x y with
  | zero => have : n = 0 := by omega
            subst this; rfl
  | succ m ih =>
    cases n with
    | zero =>
      have hx0 : x = [] := List.length_eq_zero_iff.mp (by omega)
      have hy0 : y = [] := List.length_eq_zero_iff.mp (by omega)
      subst hx0 hy0
      simp only [icmpK, hd, List.headD_nil, (cmp_eq_iff _ _).mpr rfl, List.tail_nil]
      exact ih 0 [] [] (by simp) (by simp) (by omega)
    | succ n =>
      simp only [icmpK]
      rw [ih n x.tail y.tail (by simp; omega) (by simp; omega) (by omega)]

theorem icmp_refl (x : List UInt64) : icmp x x = .eq := icmpK_refl _ _

theorem icmp_antisymm (x y : List UInt64) : icmp y x = (icmp x y).swap := by
  unfold icmp; rw [Nat.max_comm]; exact icmpK_antisymm _ _ _

/-- **insertion-cost comparison is transitive for vectors of any (different) lengths** -/
theorem icmp_trans (x y z : List UInt64) (h1 : icmp x y ≠ .gt) (h2 : icmp y z ≠ .gt) :
    icmp x z ≠ .gt := by
  unfold icmp at *
  let m := max x.length (max y.length z.length)
  rw [← icmpK_fuel _ m _ _ (by simp; omega) (by simp; omega) (by omega)] at h1 h2 ⊢
  exact icmpK_trans m _ _ _ h1 h2

theorem icmpK_append_zero (k : Nat) (xs ys : List Int) :
    icmpK k (xs ++ [0]) ys = icmpK k xs ys := by
  induction k generalizing xs ys with
  | zero => rfl
  | succ k ih =>
    cases xs with
    | nil =>
      simp only [icmpK, List.nil_append, hd, List.headD_cons, List.headD_nil, List.tail_cons,
        List.tail_nil]
    | cons a as =>
      simp only [icmpK, List.cons_append, hd, List.headD_cons, List.tail_cons, ih]

/-- **a missing trailing component counts as zero**: appending `+0.0` changes nothing -/
theorem icmp_missing_is_zero (x y : List UInt64) : icmp (x ++ [0]) y = icmp x y := by
  unfold icmp
  have key0 : key 0 = 0 := by decide
  let m := max (x.length + 1) y.length
  rw [← icmpK_fuel _ m _ _ (by simp; omega) (by simp; omega) (by simp; omega)]
  rw [← icmpK_fuel (max x.length y.length) m _ _ (by simp; omega) (by simp; omega) (by omega)]
  rw [List.map_append, List.map_cons, List.map_nil, key0]
  exact icmpK_append_zero _ _ _

/-- the fold of the code is the lexicographic comparison of the zero-padded vectors -/
theorem icmpK_eq_lex (n : Nat) (x y : List Int) (hx : x.length ≤ n) (hy : y.length ≤ n) :
    icmpK n x y = lexCmp (padSpec n x) (padSpec n y) := by
  induction n generalizing x y with
  | zero =>
    have hx0 : x = [] := List.length_eq_zero_iff.mp (by omega)
    have hy0 : y = [] := List.length_eq_zero_iff.mp (by omega)
    subst hx0 hy0; simp [icmpK, padSpec, lexCmp]
  | succ n ih =>
    have hp : ∀ z : List Int, z.length ≤ n + 1 → padSpec (n + 1) z = hd z :: padSpec n z.tail := by
      intro z hz
      cases z with
      | nil => simp [padSpec, hd, List.replicate_succ]
      | cons a as => simp [padSpec, hd]
    rw [hp x hx, hp y hy]
    simp only [icmpK, lexCmp]
    rw [ih x.tail y.tail (by simp; omega) (by simp; omega)]

/-- **insertion-cost comparison is the lexicographic order of the zero-padded vectors** -/
theorem icmp_eq_spec (x y : List UInt64) : icmp x y = icostSpec x y := by
  unfold icmp icostSpec
  exact icmpK_eq_lex _ _ _ (by simp; omega) (by simp; omega)

/-- **single-layer goals: the code's comparison is the specification** -/
theorem singleGoal_eq_spec (fa fb : List UInt64) : singleGoalCmp fa fb = goalSpec fa fb :=
  singleGoal_eq_lex fa fb

/-! ### addition and subtraction are inverse (exact arithmetic) -/

theorem zipPad_getD (f : Int → Int → Int) (hf : f 0 0 = 0) (x y : List Int) (i : Nat) :
    (zipPad f x y).getD i 0 = f (x.getD i 0) (y.getD i 0) := by
  induction x generalizing y i with
  | nil =>
    induction y generalizing i with
    | nil => simp [zipPad, hf]
    | cons b bs ihy =>
      cases i with
      | zero => simp [zipPad]
      | succ i => simpa [zipPad] using ihy i
  | cons a as ih =>
    cases y with
    | nil =>
      cases i with
      | zero => simp [zipPad]
      | succ i => simpa [zipPad] using ih [] i
    | cons b bs =>
      cases i with
      | zero => simp [zipPad]
      | succ i => simpa [zipPad] using ih bs i

theorem zipPad_length (f : Int → Int → Int) (x y : List Int) :
    (zipPad f x y).length = max x.length y.length := by
  induction x generalizing y with
  | nil => induction y with
    | nil => simp [zipPad]
    | cons b bs ih => simp [zipPad, ih]
  | cons a as ih =>
    cases y with
    | nil => simp [zipPad, ih]
    | cons b bs => simp only [zipPad, List.length_cons, ih]; omega

/-- **(x + y) − y = x component-wise (missing components read as zero)**, vectors of any lengths -/
theorem icost_add_sub_cancel (x y : List Int) (i : Nat) :
    (isub (iadd x y) y).getD i 0 = x.getD i 0 := by
  unfold isub iadd
  rw [zipPad_getD _ (by simp), zipPad_getD _ (by simp)]; omega

/-- **(x − y) + y = x component-wise** -/
theorem icost_sub_add_cancel (x y : List Int) (i : Nat) :
    (iadd (isub x y) y).getD i 0 = x.getD i 0 := by
  unfold isub iadd
  rw [zipPad_getD _ (by simp), zipPad_getD _ (by simp)]; omega

/-- vectors with the same padded components compare `Equal` -/
theorem icmpK_eq_of_getD (n : Nat) (x y : List Int) (h : ∀ i, x.getD i 0 = y.getD i 0) :
    icmpK n x y = .eq := by
  induction n generalizing x y with
  | zero => rfl
  | succ n ih =>
    have h0 : hd x = hd y := by
      have := h 0
      cases x <;> cases y <;> simpa [hd] using this
    simp only [icmpK, h0, (cmp_eq_iff _ _).mpr rfl]
    apply ih
    intro i
    have := h (i + 1)
    cases x <;> cases y <;> simpa using this

/-- `(x + y) − y` compares `Equal` to `x` under the insertion-cost order -/
theorem icost_add_sub_cmp_eq (x y : List Int) : icmpI (isub (iadd x y) y) x = .eq :=
  icmpK_eq_of_getD _ _ _ (icost_add_sub_cancel x y)

theorem icost_sub_add_cmp_eq (x y : List Int) : icmpI (iadd (isub x y) y) x = .eq :=
  icmpK_eq_of_getD _ _ _ (icost_sub_add_cancel x y)

/-! ### non-vacuity: concrete special values -/

-- +0.0 and -0.0 are equal for a goal layer, distinct for total_cmp; NaN (0x7ff8…) is above +∞
example : layerCmp 0 0x8000000000000000 = .eq ∧ totalCmp 0x8000000000000000 0 = .lt ∧
    layerCmp 0x7ff0000000000000 0x7ff8000000000000 = .lt := by decide
-- a goal with a single layer followed by a dominance layer
example : goalCmp [⟨.single, [0], [0x8000000000000000]⟩, ⟨.multi, [1, 5], [2, 5]⟩] = .lt := by decide
-- insertion costs of different lengths
example : icmp [0x3ff0000000000000] [0x3ff0000000000000, 0, 0] = .eq := by decide

end C09
