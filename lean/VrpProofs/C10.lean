import VrpProofs.C10.Rules
import VrpModel.Generated.C10Rules
/-!
# C10 — problem validation is total and matches its documented rules

Model: `C10.Validate.run` (mirror of `vrp-pragmatic/src/validation/*.rs`), specification:
`C10.Rules.violates` (written from `docs/src/concepts/pragmatic/errors/index.md`).

Interpretation notes (where the documentation is loose, the reading is stated here):
* E1103 "start date is earlier than end date" is read as *not later* (E1302 applies the same rule to a shift
  without end, i.e. to the window `[start, start]`); windows sharing an end point intersect; a `times`
  property, when present, holds at least one window.
* E1203: the error index says "strict or sequence relation", `docs/.../problem/relations.md` ("relation with jobs
  which have multiple pickups or deliveries places are not yet supported") and the pinned unit test
  `can_detect_multi_place_time_window_jobs::case03` apply it to every relation type, and vrp-core asserts a single
  place and window for the jobs of locks of *every* order. The specification applies E1203 to all relation types.
* E1206 "corresponding property is not defined": the n-th `break`/`reload`/`recharge` entry of a relation refers to
  the n-th optional break / reload / recharge station of the shift.
* E1303/E1304 "inside vehicle shift": the documented example rejects a window *outside* the shift; a window is
  accepted when it meets the shift's window.
* E1504 "does not match matrix dimension": every matrix has exactly `n²` entries, `n` = what the locations need.
* E16xx rules speak about a present `objectives` property (section header); E1607 "jobs with value set" = value > 0
  (the counterpart of E1603's "non-zero value").
-/
set_option linter.unusedSimpArgs false
set_option linter.unusedVariables false
namespace C10
open Validate Rules

/-- every rule function reports its error exactly when the document breaks the documented rule -/
theorem fires_eq_violates (d : Doc) (r : Rule) : fires d r = violates d r := by
  cases r
  case E1100 => exact fires_E1100 d
  case E1101 => exact fires_E1101 d
  case E1102 => exact fires_E1102 d
  case E1103 => exact fires_E1103 d
  case E1104 => exact fires_E1104 d
  case E1105 => exact fires_E1105 d
  case E1106 => exact fires_E1106 d
  case E1107 => exact fires_E1107 d
  case E1200 => exact fires_E1200 d
  case E1201 => exact fires_E1201 d
  case E1202 => exact fires_E1202 d
  case E1203 => exact fires_E1203 d
  case E1204 => exact fires_E1204 d
  case E1205 => exact fires_E1205 d
  case E1206 => exact fires_E1206 d
  case E1207 => exact fires_E1207 d
  case E1300 => exact fires_E1300 d
  case E1301 => exact fires_E1301 d
  case E1302 => exact fires_E1302 d
  case E1303 => exact fires_E1303 d
  case E1304 => exact fires_E1304 d
  case E1306 => exact fires_E1306 d
  case E1307 => exact fires_E1307 d
  case E1308 => exact fires_E1308 d
  case E1500 => exact fires_E1500 d
  case E1501 => exact fires_E1501 d
  case E1502 => exact fires_E1502 d
  case E1503 => exact fires_E1503 d
  case E1504 => exact e1504_matrix_dim d
  case E1505 => exact fires_E1505 d
  case E1600 => exact fires_E1600 d
  case E1601 => exact fires_E1601 d
  case E1602 => exact fires_E1602 d
  case E1603 => exact fires_E1603 d
  case E1604 => exact fires_E1604 d
  case E1605 => exact fires_E1605 d
  case E1606 => exact fires_E1606 d
  case E1607 => exact fires_E1607 d

theorem mem_all (r : Rule) : r ∈ Rule.all := by
  cases r <;> simp [Rule.all]

/-- **C10, soundness and completeness**: for every document, the code of a rule is among the reported
    errors if and only if the document breaks that documented rule -/
theorem validate_sound_complete (d : Doc) (r : Rule) : r ∈ run d ↔ violates d r = true := by
  unfold run
  rw [List.mem_filter, fires_eq_violates]
  exact ⟨fun h => h.2, fun h => ⟨mem_all r, h⟩⟩

/-- a document is accepted by validation exactly when it breaks none of the documented rules -/
theorem validate_accepts_iff_clean (d : Doc) : run d = [] ↔ ∀ r, violates d r = false := by
  constructor
  · intro h r
    cases hv : violates d r with
    | false => rfl
    | true =>
      have := (validate_sound_complete d r).mpr hv
      rw [h] at this
      cases this
  · intro h
    apply List.eq_nil_iff_forall_not_mem.mpr
    intro r hr
    have := (validate_sound_complete d r).mp hr
    rw [h r] at this
    cases this

/-- **C10, totality of the validation model**: validation always returns a list of documented codes, each at
    most once (the rule functions have no partial accessor: every `unwrap` of `validation/*.rs` is guarded,
    see `siteTable`) -/
theorem validate_total (d : Doc) : ∃ cs : List Rule, run d = cs ∧ cs.Nodup ∧ ∀ c ∈ cs, c ∈ Rule.all := by
  refine ⟨run d, rfl, ?_, fun c _ => mem_all c⟩
  unfold run
  exact List.Nodup.sublist List.filter_sublist (by decide)

end C10
