import VrpProofs.C10.Rules
import VrpModel.Generated.C10Rules
/-!
# C10 — problem validation is total and matches its documented rules

Model: `C10.Validate.run` (mirror of `vrp-pragmatic/src/validation/*.rs`), specification:
`C10.Rules.violates` (written from `docs/src/concepts/pragmatic/errors/index.md`).

Interpretation notes (where the documentation is loose, the reading is stated here):
* E1103 "start date is earlier than end date" is read as *not later* (E1302 applies the same rule to a shift
  without end, i.e. to the window `[start, start]`); windows sharing an end point intersect; a `times`
  property, when present, holds at least one window.
* E1203: the error index says "strict or sequence relation", `docs/.../problem/relations.md` ("relation with jobs
  which have multiple pickups or deliveries places are not yet supported") and the pinned unit test
  `can_detect_multi_place_time_window_jobs::case03` apply it to every relation type, and vrp-core asserts a single
  place and window for the jobs of locks of *every* order. The specification applies E1203 to all relation types.
* E1206 "corresponding property is not defined": the n-th `break`/`reload`/`recharge` entry of a relation refers to
  the n-th optional break / reload / recharge station of the shift.
* E1303/E1304 "inside vehicle shift": the documented example rejects a window *outside* the shift; a window is
  accepted when it meets the shift's window.
* E1504 "does not match matrix dimension": every matrix has exactly `n²` entries, `n` = what the locations need.
* E16xx rules speak about a present `objectives` property (section header); E1607 "jobs with value set" = value > 0
  (the counterpart of E1603's "non-zero value").
-/
set_option linter.unusedSimpArgs false
set_option linter.unusedVariables false
namespace C10
open Validate Rules

/-- every rule function reports its error exactly when the document breaks the documented rule -/
theorem fires_eq_violates (d : Doc) (r : Rule) : fires d r = violates d r := by
  cases r
  case E1100 => exact fires_E1100 d
  case E1101 => exact fires_E1101 d
  case E1102 => exact fires_E1102 d
  case E1103 => exact fires_E1103 d
  case E1104 => exact fires_E1104 d
  case E1105 => exact fires_E1105 d
  case E1106 => exact fires_E1106 d
  case E1107 => exact fires_E1107 d
  case E1200 => exact fires_E1200 d
  case E1201 => exact fires_E1201 d
  case E1202 => exact fires_E1202 d
  case E1203 => exact fires_E1203 d
  case E1204 => exact fires_E1204 d
  case E1205 => exact fires_E1205 d
  case E1206 => exact fires_E1206 d
  case E1207 => exact fires_E1207 d
  case E1300 => exact fires_E1300 d
  case E1301 => exact fires_E1301 d
  case E1302 => exact fires_E1302 d
  case E1303 => exact fires_E1303 d
  case E1304 => exact fires_E1304 d
  case E1306 => exact fires_E1306 d
  case E1307 => exact fires_E1307 d
  case E1308 => exact fires_E1308 d
  case E1500 => exact fires_E1500 d
  case E1501 => exact fires_E1501 d
  case E1502 => exact fires_E1502 d
  case E1503 => exact fires_E1503 d
  case E1504 => exact e1504_matrix_dim d
  case E1505 => exact fires_E1505 d
  case E1600 => exact fires_E1600 d
  case E1601 => exact fires_E1601 d
  case E1602 => exact fires_E1602 d
  case E1603 => exact fires_E1603 d
  case E1604 => exact fires_E1604 d
  case E1605 => exact fires_E1605 d
  case E1606 => exact fires_E1606 d
  case E1607 => exact fires_E1607 d

/-- **E1601–E1607 over the objective tree**: what the rule functions compute on the flattened list
    (`get_objectives_flattened`: set size vs list length, `any`, filtered count) is stated by the number of
    leaves of each kind in the tree, wherever the leaf sits (top level or inside a `multi-objective`) -/
theorem e160x_objective_tree (os : List Obj) :
    (e1601 os = allKinds.any (fun k => decide (1 < leafCount k os)))
    ∧ (e1602 os = costKinds.all (fun k => leafCount k os == 0))
    ∧ (e1606 os = decide (1 < (costKinds.map (fun k => leafCount k os)).sum))
    ∧ ((flatten os).any (· == .maxValue) = decide (0 < leafCount .maxValue os))
    ∧ ((flatten os).any (· == .tourOrder) = decide (0 < leafCount .tourOrder os)) := by
  refine ⟨e1601_iff os, ?_, ?_, ?_, ?_⟩
  · simp only [e1602, any_isCost_iff, Bool.not_not, leafCount_eq_count]
  · simp only [e1606, filter_isCost_length, leafCount_eq_count]
  · simp only [any_beq_iff_count, leafCount_eq_count]
  · simp only [any_beq_iff_count, leafCount_eq_count]

theorem mem_all (r : Rule) : r ∈ Rule.all := by
  cases r <;> simp [Rule.all]

/-- **C10, soundness and completeness**: for every document, the code of a rule is among the reported
    errors if and only if the document breaks that documented rule -/
theorem validate_sound_complete (d : Doc) (r : Rule) : r ∈ run d ↔ violates d r = true := by
  unfold run
  rw [List.mem_filter, fires_eq_violates]
  exact ⟨fun h => h.2, fun h => ⟨mem_all r, h⟩⟩

/-- a document is accepted by validation exactly when it breaks none of the documented rules -/
theorem validate_accepts_iff_clean (d : Doc) : run d = [] ↔ ∀ r, violates d r = false := by
  constructor
  · intro h r
    cases hv : violates d r with
    | false => rfl
    | true =>
      have := (validate_sound_complete d r).mpr hv
      rw [h] at this
      cases this
  · intro h
    apply List.eq_nil_iff_forall_not_mem.mpr
    intro r hr
    have := (validate_sound_complete d r).mp hr
    rw [h r] at this
    cases this

/-- **C10, totality of the validation model**: validation always returns a list of documented codes, each at
    most once (the rule functions have no partial accessor: every `unwrap` of `validation/*.rs` is guarded,
    see `siteTable`) -/
theorem validate_total (d : Doc) : ∃ cs : List Rule, run d = cs ∧ cs.Nodup ∧ ∀ c ∈ cs, c ∈ Rule.all := by
  refine ⟨run d, rfl, ?_, fun c _ => mem_all c⟩
  unfold run
  exact List.Nodup.sublist List.filter_sublist (by decide)


open Mapper

/-! ## MapperSafe -/

theorem any_false_iff {α : Type} (l : List α) (p : α → Bool) : l.any p = false ↔ ∀ x ∈ l, p x = false := by
  simp [List.any_eq_false]

theorem validOpt_isSome (o : Option TW) (h : TW.validOpt o = true) : o.isSome = true := by
  cases o with
  | none => simp [TW.validOpt] at h
  | some _ => rfl

/-- E1505 clean ⇒ every vehicle profile has an index -/
theorem safe_profilesKnown (d : Doc) (h : violates d .E1505 = false) : profilesKnown d = true := by
  unfold violates at h
  unfold profilesKnown
  rw [Bool.or_eq_false_iff] at h
  rw [List.all_eq_true]
  intro v hv
  have := (any_false_iff _ _).mp h.1 v hv
  simpa using this

/-- what E1302 clean gives for one vehicle -/
theorem e1302_clean (d : Doc) (h : violates d .E1302 = false) (v : Veh) (hv : v ∈ d.vehicles) :
    twOptListOk (v.shifts.map shiftSpan) false = true ∧ ∀ s ∈ v.shifts, optionalDateBad s = false := by
  unfold violates at h
  have := (any_false_iff _ _).mp h v hv
  rw [Bool.or_eq_false_iff] at this
  refine ⟨by simpa using this.1, ?_⟩
  exact (any_false_iff _ _).mp this.2

theorem shiftSpan_isSome (s : Shift) (h : (shiftSpan s).isSome = true) :
    s.startE ≠ .bad ∧ (match s.end_ with | some e => e.latest != .bad | none => true) = true := by
  unfold shiftSpan at h
  cases hs : s.startE with
  | bad => rw [hs] at h; cases s.end_ <;> simp at h
  | «at» a =>
    rw [hs] at h
    cases he : s.end_ with
    | none => simp
    | some e =>
      rw [he] at h
      simp only [] at h
      cases hl : e.latest with
      | bad => rw [hl] at h; simp at h
      | «at» b => simp [hl]

theorem safe_shiftDates (d : Doc) (h : violates d .E1302 = false) : shiftDatesParse d = true := by
  unfold shiftDatesParse
  rw [List.all_eq_true]
  intro v hv
  rw [List.all_eq_true]
  intro s hs
  obtain ⟨hok, _⟩ := e1302_clean d h v hv
  unfold twOptListOk at hok
  simp only [Bool.and_eq_true] at hok
  have hall := List.all_eq_true.mp hok.1.2 (shiftSpan s) (List.mem_map.mpr ⟨s, hs, rfl⟩)
  have := shiftSpan_isSome s (validOpt_isSome _ hall)
  rw [Bool.and_eq_true]
  refine ⟨by simpa using this.1, this.2⟩

theorem safe_shiftLatest (d : Doc) (h : violates d .E1302 = false) : shiftLatestParses d = true := by
  unfold shiftLatestParses
  rw [List.all_eq_true]
  intro v hv
  rw [List.all_eq_true]
  intro s hs
  obtain ⟨_, hbad⟩ := e1302_clean d h v hv
  have := hbad s hs
  unfold optionalDateBad at this
  rw [Bool.or_eq_false_iff] at this
  simpa using this.1

theorem shifts_nonempty (d : Doc) (h : violates d .E1302 = false) (v : Veh) (hv : v ∈ d.vehicles) : v.shifts ≠ [] := by
  obtain ⟨hok, _⟩ := e1302_clean d h v hv
  unfold twOptListOk at hok
  simp only [Bool.and_eq_true] at hok
  intro e
  rw [e] at hok
  simp at hok

theorem safe_jobsHaveTasks (d : Doc) (h : violates d .E1105 = false) : jobsHaveTasks d = true := by
  unfold violates at h
  unfold jobsHaveTasks
  rw [List.all_eq_true]
  intro j hj
  have := (any_false_iff _ _).mp h j hj
  simp [this]

theorem twListOk_wellFormed (raw : List (List Tm)) (skip : Bool) (h : twListOk raw skip = true) :
    ∀ w ∈ raw, twWellFormed w = true := by
  unfold twListOk at h
  simp only [Bool.and_eq_true] at h
  intro w hw
  exact validOpt_isSome _ (List.all_eq_true.mp h.1.2 w hw)

theorem safe_jobTimes (d : Doc) (h : violates d .E1103 = false) : jobTimesWellFormed d = true := by
  unfold violates at h
  unfold jobTimesWellFormed
  rw [List.all_eq_true]
  intro j hj
  rw [List.all_eq_true]
  intro t ht
  rw [List.all_eq_true]
  intro p hp
  have h1 := (any_false_iff _ _).mp h j hj
  have h2 := (any_false_iff _ _).mp h1 t ht
  have h3 := (any_false_iff _ _).mp h2 p hp
  unfold timesWellFormed
  cases hpt : p.times with
  | none => simp [optList]
  | some tws =>
    rw [hpt] at h3
    simp only [Option.any_some, Bool.not_eq_false'] at h3
    simp only [optList, Option.getD_some]
    rw [List.all_eq_true]
    exact twListOk_wellFormed tws false h3

/-- what E1304 clean gives for one shift: every reload / recharge window is a pair of dates -/
theorem e1304_clean (d : Doc) (h : violates d .E1304 = false) (v : Veh) (hv : v ∈ d.vehicles) (s : Shift) (hs : s ∈ v.shifts) :
    ∀ w ∈ ((optList s.reloads).filterMap (·.times) ++ (optList s.recharges).filterMap (·.times)).flatMap id,
      twWellFormed w = true := by
  unfold violates at h
  have h1 := (any_false_iff _ _).mp h v hv
  have h2 := (any_false_iff _ _).mp h1 s hs
  simp only [] at h2
  generalize ((optList s.reloads).filterMap (·.times) ++ (optList s.recharges).filterMap (·.times)).flatMap id = raw at h2 ⊢
  intro w hw
  cases hr : raw.isEmpty with
  | true =>
    have : raw = [] := List.isEmpty_iff.mp hr
    rw [this] at hw; cases hw
  | false =>
    rw [hr] at h2
    simp only [Bool.not_false, Bool.true_and, Bool.not_eq_false', Bool.and_eq_true] at h2
    exact twListOk_wellFormed raw true h2.1 w hw

theorem safe_reloadTimes (d : Doc) (h : violates d .E1304 = false) : reloadTimesWellFormed d = true := by
  unfold reloadTimesWellFormed
  rw [List.all_eq_true]
  intro v hv
  rw [List.all_eq_true]
  intro s hs
  rw [List.all_eq_true]
  intro r hr
  unfold timesWellFormed
  rw [List.all_eq_true]
  intro w hw
  apply e1304_clean d h v hv s hs w
  rw [List.mem_flatMap]
  cases hrt : r.times with
  | none => rw [hrt] at hw; simp [optList] at hw
  | some tws =>
    rw [hrt] at hw
    refine ⟨tws, ?_, by simpa [optList] using hw⟩
    apply List.mem_append_left
    exact List.mem_filterMap.mpr ⟨r, hr, hrt⟩

theorem safe_rechargeTimes (d : Doc) (h : violates d .E1304 = false) : rechargeTimesWellFormed d = true := by
  unfold rechargeTimesWellFormed
  rw [List.all_eq_true]
  intro v hv
  rw [List.all_eq_true]
  intro s hs
  rw [List.all_eq_true]
  intro p hp
  unfold timesWellFormed
  rw [List.all_eq_true]
  intro w hw
  apply e1304_clean d h v hv s hs w
  rw [List.mem_flatMap]
  cases hpt : p.times with
  | none => rw [hpt] at hw; simp [optList] at hw
  | some tws =>
    rw [hpt] at hw
    refine ⟨tws, ?_, by simpa [optList] using hw⟩
    apply List.mem_append_right
    exact List.mem_filterMap.mpr ⟨p, hp, hpt⟩

theorem safe_breakTimes (d : Doc) (h : violates d .E1303 = false) : breakTimesWellFormed d = true := by
  unfold violates at h
  unfold breakTimesWellFormed
  rw [List.all_eq_true]
  intro v hv
  rw [List.all_eq_true]
  intro s hs
  rw [List.all_eq_true]
  intro b hb
  have h1 := (any_false_iff _ _).mp h v hv
  have h2 := (any_false_iff _ _).mp h1 s hs
  cases hbs : s.breaks with
  | none => rw [hbs] at hb; simp [optList] at hb
  | some bs =>
    rw [hbs] at hb h2
    simp only [optList, Option.getD_some] at hb
    simp only [] at h2
    -- every window the breaks fix is a valid one
    have hall : ∀ w ∈ bs.filterMap (breakWindow s), TW.validOpt w = true := by
      intro w hw
      cases hr : (bs.filterMap (breakWindow s)).isEmpty with
      | true =>
        have : bs.filterMap (breakWindow s) = [] := List.isEmpty_iff.mp hr
        rw [this] at hw; cases hw
      | false =>
        rw [hr] at h2
        simp only [Bool.not_false, Bool.true_and, Bool.not_eq_false', Bool.and_eq_true, twOptListOk] at h2
        exact List.all_eq_true.mp h2.1.1.2 w hw
    cases b with
    | optTw tw locs =>
      have := hall (parseTw tw) (List.mem_filterMap.mpr ⟨_, hb, rfl⟩)
      exact validOpt_isSome _ this
    | optOff off locs =>
      by_cases hl : off.length = 2
      · simp [hl]
      · have := hall none (List.mem_filterMap.mpr ⟨_, hb, by simp [breakWindow, hl]⟩)
        simp [TW.validOpt] at this
    | reqOff e l dur => rfl
    | reqExact e l dur =>
      have := hall ((tw2 e l).map (fun w => ⟨w.s, w.e + dur⟩)) (List.mem_filterMap.mpr ⟨_, hb, rfl⟩)
      cases e <;> cases l <;> simp [tw2, TW.validOpt] at this ⊢

theorem safe_resources (d : Doc) (h : violates d .E1308 = false) : resourcesUnique d = true := by
  unfold violates at h
  rw [Bool.or_eq_false_iff] at h
  unfold resourcesUnique
  simpa using h.1

theorem safe_fleet (d : Doc) (h : violates d .E1302 = false) (hf : d.vehicles.any (fun v => !v.ids.isEmpty) = true) :
    fleetNonEmpty d = true := by
  unfold fleetNonEmpty
  obtain ⟨v, hv, hids⟩ := List.any_eq_true.mp hf
  apply List.any_eq_true.mpr
  refine ⟨v, hv, ?_⟩
  rw [Bool.and_eq_true]
  refine ⟨hids, ?_⟩
  have := shifts_nonempty d h v hv
  cases hs : v.shifts with
  | nil => exact absurd hs this
  | cons a b => rfl


theorem definedCount_break (s : Shift) : definedCount s "break" = optionalBreaks s := by
  unfold definedCount; simp
theorem definedCount_reload (s : Shift) : definedCount s "reload" = (optList s.reloads).length := by
  unfold definedCount
  have : ("reload" == "break") = false := by decide
  simp [this]
theorem definedCount_recharge (s : Shift) : definedCount s "recharge" = (optList s.recharges).length := by
  unfold definedCount
  have h1 : ("recharge" == "break") = false := by decide
  have h2 : ("recharge" == "reload") = false := by decide
  simp [h1, h2]

/-- E1200, E1201, E1205, E1206 clean ⇒ `read_locks` finds a job behind every relation entry -/
theorem safe_relations (d : Doc) (h0 : violates d .E1200 = false) (h1 : violates d .E1201 = false)
    (h5 : violates d .E1205 = false) (h6 : violates d .E1206 = false) : relationJobsResolve d = true := by
  simp only [violates] at h0 h1 h5 h6
  unfold relationJobsResolve
  rw [List.all_eq_true]
  intro r hr
  rw [Bool.and_eq_true]
  constructor
  · -- plain ids are plan jobs
    rw [List.all_eq_true]
    intro j hj
    have := (any_false_iff _ _).mp ((any_false_iff _ _).mp h0 r hr) j hj
    rw [Bool.and_eq_false_iff] at this
    rcases this with hres | hcont
    · have hmem : j ∈ reservedIds := by simpa using hres
      simp only [reservedIds, List.mem_cons, List.not_mem_nil, or_false] at hmem
      rcases hmem with rfl | rfl | rfl | rfl <;> simp
    · have : (d.job? j).isSome = true := by
        rw [job?_isSome]; simpa using hcont
      simp [this]
  · -- the shift exists and defines enough breaks / reloads / recharge stations
    have hv : (d.vehOf? r.vehicle).isSome = true := by
      rw [vehOf?_isSome]
      simpa using (any_false_iff _ _).mp h1 r hr
    obtain ⟨v, hveh⟩ := Option.isSome_iff_exists.mp hv
    have h5r := (any_false_iff _ _).mp h5 r hr
    have h6r := (any_false_iff _ _).mp h6 r hr
    rw [hveh] at h5r h6r
    simp only [Option.any_some] at h6r
    simp only [Option.any_some, decide_eq_false_iff_not, Nat.not_le] at h5r
    obtain ⟨s, hshift⟩ : ∃ s, v.shifts[r.shift.getD 0]? = some s := ⟨_, List.getElem?_eq_getElem h5r⟩
    rw [hshift] at h6r
    simp only [Option.any_some, Bool.or_eq_false_iff, decide_eq_false_iff_not, Nat.not_lt] at h6r
    obtain ⟨⟨⟨hb, hrl⟩, hrc⟩, _⟩ := h6r
    have hrs : relationJobsResolve.relShift? d r = some s := by
      unfold relationJobsResolve.relShift? Validate.relShift?
      rw [hveh]; exact hshift
    simp only [List.all_cons, List.all_nil, Bool.and_true, hrs, Bool.and_eq_true, Bool.or_eq_true,
      decide_eq_true_eq, definedCount_break, definedCount_reload, definedCount_recharge]
    exact ⟨Or.inr hb, Or.inr hrl, Or.inr hrc⟩

/-- E1504 clean ⇒ every matrix lookup `from * size + to` stays inside the data -/
theorem safe_matrix (d : Doc) (h : violates d .E1504 = false) : matrixCoversIndices d = true := by
  simp only [violates] at h
  unfold matrixCoversIndices
  cases hm : d.matrices with
  | nil => rfl
  | cons m rest =>
    rw [hm] at h
    have hsq : ∀ m' ∈ m :: rest, requiredSize d * requiredSize d = m'.dist := by
      intro m' hm'
      have := (any_false_iff _ _).mp h m' hm'
      simpa [isSquareOf] using this
    have hsize : roundSqrt m.dist = requiredSize d := by
      rw [← hsq m (by simp)]; exact roundSqrt_sq _
    simp only []
    rw [hsize, Bool.and_eq_true]
    constructor
    · rw [List.all_eq_true]
      intro l hl
      cases l with
      | coord a b => rfl
      | idx n =>
        simp only [decide_eq_true_eq]
        have hle : ((locations d).map Loc.indexBound).foldl max 0 ≤ requiredSize d := by
          unfold requiredSize; simp only []; omega
        have := (foldl_max_le _ _).mp hle (Loc.indexBound (.idx n)) (List.mem_map.mpr ⟨_, hl, rfl⟩)
        simp only [Loc.indexBound] at this
        omega
    · rw [List.all_eq_true]
      intro m' hm'
      simp only [decide_eq_true_eq]
      rw [hsq m' hm']
      exact Nat.le_refl _


/-! ## the theorem for "never a crash" -/

/-- **C10, totality of the mapping stage** (`_partial`: two preconditions are *not* implied by validation and are
    hypotheses here — at most 8 load dimensions (S21) and a vehicle with an id (S23); both are reported findings
    with kernel-checked counter-witnesses below and replayed corpus cases):
    a document accepted by validation satisfies the precondition of every panic site of the mapping code -/
theorem validate_ok_implies_mapper_safe_partial (d : Doc) (h : run d = [])
    (hdims : dimsOk d = true) (hfleet : d.vehicles.any (fun v => !v.ids.isEmpty) = true) :
    mapperSafe d = true := by
  have hv := (validate_accepts_iff_clean d).mp h
  unfold mapperSafe
  simp only [Bool.and_eq_true]
  exact ⟨⟨⟨⟨⟨⟨⟨⟨⟨⟨⟨⟨safe_profilesKnown d (hv _), safe_shiftDates d (hv _)⟩, safe_shiftLatest d (hv _)⟩,
    safe_jobsHaveTasks d (hv _)⟩, safe_jobTimes d (hv _)⟩, safe_reloadTimes d (hv _)⟩, safe_rechargeTimes d (hv _)⟩,
    safe_breakTimes d (hv _)⟩, safe_relations d (hv _) (hv _) (hv _) (hv _)⟩, safe_resources d (hv _)⟩, hdims⟩,
    safe_fleet d (hv _) hfleet⟩, safe_matrix d (hv _)⟩

/-! ## witnesses: non-vacuity and the two open findings -/

def wPlace (i : Nat) : Place := { loc := .idx i, dur := 60, times := none }
def wTask (i : Nat) (dm : List Int) : Task := { places := [wPlace i], demand := some dm, order := none }
def wJob (id : String) (i : Nat) (dm : List Int) : Job :=
  { id := id, pickups := none, deliveries := some [wTask i dm], replacements := none, services := none, value2 := none }
def wShift : Shift :=
  { startE := .at 32400, startL := none, startLoc := .idx 0,
    end_ := some { earliest := none, latest := .at 64800, loc := .idx 0 },
    breaks := some [.optTw [.at 43200, .at 46800] [none], .reqExact (.at 50400) (.at 52200) 600],
    reloads := some [{ loc := .idx 0, times := some [[.at 36000, .at 61200]], res := some "res1" }],
    recharges := none }
def wVeh (ids : List String) (cap : List Int) : Veh :=
  { typeId := "t1", ids := ids, profile := "car", costDist := 1, costTime := 1, shifts := [wShift], cap := cap }
/-- a valid document with breaks, a reload with a resource, a relation naming `break` and `reload`, objectives -/
def wValid : Doc :=
  { jobs := [wJob "j1" 1 [1], wJob "j2" 2 [2]],
    relations := some [{ type := .sequence, jobs := ["departure", "j1", "break", "reload", "j2"], vehicle := "v1", shift := none }],
    clustering := none, vehicles := [wVeh ["v1"] [10]], profiles := ["car"],
    resources := some [{ id := "res1", cap := [20] }],
    objectives := some [.leaf .minUnassigned, .multi [.minTours, .minCost]],
    matrices := [{ profile := some "car", ts := none, tt := 9, dist := 9 }] }

/-- non-vacuity: a document with optional sections is accepted, meets both hypotheses and is mapper-safe -/
example : run wValid = [] ∧ dimsOk wValid = true ∧ wValid.vehicles.any (fun v => !v.ids.isEmpty) = true
    ∧ mapperSafe wValid = true := by decide

/-- non-vacuity of the window theorem: three windows, the first two intersecting (the S1 input); the job is also
    named by a relation, hence E1203 -/
example : run { wValid with jobs := [{ wJob "j1" 1 [1] with deliveries := some [{ wTask 1 [1] with places :=
      [{ wPlace 1 with times := some [[.at 32400, .at 43200], [.at 39600, .at 46800], [.at 50400, .at 54000]] }] }] },
      wJob "j2" 2 [2]] } = [.E1103, .E1203] := by decide

/-- non-vacuity of E1204/E1206/E1207: a second relation moves `j1` to another vehicle, lists it twice and
    names a break too many -/
example : run { wValid with
      vehicles := [wVeh ["v1", "v2"] [10]],
      relations := some [{ type := .any, jobs := ["j1"], vehicle := "v1", shift := none },
                         { type := .strict, jobs := ["j1", "j1", "break", "break"], vehicle := "v2", shift := none }] }
    = [.E1204, .E1206, .E1207] := by decide

/-- **S21** (open finding): nine load dimensions pass validation but break `MultiDimLoad::new`'s assertion -/
theorem s21_counter_witness :
    ∃ d : Doc, run d = [] ∧ d.vehicles.any (fun v => !v.ids.isEmpty) = true ∧ mapperSafe d = false :=
  ⟨{ wValid with jobs := [wJob "j1" 1 [1, 1, 1, 1, 1, 1, 1, 1, 1], wJob "j2" 2 [2]] }, by decide⟩

/-- **S23** (open finding): a fleet without any vehicle id passes validation but breaks `Fleet::new`'s assertion -/
theorem s23_counter_witness :
    ∃ d : Doc, run d = [] ∧ dimsOk d = true ∧ mapperSafe d = false :=
  ⟨{ wValid with vehicles := [wVeh [] [10]], relations := none }, by decide⟩

/-! ## generated obligations (translator T2) and the panic-site table -/

/-- the preconditions of `MapperSafe`, as data -/
inductive Pre where
  | profilesKnown | shiftDatesParse | shiftLatestParses | jobsHaveTasks | jobTimesWellFormed
  | reloadTimesWellFormed | rechargeTimesWellFormed | breakTimesWellFormed | relationJobsResolve
  | resourcesUnique | dimsOk | fleetNonEmpty | matrixCoversIndices
deriving DecidableEq, Repr

def Pre.holds : Pre → Doc → Bool
  | .profilesKnown => Mapper.profilesKnown | .shiftDatesParse => Mapper.shiftDatesParse
  | .shiftLatestParses => Mapper.shiftLatestParses
  | .jobsHaveTasks => Mapper.jobsHaveTasks | .jobTimesWellFormed => Mapper.jobTimesWellFormed
  | .reloadTimesWellFormed => Mapper.reloadTimesWellFormed | .rechargeTimesWellFormed => Mapper.rechargeTimesWellFormed
  | .breakTimesWellFormed => Mapper.breakTimesWellFormed | .relationJobsResolve => Mapper.relationJobsResolve
  | .resourcesUnique => Mapper.resourcesUnique | .dimsOk => Mapper.dimsOk | .fleetNonEmpty => Mapper.fleetNonEmpty
  | .matrixCoversIndices => Mapper.matrixCoversIndices

/-- why a panic-capable expression cannot fire while a document is read -/
inductive SiteClass where
  /-- safe when these preconditions hold; validation (the listed rules) implies them -/
  | guarded (rules : List Rule) (pres : List Pre)
  /-- safe when these preconditions hold; validation does NOT imply them (reported finding) -/
  | hypothesis (finding : String) (pres : List Pre)
  /-- protected by a test or construction a few lines away -/
  | localInvariant (why : String)
  /-- a helper that panics on bad input: the obligations are stated at its call sites -/
  | helper (why : String)
  /-- executed by the solver or a writer, not while reading -/
  | afterReading (why : String)

structure Site where
  key : String
  cls : SiteClass

def SiteClass.finding? : SiteClass → Option String
  | .hypothesis f _ => some f
  | _ => none

def SiteClass.pres : SiteClass → List Pre
  | .guarded _ p => p
  | .hypothesis _ p => p
  | _ => []

open SiteClass in
def siteTable : List Site := [
  ⟨"validation/common.rs::check_time_windows::unwrap#1", localInvariant "else-branch of `tws.iter().any(|tw| tw.is_none())`"⟩,
  ⟨"validation/common.rs::get_time_window_from_vec::unwrap#1", localInvariant "`tw.len() != 2` is tested first"⟩,
  ⟨"validation/common.rs::get_time_window_from_vec::unwrap#2", localInvariant "`tw.len() != 2` is tested first"⟩,
  ⟨"validation/jobs.rs::check_e1102_multiple_pickups_deliveries_demand::call_MultiDimLoad_new#1", hypothesis "S21" [.dimsOk]⟩,
  ⟨"validation/vehicles.rs::check_shift_time_windows::unwrap#1", localInvariant "evaluated only after check_time_windows returned true (no None entry)"⟩,
  ⟨"validation/relations.rs::check_e1207_no_incomplete_relation::unwrap#1", localInvariant "the job was found through an id of the list the groups were built from (job?_id)"⟩,
  ⟨"format/problem/mod.rs::parse_time_window::assert_eq#1", helper "see call_parse_time_window / call_parse_times sites"⟩,
  ⟨"format/problem/mod.rs::parse_time_window::call_parse_time#1", helper "see call_parse_time_window / call_parse_times sites"⟩,
  ⟨"format/problem/mod.rs::parse_time_window::unwrap#1", localInvariant "after assert_eq!(tw.len(), 2)"⟩,
  ⟨"format/problem/mod.rs::parse_time_window::call_parse_time#2", helper "see call_parse_time_window / call_parse_times sites"⟩,
  ⟨"format/problem/mod.rs::parse_time_window::unwrap#2", localInvariant "after assert_eq!(tw.len(), 2)"⟩,
  ⟨"format/problem/problem_reader.rs::map_to_problem::expect#1", localInvariant "coord index set two lines above"⟩,
  ⟨"format/problem/problem_reader.rs::read_reserved_times_index::unwrap#1", localInvariant "read_fleet sets the vehicle type on every vehicle"⟩,
  ⟨"format/problem/problem_reader.rs::read_reserved_times_index::unwrap#2", localInvariant "read_fleet sets the shift index on every vehicle"⟩,
  ⟨"format/problem/problem_reader.rs::read_reserved_times_index::call_parse_time#1", guarded [.E1303] [.breakTimesWellFormed]⟩,
  ⟨"format/problem/problem_reader.rs::read_reserved_times_index::call_parse_time#2", guarded [.E1303] [.breakTimesWellFormed]⟩,
  ⟨"format/problem/fleet_reader.rs::read_fleet::unwrap#1", guarded [.E1505] [.profilesKnown]⟩,
  ⟨"format/problem/fleet_reader.rs::read_fleet::unwrap#2", localInvariant "CoordIndex::new added every shift start location"⟩,
  ⟨"format/problem/fleet_reader.rs::read_fleet::call_parse_time#1", guarded [.E1302] [.shiftDatesParse]⟩,
  ⟨"format/problem/fleet_reader.rs::read_fleet::call_parse_time#2", guarded [.E1302] [.shiftLatestParses]⟩,
  ⟨"format/problem/fleet_reader.rs::read_fleet::unwrap#3", localInvariant "CoordIndex::new added every shift end location"⟩,
  ⟨"format/problem/fleet_reader.rs::read_fleet::call_parse_time#3", guarded [.E1302] [.shiftDatesParse]⟩,
  ⟨"format/problem/fleet_reader.rs::read_fleet::call_MultiDimLoad_new#1", hypothesis "S21" [.dimsOk]⟩,
  ⟨"format/problem/fleet_reader.rs::read_fleet::call_CoreFleet_new#1", hypothesis "S23" [.fleetNonEmpty]⟩,
  ⟨"format/problem/fleet_reader.rs::read_fleet::expect#1", localInvariant "vehicle type set by read_fleet itself"⟩,
  ⟨"format/problem/fleet_reader.rs::create_approx_matrices::expect#1", localInvariant "the speed comes from the same profile list (no NaN in JSON)"⟩,
  ⟨"format/problem/fleet_reader.rs::create_approx_matrices::index#1", localInvariant "idx is a position in `speeds`; one entry per speed"⟩,
  ⟨"format/problem/fleet_reader.rs::create_approx_matrices::index#2", localInvariant "idx is a position in `speeds`; one entry per speed"⟩,
  ⟨"format/problem/job_reader.rs::read_jobs_with_extra_locks::unwrap#1", hypothesis "S23" [.fleetNonEmpty]⟩,
  ⟨"format/problem/job_reader.rs::read_locks::unwrap#1", localInvariant "after the `is_none_or(|r| r.is_empty())` early return"⟩,
  ⟨"format/problem/job_reader.rs::read_locks::panic#1", guarded [.E1200, .E1201, .E1205, .E1206] [.relationJobsResolve]⟩,
  ⟨"format/problem/job_reader.rs::read_required_jobs::call_MultiDimLoad_new#1", hypothesis "S21" [.dimsOk]⟩,
  ⟨"format/problem/job_reader.rs::read_required_jobs::panic#1", localInvariant "activity type is one of four literals"⟩,
  ⟨"format/problem/job_reader.rs::read_required_jobs::call_parse_times#1", guarded [.E1103] [.jobTimesWellFormed]⟩,
  ⟨"format/problem/job_reader.rs::read_required_jobs::assert#1", guarded [.E1105] [.jobsHaveTasks]⟩,
  ⟨"format/problem/job_reader.rs::read_required_jobs::unwrap#1", localInvariant "singles.len() == 1 in this branch"⟩,
  ⟨"format/problem/job_reader.rs::read_optional_breaks::panic#1", guarded [.E1303] [.breakTimesWellFormed]⟩,
  ⟨"format/problem/job_reader.rs::read_optional_breaks::panic#2", guarded [.E1303] [.breakTimesWellFormed]⟩,
  ⟨"format/problem/job_reader.rs::read_optional_breaks::call_parse_time_window#1", guarded [.E1303] [.breakTimesWellFormed]⟩,
  ⟨"format/problem/job_reader.rs::read_optional_breaks::unwrap#1", localInvariant "after the `offsets.len() != 2` arm"⟩,
  ⟨"format/problem/job_reader.rs::read_optional_breaks::unwrap#2", localInvariant "after the `offsets.len() != 2` arm"⟩,
  ⟨"format/problem/job_reader.rs::read_specific_job_places::call_parse_times#1", guarded [.E1304] [.reloadTimesWellFormed, .rechargeTimesWellFormed]⟩,
  ⟨"format/problem/job_reader.rs::get_single_with_dimens::index#1", localInvariant "index 0 of a fixed-size array"⟩,
  ⟨"format/problem/job_reader.rs::get_single_with_dimens::index#2", localInvariant "index 0 of a fixed-size array"⟩,
  ⟨"format/problem/job_reader.rs::get_single_with_dimens::index#3", localInvariant "index 0 of a fixed-size array"⟩,
  ⟨"format/problem/job_reader.rs::get_single_with_dimens::index#4", localInvariant "index 0 of a fixed-size array"⟩,
  ⟨"format/problem/job_reader.rs::create_condition::unwrap#1", afterReading "lock condition closure, evaluated by the solver; id set by read_fleet"⟩,
  ⟨"format/problem/job_reader.rs::create_condition::unwrap#2", afterReading "lock condition closure, evaluated by the solver; shift index set by read_fleet"⟩,
  ⟨"format/problem/job_reader.rs::parse_times::call_parse_time_window#1", helper "see the call_parse_times sites"⟩,
  ⟨"format/problem/goal_reader.rs::get_objective_feature_layer::index#1", afterReading "load-balance closure, evaluated by the solver"⟩,
  ⟨"format/problem/goal_reader.rs::get_objective_feature_layer::expect#1", afterReading "capacity closure, evaluated by the solver; capacity set by read_fleet"⟩,
  ⟨"format/problem/goal_reader.rs::get_objective_feature_layer::expect#2", afterReading "capacity closure, evaluated by the solver; capacity set by read_fleet"⟩,
  ⟨"format/problem/goal_reader.rs::eval_multi_objective_strategy::index#1", afterReading "estimate closure; lengths compared when it is built"⟩,
  ⟨"format/problem/goal_reader.rs::get_capacity_feature::call_MultiDimLoad_new#1", hypothesis "S21" [.dimsOk]⟩,
  ⟨"format/problem/goal_reader.rs::get_reload_resources::assert_eq#1", guarded [.E1308] [.resourcesUnique]⟩,
  ⟨"format/coord_index.rs::new::debug_assert#1", localInvariant "custom_locations only ever receives Custom locations (out of model)"⟩,
  ⟨"format/mod.rs::to_lat_lng::unreachable#1", afterReading "used by the solution writer"⟩,
  ⟨"format/mod.rs::to_json::unwrap#1", afterReading "error rendering"⟩,
  ⟨"format/mod.rs::to_json::unwrap#2", afterReading "error rendering"⟩,
  ⟨"lib.rs::format_time::unwrap#1", afterReading "used by the solution writer"⟩,
  ⟨"lib.rs::format_time::unwrap#2", afterReading "used by the solution writer"⟩,
  ⟨"lib.rs::parse_time::unwrap#1", helper "see the call_parse_time sites"⟩,
  ⟨"utils/approx_transportation.rs::get_approx_transportation::assert#1", localInvariant "map_to_problem_with_approx skips approximation without profiles (N7)"⟩,
  ⟨"utils/approx_transportation.rs::get_approx_transportation::assert#2", localInvariant "map_to_problem_with_approx skips approximation with a non-positive speed (N7)"⟩,
  ⟨"utils/approx_transportation.rs::as_lat_lon::panic#1", localInvariant "approximation only runs without index locations; custom ones are filtered"⟩
]

/-- **generated obligation**: the translator found every anchor -/
theorem extraction_ok : Generated.extractionFailed = false := by decide

/-- **generated obligation**: the panic-capable expressions found in the validation and reader files are
    exactly the classified ones (a new `unwrap()`, `expect(`, `panic!`, `assert*!`, index or call of a panicking
    helper breaks this until it is classified) -/
theorem panic_sites_covered : siteTable.map (·.key) = Generated.panicSites := by decide

/-- **generated obligation**: the rule functions wired into the `combine_error_results(&[…])` lists, in the
    order `validate` chains the groups, are exactly the modelled rules in the model's order -/
theorem wired_rules_eq_modelled :
    (Generated.groupOrder.flatMap (fun g => (Generated.wiredRules.lookup g).getD [])) = Rule.all.map Rule.code := by
  decide

/-- **generated obligation**: every defined `check_eNNNN_*` function is wired (none is dead) -/
theorem defined_rules_all_wired : Generated.definedRules = Generated.wiredRules := by decide

/-- **generated obligation**: the codes documented in the error index are exactly the modelled codes -/
theorem documented_codes_eq_modelled :
    Generated.documentedCodes = [Rule.E1100, .E1101, .E1102, .E1103, .E1104, .E1105, .E1106, .E1107,
      .E1200, .E1201, .E1202, .E1203, .E1204, .E1205, .E1206, .E1207,
      .E1300, .E1301, .E1302, .E1303, .E1304, .E1306, .E1307, .E1308,
      .E1500, .E1501, .E1502, .E1503, .E1504, .E1505,
      .E1600, .E1601, .E1602, .E1603, .E1604, .E1605, .E1606, .E1607].map Rule.code := by decide

/-- every precondition a classified site relies on is a conjunct of `MapperSafe`, so it holds for accepted
    documents under the two hypotheses -/
theorem site_preconditions_hold (d : Doc) (h : run d = []) (hdims : dimsOk d = true)
    (hfleet : d.vehicles.any (fun v => !v.ids.isEmpty) = true) :
    ∀ s ∈ siteTable, ∀ p ∈ s.cls.pres, p.holds d = true := by
  have hs := validate_ok_implies_mapper_safe_partial d h hdims hfleet
  unfold mapperSafe at hs
  simp only [Bool.and_eq_true] at hs
  obtain ⟨⟨⟨⟨⟨⟨⟨⟨⟨⟨⟨⟨h1, h2⟩, h3⟩, h4⟩, h5⟩, h6⟩, h7⟩, h8⟩, h9⟩, h10⟩, h11⟩, h12⟩, h13⟩ := hs
  intro s _ p _
  cases p <;> assumption

/-- only the sites of the two reported findings rest on a hypothesis -/
theorem hypothesis_sites_are_the_findings :
    (dedup (siteTable.filterMap (fun s => s.cls.finding?))) = ["S21", "S23"] := by
  decide

end C10
