import VrpProofs.C10.Lists
/-!
# C10 — rules with algorithmic content: E1102 (demand balance), E1204 (entry map),
E1207 (group sizes), E1504 (matrix dimension), E1601–E1607 (flattened objective tree)
-/
set_option linter.unusedSimpArgs false
set_option linter.unusedVariables false
namespace C10
open Validate Rules

/-! ## E1102: `MultiDimLoad` arithmetic is component-wise with zero padding -/

theorem zipPad_length (f : Int → Int → Int) (a b : Load) : (zipPad f a b).length = max a.length b.length := by
  induction a generalizing b with
  | nil => simp [zipPad]
  | cons x xs ih =>
    cases b with
    | nil => simp [zipPad]
    | cons y ys => simp [zipPad, ih] <;> omega

theorem zipPad_getD (f : Int → Int → Int) (hf : f 0 0 = 0) (a b : Load) (i : Nat) :
    (zipPad f a b).getD i 0 = f (a.getD i 0) (b.getD i 0) := by
  induction a generalizing b i with
  | nil =>
    simp only [zipPad, List.getD_nil]
    induction b generalizing i with
    | nil => simp [hf]
    | cons y ys ihb =>
      cases i with
      | zero => simp
      | succ n => simpa using ihb n
  | cons x xs ih =>
    cases b with
    | nil =>
      simp only [zipPad, List.getD_nil]
      clear ih
      induction (x :: xs) generalizing i with
      | nil => simp [hf]
      | cons z zs ihz =>
        cases i with
        | zero => simp
        | succ n => simpa using ihz n
    | cons y ys =>
      cases i with
      | zero => simp [zipPad]
      | succ n => simpa [zipPad] using ih ys n

theorem sumDemand_go_getD (ts : List Task) (init : Load) (i : Nat) :
    (ts.foldl (fun acc t => Load.add (t.demand.getD []) acc) init).getD i 0 = init.getD i 0 + dimSum i ts := by
  induction ts generalizing init with
  | nil => simp [dimSum]
  | cons t rest ih =>
    rw [List.foldl_cons, ih]
    simp only [Load.add, zipPad_getD (· + ·) (by simp), dimSum, List.map_cons, List.sum_cons]
    omega

theorem sumDemand_getD (ts : List Task) (i : Nat) : (sumDemand ts).getD i 0 = dimSum i ts := by
  have := sumDemand_go_getD ts [] i
  simpa [sumDemand] using this

theorem foldl_max_init (l : List Nat) (a : Nat) : l.foldl max a = max a (l.foldl max 0) := by
  induction l generalizing a with
  | nil => simp
  | cons x xs ih => simp only [List.foldl_cons]; rw [ih (max a x), ih (max 0 x)]; omega

theorem sumDemand_go_length (ts : List Task) (init : Load) :
    (ts.foldl (fun acc t => Load.add (t.demand.getD []) acc) init).length = max init.length (maxDims ts) := by
  induction ts generalizing init with
  | nil => simp [maxDims]
  | cons t rest ih =>
    rw [List.foldl_cons, ih]
    simp only [Load.add, zipPad_length, maxDims, List.map_cons, List.foldl_cons]
    rw [foldl_max_init _ (max 0 _)]
    omega

theorem sumDemand_length (ts : List Task) : (sumDemand ts).length = maxDims ts := by
  have := sumDemand_go_length ts []
  simpa [sumDemand] using this

theorem any_ne_zero_iff (l : Load) : l.any (· != 0) = (List.range l.length).any (fun i => l.getD i 0 != 0) := by
  apply bool_eq_iff.mpr
  simp only [List.any_eq_true, List.mem_range, bne_iff_ne, ne_eq]
  constructor
  · rintro ⟨x, hx, hne⟩
    obtain ⟨i, hi, rfl⟩ := List.getElem_of_mem hx
    exact ⟨i, hi, by simpa [List.getD_eq_getElem?_getD, hi] using hne⟩
  · rintro ⟨i, hi, hne⟩
    refine ⟨l[i], List.getElem_mem hi, ?_⟩
    simpa [List.getD_eq_getElem?_getD, hi] using hne

/-- **E1102**: the load `sum(pickups) − sum(deliveries)` has a non-zero entry exactly when in some
    dimension the pickup demands and the delivery demands do not add up to the same amount -/
theorem e1102_sum_equation (p dl : List Task) :
    Load.neDefault (Load.sub (sumDemand p) (sumDemand dl))
      = (List.range (max (maxDims p) (maxDims dl))).any (fun i => dimSum i p != dimSum i dl) := by
  unfold Load.neDefault
  rw [any_ne_zero_iff]
  simp only [Load.sub, zipPad_length, sumDemand_length, zipPad_getD (· - ·) (by simp), sumDemand_getD]
  apply any_congr'
  intro i _
  apply bool_eq_iff.mpr
  simp only [bne_iff_ne, ne_eq]
  constructor <;> intro h <;> omega


/-! ## E1204: the entry map flags a job iff two relations with different vehicles share it -/

theorem lookup_cons_self (j v : String) (seen : List (String × String)) :
    List.lookup j ((j, v) :: seen) = some v := by
  rw [List.lookup_cons]; simp

theorem lookup_cons_other (j' j v : String) (seen : List (String × String)) (h : j' ≠ j) :
    List.lookup j' ((j, v) :: seen) = List.lookup j' seen := by
  rw [List.lookup_cons]
  have : (j' == j) = false := by simpa using h
  rw [this]

/-- what the scan has to report on `ps` when `seen` is the map so far -/
def Conflict (seen ps : List (String × String)) : Prop :=
  (∃ j v f, (j, v) ∈ ps ∧ seen.lookup j = some f ∧ f ≠ v)
  ∨ (∃ j v1 v2, (j, v1) ∈ ps ∧ (j, v2) ∈ ps ∧ v1 ≠ v2)

theorem conflict_cons_none (seen rest : List (String × String)) (j v : String) (hl : seen.lookup j = none) :
    Conflict seen ((j, v) :: rest) ↔ Conflict ((j, v) :: seen) rest := by
  unfold Conflict
  constructor
  · rintro (⟨j', v', f, hm, hlk, hne⟩ | ⟨j', v1, v2, h1, h2, hne⟩)
    · rcases List.mem_cons.mp hm with e | hm
      · have e1 : j' = j := (Prod.mk.inj e).1
        rw [e1, hl] at hlk; cases hlk
      · have hj : j' ≠ j := by intro e; rw [e, hl] at hlk; cases hlk
        exact Or.inl ⟨j', v', f, hm, by rw [lookup_cons_other _ _ _ _ hj]; exact hlk, hne⟩
    · rcases List.mem_cons.mp h1 with e1 | h1 <;> rcases List.mem_cons.mp h2 with e2 | h2
      · exact absurd ((Prod.mk.inj e1).2.trans (Prod.mk.inj e2).2.symm) hne
      · have ej : j' = j := (Prod.mk.inj e1).1
        have ev : v1 = v := (Prod.mk.inj e1).2
        refine Or.inl ⟨j', v2, v, h2, ?_, ?_⟩
        · rw [ej]; exact lookup_cons_self _ _ _
        · rw [← ev]; exact hne
      · have ej : j' = j := (Prod.mk.inj e2).1
        have ev : v2 = v := (Prod.mk.inj e2).2
        refine Or.inl ⟨j', v1, v, h1, ?_, ?_⟩
        · rw [ej]; exact lookup_cons_self _ _ _
        · rw [← ev]; exact fun e => hne e.symm
      · exact Or.inr ⟨j', v1, v2, h1, h2, hne⟩
  · rintro (⟨j', v', f, hm, hlk, hne⟩ | ⟨j', v1, v2, h1, h2, hne⟩)
    · by_cases hj : j' = j
      · rw [hj, lookup_cons_self] at hlk
        have hfv : v = f := Option.some.inj hlk
        refine Or.inr ⟨j, v', v, ?_, by simp, ?_⟩
        · rw [← hj]; exact List.mem_cons_of_mem _ hm
        · rw [hfv]; exact fun e => hne e.symm
      · rw [lookup_cons_other _ _ _ _ hj] at hlk
        exact Or.inl ⟨j', v', f, List.mem_cons_of_mem _ hm, hlk, hne⟩
    · exact Or.inr ⟨j', v1, v2, List.mem_cons_of_mem _ h1, List.mem_cons_of_mem _ h2, hne⟩

theorem conflict_cons_same (seen rest : List (String × String)) (j v : String) (hl : seen.lookup j = some v) :
    Conflict seen ((j, v) :: rest) ↔ Conflict seen rest := by
  unfold Conflict
  constructor
  · rintro (⟨j', v', f', hm, hlk, hne⟩ | ⟨j', v1, v2, h1, h2, hne⟩)
    · rcases List.mem_cons.mp hm with e | hm
      · have e1 : j' = j := (Prod.mk.inj e).1
        have e2 : v' = v := (Prod.mk.inj e).2
        rw [e1, hl] at hlk
        exact absurd ((Option.some.inj hlk).symm.trans e2.symm) hne
      · exact Or.inl ⟨j', v', f', hm, hlk, hne⟩
    · rcases List.mem_cons.mp h1 with e1 | h1 <;> rcases List.mem_cons.mp h2 with e2 | h2
      · exact absurd ((Prod.mk.inj e1).2.trans (Prod.mk.inj e2).2.symm) hne
      · have ej : j' = j := (Prod.mk.inj e1).1
        have ev : v1 = v := (Prod.mk.inj e1).2
        exact Or.inl ⟨j', v2, v, h2, by rw [ej]; exact hl, by rw [← ev]; exact hne⟩
      · have ej : j' = j := (Prod.mk.inj e2).1
        have ev : v2 = v := (Prod.mk.inj e2).2
        exact Or.inl ⟨j', v1, v, h1, by rw [ej]; exact hl, by rw [← ev]; exact fun e => hne e.symm⟩
      · exact Or.inr ⟨j', v1, v2, h1, h2, hne⟩
  · rintro (⟨j', v', f', hm, hlk, hne⟩ | ⟨j', v1, v2, h1, h2, hne⟩)
    · exact Or.inl ⟨j', v', f', List.mem_cons_of_mem _ hm, hlk, hne⟩
    · exact Or.inr ⟨j', v1, v2, List.mem_cons_of_mem _ h1, List.mem_cons_of_mem _ h2, hne⟩

theorem e1204Go_ne_nil (seen ps : List (String × String)) :
    e1204Go seen ps ≠ [] ↔ Conflict seen ps := by
  induction ps generalizing seen with
  | nil => simp [e1204Go, Conflict]
  | cons p rest ih =>
    obtain ⟨j, v⟩ := p
    unfold e1204Go
    cases hl : seen.lookup j with
    | none =>
      simp only []
      rw [ih, conflict_cons_none seen rest j v hl]
    | some f =>
      simp only []
      by_cases hfv : f = v
      · have hb : (f != v) = false := by simpa using hfv
        rw [hb]
        simp only [Bool.false_eq_true, if_false]
        rw [ih, conflict_cons_same seen rest j v (by rw [hl, hfv])]
      · have hb : (f != v) = true := by simpa using hfv
        rw [hb]
        simp only [if_true]
        constructor
        · intro _
          exact Or.inl ⟨j, v, f, by simp, hl, hfv⟩
        · intro _; simp

theorem mem_relPairs (rs : List Rel) (j v : String) :
    (j, v) ∈ relPairs rs ↔ ∃ r ∈ rs, j ∈ r.jobs ∧ isReserved j = false ∧ r.vehicle = v := by
  unfold relPairs
  simp only [List.mem_flatMap, List.mem_map, List.mem_filter, Bool.not_eq_true', Prod.mk.injEq]
  constructor
  · rintro ⟨r, hr, j', ⟨hj, hres⟩, rfl, rfl⟩
    exact ⟨r, hr, hj, hres, rfl⟩
  · rintro ⟨r, hr, hj, hres, rfl⟩
    exact ⟨r, hr, j, ⟨hj, hres⟩, rfl, rfl⟩

/-- **E1204**: the `entry(job).or_insert(vehicle) != vehicle` scan reports a job exactly when two
    relations naming different vehicles share a non-reserved job id -/
theorem e1204_first_vehicle_map (rs : List Rel) :
    e1204 rs = true ↔
      ∃ r1 ∈ rs, ∃ r2 ∈ rs, r1.vehicle ≠ r2.vehicle ∧ ∃ j, isReserved j = false ∧ j ∈ r1.jobs ∧ j ∈ r2.jobs := by
  unfold e1204
  have h := e1204Go_ne_nil [] (relPairs rs)
  have hne : (!(e1204Go [] (relPairs rs)).isEmpty) = true ↔ e1204Go [] (relPairs rs) ≠ [] := by
    cases e1204Go [] (relPairs rs) <;> simp
  rw [hne, h]
  unfold Conflict
  constructor
  · rintro (⟨j, v, f, _, hlk, _⟩ | ⟨j, v1, v2, h1, h2, hne⟩)
    · simp at hlk
    · obtain ⟨r1, hr1, hj1, hres, e1⟩ := (mem_relPairs rs j v1).mp h1
      obtain ⟨r2, hr2, hj2, _, e2⟩ := (mem_relPairs rs j v2).mp h2
      exact ⟨r1, hr1, r2, hr2, by rw [e1, e2]; exact hne, j, hres, hj1, hj2⟩
  · rintro ⟨r1, hr1, r2, hr2, hne, j, hres, hj1, hj2⟩
    exact Or.inr ⟨j, r1.vehicle, r2.vehicle, (mem_relPairs rs j _).mpr ⟨r1, hr1, hj1, hres, rfl⟩,
      (mem_relPairs rs j _).mpr ⟨r2, hr2, hj2, hres, rfl⟩, hne⟩


/-! ## E1207: sizes of the groups of `collect_group_by_key` are occurrence counts -/

theorem lookupN_cons_self (k : String) (n : Nat) (rest : List (String × Nat)) :
    List.lookup k ((k, n) :: rest) = some n := by
  rw [List.lookup_cons]; simp

theorem lookupN_cons_other (y k : String) (n : Nat) (rest : List (String × Nat)) (h : y ≠ k) :
    List.lookup y ((k, n) :: rest) = List.lookup y rest := by
  rw [List.lookup_cons]
  have : (y == k) = false := by simpa using h
  rw [this]

/-- incrementing the entries with key `x` -/
def incr (x : String) (p : String × Nat) : String × Nat := if p.1 == x then (p.1, p.2 + 1) else p

theorem lookup_map_incr (acc : List (String × Nat)) (x y : String) :
    (acc.map (incr x)).lookup y = (acc.lookup y).map (fun n => if y = x then n + 1 else n) := by
  induction acc with
  | nil => simp
  | cons p rest ih =>
    obtain ⟨k, n⟩ := p
    rw [List.map_cons]
    by_cases hk : k = x
    · have e : incr x (k, n) = (k, n + 1) := by simp [incr, hk]
      rw [e]
      by_cases hy : y = k
      · rw [hy, lookupN_cons_self, lookupN_cons_self]; simp [hk]
      · rw [lookupN_cons_other _ _ _ _ hy, lookupN_cons_other _ _ _ _ hy, ih]
    · have e : incr x (k, n) = (k, n) := by simp [incr, hk]
      rw [e]
      by_cases hy : y = k
      · rw [hy, lookupN_cons_self, lookupN_cons_self]; simp [hk]
      · rw [lookupN_cons_other _ _ _ _ hy, lookupN_cons_other _ _ _ _ hy, ih]

theorem lookup_append_single (acc : List (String × Nat)) (x y : String) (n : Nat) :
    (acc ++ [(x, n)]).lookup y = (acc.lookup y).or (if y = x then some n else none) := by
  induction acc with
  | nil =>
    by_cases hy : y = x
    · rw [hy]; simp [lookupN_cons_self]
    · simp [lookupN_cons_other _ _ _ _ hy, hy]
  | cons p rest ih =>
    obtain ⟨k, m⟩ := p
    rw [List.cons_append]
    by_cases hy : y = k
    · rw [hy, lookupN_cons_self, lookupN_cons_self]; simp
    · rw [lookupN_cons_other _ _ _ _ hy, lookupN_cons_other _ _ _ _ hy, ih]

/-- one step of `collect_group_by_key` on the sizes -/
def groupStep (acc : List (String × Nat)) (x : String) : List (String × Nat) :=
  match acc.lookup x with
  | some _ => acc.map (fun p => if p.1 == x then (p.1, p.2 + 1) else p)
  | none => acc ++ [(x, 1)]

theorem groupStep_lookup (acc : List (String × Nat)) (x y : String) :
    ((groupStep acc x).lookup y).getD 0 = (acc.lookup y).getD 0 + (if x = y then 1 else 0) := by
  unfold groupStep
  cases hl : acc.lookup x with
  | some m =>
    simp only []
    have := lookup_map_incr acc x y
    unfold incr at this
    rw [this]
    by_cases hy : y = x
    · rw [hy, hl]; simp
    · have hy' : ¬ x = y := fun e => hy e.symm
      cases acc.lookup y <;> simp [hy, hy']
  | none =>
    simp only []
    rw [lookup_append_single]
    by_cases hy : y = x
    · rw [hy, hl]; simp
    · have hy' : ¬ x = y := fun e => hy e.symm
      cases acc.lookup y <;> simp [hy, hy']

theorem groupCount_go (ids : List String) (acc : List (String × Nat)) (y : String) :
    ((ids.foldl groupStep acc).lookup y).getD 0 = (acc.lookup y).getD 0 + ids.count y := by
  induction ids generalizing acc with
  | nil => simp
  | cons x xs ih =>
    rw [List.foldl_cons, ih, groupStep_lookup, List.count_cons]
    by_cases h : x = y
    · simp [h]; omega
    · have : (x == y) = false := by simpa using h
      simp [h, this]

/-- **E1207**: the size of a job's group is the number of times its id occurs in the relation -/
theorem e1207_frequency (ids : List String) (y : String) :
    ((groupCount ids).lookup y).getD 0 = ids.count y := by
  have := groupCount_go ids [] y
  have e : groupCount ids = ids.foldl groupStep [] := rfl
  rw [e, this]; simp


/-! ## E1504: `max_matrix_index`, `round(sqrt(len))` -/

theorem foldl_max_le (l : List Nat) (n : Nat) : l.foldl max 0 ≤ n ↔ ∀ x ∈ l, x ≤ n := by
  induction l with
  | nil => simp
  | cons x xs ih =>
    simp only [List.foldl_cons, List.mem_cons, forall_eq_or_imp]
    rw [foldl_max_init, ← ih]
    omega

theorem foldl_max_congr {α : Type} (a b : List α) (f : α → Nat) (h : ∀ x, x ∈ a ↔ x ∈ b) :
    (a.map f).foldl max 0 = (b.map f).foldl max 0 := by
  apply Nat.le_antisymm
  · rw [foldl_max_le]
    intro x hx
    obtain ⟨y, hy, rfl⟩ := List.mem_map.mp hx
    exact (foldl_max_le _ _).mp (Nat.le_refl _) _ (List.mem_map.mpr ⟨y, (h y).mp hy, rfl⟩)
  · rw [foldl_max_le]
    intro x hx
    obtain ⟨y, hy, rfl⟩ := List.mem_map.mp hx
    exact (foldl_max_le _ _).mp (Nat.le_refl _) _ (List.mem_map.mpr ⟨y, (h y).mpr hy, rfl⟩)

theorem foldl_max_refIndex_zero (l : List Loc) (h : l.any Loc.isIdx = false) :
    (l.map Loc.refIndex).foldl max 0 = 0 := by
  apply Nat.le_antisymm _ (Nat.zero_le _)
  rw [foldl_max_le]
  intro x hx
  obtain ⟨y, hy, rfl⟩ := List.mem_map.mp hx
  cases y with
  | idx n =>
    have : l.any Loc.isIdx = true := List.any_eq_true.mpr ⟨_, hy, rfl⟩
    rw [h] at this; cases this
  | coord a b => simp [Loc.refIndex]

/-- largest `index + 1` versus largest `index`: they differ by one unless no index is used -/
theorem foldl_max_succ (l : List Loc) :
    (l.map Loc.indexBound).foldl max 0
      = if l.any Loc.isIdx then (l.map Loc.refIndex).foldl max 0 + 1 else 0 := by
  induction l with
  | nil => simp
  | cons x xs ih =>
    simp only [List.map_cons, List.foldl_cons, List.any_cons]
    rw [foldl_max_init _ (max 0 _), foldl_max_init _ (max 0 (Loc.refIndex x)), ih]
    cases x with
    | idx n =>
      simp only [Loc.isIdx, Loc.refIndex, Loc.indexBound, Bool.true_or, if_true]
      by_cases h : xs.any Loc.isIdx = true
      · simp only [h, if_true]; omega
      · have h' : xs.any Loc.isIdx = false := by simpa using h
        rw [foldl_max_refIndex_zero xs h']
        simp only [h', Bool.false_eq_true, if_false]
        omega
    | coord a b =>
      simp only [Loc.isIdx, Loc.refIndex, Loc.indexBound, Bool.false_or]
      split <;> omega

theorem roundSqrtGo_sq (k : Nat) : ∀ (m s fuel : Nat), k = s + m → m < fuel → roundSqrtGo (k * k) fuel s = k := by
  intro m
  induction m with
  | zero =>
    intro s fuel hk hf
    cases fuel with
    | zero => omega
    | succ f =>
      have : k = s := by omega
      subst this
      unfold roundSqrtGo
      simp
  | succ m ih =>
    intro s fuel hk hf
    cases fuel with
    | zero => omega
    | succ f =>
      unfold roundSqrtGo
      have hlt : ¬ (k * k ≤ s * s + s) := by
        have h1 : (s + 1) * (s + 1) ≤ k * k := Nat.mul_le_mul (by omega) (by omega)
        have h2 : (s + 1) * (s + 1) = s * s + s + s + 1 := by
          simp [Nat.add_mul, Nat.mul_add]; omega
        omega
      rw [if_neg hlt]
      exact ih (s + 1) f (by omega) (by omega)

/-- `round(sqrt(k²)) = k` -/
theorem roundSqrt_sq (k : Nat) : roundSqrt (k * k) = k := by
  unfold roundSqrt
  apply roundSqrtGo_sq k k 0 (k * k + 1) (by omega)
  have : k ≤ k * k := by
    cases k with
    | zero => simp
    | succ n => exact Nat.le_mul_of_pos_left _ (by omega)
  omega

/-! ## E16xx: leaves of the objective tree -/

theorem leafCount_eq_count (k : ObjKind) (os : List Obj) : leafCount k os = (flatten os).count k := by
  induction os with
  | nil => simp [leafCount, flatten]
  | cons o rest ih =>
    simp only [leafCount, flatten, List.map_cons, List.sum_cons, List.flatMap_cons, List.count_append] at ih ⊢
    rw [ih]
    cases o with
    | leaf k' =>
      simp only [List.count_cons, List.count_nil]
      by_cases h : k' = k
      · subst h; simp
      · have : (k' == k) = false := by simpa using h
        simp [h, this]
    | multi inner => rfl

theorem mem_allKinds (k : ObjKind) : k ∈ allKinds := by
  cases k <;> simp [allKinds]

/-- E1601: the set of discriminants is smaller than the flattened list iff some kind has two leaves -/
theorem e1601_iff (os : List Obj) :
    e1601 os = allKinds.any (fun k => decide (1 < leafCount k os)) := by
  unfold e1601
  apply bool_eq_iff.mpr
  simp only [Bool.not_eq_true', beq_eq_false_iff_ne, ne_eq, dedup_length_eq_iff, List.nodup_iff_count,
    List.any_eq_true, decide_eq_true_eq, leafCount_eq_count]
  constructor
  · intro h
    have : ∃ a, ¬ List.count a (flatten os) ≤ 1 := Classical.not_forall.mp h
    obtain ⟨a, ha⟩ := this
    exact ⟨a, mem_allKinds a, by omega⟩
  · rintro ⟨a, _, ha⟩ h
    have := h a
    omega

theorem any_isCost_iff (l : List ObjKind) :
    l.any ObjKind.isCost = !(costKinds.all (fun k => l.count k == 0)) := by
  apply bool_eq_iff.mpr
  simp only [List.any_eq_true, Bool.not_eq_true', costKinds]
  constructor
  · rintro ⟨k, hk, hc⟩
    have hpos : 0 < l.count k := List.count_pos_iff.mpr hk
    cases k <;> simp [ObjKind.isCost] at hc <;> simp <;> omega
  · intro h
    simp only [List.all_cons, List.all_nil, Bool.and_true, Bool.and_eq_false_imp, beq_iff_eq] at h
    by_cases h1 : l.count .minCost = 0
    · by_cases h2 : l.count .minDistance = 0
      · have h3 := h h1 h2
        have : 0 < l.count .minDuration := by
          have : l.count .minDuration ≠ 0 := by simpa using h3
          omega
        exact ⟨_, List.count_pos_iff.mp this, rfl⟩
      · exact ⟨ObjKind.minDistance, List.count_pos_iff.mp (Nat.pos_of_ne_zero h2), rfl⟩
    · exact ⟨ObjKind.minCost, List.count_pos_iff.mp (Nat.pos_of_ne_zero h1), rfl⟩

theorem filter_isCost_length (l : List ObjKind) :
    (l.filter ObjKind.isCost).length = (costKinds.map (fun k => l.count k)).sum := by
  induction l with
  | nil => simp [costKinds]
  | cons x xs ih =>
    simp only [costKinds, List.map_cons, List.map_nil, List.sum_cons, List.sum_nil, List.filter_cons,
      List.count_cons] at ih ⊢
    cases x <;> simp [ObjKind.isCost] <;> omega

theorem any_beq_iff_count (l : List ObjKind) (k : ObjKind) : l.any (· == k) = decide (0 < l.count k) := by
  apply bool_eq_iff.mpr
  simp only [List.any_eq_true, beq_iff_eq, decide_eq_true_eq, List.count_pos_iff]
  constructor
  · rintro ⟨x, hx, rfl⟩; exact hx
  · intro h; exact ⟨k, h, rfl⟩


end C10
