import VrpModel.C10
/-!
# C10 — generic list lemmas: seen-set duplicate detection, insert-if-absent sets, Bool/Prop bridges
-/
set_option linter.unusedSimpArgs false
set_option linter.unusedVariables false
namespace C10
open Validate Rules

/-! ## `nodupB`, `pairwiseB` are the usual notions -/

theorem nodupB_iff {α : Type} [BEq α] [LawfulBEq α] (l : List α) : nodupB l = true ↔ l.Nodup := by
  induction l with
  | nil => simp [nodupB]
  | cons x xs ih => simp [nodupB, ih, List.nodup_cons]

theorem pairwiseB_iff {α : Type} (p : α → α → Bool) (l : List α) :
    pairwiseB p l = true ↔ l.Pairwise (fun a b => p a b = true) := by
  induction l with
  | nil => simp [pairwiseB]
  | cons x xs ih => simp [pairwiseB, ih, List.pairwise_cons]

/-! ## `get_duplicates`: the seen-set reports something iff the list has a repeated element -/

theorem dupsGo_eq_nil (seen l : List String) :
    dupsGo seen l = [] ↔ (∀ x ∈ l, x ∉ seen) ∧ l.Nodup := by
  induction l generalizing seen with
  | nil => simp [dupsGo]
  | cons x xs ih =>
    unfold dupsGo
    by_cases hx : seen.contains x = true
    · simp only [hx, if_true]
      have : x ∈ seen := by simpa using hx
      simp [this]
    · rw [if_neg hx]
      have hx' : x ∉ seen := by simpa using hx
      rw [ih]
      simp only [List.mem_cons, List.nodup_cons]
      constructor
      · rintro ⟨h1, h2⟩
        refine ⟨?_, ?_, h2⟩
        · intro y hy
          rcases hy with rfl | hy
          · exact hx'
          · intro hys; exact h1 y hy (Or.inr hys)
        · intro hmem; exact h1 x hmem (Or.inl rfl)
      · rintro ⟨h1, h2, h3⟩
        refine ⟨?_, h3⟩
        intro y hy hys
        rcases hys with rfl | hys
        · exact h2 hy
        · exact h1 y (Or.inr hy) hys

/-- E1100/E1300/E1301/E1500: `get_duplicates(..)` is `Some` exactly when the ids are not pairwise distinct -/
theorem hasDuplicates_eq (ids : List String) : hasDuplicates ids = !nodupB ids := by
  unfold hasDuplicates
  have h := dupsGo_eq_nil [] ids
  by_cases hn : ids.Nodup
  · have h1 : dupsGo [] ids = [] := h.mpr ⟨by simp, hn⟩
    have h2 : nodupB ids = true := (nodupB_iff ids).mpr hn
    simp [h1, h2]
  · have h1 : dupsGo [] ids ≠ [] := fun hh => hn (h.mp hh).2
    have h2 : nodupB ids = false := by
      cases hb : nodupB ids with
      | false => rfl
      | true => exact absurd ((nodupB_iff ids).mp hb) hn
    cases hd : dupsGo [] ids with
    | nil => exact absurd hd h1
    | cons a b => simp [h2]

/-! ## `HashSet` collected from a list -/

theorem dedupGo_length_le {α : Type} [BEq α] [LawfulBEq α] (seen l : List α) :
    (dedupGo seen l).length ≤ seen.length + l.length := by
  induction l generalizing seen with
  | nil => simp [dedupGo]
  | cons x xs ih =>
    unfold dedupGo
    split
    · have := ih seen; simp; omega
    · have := ih (seen ++ [x]); simp at this ⊢; omega

theorem dedupGo_length_eq {α : Type} [BEq α] [LawfulBEq α] (seen l : List α) :
    (dedupGo seen l).length = seen.length + l.length ↔ (∀ x ∈ l, x ∉ seen) ∧ l.Nodup := by
  induction l generalizing seen with
  | nil => simp [dedupGo]
  | cons x xs ih =>
    unfold dedupGo
    by_cases hx : seen.contains x = true
    · simp only [hx, if_true]
      have hmem : x ∈ seen := by simpa using hx
      have hle := dedupGo_length_le seen xs
      constructor
      · intro h; simp at h; omega
      · rintro ⟨h1, _⟩; exact absurd hmem (h1 x (by simp))
    · rw [if_neg hx]
      have hx' : x ∉ seen := by simpa using hx
      have := ih (seen ++ [x])
      simp only [List.length_append, List.length_cons, List.length_nil] at this
      have e : seen.length + (xs.length + 1) = seen.length + (0 + 1) + xs.length := by omega
      rw [List.length_cons, e, this]
      simp only [List.mem_append, List.mem_cons, List.nodup_cons, List.mem_singleton, List.not_mem_nil, or_false]
      constructor
      · rintro ⟨h1, h2⟩
        refine ⟨?_, ?_, h2⟩
        · intro y hy
          rcases hy with rfl | hy
          · exact hx'
          · intro hys; exact h1 y hy (Or.inl hys)
        · intro hmem; exact h1 x hmem (Or.inr rfl)
      · rintro ⟨h1, h2, h3⟩
        refine ⟨?_, h3⟩
        intro y hy hys
        rcases hys with hys | rfl
        · exact h1 y (Or.inr hy) hys
        · exact h2 hy

/-- E1308/E1601: `set.len() == list.len()` exactly when the list has no repeated element -/
theorem dedup_length_eq_iff {α : Type} [BEq α] [LawfulBEq α] (l : List α) :
    (dedup l).length = l.length ↔ l.Nodup := by
  have := dedupGo_length_eq ([] : List α) l
  simpa [dedup] using this

theorem mem_dedupGo {α : Type} [BEq α] [LawfulBEq α] (seen l : List α) (x : α) :
    x ∈ dedupGo seen l ↔ x ∈ seen ∨ x ∈ l := by
  induction l generalizing seen with
  | nil => simp [dedupGo]
  | cons y ys ih =>
    unfold dedupGo
    split
    · rename_i h
      have hy : y ∈ seen := by simpa using h
      rw [ih]
      constructor
      · rintro (h | h)
        · exact Or.inl h
        · exact Or.inr (List.mem_cons_of_mem _ h)
      · rintro (h | h)
        · exact Or.inl h
        · rcases List.mem_cons.mp h with rfl | h
          · exact Or.inl hy
          · exact Or.inr h
    · rw [ih]
      simp only [List.mem_append, List.mem_cons, List.not_mem_nil, or_false]
      constructor
      · rintro ((h | h) | h)
        · exact Or.inl h
        · exact Or.inr (Or.inl h)
        · exact Or.inr (Or.inr h)
      · rintro (h | h | h)
        · exact Or.inl (Or.inl h)
        · exact Or.inl (Or.inr h)
        · exact Or.inr h

theorem nodup_dedupGo {α : Type} [BEq α] [LawfulBEq α] (seen l : List α) (hs : seen.Nodup) :
    (dedupGo seen l).Nodup := by
  induction l generalizing seen with
  | nil => simpa [dedupGo] using hs
  | cons y ys ih =>
    unfold dedupGo
    split
    · exact ih seen hs
    · rename_i h
      have hy : y ∉ seen := by simpa using h
      apply ih
      rw [List.nodup_append]
      refine ⟨hs, by simp, ?_⟩
      intro a ha b hb
      simp at hb
      subst hb
      intro hab; subst hab; exact hy ha

/-- the keys of an insert-if-absent map: no key twice, exactly the inserted elements -/
theorem dedup_spec {α : Type} [BEq α] [LawfulBEq α] (l : List α) :
    (dedup l).Nodup ∧ ∀ x, x ∈ dedup l ↔ x ∈ l := by
  refine ⟨nodup_dedupGo [] l (by simp), fun x => ?_⟩
  simp [dedup, mem_dedupGo]

/-- the specification's `distinctCount` counts the elements of any duplicate-free list with the same members -/
theorem distinctCount_eq {α : Type} [BEq α] [LawfulBEq α] (l u : List α)
    (hu : u.Nodup) (hm : ∀ x, x ∈ u ↔ x ∈ l) : distinctCount l = u.length := by
  induction l generalizing u with
  | nil =>
    cases u with
    | nil => rfl
    | cons a _ => exact absurd ((hm a).mp (by simp)) (by simp)
  | cons x xs ih =>
    unfold distinctCount
    by_cases hx : xs.contains x = true
    · have hxm : x ∈ xs := by simpa using hx
      simp only [hx, if_true, Nat.zero_add]
      apply ih u hu
      intro y
      rw [hm y]
      constructor
      · intro h
        rcases List.mem_cons.mp h with rfl | h
        · exact hxm
        · exact h
      · exact List.mem_cons_of_mem _
    · have hxm : x ∉ xs := by simpa using hx
      simp only [hx]
      have hxu : x ∈ u := (hm x).mpr (by simp)
      have hperm := List.perm_cons_erase hxu
      have hlen : u.length = (u.erase x).length + 1 := by simpa using hperm.length_eq
      rw [hlen, ih (u.erase x) (hu.erase x)]
      · simp; omega
      · intro y
        constructor
        · intro hy
          have hyu : y ∈ u := List.mem_of_mem_erase hy
          have hne : y ≠ x := by
            intro e; subst e
            exact (List.Nodup.not_mem_erase hu) hy
          rcases List.mem_cons.mp ((hm y).mp hyu) with e | h
          · exact absurd e hne
          · exact h
        · intro hy
          have hne : y ≠ x := by intro e; subst e; exact hxm hy
          exact (List.mem_erase_of_ne hne).mpr ((hm y).mpr (List.mem_cons_of_mem _ hy))

/-! ## Bool plumbing -/

theorem not_isEmpty_filter {α : Type} (p : α → Bool) (l : List α) :
    (!(l.filter p).isEmpty) = l.any p := by
  induction l with
  | nil => rfl
  | cons x xs ih =>
    simp only [List.filter_cons, List.any_cons]
    cases hp : p x with
    | true => simp
    | false => simpa using ih

theorem not_isEmpty_flatMap {α β : Type} (f : α → List β) (l : List α) :
    (!(l.flatMap f).isEmpty) = l.any (fun a => !(f a).isEmpty) := by
  induction l with
  | nil => rfl
  | cons x xs ih =>
    simp only [List.flatMap_cons, List.any_cons, ← ih]
    cases f x <;> simp

theorem not_isEmpty_map {α β : Type} (f : α → β) (l : List α) :
    (!(l.map f).isEmpty) = !l.isEmpty := by
  cases l <;> rfl

theorem any_congr' {α : Type} {p q : α → Bool} (l : List α) (h : ∀ x ∈ l, p x = q x) : l.any p = l.any q := by
  induction l with
  | nil => rfl
  | cons x xs ih =>
    simp only [List.any_cons]
    rw [h x (by simp), ih (fun y hy => h y (List.mem_cons_of_mem _ hy))]

theorem all_congr' {α : Type} {p q : α → Bool} (l : List α) (h : ∀ x ∈ l, p x = q x) : l.all p = l.all q := by
  induction l with
  | nil => rfl
  | cons x xs ih =>
    simp only [List.all_cons]
    rw [h x (by simp), ih (fun y hy => h y (List.mem_cons_of_mem _ hy))]

theorem bool_eq_iff {a b : Bool} : (a = b) ↔ (a = true ↔ b = true) := by
  cases a <;> cases b <;> simp

end C10
